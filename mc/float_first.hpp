// Alternate-order warm-up shared by C02..C05: in the second pass single-precision functions are the FIRST callers of every
// library routine in the process (and the small-angle / large-angle branches are both entered), before any double-precision call.
// A cache or lazily initialised static that is shared across scalar types or depends on who calls first then shows up in the
// double-precision spaces of the second pass.
#pragma once
#include "bind.hpp"
#include <smooth/derivatives.hpp>

namespace mcb {
template<typename G>
void float_first_touch()
{
  using T = Eigen::Matrix<typename G::Scalar, G::Dof, 1>;
  volatile double sink = 0;
  for (double sc : {1e-6, 3e-4, 0.05, 0.7, 2.9}) {
    T a;
    for (int i = 0; i < G::Dof; ++i) a(i) = typename G::Scalar(sc * (((i * 5) % 7) - 3) / 3.0);
    const G g = G::exp(a);
    sink += double(g.log().sum()) + double(g.Ad().sum()) + double(G::dr_exp(a).sum()) + double(G::dr_expinv(a).sum()) + double(G::dl_exp(a).sum()) +
            double(G::ad(a).sum()) + double((g * g.inverse()).coeffs().sum());
    if constexpr (requires { G::d2r_exp(a); }) {
      if constexpr (!std::is_same_v<G, smooth::Galilei<typename G::Scalar>>) sink += 0;
    }
  }
  (void)sink;
}
template<typename G>
void float_first_touch_hess()
{
  using T = Eigen::Matrix<typename G::Scalar, G::Dof, 1>;
  volatile double sink = 0;
  for (double sc : {1e-6, 3e-4, 0.05, 0.7}) {
    T a;
    for (int i = 0; i < G::Dof; ++i) a(i) = typename G::Scalar(sc * (((i * 5) % 7) - 3) / 3.0);
    sink += double(G::d2r_exp(a).sum()) + double(G::d2r_expinv(a).sum());
  }
  (void)sink;
}
inline void float_first_warmup()
{
  using namespace smooth;
  float_first_touch<SO2f>();
  float_first_touch<SO3f>();
  float_first_touch<SE2f>();
  float_first_touch<SE3f>();
  float_first_touch<C1f>();
  float_first_touch<Galileif>();
  float_first_touch<SE_K_3<float, 2>>();
  float_first_touch<Bundle<SO3f, Eigen::Vector3f>>();
  float_first_touch_hess<SO3f>();
  float_first_touch_hess<SE2f>();
  float_first_touch_hess<SE3f>();
}
}  // namespace mcb
