#include "mc.hpp"
int main(int argc, char ** argv) { return mc::main_impl(argc, argv, MC_PID); }
