// Core of the bounded-exhaustive checker: explorer over index spaces, judgements,
// violations / replay files, known-findings matching, evidence.
// Deliberately free of Eigen / smooth includes so that it compiles in a second.
#pragma once
#include <atomic>
#include <cstdint>
#include <cstdio>
#include <cstring>
#include <functional>
#include <map>
#include <string>
#include <vector>

namespace mc {

// ------------------------------------------------------------------ run-wide state
struct Judged
{
  std::string what;
  double err;
  double tol;
};

/// One explored behaviour (an input tuple, an operation sequence, a schedule ...).
struct Case
{
  uint64_t idx = 0;
  /// lazily evaluated human-readable description of the inputs of this case
  std::function<std::string()> desc;
  /// numeric parameters of the case that known-finding regions can refer to
  static constexpr int MAXP = 6;
  const char * pk[MAXP];
  double pv[MAXP];
  int np = 0;
  bool nontrivial_ = true;
  struct Local * L = nullptr;
  bool verbose     = false;
  bool want_sample = false;
  std::string sample_str;
  std::vector<Judged> * record = nullptr;

  void param(const char * k, double v)
  {
    if (np < MAXP) {
      pk[np] = k;
      pv[np] = v;
      ++np;
    }
  }
  void trivial() { nontrivial_ = false; }
  /// outcome class (which implementation branch / which observed result class)
  void outcome(const char * cls);
  /// compare an error measure with a tolerance; NaN counts as a violation
  void judge(const char * what, double err, double tol);
  /// boolean oracle
  void require(const char * what, bool ok) { judge(what, ok ? 0.0 : 1.0, 0.5); }
};

/// `explore` visits every index of [0,n) exactly once (parallel over 16 workers,
/// deterministic reduction). label identifies the space for replay and findings.
using Body = std::function<void(Case &)>;
void explore(const std::string & label, uint64_t n, const Body & body);

/// Explorer for spaces that are not index spaces (BFS / scheduler engines) report through these.
void report_space(const std::string & label, uint64_t states, uint64_t transitions, uint64_t traces,
  const std::vector<std::string> & samples, bool exhaustive, const std::string & extra_json = "");
/// violation from a non-index engine; `replay_body` is written verbatim into the replay file
void report_violation(const std::string & label, const std::string & what, double err, double tol,
  const std::map<std::string, double> & params, const std::string & desc, const std::string & replay_body);

bool thorough();
int seed();
/// seconds left before the global deadline (explorers stop starting new work when <= 0)
double time_left();
/// note free text for the evidence file (assumptions, calibrations, self-check counts)
void note(const std::string & key, const std::string & json_value);
void assumption(const std::string & s);
/// harness error (oracle self-check failed etc): exit 2, never a VIOLATION line
[[noreturn]] void harness_error(const std::string & s);
/// register a self check result
void selfcheck(const char * name, bool ok);

// replay support for non-index engines
bool replaying();
const std::string & replay_label();
const std::string & replay_body();

// ------------------------------------------------------------------ sub-check registry
struct SubCheck
{
  const char * name;
  void (*fn)();
  SubCheck * next;
};
SubCheck *& registry();
struct Registrar
{
  Registrar(SubCheck * s)
  {
    s->next    = registry();
    registry() = s;
  }
};
#define MC_SUBCHECK(NAME)                                     \
  static void mc_sub_##NAME();                                \
  static ::mc::SubCheck mc_subrec_##NAME{#NAME, &mc_sub_##NAME, nullptr}; \
  static ::mc::Registrar mc_subreg_##NAME{&mc_subrec_##NAME};  \
  static void mc_sub_##NAME()

// ------------------------------------------------------------------ helpers
std::string hexf(double x);
std::string hexf(long double x);
std::string fmt(const char * f, ...) __attribute__((format(printf, 1, 2)));
std::string json_escape(const std::string & s);

/// mixed-radix decoder for product spaces
struct Radix
{
  uint64_t rem;
  explicit Radix(uint64_t i) : rem(i) {}
  uint64_t next(uint64_t base)
  {
    const uint64_t r = rem % base;
    rem /= base;
    return r;
  }
};

/// Second pass in a fresh process with a different call order (order-dependent hidden state such as caches in function-local
/// statics): a check opts in by registering a warm-up function with MC_ALT_ORDER_WARMUP { ... }. In the second pass the warm-up
/// runs first (direct library calls, e.g. single-precision functions before any double-precision one), then all sub-checks run
/// again with the space labels suffixed "@alt-order". Replay files remember the pass.
bool alt_order_pass();
struct AltOrderReg
{
  explicit AltOrderReg(void (*warmup)());
};
#define MC_ALT_ORDER_WARMUP                                  \
  static void mc_alt_order_warmup_fn();                      \
  static ::mc::AltOrderReg mc_alt_order_reg_{&mc_alt_order_warmup_fn}; \
  static void mc_alt_order_warmup_fn()

/// crash containment: called from the eigen_assert trap
[[noreturn]] void eigen_assert_failed(const char * expr, const char * file, int line);

int main_impl(int argc, char ** argv, const char * property_id);

}  // namespace mc
