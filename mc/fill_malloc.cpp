// Makes reads of uninitialised heap memory deterministic and loud: every malloc'ed block is filled with 0x55 bytes (a double
// read from it is 1.19e103, a pointer is non-canonical). The library must not return values that depend on the previous content
// of the heap; without this such a defect shows up as a result that changes from run to run, which is harder to replay.
// Linked into every harness except those that bring their own allocator (C18 engine, AddressSanitizer builds).
#include <cstddef>
#include <cstring>
extern "C" {
void * __libc_malloc(size_t);
void * __libc_memalign(size_t, size_t);
void * malloc(size_t n)
{
  void * p = __libc_malloc(n);
  if (p) memset(p, 0x55, n);
  return p;
}
int posix_memalign(void ** r, size_t al, size_t n)
{
  *r = __libc_memalign(al, n);
  if (!*r) return 12;
  memset(*r, 0x55, n);
  return 0;
}
void * aligned_alloc(size_t al, size_t n)
{
  void * p = __libc_memalign(al, n);
  if (p) memset(p, 0x55, n);
  return p;
}
}
