// Reference side ("boring model"): fixed-size dense algebra over long double / complex<long double> /
// __float128 and the *documented* matrix forms of the groups. Nothing here includes smooth or Eigen.
// Everything else (Ad, ad, exp, Jacobians, Hessians) is derived generically from matrix()/hat()/vee().
#pragma once
#include <algorithm>
#include <array>
#include <cmath>
#include <complex>
#include <cstdio>
#include <vector>

namespace ref {
using L = long double;
using C = std::complex<L>;
using Q = __float128;

inline L absv(const L & x) { return std::fabs(x); }
inline L absv(const double & x) { return std::fabs(x); }
inline L absv(const C & x) { return std::abs(x); }
inline L absv(const Q & x) { return (L)(x < 0 ? -x : x); }

template<typename S, int N, int M = N>
struct Mat
{
  std::array<S, size_t(N) * M> d{};
  S & operator()(int i, int j) { return d[size_t(i) * M + j]; }
  const S & operator()(int i, int j) const { return d[size_t(i) * M + j]; }
  static Mat Id()
  {
    Mat r;
    for (int i = 0; i < N && i < M; i++) r(i, i) = S(1);
    return r;
  }
  Mat operator+(const Mat & o) const
  {
    Mat r;
    for (size_t i = 0; i < d.size(); i++) r.d[i] = d[i] + o.d[i];
    return r;
  }
  Mat operator-(const Mat & o) const
  {
    Mat r;
    for (size_t i = 0; i < d.size(); i++) r.d[i] = d[i] - o.d[i];
    return r;
  }
  Mat operator*(S s) const
  {
    Mat r;
    for (size_t i = 0; i < d.size(); i++) r.d[i] = d[i] * s;
    return r;
  }
  L maxabs() const
  {
    L m = 0;
    for (auto & x : d) {
      L a = absv(x);
      if (!(a == a)) return INFINITY;
      m = std::max(m, a);
    }
    return m;
  }
  Mat<S, M, N> T() const
  {
    Mat<S, M, N> r;
    for (int i = 0; i < N; i++)
      for (int j = 0; j < M; j++) r(j, i) = (*this)(i, j);
    return r;
  }
};
template<typename S, int N, int K, int M>
Mat<S, N, M> mul(const Mat<S, N, K> & a, const Mat<S, K, M> & b)
{
  Mat<S, N, M> r;
  for (int i = 0; i < N; i++)
    for (int k = 0; k < K; k++) {
      S x = a(i, k);
      if (x == S(0)) continue;
      for (int j = 0; j < M; j++) r(i, j) += x * b(k, j);
    }
  return r;
}
/// Gauss-Jordan inverse with partial pivoting
template<typename S, int N>
Mat<S, N> inv(Mat<S, N> a)
{
  Mat<S, N> b = Mat<S, N>::Id();
  for (int c = 0; c < N; c++) {
    int p = c;
    for (int r = c + 1; r < N; r++)
      if (absv(a(r, c)) > absv(a(p, c))) p = r;
    for (int j = 0; j < N; j++) {
      std::swap(a(c, j), a(p, j));
      std::swap(b(c, j), b(p, j));
    }
    S piv = a(c, c);
    for (int j = 0; j < N; j++) {
      a(c, j) /= piv;
      b(c, j) /= piv;
    }
    for (int r = 0; r < N; r++)
      if (r != c) {
        S f = a(r, c);
        if (f == S(0)) continue;
        for (int j = 0; j < N; j++) {
          a(r, j) -= f * a(c, j);
          b(r, j) -= f * b(c, j);
        }
      }
  }
  return b;
}
/// scaling-and-squaring matrix exponential (scale to inf-norm <= 1/4, 26-term Taylor, square)
template<typename S, int N>
Mat<S, N> expm(Mat<S, N> X)
{
  L nrm = 0;
  for (int i = 0; i < N; i++) {
    L s = 0;
    for (int j = 0; j < N; j++) s += absv(X(i, j));
    nrm = std::max(nrm, s);
  }
  int sq = 0;
  while (nrm > 0.25L) {
    nrm /= 2;
    sq++;
  }
  X = X * S(std::ldexp(1.0L, -sq));
  Mat<S, N> T = Mat<S, N>::Id(), R = T;
  for (int k = 1; k <= 26; k++) {
    T = mul(T, X) * S(1.0L / k);
    R = R + T;
  }
  for (int i = 0; i < sq; i++) R = mul(R, R);
  return R;
}
/// phi1(X) = sum_k X^k/(k+1)! as top-right block of expm([[X,I],[0,0]])
template<typename S, int N>
Mat<S, N> phi1(const Mat<S, N> & X)
{
  Mat<S, 2 * N> B;
  for (int i = 0; i < N; i++) {
    for (int j = 0; j < N; j++) B(i, j) = X(i, j);
    B(i, N + i) = S(1);
  }
  auto E = expm(B);
  Mat<S, N> r;
  for (int i = 0; i < N; i++)
    for (int j = 0; j < N; j++) r(i, j) = E(i, N + j);
  return r;
}
/// log(I+E) by series; only for ||E|| <= 1e-2
template<typename S, int N>
Mat<S, N> logm_near_identity(const Mat<S, N> & M)
{
  Mat<S, N> E = M - Mat<S, N>::Id(), P = E, R;
  for (int k = 1; k <= 40; k++) {
    R = R + P * S((k % 2 ? 1.0L : -1.0L) / k);
    P = mul(P, E);
  }
  return R;
}

// ------------------------------------------------------------------ documented group descriptions
template<typename S>
Mat<S, 3> quatR(const S * q)
{
  S x = q[0], y = q[1], z = q[2], w = q[3];
  Mat<S, 3> R;
  R(0, 0) = S(1) - S(2) * (y * y + z * z);
  R(0, 1) = S(2) * (x * y - w * z);
  R(0, 2) = S(2) * (x * z + w * y);
  R(1, 0) = S(2) * (x * y + w * z);
  R(1, 1) = S(1) - S(2) * (x * x + z * z);
  R(1, 2) = S(2) * (y * z - w * x);
  R(2, 0) = S(2) * (x * z - w * y);
  R(2, 1) = S(2) * (y * z + w * x);
  R(2, 2) = S(1) - S(2) * (x * x + y * y);
  return R;
}
/// general (non-unit-safe) version: R = (q v q^-1) uses |q|^2 normalisation — used for representation-drift checks
template<typename S>
Mat<S, 3> hat3(S x, S y, S z)
{
  Mat<S, 3> A;
  A(0, 1) = -z;
  A(0, 2) = y;
  A(1, 0) = z;
  A(1, 2) = -x;
  A(2, 0) = -y;
  A(2, 1) = x;
  return A;
}
/// quaternion (x,y,z,w), w>=0, from a rotation matrix (Shepperd), long double
inline void quat_from_R(const Mat<L, 3> & R, L * q)
{
  L tr = R(0, 0) + R(1, 1) + R(2, 2);
  L x, y, z, w;
  if (tr >= R(0, 0) && tr >= R(1, 1) && tr >= R(2, 2)) {
    w   = std::sqrt(1 + tr) / 2;
    x   = (R(2, 1) - R(1, 2)) / (4 * w);
    y   = (R(0, 2) - R(2, 0)) / (4 * w);
    z   = (R(1, 0) - R(0, 1)) / (4 * w);
  } else if (R(0, 0) >= R(1, 1) && R(0, 0) >= R(2, 2)) {
    x = std::sqrt(1 + R(0, 0) - R(1, 1) - R(2, 2)) / 2;
    w = (R(2, 1) - R(1, 2)) / (4 * x);
    y = (R(0, 1) + R(1, 0)) / (4 * x);
    z = (R(0, 2) + R(2, 0)) / (4 * x);
  } else if (R(1, 1) >= R(2, 2)) {
    y = std::sqrt(1 - R(0, 0) + R(1, 1) - R(2, 2)) / 2;
    w = (R(0, 2) - R(2, 0)) / (4 * y);
    x = (R(0, 1) + R(1, 0)) / (4 * y);
    z = (R(1, 2) + R(2, 1)) / (4 * y);
  } else {
    z = std::sqrt(1 - R(0, 0) - R(1, 1) + R(2, 2)) / 2;
    w = (R(1, 0) - R(0, 1)) / (4 * z);
    x = (R(0, 2) + R(2, 0)) / (4 * z);
    y = (R(1, 2) + R(2, 1)) / (4 * z);
  }
  L n = std::sqrt(x * x + y * y + z * z + w * w);
  if (w < 0) n = -n;
  q[0] = x / n;
  q[1] = y / n;
  q[2] = z / n;
  q[3] = w / n;
}

// Each reference group R: Rep, Dof, Dim; RotOff/NRot: position and size of the rotation part of the
// tangent (NRot=0: none); matrix(coeffs); hat(a); vee(A, a); from_matrix(M, coeffs)
struct SO2
{
  static constexpr int Rep = 2, Dof = 1, Dim = 2, RotOff = 0, NRot = 1;
  static constexpr const char * name = "SO2";
  template<typename S>
  static Mat<S, 2> matrix(const S * c)
  {
    Mat<S, 2> m;
    m(0, 0) = c[1];
    m(0, 1) = -c[0];
    m(1, 0) = c[0];
    m(1, 1) = c[1];
    return m;
  }
  template<typename S>
  static Mat<S, 2> hat(const S * a)
  {
    Mat<S, 2> m;
    m(0, 1) = -a[0];
    m(1, 0) = a[0];
    return m;
  }
  template<typename S>
  static void vee(const Mat<S, 2> & A, S * a)
  {
    a[0] = (A(1, 0) - A(0, 1)) / S(2);
  }
  static void from_matrix(const Mat<L, 2> & M, L * c)
  {
    L n  = std::hypot(M(1, 0), M(0, 0));
    c[0] = M(1, 0) / n;
    c[1] = M(0, 0) / n;
  }
  /// deviation of the representation constraint |c|=1
  /// distance of the rotation angle of the stored element from pi
  template<typename S>
  static L pi_gap(const S * c)
  {
    return 3.14159265358979323846264338327950288L - std::atan2(std::fabs((L)c[0]), (L)c[1]);
  }
  template<typename S>
  static L constraint(const S * c)
  {
    return std::fabs(std::sqrt((L)c[0] * c[0] + (L)c[1] * c[1]) - 1);
  }
};
struct C1
{
  static constexpr int Rep = 2, Dof = 2, Dim = 2, RotOff = 1, NRot = 1;
  static constexpr const char * name = "C1";
  template<typename S>
  static Mat<S, 2> matrix(const S * c)
  {
    return SO2::matrix(c);
  }
  template<typename S>
  static Mat<S, 2> hat(const S * a)
  {
    Mat<S, 2> m;
    m(0, 0) = a[0];
    m(1, 1) = a[0];
    m(0, 1) = -a[1];
    m(1, 0) = a[1];
    return m;
  }
  template<typename S>
  static void vee(const Mat<S, 2> & A, S * a)
  {
    a[0] = (A(0, 0) + A(1, 1)) / S(2);
    a[1] = (A(1, 0) - A(0, 1)) / S(2);
  }
  static void from_matrix(const Mat<L, 2> & M, L * c)
  {
    c[0] = M(1, 0);
    c[1] = M(0, 0);
  }
  template<typename S>
  static L pi_gap(const S * c)
  {
    return SO2::pi_gap(c);
  }
  template<typename S>
  static L constraint(const S *)
  {
    return 0;
  }
};
struct SO3
{
  static constexpr int Rep = 4, Dof = 3, Dim = 3, RotOff = 0, NRot = 3;
  static constexpr const char * name = "SO3";
  template<typename S>
  static Mat<S, 3> matrix(const S * c)
  {
    return quatR(c);
  }
  template<typename S>
  static Mat<S, 3> hat(const S * a)
  {
    return hat3(a[0], a[1], a[2]);
  }
  template<typename S>
  static void vee(const Mat<S, 3> & A, S * a)
  {
    a[0] = (A(2, 1) - A(1, 2)) / S(2);
    a[1] = (A(0, 2) - A(2, 0)) / S(2);
    a[2] = (A(1, 0) - A(0, 1)) / S(2);
  }
  static void from_matrix(const Mat<L, 3> & M, L * c) { quat_from_R(M, c); }
  template<typename S>
  static L pi_gap(const S * c)
  {
    return 3.14159265358979323846264338327950288L - 2 * std::atan2(std::sqrt((L)c[0] * c[0] + (L)c[1] * c[1] + (L)c[2] * c[2]), std::fabs((L)c[3]));
  }
  template<typename S>
  static L constraint(const S * c)
  {
    return std::fabs(std::sqrt((L)c[0] * c[0] + (L)c[1] * c[1] + (L)c[2] * c[2] + (L)c[3] * c[3]) - 1);
  }
};
struct SE2
{
  static constexpr int Rep = 4, Dof = 3, Dim = 3, RotOff = 2, NRot = 1;
  static constexpr const char * name = "SE2";
  template<typename S>
  static Mat<S, 3> matrix(const S * c)
  {
    Mat<S, 3> m = Mat<S, 3>::Id();
    m(0, 0)     = c[3];
    m(0, 1)     = -c[2];
    m(1, 0)     = c[2];
    m(1, 1)     = c[3];
    m(0, 2)     = c[0];
    m(1, 2)     = c[1];
    return m;
  }
  template<typename S>
  static Mat<S, 3> hat(const S * a)
  {
    Mat<S, 3> m;
    m(0, 1) = -a[2];
    m(1, 0) = a[2];
    m(0, 2) = a[0];
    m(1, 2) = a[1];
    return m;
  }
  template<typename S>
  static void vee(const Mat<S, 3> & A, S * a)
  {
    a[0] = A(0, 2);
    a[1] = A(1, 2);
    a[2] = (A(1, 0) - A(0, 1)) / S(2);
  }
  static void from_matrix(const Mat<L, 3> & M, L * c)
  {
    c[0] = M(0, 2);
    c[1] = M(1, 2);
    L n  = std::hypot(M(1, 0), M(0, 0));
    c[2] = M(1, 0) / n;
    c[3] = M(0, 0) / n;
  }
  template<typename S>
  static L pi_gap(const S * c)
  {
    return SO2::pi_gap(c + 2);
  }
  template<typename S>
  static L constraint(const S * c)
  {
    return SO2::constraint(c + 2);
  }
};
template<int K>
struct SEK3
{
  static constexpr int Rep = 4 + 3 * K, Dof = 3 + 3 * K, Dim = 3 + K, RotOff = 3 * K, NRot = 3;
  static constexpr const char * name = K == 1 ? "SE3" : (K == 2 ? "SE_2_3" : "SE_K_3");
  template<typename S>
  static Mat<S, Dim> matrix(const S * c)
  {
    Mat<S, Dim> m = Mat<S, Dim>::Id();
    auto R        = quatR(c + 3 * K);
    for (int i = 0; i < 3; i++)
      for (int j = 0; j < 3; j++) m(i, j) = R(i, j);
    for (int k = 0; k < K; k++)
      for (int i = 0; i < 3; i++) m(i, 3 + k) = c[3 * k + i];
    return m;
  }
  template<typename S>
  static Mat<S, Dim> hat(const S * a)
  {
    Mat<S, Dim> m;
    auto W = hat3(a[3 * K], a[3 * K + 1], a[3 * K + 2]);
    for (int i = 0; i < 3; i++)
      for (int j = 0; j < 3; j++) m(i, j) = W(i, j);
    for (int k = 0; k < K; k++)
      for (int i = 0; i < 3; i++) m(i, 3 + k) = a[3 * k + i];
    return m;
  }
  template<typename S>
  static void vee(const Mat<S, Dim> & A, S * a)
  {
    for (int k = 0; k < K; k++)
      for (int i = 0; i < 3; i++) a[3 * k + i] = A(i, 3 + k);
    a[3 * K]     = (A(2, 1) - A(1, 2)) / S(2);
    a[3 * K + 1] = (A(0, 2) - A(2, 0)) / S(2);
    a[3 * K + 2] = (A(1, 0) - A(0, 1)) / S(2);
  }
  static void from_matrix(const Mat<L, Dim> & M, L * c)
  {
    Mat<L, 3> R;
    for (int i = 0; i < 3; i++)
      for (int j = 0; j < 3; j++) R(i, j) = M(i, j);
    for (int k = 0; k < K; k++)
      for (int i = 0; i < 3; i++) c[3 * k + i] = M(i, 3 + k);
    quat_from_R(R, c + 3 * K);
  }
  template<typename S>
  static L pi_gap(const S * c)
  {
    return SO3::pi_gap(c + 3 * K);
  }
  template<typename S>
  static L constraint(const S * c)
  {
    return SO3::constraint(c + 3 * K);
  }
};
using SE3 = SEK3<1>;
struct Gal
{
  static constexpr int Rep = 11, Dof = 10, Dim = 5, RotOff = 7, NRot = 3;
  static constexpr const char * name = "Galilei";
  template<typename S>
  static Mat<S, 5> matrix(const S * c)
  {
    Mat<S, 5> m = Mat<S, 5>::Id();
    auto R      = quatR(c + 7);
    for (int i = 0; i < 3; i++)
      for (int j = 0; j < 3; j++) m(i, j) = R(i, j);
    for (int i = 0; i < 3; i++) {
      m(i, 3) = c[i];
      m(i, 4) = c[3 + i];
    }
    m(3, 4) = c[6];
    return m;
  }
  /// documented algebra form, with the bottom-right entry 0 (tangent space of the documented group; see DESIGN 3.3)
  template<typename S>
  static Mat<S, 5> hat(const S * a)
  {
    Mat<S, 5> m;
    auto W = hat3(a[7], a[8], a[9]);
    for (int i = 0; i < 3; i++)
      for (int j = 0; j < 3; j++) m(i, j) = W(i, j);
    for (int i = 0; i < 3; i++) {
      m(i, 3) = a[i];
      m(i, 4) = a[3 + i];
    }
    m(3, 4) = a[6];
    return m;
  }
  template<typename S>
  static void vee(const Mat<S, 5> & A, S * a)
  {
    for (int i = 0; i < 3; i++) {
      a[i]     = A(i, 3);
      a[3 + i] = A(i, 4);
    }
    a[6] = A(3, 4);
    a[7] = (A(2, 1) - A(1, 2)) / S(2);
    a[8] = (A(0, 2) - A(2, 0)) / S(2);
    a[9] = (A(1, 0) - A(0, 1)) / S(2);
  }
  static void from_matrix(const Mat<L, 5> & M, L * c)
  {
    Mat<L, 3> R;
    for (int i = 0; i < 3; i++)
      for (int j = 0; j < 3; j++) R(i, j) = M(i, j);
    for (int i = 0; i < 3; i++) {
      c[i]     = M(i, 3);
      c[3 + i] = M(i, 4);
    }
    c[6] = M(3, 4);
    quat_from_R(R, c + 7);
  }
  template<typename S>
  static L pi_gap(const S * c)
  {
    return SO3::pi_gap(c + 7);
  }
  template<typename S>
  static L constraint(const S * c)
  {
    return SO3::constraint(c + 7);
  }
};
/// translation group R^N in its documented homogeneous matrix form [I v; 0 1]
template<int N>
struct Tn
{
  static constexpr int Rep = N, Dof = N, Dim = N + 1, RotOff = 0, NRot = 0;
  static constexpr const char * name = "Tn";
  template<typename S>
  static Mat<S, Dim> matrix(const S * c)
  {
    Mat<S, Dim> m = Mat<S, Dim>::Id();
    for (int i = 0; i < N; i++) m(i, N) = c[i];
    return m;
  }
  template<typename S>
  static Mat<S, Dim> hat(const S * a)
  {
    Mat<S, Dim> m;
    for (int i = 0; i < N; i++) m(i, N) = a[i];
    return m;
  }
  template<typename S>
  static void vee(const Mat<S, Dim> & A, S * a)
  {
    for (int i = 0; i < N; i++) a[i] = A(i, N);
  }
  static void from_matrix(const Mat<L, Dim> & M, L * c)
  {
    for (int i = 0; i < N; i++) c[i] = M(i, N);
  }
  template<typename S>
  static L pi_gap(const S *)
  {
    return INFINITY;
  }
  template<typename S>
  static L constraint(const S *)
  {
    return 0;
  }
};
/// direct product: block-diagonal matrices, concatenated coefficient / tangent vectors
template<typename A, typename B>
struct Prod
{
  static constexpr int Rep = A::Rep + B::Rep, Dof = A::Dof + B::Dof, Dim = A::Dim + B::Dim;
  static constexpr int RotOff = -1, NRot = -1;  // composite: alphabet built from the parts
  static constexpr const char * name = "Bundle";
  using First  = A;
  using Second = B;
  template<typename S>
  static Mat<S, Dim> blk(const Mat<S, A::Dim> & a, const Mat<S, B::Dim> & b)
  {
    Mat<S, Dim> m;
    for (int i = 0; i < A::Dim; i++)
      for (int j = 0; j < A::Dim; j++) m(i, j) = a(i, j);
    for (int i = 0; i < B::Dim; i++)
      for (int j = 0; j < B::Dim; j++) m(A::Dim + i, A::Dim + j) = b(i, j);
    return m;
  }
  template<typename S>
  static Mat<S, Dim> matrix(const S * c)
  {
    return blk<S>(A::template matrix<S>(c), B::template matrix<S>(c + A::Rep));
  }
  template<typename S>
  static Mat<S, Dim> hat(const S * a)
  {
    return blk<S>(A::template hat<S>(a), B::template hat<S>(a + A::Dof));
  }
  template<typename S>
  static void vee(const Mat<S, Dim> & M, S * a)
  {
    Mat<S, A::Dim> ma;
    Mat<S, B::Dim> mb;
    for (int i = 0; i < A::Dim; i++)
      for (int j = 0; j < A::Dim; j++) ma(i, j) = M(i, j);
    for (int i = 0; i < B::Dim; i++)
      for (int j = 0; j < B::Dim; j++) mb(i, j) = M(A::Dim + i, A::Dim + j);
    A::template vee<S>(ma, a);
    B::template vee<S>(mb, a + A::Dof);
  }
  static void from_matrix(const Mat<L, Dim> & M, L * c)
  {
    Mat<L, A::Dim> ma;
    Mat<L, B::Dim> mb;
    for (int i = 0; i < A::Dim; i++)
      for (int j = 0; j < A::Dim; j++) ma(i, j) = M(i, j);
    for (int i = 0; i < B::Dim; i++)
      for (int j = 0; j < B::Dim; j++) mb(i, j) = M(A::Dim + i, A::Dim + j);
    A::from_matrix(ma, c);
    B::from_matrix(mb, c + A::Rep);
  }
  template<typename S>
  static L pi_gap(const S * c)
  {
    return std::min(A::template pi_gap<S>(c), B::template pi_gap<S>(c + A::Rep));
  }
  template<typename S>
  static L constraint(const S * c)
  {
    return std::max(A::template constraint<S>(c), B::template constraint<S>(c + A::Rep));
  }
};
template<typename... Rs>
struct BundleOf;
template<typename A>
struct BundleOf<A>
{
  using type = A;
};
template<typename A, typename... Rs>
struct BundleOf<A, Rs...>
{
  using type = Prod<A, typename BundleOf<Rs...>::type>;
};
template<typename... Rs>
using Bundle = typename BundleOf<Rs...>::type;

// ------------------------------------------------------------------ derived quantities
template<typename G, typename S>
Mat<S, G::Dof> ad_ref(const S * a)
{
  Mat<S, G::Dof> r;
  auto A = G::template hat<S>(a);
  for (int k = 0; k < G::Dof; k++) {
    S e[G::Dof] = {};
    e[k]        = S(1);
    auto E      = G::template hat<S>(e);
    auto Br     = mul(A, E) - mul(E, A);
    S v[G::Dof];
    G::template vee<S>(Br, v);
    for (int i = 0; i < G::Dof; i++) r(i, k) = v[i];
  }
  return r;
}
template<typename G, typename S>
Mat<S, G::Dof> Ad_ref(const S * c)
{
  Mat<S, G::Dof> r;
  auto M  = G::template matrix<S>(c);
  auto Mi = inv(M);
  for (int k = 0; k < G::Dof; k++) {
    S e[G::Dof] = {};
    e[k]        = S(1);
    auto E      = G::template hat<S>(e);
    auto X      = mul(mul(M, E), Mi);
    S v[G::Dof];
    G::template vee<S>(X, v);
    for (int i = 0; i < G::Dof; i++) r(i, k) = v[i];
  }
  return r;
}
template<typename G>
Mat<L, G::Dim> exp_ref(const L * a)
{
  return expm(G::template hat<L>(a));
}
/// coefficients of exp(a), computed from the matrix exponential only
template<typename G>
void exp_coeffs(const L * a, L * c)
{
  G::from_matrix(exp_ref<G>(a), c);
}
/// right Jacobian of exp: phi1(-ad a); left: phi1(+ad a)
template<typename G>
Mat<L, G::Dof> dr_exp_ref(const L * a)
{
  return phi1(ad_ref<G, L>(a) * (L)-1);
}
template<typename G>
Mat<L, G::Dof> dl_exp_ref(const L * a)
{
  return phi1(ad_ref<G, L>(a));
}
/// Hessians in the documented layout H(j, Dof*i + k) = d J(i,j) / d a_k by complex step.
/// sign = -1: right (dr_exp), +1: left (dl_exp). Also returns the Hessian of the inverse Jacobian.
template<typename G>
void d2_exp_ref(const L * a, int sign, Mat<L, G::Dof, G::Dof * G::Dof> & H, Mat<L, G::Dof, G::Dof * G::Dof> & Hinv)
{
  constexpr int D = G::Dof;
  const L h       = 1e-25L;
  auto adr        = ad_ref<G, L>(a);
  auto J          = phi1(adr * (L)sign);
  auto Ji         = inv(J);
  for (int k = 0; k < D; k++) {
    L ek[D] = {};
    ek[k]   = 1;
    auto adk = ad_ref<G, L>(ek);
    Mat<C, D> X;
    for (size_t i = 0; i < X.d.size(); i++) X.d[i] = C(sign * adr.d[i], sign * h * adk.d[i]);
    auto P = phi1(X);
    Mat<L, D> dJ;
    for (size_t i = 0; i < dJ.d.size(); i++) dJ.d[i] = P.d[i].imag() / h;
    auto dJi = mul(mul(Ji, dJ), Ji) * (L)-1;
    for (int i = 0; i < D; i++)
      for (int j = 0; j < D; j++) {
        H(j, D * i + k)    = dJ(i, j);
        Hinv(j, D * i + k) = dJi(i, j);
      }
  }
}

/// relative error of a library matrix (anything with operator()(i,j)) against a reference matrix:
/// max-abs difference / max(1, max-abs reference entry)
template<int N, int M, typename E>
double relerr1(const E & lib, const Mat<L, N, M> & r)
{
  L e = 0, m = 0;
  for (int i = 0; i < N; i++)
    for (int j = 0; j < M; j++) {
      L d = std::fabs((L)lib(i, j) - r(i, j));
      if (!(d == d)) return INFINITY;
      e = std::max(e, d);
      m = std::max(m, std::fabs(r(i, j)));
    }
  return (double)(e / std::max((L)1, m));
}
/// ... / largest reference entry ("relative to their largest entry")
template<int N, int M, typename E>
double relerr_big(const E & lib, const Mat<L, N, M> & r)
{
  L e = 0, m = 0;
  for (int i = 0; i < N; i++)
    for (int j = 0; j < M; j++) {
      L d = std::fabs((L)lib(i, j) - r(i, j));
      if (!(d == d)) return INFINITY;
      e = std::max(e, d);
      m = std::max(m, std::fabs(r(i, j)));
    }
  if (m == 0) return e == 0 ? 0.0 : INFINITY;
  return (double)(e / m);
}
/// entry-wise absolute value
template<typename S, int N, int M>
Mat<L, N, M> cabs(const Mat<S, N, M> & a)
{
  Mat<L, N, M> r;
  for (size_t i = 0; i < a.d.size(); i++) r.d[i] = absv(a.d[i]);
  return r;
}
/// error relative to an explicit scale (>= 1): used where the result of a product can cancel, so that the
/// measure is the forward error bound of a backward-stable evaluation: max|A-R| / max(1, max(|M1||M2|...))
template<int N, int M>
double relerr_scaled(const Mat<L, N, M> & a, const Mat<L, N, M> & r, L scale)
{
  L e = (a - r).maxabs();
  return (double)(e / std::max((L)1, scale));
}
template<int N, int M>
double relerr1(const Mat<L, N, M> & a, const Mat<L, N, M> & r)
{
  L e = (a - r).maxabs();
  return (double)(e / std::max((L)1, r.maxabs()));
}

}  // namespace ref
