// Binding between smooth types and the reference descriptions, plus the branch-structured alphabets.
// Must be the first include of a harness translation unit (installs the eigen_assert trap).
#pragma once
#include <algorithm>
#include <cmath>
#include <cstring>

#include "mc.hpp"
#include "ref.hpp"

// Eigen honours a user-provided eigen_assert even under NDEBUG: an out-of-range block / coefficient
// access inside the library is a memory-safety defect, not a precondition (DESIGN 3.6b).
#define eigen_assert(x)                                            \
  do {                                                             \
    if (!(x)) ::mc::eigen_assert_failed(#x, __FILE__, __LINE__);   \
  } while (false)

#include <Eigen/Core>
#include <Eigen/Sparse>

#include <smooth/bundle.hpp>
#include <smooth/c1.hpp>
#include <smooth/galilei.hpp>
#include <smooth/se2.hpp>
#include <smooth/se3.hpp>
#include <smooth/se_k_3.hpp>
#include <smooth/so2.hpp>
#include <smooth/so3.hpp>

namespace mcb {
using ref::L;
using ref::Mat;

// ------------------------------------------------------------------ type binding
template<typename G>
struct RefOf;
template<typename S>
struct RefOf<smooth::SO2<S>>
{
  using type = ref::SO2;
};
template<typename S>
struct RefOf<smooth::SO3<S>>
{
  using type = ref::SO3;
};
template<typename S>
struct RefOf<smooth::SE2<S>>
{
  using type = ref::SE2;
};
template<typename S>
struct RefOf<smooth::SE3<S>>
{
  using type = ref::SE3;
};
template<typename S>
struct RefOf<smooth::C1<S>>
{
  using type = ref::C1;
};
template<typename S>
struct RefOf<smooth::Galilei<S>>
{
  using type = ref::Gal;
};
template<typename S, int K>
struct RefOf<smooth::SE_K_3<S, K>>
{
  using type = ref::SEK3<K>;
};
template<typename S, int N>
struct RefOf<Eigen::Matrix<S, N, 1>>
{
  using type = ref::Tn<N>;
};
template<typename... Gs>
struct RefOf<smooth::Bundle<Gs...>>
{
  using type = ref::Bundle<typename RefOf<Gs>::type...>;
};
template<typename G>
using Ref = typename RefOf<G>::type;

template<typename S>
constexpr const char * sname()
{
  return std::is_same_v<S, float> ? "f" : "d";
}

// ------------------------------------------------------------------ conversions
template<typename V>
void toL(const V & v, L * out)
{
  for (Eigen::Index i = 0; i < v.size(); ++i) out[i] = (L)v(i);
}
template<typename S, int N>
Eigen::Matrix<S, N, 1> toE(const L * a)
{
  Eigen::Matrix<S, N, 1> r;
  for (int i = 0; i < N; ++i) r(i) = (S)a[i];
  return r;
}
template<typename S, int N>
Eigen::Matrix<S, N, 1> toE(const std::array<double, N> & a)
{
  Eigen::Matrix<S, N, 1> r;
  for (int i = 0; i < N; ++i) r(i) = (S)a[size_t(i)];
  return r;
}
template<int N, int M, typename E>
Mat<L, N, M> toM(const E & e)
{
  Mat<L, N, M> r;
  for (int i = 0; i < N; ++i)
    for (int j = 0; j < M; ++j) r(i, j) = (L)e(i, j);
  return r;
}
template<typename V>
std::string vstr(const V & v)
{
  std::string s = "[";
  for (Eigen::Index i = 0; i < v.size(); ++i) s += (i ? ", " : "") + mc::fmt("%a", (double)v(i));
  s += "] ~ [";
  for (Eigen::Index i = 0; i < v.size(); ++i) s += (i ? ", " : "") + mc::fmt("%.9g", (double)v(i));
  return s + "]";
}

// ------------------------------------------------------------------ alphabets (DESIGN 3.2)
static const double PI = 3.14159265358979323846;

inline std::vector<double> thetas_full()
{
  return {0, 1e-300, 1e-12, 1e-9, 1e-7, 1e-6, 1e-5, 5e-5, 9.9e-5, 0.999999e-4, 0.9999999e-4, std::nextafter(1e-4, 0.), 1e-4,
    std::nextafter(1e-4, 1.), 1.0000001e-4, 1.000001e-4, 1.00001e-4, 1.0001e-4, 1.5e-4, 3e-4, 1e-3, 3e-3, 1e-2, 3e-2, 0.1, 0.3, 1, 2,
    3, PI - 1e-3, PI - 1e-5, PI - 1e-7, PI - 1e-9, std::nextafter(PI, 0.), PI, std::nextafter(PI, 4.), PI + 1e-9, PI + 1e-5, PI + 1e-3, 4,
    2 * PI - 1e-3, 2 * PI, 2 * PI + 1e-3, 10, 50};
}
/// thetas_full plus a logarithmic grid (quick: 4 per decade, thorough: 12 per decade, 1e-8 .. 10) and the neighbourhoods of
/// k*pi, k = 2..5: for unary spaces, so that a defect confined to a thin band of rotation norms between two alphabet values
/// (a wrong series/closed-form switch, a wrong branch condition for large angles) still has an input inside the band
inline std::vector<double> thetas_dense()
{
  std::vector<double> t = thetas_full();
  const int per = mc::thorough() ? 12 : 4;
  for (int k = -8 * per; k <= per; ++k) t.push_back(std::pow(10.0, double(k) / per) * 1.0371);
  for (int k = 2; k <= 5; ++k)
    for (double d : {-1e-3, -1e-7, 0.0, 1e-7, 1e-3}) t.push_back(k * PI + d);
  std::sort(t.begin(), t.end());
  t.erase(std::unique(t.begin(), t.end()), t.end());
  return t;
}
/// one representative per stratum
inline std::vector<double> thetas_reduced()
{
  return {0, 1e-9, 9.9e-5, 1.0001e-4, 3e-4, 1e-2, 0.3, 2, PI - 1e-3, PI - 1e-7};
}
inline std::vector<std::array<double, 3>> dirs_menu()
{
  return {{0.36, -0.48, 0.8}, {-0.6, 0.64, 0.48}, {0.48, 0.6, -0.64}, {-0.8, -0.36, 0.48}, {0.28, 0.96, 0.}, {-0.352, 0.36, 0.864},
    {0.6, 0., -0.8}, {0.64, -0.6, -0.48}};
}
inline std::vector<std::array<double, 3>> dirs_axes()
{
  return {{1, 0, 0}, {0, 1, 0}, {0, 0, 1}, {0, 0, -1}, {0.7071067811865476, 0.7071067811865476, 0},
    {0.5773502691896258, 0.5773502691896258, 0.5773502691896258}};
}

struct AlphaOpts
{
  std::vector<double> thetas;
  std::vector<std::array<double, 3>> dirs;
  std::vector<double> tmags;  // translation-like magnitudes
  int ntdir = 4;              // translation directions: x-axis, pseudo-generic, parallel to rotation axis, orthogonal to it
  double rot_max = 1e9;
  double rot_min = 0;
  int level      = 0;  // 0 full, 1 reduced, 2 part, 3 tiny
  static AlphaOpts full()
  {
    AlphaOpts o;
    o.thetas = thetas_full();
    o.dirs   = dirs_axes();
    auto m   = dirs_menu();
    if (mc::thorough()) {
      for (auto & d : m) o.dirs.push_back(d);
    } else {
      // quick: three axes classes + the seed-selected generic pair
      o.dirs = {{1, 0, 0}, {0, 0, -1}, {0.5773502691896258, 0.5773502691896258, 0.5773502691896258}};
      int s  = ((mc::seed() % 4) + 4) % 4;
      o.dirs.push_back(m[size_t(2 * s)]);
      o.dirs.push_back(m[size_t(2 * s + 1)]);
    }
    o.tmags = {0, 1e-3, 1, 1e3};
    return o;
  }
  /// full() with the dense rotation-norm grid: for unary spaces
  static AlphaOpts dense()
  {
    AlphaOpts o = full();
    o.thetas    = thetas_dense();
    o.tmags     = {0, 1e-6, 1e-3, 1, 1e3};  // incl. a small non-zero translation-like magnitude ("treated as zero" case splits)
    return o;
  }
  /// every stratum once: for pair / triple products
  static AlphaOpts reduced()
  {
    AlphaOpts o;
    o.thetas = thetas_reduced();
    int s    = ((mc::seed() % 4) + 4) % 4;
    o.dirs   = {{0, 0, 1}, dirs_menu()[size_t(2 * s)]};
    o.tmags  = {0, 1, 1e3};
    o.ntdir  = 2;
    o.level  = 1;
    return o;
  }
  /// tiny per-part alphabet for products across Bundle parts
  static AlphaOpts part()
  {
    AlphaOpts o;
    o.thetas = {0, 9.9e-5, 1.0001e-4, 0.3, 3};
    int s    = ((mc::seed() % 4) + 4) % 4;
    o.dirs   = {dirs_menu()[size_t(2 * s + 1)]};
    o.tmags  = {0, 1};
    o.ntdir  = 2;
    o.level  = 2;
    return o;
  }
  /// smallest per-part alphabet (for triples over Bundle types)
  static AlphaOpts tiny()
  {
    AlphaOpts o;
    o.thetas = {0, 1.0001e-4, 3};
    int s    = ((mc::seed() % 4) + 4) % 4;
    o.dirs   = {dirs_menu()[size_t(2 * s + 1)]};
    o.tmags  = {0, 1};
    o.ntdir  = 1;
    o.level  = 3;
    return o;
  }
  AlphaOpts & upto(double r)
  {
    rot_max = r;
    return *this;
  }
  /// extra rotation norms / translation magnitudes that are also handed down to the per-part alphabets of composites
  /// (thetas / tmags only shape the alphabet of a simple group; the parts of a Bundle use their own small menus)
  std::vector<double> extra_thetas, extra_tmags;
};

template<typename R>
struct Tan
{
  std::array<double, size_t(R::Dof)> a{};
  double rot = 0;  // rotation norm (max over parts for composites)
  double tm  = 0;  // translation-like magnitude
};

template<typename R>
void gen_tangents(const AlphaOpts & o, std::vector<Tan<R>> & out)
{
  constexpr int D = R::Dof;
  if constexpr (R::NRot == -1) {
    using A = typename R::First;
    using B = typename R::Second;
    AlphaOpts po = o.level == 0 ? AlphaOpts::part() : AlphaOpts::tiny();
    po.rot_max   = o.rot_max;
    po.rot_min   = o.rot_min;
    po.extra_thetas = o.extra_thetas;
    po.extra_tmags  = o.extra_tmags;
    std::vector<Tan<A>> ta;
    std::vector<Tan<B>> tb;
    gen_tangents<A>(po, ta);
    gen_tangents<B>(po, tb);
    for (auto & x : ta)
      for (auto & y : tb) {
        Tan<R> t;
        for (int i = 0; i < A::Dof; ++i) t.a[size_t(i)] = x.a[size_t(i)];
        for (int i = 0; i < B::Dof; ++i) t.a[size_t(A::Dof + i)] = y.a[size_t(i)];
        t.rot = std::max(x.rot, y.rot);
        t.tm  = std::max(x.tm, y.tm);
        out.push_back(t);
      }
  } else {
    std::vector<double> ths = R::NRot == 0 ? std::vector<double>{0} : o.thetas;
    if (R::NRot != 0) ths.insert(ths.end(), o.extra_thetas.begin(), o.extra_thetas.end());
    std::vector<double> tms = o.tmags;
    tms.insert(tms.end(), o.extra_tmags.begin(), o.extra_tmags.end());
    std::vector<std::array<double, 3>> dd =
      R::NRot == 3 ? o.dirs : (R::NRot == 1 ? std::vector<std::array<double, 3>>{{1, 0, 0}, {-1, 0, 0}} : std::vector<std::array<double, 3>>{{1, 0, 0}});
    const bool has_trans = D > R::NRot;
    for (double th : ths) {
      if (th > o.rot_max || th < o.rot_min) continue;
      for (auto & d : dd)
        for (double tm : (has_trans ? tms : std::vector<double>{0}))
          for (int tdir = 0; tdir < (tm == 0 ? 1 : o.ntdir); tdir++) {
            Tan<R> t;
            // orthogonal direction to d
            std::array<double, 3> e = std::fabs(d[0]) < 0.9 ? std::array<double, 3>{1, 0, 0} : std::array<double, 3>{0, 1, 0};
            std::array<double, 3> od{d[1] * e[2] - d[2] * e[1], d[2] * e[0] - d[0] * e[2], d[0] * e[1] - d[1] * e[0]};
            double on = std::sqrt(od[0] * od[0] + od[1] * od[1] + od[2] * od[2]);
            for (auto & x : od) x /= on;
            int ti = 0;
            for (int i = 0; i < D; i++) {
              if (i >= R::RotOff && i < R::RotOff + R::NRot) continue;
              double v;
              if (tdir == 0)
                v = (ti % 3 == 0) ? tm : 0;
              else if (tdir == 1)
                v = tm * ((ti * 7 % 5) - 2) / 3.0;
              else if (tdir == 2)
                v = tm * d[size_t(ti % 3)];
              else
                v = tm * od[size_t(ti % 3)];
              t.a[size_t(i)] = v;
              ++ti;
            }
            if constexpr (std::is_same_v<R, ref::C1>) {
              // scale exponent alphabet {0, +-1e-3, +-1, +-4.6, +-12} (scalings from 6e-6 to 1.6e5)
              static const double sc[4][4] = {{0, 0, 0, 0}, {1e-3, -1e-3, 12, -12}, {1, -1, 1, -1}, {4.6, -4.6, 12, -12}};
              int mi = tm == 0 ? 0 : (tm == 1e-3 ? 1 : (tm == 1 ? 2 : 3));
              t.a[0] = sc[mi][tdir % 4];
            }
            for (int i = 0; i < R::NRot; i++) t.a[size_t(R::RotOff + i)] = th * d[size_t(i)];
            t.rot = th;
            t.tm  = tm;
            out.push_back(t);
          }
    }
  }
}

/// tangent alphabet for scalar S: values are rounded to S and de-duplicated bitwise
template<typename R, typename S = double>
std::vector<Tan<R>> tangents(const AlphaOpts & o)
{
  std::vector<Tan<R>> v;
  gen_tangents<R>(o, v);
  for (auto & t : v) {
    for (auto & x : t.a) x = (double)(S)x;
    if constexpr (R::NRot == 3) {
      double n = 0;
      for (int i = 0; i < 3; ++i) n += t.a[size_t(R::RotOff + i)] * t.a[size_t(R::RotOff + i)];
      t.rot = std::sqrt(n);
    } else if constexpr (R::NRot == 1) {
      t.rot = std::fabs(t.a[size_t(R::RotOff)]);
    }
  }
  std::vector<Tan<R>> u;
  for (auto & t : v) {
    bool dup = false;
    for (auto & w : u)
      if (std::memcmp(w.a.data(), t.a.data(), sizeof(double) * size_t(R::Dof)) == 0) {
        dup = true;
        break;
      }
    if (!dup) u.push_back(t);
  }
  return u;
}

template<typename R>
struct Elem
{
  std::array<L, size_t(R::Rep)> c{};
  double rot = 0, tm = 0;
};
/// element alphabet: coefficients of expm(hat(a)) computed in long double for every alphabet tangent
template<typename R, typename S = double>
std::vector<Elem<R>> elements(const AlphaOpts & o)
{
  auto ts = tangents<R, S>(o);
  std::vector<Elem<R>> es;
  es.reserve(ts.size());
  for (auto & t : ts) {
    L a[R::Dof];
    for (int i = 0; i < R::Dof; ++i) a[i] = t.a[size_t(i)];
    Elem<R> e;
    ref::exp_coeffs<R>(a, e.c.data());
    e.rot = t.rot;
    e.tm  = t.tm;
    es.push_back(e);
  }
  // exact special elements: near a half / quarter turn the computed coefficients contain values like sin(pi) = 1.2e-16; a user
  // can also hold the exact ones (SO2(0,-1), a product of two exact quarter turns, an isometry with R = -I). For every element
  // that has a coefficient of magnitude <= 4e-16 add copies with those coefficients snapped to +0 and to -0.
  const size_t n0 = es.size();
  for (size_t k = 0; k < n0; ++k) {
    bool any = false;
    for (auto v : es[k].c)
      if (v != 0 && std::fabs(v) <= 4e-16L) any = true;
    if (!any) continue;
    for (int sgn = 0; sgn < 2; ++sgn) {
      Elem<R> e = es[k];
      for (auto & v : e.c)
        if (std::fabs(v) <= 4e-16L) v = sgn ? -0.0L : 0.0L;
      es.push_back(e);
    }
  }
  return es;
}
/// materialise an alphabet element as a library object (coefficients rounded to the scalar type)
template<typename G, typename R>
G make(const Elem<R> & e)
{
  G g;
  for (int i = 0; i < R::Rep; ++i) g.coeffs()(i) = (typename G::Scalar)e.c[size_t(i)];
  return g;
}
template<typename G, typename R>
Eigen::Matrix<typename G::Scalar, R::Dof, 1> make(const Tan<R> & t)
{
  Eigen::Matrix<typename G::Scalar, R::Dof, 1> a;
  for (int i = 0; i < R::Dof; ++i) a(i) = (typename G::Scalar)t.a[size_t(i)];
  return a;
}
/// long double copy of the *stored* coefficients (the oracle always works from what the object holds)
template<typename G>
std::array<L, size_t(G::RepSize)> coeffsL(const G & g)
{
  std::array<L, size_t(G::RepSize)> c;
  for (int i = 0; i < G::RepSize; ++i) c[size_t(i)] = (L)g.coeffs()(i);
  return c;
}

}  // namespace mcb
