// Value semantics of results: every function of the Lie-group API returns a value; a result obtained earlier must not change when
// the same function is called again with another argument (a result that aliases hidden static / scratch storage, e.g. a
// `const T &` to a function-local static, passes every single-call comparison but breaks expressions such as f(x) * f(y)).
// For every ordered pair (x1, x2) of a reduced alphabet: r1 = f(x1) is bound with `auto &&` exactly as user code holding the
// expression would, copied, then f(x2) is evaluated, and r1 must still equal its copy bit for bit.
#pragma once
#include "bind.hpp"

#include <smooth/derivatives.hpp>

namespace mcb {

template<typename A>
auto vs_copy(const A & a)
{
  if constexpr (requires { a.coeffs(); }) {
    return Eigen::Matrix<typename A::Scalar, A::RepSize, 1>(a.coeffs());
  } else {
    return a.eval();
  }
}
template<typename A, typename C>
bool vs_same(const A & a, const C & c)
{
  if constexpr (requires { a.coeffs(); }) {
    return std::memcmp(a.coeffs().data(), c.data(), sizeof(typename A::Scalar) * size_t(A::RepSize)) == 0;
  } else {
    const auto e = a.eval();
    return e.rows() == c.rows() && e.cols() == c.cols() && std::memcmp(e.data(), c.data(), sizeof(typename C::Scalar) * size_t(c.size())) == 0;
  }
}

/// largest deviation of a from the reference copy c, relative to max(1, |c|) (inf when shapes differ or a value is not finite).
/// Eigen may pick another evaluation order for another argument type (lazy product vs gemv), so last-bit differences are allowed.
template<typename A, typename C>
double vs_dev(const A & a, const C & c)
{
  const auto e = vs_copy(a);
  if (e.rows() != c.rows() || e.cols() != c.cols()) return INFINITY;
  double m = 1, d = 0;
  for (Eigen::Index i = 0; i < c.size(); ++i) m = std::max(m, std::fabs((double)c.data()[i]));
  for (Eigen::Index i = 0; i < c.size(); ++i) {
    const double x = std::fabs((double)e.data()[i] - (double)c.data()[i]);
    d              = (x == x) ? std::max(d, x) : INFINITY;
  }
  return d / m;
}

#define MC_VS(NAME, E1, E2)                                  \
  {                                                          \
    auto && r1      = (E1);                                  \
    const auto copy = vs_copy(r1);                           \
    auto && r2      = (E2);                                  \
    (void)r2;                                                \
    c.require(NAME " result keeps its value when the function is called again", vs_same(r1, copy)); \
  }

/// which: bit mask 1 group ops (C01), 2 exp/log (C02), 4 Ad/ad/hat/vee/bracket (C03), 8 first-order Jacobians (C04), 16 Hessians (C05)
template<typename G>
void value_semantics(const std::string & pid, const std::string & tn, int which)
{
  using S = typename G::Scalar;
  using R = Ref<G>;
  AlphaOpts o = AlphaOpts::reduced();
  o.thetas    = {0, 1.0001e-4, 0.3, 2.5};
  o.tmags     = {0, 1};
  auto Ts = tangents<R, S>(o);
  auto Es = elements<R, S>(o);
  const uint64_t n = Ts.size();
  mc::explore(pid + "/value-semantics/" + tn, n * n, [&](mc::Case & c) {
    const uint64_t i = c.idx / n, j = c.idx % n;
    if (i == j) {
      c.trivial();
      return;
    }
    const auto a1 = make<G>(Ts[i]), a2 = make<G>(Ts[j]);
    const G g1 = make<G>(Es[i]), g2 = make<G>(Es[j]);
    c.desc = [&] { return "a1=" + vstr(a1) + " a2=" + vstr(a2) + " g1=" + vstr(g1.coeffs()) + " g2=" + vstr(g2.coeffs()); };
    if (which & 1) {
      MC_VS("operator*", g1 * g2, g2 * g1);
      MC_VS("inverse()", g1.inverse(), g2.inverse());
      MC_VS("matrix()", g1.matrix(), g2.matrix());
      MC_VS("Identity()", G::Identity(), g2 * g1);
    }
    if (which & 2) {
      MC_VS("exp", G::exp(a1), G::exp(a2));
      MC_VS("log()", g1.log(), g2.log());
    }
    if (which & 4) {
      MC_VS("Ad()", g1.Ad(), g2.Ad());
      MC_VS("ad", G::ad(a1), G::ad(a2));
      MC_VS("hat", G::hat(a1), G::hat(a2));
      MC_VS("vee", G::vee(G::hat(a1)), G::vee(G::hat(a2)));
      MC_VS("lie_bracket", G::lie_bracket(a1, a2), G::lie_bracket(a2, a1));
    }
    if (which & 8) {
      MC_VS("dr_exp", G::dr_exp(a1), G::dr_exp(a2));
      MC_VS("dr_expinv", G::dr_expinv(a1), G::dr_expinv(a2));
      MC_VS("dl_exp", G::dl_exp(a1), G::dl_exp(a2));
      MC_VS("dl_expinv", G::dl_expinv(a1), G::dl_expinv(a2));
      MC_VS("dr_rminus", smooth::dr_rminus<G>(a1), smooth::dr_rminus<G>(a2));
    }
    if constexpr (requires { G::d2r_exp(a1); } && !std::is_same_v<G, smooth::Galilei<S>> && !requires { G::K; }) {
      if (which & 16) {
        MC_VS("d2r_exp", G::d2r_exp(a1), G::d2r_exp(a2));
        MC_VS("d2r_expinv", G::d2r_expinv(a1), G::d2r_expinv(a2));
        MC_VS("d2l_exp", G::d2l_exp(a1), G::d2l_exp(a2));
        MC_VS("d2r_rminus", smooth::d2r_rminus<G>(a1), smooth::d2r_rminus<G>(a2));
      }
    }
  });
}

template<int WHICH>
void value_semantics_all(const std::string & pid)
{
  using namespace smooth;
  value_semantics<SO2d>(pid, "SO2d", WHICH);
  value_semantics<SO3d>(pid, "SO3d", WHICH);
  value_semantics<SO3f>(pid, "SO3f", WHICH);
  value_semantics<SE2d>(pid, "SE2d", WHICH);
  value_semantics<SE2f>(pid, "SE2f", WHICH);
  value_semantics<SE3d>(pid, "SE3d", WHICH);
  value_semantics<C1d>(pid, "C1d", WHICH);
  value_semantics<Bundle<SO3d, Eigen::Vector3d, SE2d>>(pid, "Bundle<SO3,T3,SE2>d", WHICH);
  if constexpr ((WHICH & 16) == 0) {
    value_semantics<Galileid>(pid, "Galileid", WHICH);
    value_semantics<SE_K_3<double, 3>>(pid, "SE_3_3d", WHICH);
  }
}

// ------------------------------------------------------------------ argument storage
// "For every tangent vector a / point v / algebra matrix A": the result cannot depend on how the caller stores the argument.
// Every function is called with the same values held as (1) an unevaluated expression, (2) a segment / block of a larger
// garbage-filled object, (3) a strided Map, (4) the transpose of a row vector / a row-major matrix, and must return
// what it returns for the plain column-major object (up to 8 ulp: Eigen may order a product differently for an expression).
#define MC_AS(NAME, EXPR_PLAIN, ...)                                                                   \
  {                                                                                                    \
    const auto ref_ = vs_copy(EXPR_PLAIN);                                                             \
    double dev_     = 0;                                                                               \
    auto chk_       = [&](auto && r) { dev_ = std::max(dev_, vs_dev(r, ref_)); };                      \
    __VA_ARGS__;                                                                                       \
    c.judge(NAME " does not depend on the storage of its argument", dev_, 8 * (double)std::numeric_limits<S>::epsilon()); \
  }

/// size of the points a group acts on through operator* (0: no action)
template<typename G>
constexpr int act_dim()
{
  using S = typename G::Scalar;
  if constexpr (std::is_same_v<G, smooth::SO2<S>> || std::is_same_v<G, smooth::SE2<S>> || std::is_same_v<G, smooth::C1<S>>) return 2;
  if constexpr (std::is_same_v<G, smooth::SO3<S>> || std::is_same_v<G, smooth::SE3<S>>) return 3;
  if constexpr (std::is_same_v<G, smooth::Galilei<S>>) return 4;
  return 0;
}

template<typename G>
void argument_storage(const std::string & pid, const std::string & tn, int which)
{
  using S = typename G::Scalar;
  using R = Ref<G>;
  constexpr int D = R::Dof, Dim = R::Dim;
  using Tan_ = Eigen::Matrix<S, D, 1>;
  AlphaOpts o = AlphaOpts::reduced();
  o.thetas    = {0, 1.0001e-4, 0.3, 2.5};
  o.tmags     = {0, 1};
  auto Ts = tangents<R, S>(o);
  auto Es = elements<R, S>(o);
  mc::explore(pid + "/argument-storage/" + tn, Ts.size(), [&](mc::Case & c) {
    const Tan_ a = make<G>(Ts[c.idx]);
    const G g    = make<G>(Es[(c.idx * 7 + 3) % Es.size()]);
    c.desc       = [&] { return "a=" + vstr(a) + " g=" + vstr(g.coeffs()); };
    // the same values in other storage
    Eigen::Matrix<S, D + 3, 1> big;
    big.setConstant(S(977));
    big.template segment<D>(2) = a;
    S buf[2 * D + 2];
    for (auto & x : buf) x = S(-613);
    for (int i = 0; i < D; ++i) buf[2 * i + 1] = a(i);
    const Eigen::Map<const Tan_, 0, Eigen::InnerStride<2>> strided(buf + 1);
    const Eigen::Matrix<S, 1, D> row = a.transpose();
#define MC_AS_TAN(NAME, F) MC_AS(NAME, F(a), chk_(F(a * S(1))); chk_(F(big.template segment<D>(2))); chk_(F(strided)); chk_(F(row.transpose())))
    if (which & 2) {
      MC_AS_TAN("exp", G::exp);
      MC_AS("operator+ (rplus)", g + a, chk_(g + a * S(1)); chk_(g + big.template segment<D>(2)); chk_(g + strided); chk_(g + row.transpose()));
    }
    if (which & 4) {
      MC_AS_TAN("hat", G::hat);
      MC_AS_TAN("ad", G::ad);
      {
        const Eigen::Matrix<S, Dim, Dim> A = G::hat(a);
        Eigen::Matrix<S, Dim + 2, Dim + 3> bigA;
        bigA.setConstant(S(41));
        bigA.template block<Dim, Dim>(1, 2) = A;
        const Eigen::Matrix<S, Dim, Dim, (Dim > 1 ? Eigen::RowMajor : Eigen::ColMajor)> Ar = A;
        MC_AS("vee", G::vee(A), chk_(G::vee(A * S(1))); chk_(G::vee(bigA.template block<Dim, Dim>(1, 2))); chk_(G::vee(Ar)));
      }
      {
        const Tan_ b = make<G>(Ts[(c.idx * 5 + 1) % Ts.size()]);
        Eigen::Matrix<S, D + 3, 1> bigb;
        bigb.setConstant(S(-59));
        bigb.template segment<D>(1) = b;
        const Eigen::Matrix<S, 1, D> rowb = b.transpose();
        MC_AS("lie_bracket", G::lie_bracket(a, b), chk_(G::lie_bracket(a * S(1), b * S(1))); chk_(G::lie_bracket(big.template segment<D>(2), bigb.template segment<D>(1)));
              chk_(G::lie_bracket(strided, b)); chk_(G::lie_bracket(row.transpose(), rowb.transpose())));
      }
    }
    if (which & 8) {
      MC_AS_TAN("dr_exp", G::dr_exp);
      MC_AS_TAN("dr_expinv", G::dr_expinv);
      MC_AS_TAN("dl_exp", G::dl_exp);
      MC_AS_TAN("dl_expinv", G::dl_expinv);
    }
    if constexpr (requires { G::d2r_exp(a); } && !std::is_same_v<G, smooth::Galilei<S>> && !requires { G::K; }) {
      if (which & 16) {
        MC_AS_TAN("d2r_exp", G::d2r_exp);
        MC_AS_TAN("d2r_expinv", G::d2r_expinv);
      }
    }
#undef MC_AS_TAN
    if constexpr (true) {
      if (which & 1) {
        // the point a group element acts on
        if constexpr (act_dim<G>() > 0) {
          constexpr int A_ = act_dim<G>();
          Eigen::Matrix<S, A_, 1> v;
          for (int i = 0; i < A_; ++i) v(i) = S(0.5) * S(i + 1) * (i % 2 ? S(-1) : S(1));
          Eigen::Matrix<S, A_ + 3, 1> bigv;
          bigv.setConstant(S(977));
          bigv.template segment<A_>(1) = v;
          const Eigen::Matrix<S, 1, A_> rv = v.transpose();
          const Eigen::Matrix<S, Eigen::Dynamic, 1> vdyn = v;  // dynamically sized arguments
          MC_AS("action g*v", (g * v).eval(), chk_((g * (v * S(1))).eval()); chk_((g * bigv.template segment<A_>(1)).eval()); chk_((g * rv.transpose()).eval()); chk_((g * vdyn).eval()); chk_((g * bigv.segment(1, A_)).eval()));
          (void)rv;
        }
      }
    }
  });
}

template<int WHICH>
void argument_storage_all(const std::string & pid)
{
  using namespace smooth;
  argument_storage<SO2d>(pid, "SO2d", WHICH);
  argument_storage<SO3d>(pid, "SO3d", WHICH);
  argument_storage<SO3f>(pid, "SO3f", WHICH);
  argument_storage<SE2d>(pid, "SE2d", WHICH);
  argument_storage<SE3d>(pid, "SE3d", WHICH);
  argument_storage<SE3f>(pid, "SE3f", WHICH);
  argument_storage<C1d>(pid, "C1d", WHICH);
  argument_storage<Bundle<SO3d, Eigen::Vector3d, SE2d>>(pid, "Bundle<SO3,T3,SE2>d", WHICH);
  if constexpr ((WHICH & 16) == 0) {
    argument_storage<Galileid>(pid, "Galileid", WHICH);
    argument_storage<SE_K_3<double, 3>>(pid, "SE_3_3d", WHICH);
  }
}
}  // namespace mcb
