// Value semantics of results: every function of the Lie-group API returns a value; a result obtained earlier must not change when
// the same function is called again with another argument (a result that aliases hidden static / scratch storage, e.g. a
// `const T &` to a function-local static, passes every single-call comparison but breaks expressions such as f(x) * f(y)).
// For every ordered pair (x1, x2) of a reduced alphabet: r1 = f(x1) is bound with `auto &&` exactly as user code holding the
// expression would, copied, then f(x2) is evaluated, and r1 must still equal its copy bit for bit.
#pragma once
#include "bind.hpp"

#include <smooth/derivatives.hpp>

namespace mcb {

template<typename A>
auto vs_copy(const A & a)
{
  if constexpr (requires { a.coeffs(); }) {
    return Eigen::Matrix<typename A::Scalar, A::RepSize, 1>(a.coeffs());
  } else {
    return a.eval();
  }
}
template<typename A, typename C>
bool vs_same(const A & a, const C & c)
{
  if constexpr (requires { a.coeffs(); }) {
    return std::memcmp(a.coeffs().data(), c.data(), sizeof(typename A::Scalar) * size_t(A::RepSize)) == 0;
  } else {
    const auto e = a.eval();
    return e.rows() == c.rows() && e.cols() == c.cols() && std::memcmp(e.data(), c.data(), sizeof(typename C::Scalar) * size_t(c.size())) == 0;
  }
}

#define MC_VS(NAME, E1, E2)                                  \
  {                                                          \
    auto && r1      = (E1);                                  \
    const auto copy = vs_copy(r1);                           \
    auto && r2      = (E2);                                  \
    (void)r2;                                                \
    c.require(NAME " result keeps its value when the function is called again", vs_same(r1, copy)); \
  }

/// which: bit mask 1 group ops (C01), 2 exp/log (C02), 4 Ad/ad/hat/vee/bracket (C03), 8 first-order Jacobians (C04), 16 Hessians (C05)
template<typename G>
void value_semantics(const std::string & pid, const std::string & tn, int which)
{
  using S = typename G::Scalar;
  using R = Ref<G>;
  AlphaOpts o = AlphaOpts::reduced();
  o.thetas    = {0, 1.0001e-4, 0.3, 2.5};
  o.tmags     = {0, 1};
  auto Ts = tangents<R, S>(o);
  auto Es = elements<R, S>(o);
  const uint64_t n = Ts.size();
  mc::explore(pid + "/value-semantics/" + tn, n * n, [&](mc::Case & c) {
    const uint64_t i = c.idx / n, j = c.idx % n;
    if (i == j) {
      c.trivial();
      return;
    }
    const auto a1 = make<G>(Ts[i]), a2 = make<G>(Ts[j]);
    const G g1 = make<G>(Es[i]), g2 = make<G>(Es[j]);
    c.desc = [&] { return "a1=" + vstr(a1) + " a2=" + vstr(a2) + " g1=" + vstr(g1.coeffs()) + " g2=" + vstr(g2.coeffs()); };
    if (which & 1) {
      MC_VS("operator*", g1 * g2, g2 * g1);
      MC_VS("inverse()", g1.inverse(), g2.inverse());
      MC_VS("matrix()", g1.matrix(), g2.matrix());
      MC_VS("Identity()", G::Identity(), g2 * g1);
    }
    if (which & 2) {
      MC_VS("exp", G::exp(a1), G::exp(a2));
      MC_VS("log()", g1.log(), g2.log());
    }
    if (which & 4) {
      MC_VS("Ad()", g1.Ad(), g2.Ad());
      MC_VS("ad", G::ad(a1), G::ad(a2));
      MC_VS("hat", G::hat(a1), G::hat(a2));
      MC_VS("vee", G::vee(G::hat(a1)), G::vee(G::hat(a2)));
      MC_VS("lie_bracket", G::lie_bracket(a1, a2), G::lie_bracket(a2, a1));
    }
    if (which & 8) {
      MC_VS("dr_exp", G::dr_exp(a1), G::dr_exp(a2));
      MC_VS("dr_expinv", G::dr_expinv(a1), G::dr_expinv(a2));
      MC_VS("dl_exp", G::dl_exp(a1), G::dl_exp(a2));
      MC_VS("dl_expinv", G::dl_expinv(a1), G::dl_expinv(a2));
      MC_VS("dr_rminus", smooth::dr_rminus<G>(a1), smooth::dr_rminus<G>(a2));
    }
    if constexpr (requires { G::d2r_exp(a1); } && !std::is_same_v<G, smooth::Galilei<S>> && !requires { G::K; }) {
      if (which & 16) {
        MC_VS("d2r_exp", G::d2r_exp(a1), G::d2r_exp(a2));
        MC_VS("d2r_expinv", G::d2r_expinv(a1), G::d2r_expinv(a2));
        MC_VS("d2l_exp", G::d2l_exp(a1), G::d2l_exp(a2));
        MC_VS("d2r_rminus", smooth::d2r_rminus<G>(a1), smooth::d2r_rminus<G>(a2));
      }
    }
  });
}

template<int WHICH>
void value_semantics_all(const std::string & pid)
{
  using namespace smooth;
  value_semantics<SO2d>(pid, "SO2d", WHICH);
  value_semantics<SO3d>(pid, "SO3d", WHICH);
  value_semantics<SO3f>(pid, "SO3f", WHICH);
  value_semantics<SE2d>(pid, "SE2d", WHICH);
  value_semantics<SE2f>(pid, "SE2f", WHICH);
  value_semantics<SE3d>(pid, "SE3d", WHICH);
  value_semantics<C1d>(pid, "C1d", WHICH);
  value_semantics<Bundle<SO3d, Eigen::Vector3d, SE2d>>(pid, "Bundle<SO3,T3,SE2>d", WHICH);
  if constexpr ((WHICH & 16) == 0) {
    value_semantics<Galileid>(pid, "Galileid", WHICH);
    value_semantics<SE_K_3<double, 3>>(pid, "SE_3_3d", WHICH);
  }
}
}  // namespace mcb
