#include "mc.hpp"

#include <algorithm>
#include <chrono>
#include <cmath>
#include <cstdarg>
#include <cstdlib>
#include <fnmatch.h>
#include <fstream>
#include <mutex>
#include <set>
#include <sstream>
#include <sys/mman.h>
#include <sys/stat.h>
#include <sys/wait.h>
#include <thread>
#include <unistd.h>

namespace mc {

// ------------------------------------------------------------------ small utilities
std::string fmt(const char * f, ...)
{
  char buf[4096];
  va_list ap;
  va_start(ap, f);
  vsnprintf(buf, sizeof buf, f, ap);
  va_end(ap);
  return buf;
}
std::string hexf(double x) { return fmt("%a(%.17g)", x, x); }
std::string hexf(long double x) { return fmt("%La(%.21Lg)", x, x); }
std::string json_escape(const std::string & s)
{
  std::string o;
  for (unsigned char c : s) {
    if (c == '"' || c == '\\') {
      o += '\\';
      o += char(c);
    } else if (c == '\n') {
      o += "\\n";
    } else if (c < 0x20) {
      o += fmt("\\u%04x", c);
    } else {
      o += char(c);
    }
  }
  return o;
}
static std::string jnum(double x)
{
  if (std::isnan(x)) return "\"nan\"";
  if (std::isinf(x)) return x > 0 ? "\"inf\"" : "\"-inf\"";
  return fmt("%.17g", x);
}

// ------------------------------------------------------------------ minimal JSON reader (for findings / replay)
struct JV
{
  enum T { Null, Num, Str, Arr, Obj, Bool } t = Null;
  double n = 0;
  std::string s;
  std::vector<JV> a;
  std::vector<std::pair<std::string, JV>> o;
  const JV * get(const std::string & k) const
  {
    for (auto & kv : o)
      if (kv.first == k) return &kv.second;
    return nullptr;
  }
  std::string str(const std::string & k, const std::string & d = "") const
  {
    auto * v = get(k);
    return v && v->t == Str ? v->s : d;
  }
  double num(const std::string & k, double d = 0) const
  {
    auto * v = get(k);
    if (v && v->t == Num) return v->n;
    if (v && v->t == Str) {
      if (v->s == "inf") return INFINITY;
      if (v->s == "-inf") return -INFINITY;
      if (v->s == "nan") return NAN;
    }
    return d;
  }
};
struct JP
{
  const char * p;
  void ws()
  {
    while (*p == ' ' || *p == '\n' || *p == '\t' || *p == '\r') ++p;
  }
  JV parse()
  {
    ws();
    JV v;
    if (*p == '{') {
      v.t = JV::Obj;
      ++p;
      ws();
      if (*p == '}') {
        ++p;
        return v;
      }
      for (;;) {
        ws();
        JV k = parse();
        ws();
        if (*p == ':') ++p;
        JV val = parse();
        v.o.emplace_back(k.s, val);
        ws();
        if (*p == ',') {
          ++p;
          continue;
        }
        if (*p == '}') ++p;
        break;
      }
    } else if (*p == '[') {
      v.t = JV::Arr;
      ++p;
      ws();
      if (*p == ']') {
        ++p;
        return v;
      }
      for (;;) {
        v.a.push_back(parse());
        ws();
        if (*p == ',') {
          ++p;
          continue;
        }
        if (*p == ']') ++p;
        break;
      }
    } else if (*p == '"') {
      v.t = JV::Str;
      ++p;
      while (*p && *p != '"') {
        if (*p == '\\' && p[1]) {
          ++p;
          if (*p == 'n')
            v.s += '\n';
          else if (*p == 'u') {
            unsigned c = 0;
            sscanf(p + 1, "%4x", &c);
            v.s += char(c);
            p += 4;
          } else
            v.s += *p;
          ++p;
        } else
          v.s += *p++;
      }
      if (*p == '"') ++p;
    } else if (!strncmp(p, "true", 4)) {
      v.t = JV::Bool;
      v.n = 1;
      p += 4;
    } else if (!strncmp(p, "false", 5)) {
      v.t = JV::Bool;
      p += 5;
    } else if (!strncmp(p, "null", 4)) {
      p += 4;
    } else {
      v.t = JV::Num;
      char * e;
      v.n = strtod(p, &e);
      if (e == p) ++p; else p = e;
    }
    return v;
  }
};

// ------------------------------------------------------------------ global state
struct Finding
{
  std::string kind, property, label, what, text, commit;
  std::vector<std::tuple<std::string, double, double>> region;
  double envelope = INFINITY;
  std::atomic<uint64_t> matched{0};
  double worst = 0;
};

struct Stat
{
  uint64_t count = 0, viol = 0, known = 0;
  double worst   = -1;
  uint64_t worst_idx = 0;
  std::string worst_desc;
  double tol = 0;
};
struct Viol
{
  uint64_t idx;
  std::string what;
  double err, tol;
  std::vector<std::pair<std::string, double>> params;
  std::string desc;
};
struct Local
{
  std::map<std::string, Stat> stats;
  std::map<std::string, uint64_t> outcomes;
  std::vector<Viol> viols;
  std::vector<std::pair<uint64_t, std::string>> samples;
  uint64_t cases = 0, nontrivial = 0, judged = 0;
  std::map<int, std::pair<uint64_t, double>> known;  // finding index -> (count, worst)
  const std::string * label = nullptr;
  Case * cur = nullptr;
};

struct SharedPage
{
  std::atomic<uint64_t> alt_states, alt_transitions, alt_violations, alt_done;
  char sub[128];
  char label[256];
  std::atomic<uint64_t> cur_idx[64];
  std::atomic<uint64_t> states, transitions;
  char last_desc[1024];
};

struct Space
{
  std::string label;
  uint64_t n = 0, cases = 0, nontrivial = 0, judged = 0, traces = 0;
  bool complete = true;
  std::map<std::string, Stat> stats;
  std::map<std::string, uint64_t> outcomes;
  std::vector<std::string> samples;
  std::string extra;
};

static struct G
{
  std::string pid, tier = "quick", root;
  int seed_ = 0;
  bool replay = false;
  std::string replay_file, rlabel, rsub, rbody, rwhat;
  uint64_t ridx = 0;
  std::string only;
  std::chrono::steady_clock::time_point t0;
  double deadline_s = 0;
  std::vector<Finding *> findings;
  std::vector<Space> spaces;
  std::map<std::string, std::string> notes;
  std::vector<std::string> assumptions;
  std::map<std::string, std::pair<uint64_t, uint64_t>> selfchecks;
  uint64_t violations = 0;
  std::vector<std::string> violation_lines;
  bool exhaustive = true;
  std::string cursub;
  SharedPage * page = nullptr;
  std::mutex mu;
  int nworkers = 16;
  int pass     = 0;  // 1: alternate-order pass
  void (*alt_warmup)() = nullptr;
} g;
static void (*&alt_warmup_slot())()
{
  static void (*f)() = nullptr;
  return f;
}
AltOrderReg::AltOrderReg(void (*w)()) { alt_warmup_slot() = w; }
bool alt_order_pass() { return g.pass == 1; }
static std::string passlabel(const std::string & l) { return g.pass == 1 ? l + "@alt-order" : l; }

SubCheck *& registry()
{
  static SubCheck * r = nullptr;
  return r;
}
bool thorough() { return g.tier == "thorough"; }
int seed() { return g.seed_; }
double time_left()
{
  const double el = std::chrono::duration<double>(std::chrono::steady_clock::now() - g.t0).count();
  return g.deadline_s - el;
}
void note(const std::string & k, const std::string & v)
{
  std::lock_guard<std::mutex> lk(g.mu);
  g.notes[k] = v;
}
void assumption(const std::string & s)
{
  std::lock_guard<std::mutex> lk(g.mu);
  if (std::find(g.assumptions.begin(), g.assumptions.end(), s) == g.assumptions.end()) g.assumptions.push_back(s);
}
void harness_error(const std::string & s)
{
  fprintf(stderr, "HARNESS-ERROR property=%s %s\n", g.pid.c_str(), s.c_str());
  fflush(stderr);
  _exit(2);
}
void selfcheck(const char * name, bool ok)
{
  std::lock_guard<std::mutex> lk(g.mu);
  auto & p = g.selfchecks[name];
  p.first++;
  if (ok) p.second++;
  if (!ok) harness_error(std::string("oracle self-check failed: ") + name);
}
bool replaying() { return g.replay; }
const std::string & replay_label() { return g.rlabel; }
const std::string & replay_body() { return g.rbody; }

static thread_local Local * tl_local = nullptr;
static thread_local int tl_worker    = 0;

// ------------------------------------------------------------------ findings
static void load_findings()
{
  std::ifstream f(g.root + "/known_findings.jsonl");
  std::string line;
  while (std::getline(f, line)) {
    if (line.empty() || line[0] == '#') continue;
    JP jp{line.c_str()};
    JV v = jp.parse();
    if (v.t != JV::Obj) continue;
    auto * fd     = new Finding;
    fd->kind      = v.str("kind");
    fd->property  = v.str("property");
    fd->label     = v.str("label", "*");
    fd->what      = v.str("what", "*");
    fd->text      = v.str("text");
    fd->commit    = v.str("commit");
    fd->envelope  = v.num("envelope", INFINITY);
    if (auto * r = v.get("region"))
      for (auto & kv : r->o)
        if (kv.second.t == JV::Arr && kv.second.a.size() == 2) {
          auto num = [](const JV & x) { return x.t == JV::Num ? x.n : (x.s == "-inf" ? -INFINITY : INFINITY); };
          fd->region.emplace_back(kv.first, num(kv.second.a[0]), num(kv.second.a[1]));
        }
    if (fd->property == g.pid) g.findings.push_back(fd); else delete fd;
  }
}
static int match_finding(const std::string & label, const char * what, double err, const Case & c)
{
  for (size_t i = 0; i < g.findings.size(); ++i) {
    Finding & f = *g.findings[i];
    if (f.kind != "finding") continue;  // "fixed" entries suppress nothing
    if (fnmatch(f.label.c_str(), label.c_str(), 0) != 0) continue;
    if (fnmatch(f.what.c_str(), what, 0) != 0) continue;
    if (!(err <= f.envelope)) continue;
    bool ok = true;
    for (auto & [k, lo, hi] : f.region) {
      bool found = false;
      for (int j = 0; j < c.np; ++j)
        if (k == c.pk[j]) {
          found = true;
          if (!(c.pv[j] >= lo && c.pv[j] <= hi)) ok = false;
        }
      if (!found) ok = false;
    }
    if (ok) return int(i);
  }
  return -1;
}

// ------------------------------------------------------------------ Case
void Case::outcome(const char * cls)
{
  if (L) L->outcomes[cls]++;
}
void Case::judge(const char * what, double err, double tol)
{
  if (record) record->push_back({what, err, tol});
  if (verbose) {
    if (sample_str.empty() && desc) {
      sample_str = desc();
      printf("  case: %s\n", sample_str.c_str());
    }
    printf("  judge %-28s err=%.6g tol=%.6g %s\n", what, err, tol, (err <= tol) ? "ok" : "VIOLATED");
  }
  if (!L) return;
  if (want_sample && sample_str.empty() && desc) sample_str = desc();
  L->judged++;
  Stat & s = L->stats[what];
  s.count++;
  s.tol = tol;
  const bool bad = !(err <= tol);
  const double e = std::isnan(err) ? INFINITY : err;
  if (e > s.worst) {
    s.worst      = e;
    s.worst_idx  = idx;
    s.worst_desc = desc ? desc() : "";
  }
  if (bad) {
    int fi = match_finding(*L->label, what, e, *this);
    if (fi >= 0) {
      s.known++;
      auto & k = L->known[fi];
      k.first++;
      k.second = std::max(k.second, e);
      return;
    }
    s.viol++;
    if (L->viols.size() < 256) {
      Viol v{idx, what, err, tol, {}, desc ? desc() : ""};
      for (int j = 0; j < np; ++j) v.params.emplace_back(pk[j], pv[j]);
      L->viols.push_back(std::move(v));
    }
  }
}

// ------------------------------------------------------------------ violation files
static uint64_t fnv(const std::string & s)
{
  uint64_t h = 1469598103934665603ull;
  for (unsigned char c : s) h = (h ^ c) * 1099511628211ull;
  return h;
}
static void mkdirs(const std::string & p)
{
  std::string cur;
  for (size_t i = 0; i < p.size(); ++i) {
    cur += p[i];
    if (p[i] == '/' || i + 1 == p.size()) mkdir(cur.c_str(), 0777);
  }
}
static std::string write_replay(const std::string & label, const std::string & kind, const Viol & v, const std::string & body)
{
  const std::string dir = g.root + "/replay/" + g.pid;
  mkdirs(dir);
  std::string key = label + "|" + v.what + "|" + std::to_string(v.idx) + "|" + g.tier + "|" + std::to_string(g.seed_) + "|" + body;
  const std::string path = dir + "/" + fmt("%016llx", (unsigned long long)fnv(key)) + ".json";
  std::ofstream o(path);
  o << "{\"property\":\"" << g.pid << "\",\"kind\":\"" << kind << "\",\"sub\":\"" << json_escape(g.cursub) << "\",\"label\":\""
    << json_escape(label) << "\",\"what\":\"" << json_escape(v.what) << "\",\"idx\":" << v.idx << ",\"tier\":\"" << g.tier
    << "\",\"seed\":" << g.seed_ << ",\"pass\":" << g.pass << ",\"err\":" << jnum(v.err) << ",\"tol\":" << jnum(v.tol) << ",\"params\":{";
  for (size_t i = 0; i < v.params.size(); ++i) o << (i ? "," : "") << "\"" << v.params[i].first << "\":" << jnum(v.params[i].second);
  o << "},\"desc\":\"" << json_escape(v.desc) << "\",\"body\":\"" << json_escape(body) << "\",\"replay_cmd\":\"bin/check " << g.pid
    << " --replay " << path << "\"}\n";
  return path;
}
static void emit_violation(const std::string & path, const std::string & label, const Viol & v)
{
  std::string l = "VIOLATION property=" + g.pid + " replay=" + path;
  printf("%s\n", l.c_str());
  printf("  # %s :: %s idx=%llu err=%.6g tol=%.6g :: %s\n", label.c_str(), v.what.c_str(), (unsigned long long)v.idx, v.err, v.tol,
    v.desc.substr(0, 600).c_str());
  fflush(stdout);
  g.violation_lines.push_back(l);
}

// ------------------------------------------------------------------ explore
void explore(const std::string & label_in, uint64_t n, const Body & body)
{
  const std::string label = passlabel(label_in);
  if (g.replay) {
    if (label != g.rlabel) return;
    printf("REPLAY %s idx=%llu\n", label.c_str(), (unsigned long long)g.ridx);
    Case c;
    c.idx     = g.ridx;
    c.verbose = true;
    std::vector<Judged> rec;
    c.record = &rec;
    body(c);
    bool bad = false;
    for (auto & j : rec)
      if (!(j.err <= j.tol)) bad = true;
    printf("REPLAY-RESULT %s\n", bad ? "violation reproduced" : "no violation");
    if (bad) g.violations++;
    return;
  }
  Space sp;
  sp.label = label;
  sp.n     = n;
  if (g.page) {
    strncpy(g.page->label, label.c_str(), sizeof g.page->label - 1);
    strncpy(g.page->sub, g.cursub.c_str(), sizeof g.page->sub - 1);
  }
  const int W = int(std::min<uint64_t>(uint64_t(g.nworkers), std::max<uint64_t>(1, n)));
  std::vector<Local> locals(W);
  std::atomic<uint64_t> next{0};
  const uint64_t chunk = std::max<uint64_t>(1, std::min<uint64_t>(4096, n / (uint64_t(W) * 16 + 1)));
  std::atomic<bool> expired{false};
  auto work = [&](int w) {
    Local & L  = locals[w];
    L.label    = &label;
    tl_local   = &L;
    tl_worker  = w;
    for (;;) {
      if (time_left() <= 0) {
        expired = true;
        break;
      }
      const uint64_t b = next.fetch_add(chunk);
      if (b >= n) break;
      const uint64_t e = std::min(n, b + chunk);
      for (uint64_t i = b; i < e; ++i) {
        Case c;
        c.idx = i;
        c.L   = &L;
        if (g.page) g.page->cur_idx[w].store(i, std::memory_order_relaxed);
        bool p10 = (i == 0 || i == n - 1);
        for (uint64_t q = 1; q <= i && !p10; q *= 10) {
          if (q == i) p10 = true;
          if (q > UINT64_MAX / 10) break;
        }
        c.want_sample = p10;
        body(c);
        L.cases++;
        if (c.nontrivial_) L.nontrivial++;
        if (p10 && !c.sample_str.empty()) L.samples.emplace_back(i, c.sample_str);
      }
    }
    tl_local = nullptr;
  };
  if (W == 1) {
    work(0);
  } else {
    std::vector<std::thread> th;
    for (int w = 0; w < W; ++w) th.emplace_back(work, w);
    for (auto & t : th) t.join();
  }
  if (expired) {
    sp.complete  = false;
    g.exhaustive = false;
  }
  // deterministic merge
  std::vector<Viol> viols;
  std::vector<std::pair<uint64_t, std::string>> samples;
  for (auto & L : locals) {
    sp.cases += L.cases;
    sp.nontrivial += L.nontrivial;
    sp.judged += L.judged;
    for (auto & [k, s] : L.stats) {
      Stat & d = sp.stats[k];
      d.count += s.count;
      d.viol += s.viol;
      d.known += s.known;
      d.tol = s.tol;
      if (s.worst > d.worst || (s.worst == d.worst && s.count && s.worst_idx < d.worst_idx)) {
        d.worst      = s.worst;
        d.worst_idx  = s.worst_idx;
        d.worst_desc = s.worst_desc;
      }
    }
    for (auto & [k, c] : L.outcomes) sp.outcomes[k] += c;
    for (auto & v : L.viols) viols.push_back(v);
    for (auto & s : L.samples) samples.push_back(s);
    for (auto & [fi, kc] : L.known) {
      g.findings[fi]->matched += kc.first;
      g.findings[fi]->worst = std::max(g.findings[fi]->worst, kc.second);
    }
  }
  sp.traces = sp.cases;
  std::sort(samples.begin(), samples.end());
  for (auto & s : samples) sp.samples.push_back(fmt("#%llu: ", (unsigned long long)s.first) + s.second);
  std::sort(viols.begin(), viols.end(), [](const Viol & a, const Viol & b) { return a.idx != b.idx ? a.idx < b.idx : a.what < b.what; });
  uint64_t nv = 0;
  for (auto & [k, s] : sp.stats) nv += s.viol;
  g.violations += nv;
  // file (at most 20 per label, at most 4 per judgement name), replaying each twice first
  std::map<std::string, int> per_what;
  int filed = 0;
  for (auto & v : viols) {
    if (filed >= 20) break;
    if (per_what[v.what]++ >= 4) continue;
    // replay the case twice, alone on this thread, before reporting it
    std::vector<double> serial;
    bool same = true;
    for (int rep = 0; rep < 3; ++rep) {
      Case c;
      c.idx = v.idx;
      std::vector<Judged> rec;
      c.record = &rec;
      body(c);
      double e = NAN;
      bool found = false;
      for (auto & j : rec)
        if (j.what == v.what && !found) {
          e     = j.err;
          found = true;
        }
      serial.push_back(e);
      if (!(memcmp(&e, &v.err, sizeof(double)) == 0 || (std::isnan(e) && std::isnan(v.err)))) same = false;
    }
    if (!same) {
      const bool serial_agree = memcmp(&serial[0], &serial[1], 8) == 0 && memcmp(&serial[1], &serial[2], 8) == 0;
      if (!serial_agree) {
        // Not even reproducible when run alone. Harness bodies are deterministic by construction (no clocks, no random numbers,
        // heap blocks pre-filled with a constant pattern), so the library's result depends on something it must not depend
        // on (stale memory, a data race in its own threads): reported as a violation of the judged clause.
        Viol w = v;
        w.what = v.what + " [result not reproducible: differs between identical runs]";
        w.desc = v.desc + fmt(" | first: err=%.6g, alone: err=%.6g / %.6g / %.6g", v.err, serial[0], serial[1], serial[2]);
        std::string path = write_replay(label, "index", w, "");
        emit_violation(path, label, w);
        ++filed;
        continue;
      }
      // Deterministic when run alone, different when it ran concurrently with the other cases (16 worker threads calling the
      // library's non-mutating operations on their own objects): the operation is not reentrant. Harness bodies share only
      // read-only data, so this is a defect of the library (hidden static / scratch state), reported as such.
      Viol w = v;
      w.what = v.what + " [result differs when other cases run concurrently: operation not reentrant]";
      w.desc = v.desc + fmt(" | alone: err=%.6g (3 identical runs), concurrently: err=%.6g", serial[0], v.err);
      std::string path = write_replay(label, "index", w, "");
      emit_violation(path, label, w);
      ++filed;
      continue;
    }
    std::string path = write_replay(label, "index", v, "");
    emit_violation(path, label, v);
    ++filed;
  }
  if (g.page) {
    g.page->states += sp.cases;
    g.page->transitions += sp.judged;
  }
  std::lock_guard<std::mutex> lk(g.mu);
  g.spaces.push_back(std::move(sp));
}

void report_space(const std::string & label_in, uint64_t states, uint64_t transitions, uint64_t traces,
  const std::vector<std::string> & samples, bool exhaustive, const std::string & extra)
{
  const std::string label = passlabel(label_in);
  if (g.replay) return;
  Space sp;
  sp.label      = label;
  sp.n          = states;
  sp.cases      = states;
  sp.nontrivial = states;
  sp.judged     = transitions;
  sp.traces     = traces;
  sp.samples    = samples;
  sp.complete   = exhaustive;
  sp.extra      = extra;
  if (!exhaustive) g.exhaustive = false;
  if (g.page) {
    g.page->states += states;
    g.page->transitions += transitions;
  }
  std::lock_guard<std::mutex> lk(g.mu);
  g.spaces.push_back(std::move(sp));
}

void report_violation(const std::string & label_in, const std::string & what, double err, double tol,
  const std::map<std::string, double> & params, const std::string & desc, const std::string & body)
{
  const std::string label = passlabel(label_in);
  Case c;
  for (auto & kv : params) c.param(kv.first.c_str(), kv.second);
  std::lock_guard<std::mutex> lk(g.mu);
  if (g.replay) {
    printf("  judge %-28s err=%.6g tol=%.6g VIOLATED :: %s\n", what.c_str(), err, tol, desc.c_str());
    g.violations++;
    return;
  }
  int fi = match_finding(label, what.c_str(), std::isnan(err) ? INFINITY : err, c);
  if (fi >= 0) {
    g.findings[fi]->matched++;
    g.findings[fi]->worst = std::max(g.findings[fi]->worst, err);
    return;
  }
  g.violations++;
  static std::map<std::string, int> filed;
  if (filed[label + "|" + what]++ >= 6) return;
  Viol v{0, what, err, tol, {}, desc};
  for (auto & kv : params) v.params.emplace_back(kv.first, kv.second);
  std::string path = write_replay(label, "body", v, body);
  emit_violation(path, label, v);
}

void eigen_assert_failed(const char * expr, const char * file, int line)
{
  fprintf(stderr, "EIGEN-ASSERT %s at %s:%d\n", expr, file, line);
  fflush(stderr);
  if (tl_local && tl_local->cur) {}
  abort();
}

// ------------------------------------------------------------------ evidence
static void write_evidence(double wall, bool crashed, const std::string & crash_info)
{
  mkdirs(g.root + "/evidence");
  uint64_t states = 0, trans = 0, traces = 0, nontriv = 0;
  for (auto & s : g.spaces) {
    states += s.cases;
    trans += s.judged;
    traces += s.traces;
    nontriv += s.nontrivial;
  }
  if (crashed && g.page) {
    states = std::max<uint64_t>({states, g.page->states.load(), 1});
    trans  = std::max<uint64_t>({trans, g.page->transitions.load(), 1});
    traces = std::max<uint64_t>(traces, states);
    nontriv = std::max<uint64_t>(nontriv, 2);
  }
  std::ostringstream o;
  o << "{\n \"property_id\": \"" << g.pid << "\",\n \"tier\": \"" << g.tier << "\",\n \"seed\": " << g.seed_
    << ",\n \"level\": \"model_checking\",\n \"coverage\": {\n";
  o << "  \"states\": " << states << ",\n  \"transitions\": " << trans << ",\n  \"traces_validated_against_impl\": " << traces << ",\n";
  o << "  \"evaluations\": " << states << ",\n  \"distinct_nontrivial\": " << nontriv << ",\n";
  o << "  \"exhaustive\": " << ((g.exhaustive && !crashed) ? "true" : "false") << ",\n";
  std::string rule = g.notes.count("rule") ? g.notes["rule"]
                                            : "\"every index of each listed finite space is visited exactly once (deterministic mixed-radix "
                                              "enumeration of branch-structured alphabets / BFS / schedule DFS); a case is counted non-trivial "
                                              "unless the harness marked it as degenerate (duplicate of an earlier tuple or outside the "
                                              "property's premise)\"";
  o << "  \"rule\": " << rule << ",\n";
  o << "  \"samples\": [";
  bool first = true;
  int ns     = 0;
  for (auto & s : g.spaces) {
    int k = 0;
    for (auto & x : s.samples) {
      if (k++ >= 3 || ns >= 60) break;
      o << (first ? "" : ",") << "\n   \"" << json_escape(s.label + " " + x.substr(0, 700)) << "\"";
      first = false;
      ++ns;
    }
  }
  if (first) o << "\"" << json_escape(crashed ? crash_info : std::string("(no case recorded)")) << "\"";
  o << "\n  ],\n  \"spaces\": [";
  first = true;
  for (auto & s : g.spaces) {
    o << (first ? "" : ",") << "\n   {\"label\": \"" << json_escape(s.label) << "\", \"size\": " << s.n << ", \"visited\": " << s.cases
      << ", \"judged\": " << s.judged << ", \"complete\": " << (s.complete ? "true" : "false");
    if (!s.outcomes.empty()) {
      o << ", \"outcome_classes\": {";
      bool f2 = true;
      for (auto & [k, c] : s.outcomes) {
        o << (f2 ? "" : ", ") << "\"" << json_escape(k) << "\": " << c;
        f2 = false;
      }
      o << "}";
    }
    if (!s.stats.empty()) {
      o << ", \"checks\": {";
      bool f2 = true;
      for (auto & [k, st] : s.stats) {
        o << (f2 ? "" : ", ") << "\"" << json_escape(k) << "\": {\"n\": " << st.count << ", \"worst\": " << jnum(st.worst)
          << ", \"tol\": " << jnum(st.tol) << ", \"violations\": " << st.viol << ", \"known\": " << st.known << ", \"worst_case\": \""
          << json_escape(st.worst_desc.substr(0, 400)) << "\"}";
        f2 = false;
      }
      o << "}";
    }
    if (!s.extra.empty()) o << ", " << s.extra;
    o << "}";
    first = false;
  }
  o << "\n  ],\n  \"known_findings_matched\": [";
  first = true;
  for (auto * f : g.findings)
    if (f->kind == "finding" && f->matched) {
      o << (first ? "" : ",") << "\n   {\"text\": \"" << json_escape(f->text) << "\", \"cases\": " << f->matched.load()
        << ", \"worst\": " << jnum(f->worst) << "}";
      first = false;
    }
  o << "],\n  \"selfchecks\": {";
  first = true;
  for (auto & [k, p] : g.selfchecks) {
    o << (first ? "" : ", ") << "\"" << json_escape(k) << "\": {\"run\": " << p.first << ", \"passed\": " << p.second << "}";
    first = false;
  }
  o << "},\n  \"notes\": {";
  first = true;
  for (auto & [k, v] : g.notes) {
    if (k == "rule") continue;
    o << (first ? "" : ", ") << "\"" << json_escape(k) << "\": " << v;
    first = false;
  }
  o << "}";
  if (crashed) o << ",\n  \"crash\": \"" << json_escape(crash_info) << "\"";
  o << "\n },\n \"assumptions\": [";
  first = true;
  for (auto & a : g.assumptions) {
    o << (first ? "" : ", ") << "\"" << json_escape(a) << "\"";
    first = false;
  }
  o << "],\n \"wall_s\": " << fmt("%.3f", wall) << ",\n \"violations\": " << g.violations + (crashed ? 1 : 0) << "\n}\n";
  // a run restricted with --only does not describe the whole check: it must not replace the evidence file
  std::ofstream f(g.root + "/evidence/" + g.pid + (g.only.empty() ? ".json" : ".only.json"));
  f << o.str();
}

// ------------------------------------------------------------------ main
static int run_child()
{
  std::vector<SubCheck *> subs;
  for (SubCheck * s = registry(); s; s = s->next) subs.push_back(s);
  std::sort(subs.begin(), subs.end(), [](SubCheck * a, SubCheck * b) { return strcmp(a->name, b->name) < 0; });
  if (g.pass == 1 && alt_warmup_slot()) alt_warmup_slot()();
  for (SubCheck * s : subs) {
    if (!g.only.empty() && fnmatch(g.only.c_str(), s->name, 0) != 0) continue;
    if (g.replay && !g.rsub.empty() && g.rsub != s->name) continue;
    g.cursub = s->name;
    if (!g.replay) {
      fprintf(stderr, "[%s] %s ...\n", g.pid.c_str(), s->name);
    }
    const auto t = std::chrono::steady_clock::now();
    s->fn();
    if (!g.replay)
      fprintf(stderr, "[%s] %s done in %.1fs\n", g.pid.c_str(), s->name,
        std::chrono::duration<double>(std::chrono::steady_clock::now() - t).count());
  }
  if (g.replay) return g.violations ? 1 : 0;
  for (auto * f : g.findings)
    if (f->kind == "finding" && f->matched)
      printf("KNOWN-FINDING: property=%s %s (cases=%llu worst=%.3g)\n", g.pid.c_str(), f->text.c_str(),
        (unsigned long long)f->matched.load(), f->worst);
  const double wall = std::chrono::duration<double>(std::chrono::steady_clock::now() - g.t0).count();
  uint64_t states = 0, trans = 0;
  for (auto & s : g.spaces) {
    states += s.cases;
    trans += s.judged;
  }
  if (g.pass == 1) {
    g.page->alt_states      = states;
    g.page->alt_transitions = trans;
    g.page->alt_violations  = g.violations;
    g.page->alt_done        = 1;
    printf("SUMMARY-ALT-ORDER property=%s states=%llu transitions=%llu violations=%llu\n", g.pid.c_str(), (unsigned long long)states,
      (unsigned long long)trans, (unsigned long long)g.violations);
    fflush(stdout);
    return g.violations ? 1 : 0;
  }
  write_evidence(wall, false, "");
  printf("SUMMARY property=%s tier=%s states=%llu transitions=%llu violations=%llu exhaustive=%s wall=%.1fs\n", g.pid.c_str(),
    g.tier.c_str(), (unsigned long long)states, (unsigned long long)trans, (unsigned long long)g.violations,
    g.exhaustive ? "true" : "false", wall);
  fflush(stdout);
  return g.violations ? 1 : 0;
}

int main_impl(int argc, char ** argv, const char * pid)
{
  g.pid = pid;
  g.t0  = std::chrono::steady_clock::now();
  {
    char buf[4096];
    ssize_t n = readlink("/proc/self/exe", buf, sizeof buf - 1);
    buf[n > 0 ? n : 0] = 0;
    std::string p = buf;  // <root>/build/<pid>/run
    for (int i = 0; i < 3; ++i) p = p.substr(0, p.find_last_of('/'));
    g.root = p;
    if (const char * r = getenv("VERIF_ROOT")) g.root = r;
  }
  if (const char * t = getenv("VERIF_TIER")) g.tier = t;
  if (const char * s = getenv("VERIF_SEED")) g.seed_ = atoi(s);
  for (int i = 1; i < argc; ++i) {
    std::string a = argv[i];
    if (a == "quick" || a == "thorough")
      g.tier = a;
    else if (a == "--replay" && i + 1 < argc) {
      g.replay      = true;
      g.replay_file = argv[++i];
    } else if (a == "--only" && i + 1 < argc)
      g.only = argv[++i];
    else if (a == "--workers" && i + 1 < argc)
      g.nworkers = atoi(argv[++i]);
    else if (a == "--list") {
      for (SubCheck * s = registry(); s; s = s->next) printf("%s\n", s->name);
      return 0;
    }
  }
  if (g.tier != "quick" && g.tier != "thorough") g.tier = "quick";
  g.deadline_s = thorough() ? 3 * 3600 : 1200;
  if (const char * d = getenv("VERIF_DEADLINE_S")) g.deadline_s = atof(d);
  if (g.replay) {
    std::ifstream f(g.replay_file);
    std::stringstream ss;
    ss << f.rdbuf();
    std::string txt = ss.str();
    JP jp{txt.c_str()};
    JV v = jp.parse();
    if (v.t != JV::Obj) {
      fprintf(stderr, "cannot read replay file %s\n", g.replay_file.c_str());
      return 2;
    }
    g.tier   = v.str("tier", "quick");
    g.seed_  = int(v.num("seed"));
    g.rlabel = v.str("label");
    g.rsub   = v.str("sub");
    g.rbody  = v.str("body");
    g.rwhat  = v.str("what");
    g.ridx   = uint64_t(v.num("idx"));
    g.pass   = int(v.num("pass", 0));
    g.deadline_s = 1e9;
    return run_child();
  }
  load_findings();
  g.page = (SharedPage *)mmap(nullptr, sizeof(SharedPage), PROT_READ | PROT_WRITE, MAP_SHARED | MAP_ANONYMOUS, -1, 0);
  memset((void *)g.page, 0, sizeof(SharedPage));
  fflush(stdout);
  fflush(stderr);
  pid_t ch = fork();
  if (ch == 0) {
    int rc = run_child();
    fflush(stdout);
    fflush(stderr);
    _exit(rc);
  }
  int st = 0;
  waitpid(ch, &st, 0);
  if (WIFEXITED(st)) {
    int rc = WEXITSTATUS(st);
    if (rc <= 1 && alt_warmup_slot() && g.only.empty()) {
      // alternate call order in a fresh process
      fflush(stdout);
      pid_t ch2 = fork();
      if (ch2 == 0) {
        g.pass = 1;
        int rc2 = run_child();
        fflush(stdout);
        fflush(stderr);
        _exit(rc2);
      }
      int st2 = 0;
      waitpid(ch2, &st2, 0);
      int rc2 = WIFEXITED(st2) ? WEXITSTATUS(st2) : 1;
      if (!WIFEXITED(st2)) {
        g.pass = 1;
        Viol v{g.page->cur_idx[0].load(), "crash", INFINITY, 0, {},
          fmt("alternate-order pass died with signal %d in sub-check %s, space %s", WTERMSIG(st2), g.page->sub, g.page->label)};
        g.cursub = g.page->sub;
        std::string path = write_replay(g.page->label, "index", v, "");
        emit_violation(path, g.page->label, v);
      }
      // record the second pass in the evidence file written by the first
      const std::string ef = g.root + "/evidence/" + g.pid + ".json";
      std::ifstream in(ef);
      std::stringstream ss;
      ss << in.rdbuf();
      std::string txt = ss.str();
      const std::string ins = fmt("\"alternate_order_pass\": {\"completed\": %s, \"states\": %llu, \"transitions\": %llu, \"violations\": %llu},\n  ",
        g.page->alt_done.load() ? "true" : "false", (unsigned long long)g.page->alt_states.load(), (unsigned long long)g.page->alt_transitions.load(),
        (unsigned long long)(g.page->alt_violations.load() + (WIFEXITED(st2) ? 0 : 1)));
      const size_t pos = txt.find("\"selfchecks\":");
      if (pos != std::string::npos) {
        txt.insert(pos, ins);
        {
          // total violations = first pass + second pass
          const size_t pv = txt.rfind("\"violations\":");
          if (pv != std::string::npos) {
            const unsigned long long a = strtoull(txt.c_str() + pv + 13, nullptr, 10);
            const size_t e = txt.find_first_of("\n}", pv);
            txt.replace(pv, e - pv, fmt("\"violations\": %llu", a + (unsigned long long)g.page->alt_violations.load() + (WIFEXITED(st2) ? 0ull : 1ull)));
          }
        }
        std::ofstream out(ef);
        out << txt;
      }
      if (rc2 == 2) return 2;
      rc = std::max(rc, rc2);
    }
    return rc;
  }
  // crashed: the case being executed is the counterexample
  std::string info = fmt("child died with signal %d in sub-check %s, space %s, indices in flight:", WTERMSIG(st), g.page->sub, g.page->label);
  for (int w = 0; w < g.nworkers && w < 64; ++w) info += fmt(" %llu", (unsigned long long)g.page->cur_idx[w].load());
  g.cursub = g.page->sub;
  Viol v{g.page->cur_idx[0].load(), "crash", INFINITY, 0, {}, info};
  // one replay file per in-flight index (one of them reproduces the crash)
  std::set<uint64_t> seen;
  for (int w = 0; w < g.nworkers && w < 64; ++w) {
    v.idx = g.page->cur_idx[w].load();
    if (!seen.insert(v.idx).second) continue;
    std::string path = write_replay(g.page->label, "index", v, "");
    emit_violation(path, g.page->label, v);
    if (seen.size() >= 4) break;
  }
  const double wall = std::chrono::duration<double>(std::chrono::steady_clock::now() - g.t0).count();
  write_evidence(wall, true, info);
  return 1;
}

}  // namespace mc
