# -fno-tree-slp-vectorize: g++ 12.2 -O2 drops a double->float->double round trip on 2-element arrays (SLP
# vectorizer bug, reproduced in isolation); vectorization never changes IEEE results otherwise.
# Build of the verification harnesses. Every harness depends on the smooth headers through -MMD
# dependency files, so any edit under $(REPO)/include rebuilds exactly the affected harnesses.
ROOT  := $(dir $(abspath $(lastword $(MAKEFILE_LIST))))
ROOT  := $(ROOT:/=)
REPO  ?= /repo
B     ?= $(ROOT)/build
CXX   := g++
BASE  := -std=c++20 -O2 -DNDEBUG -pthread -I$(ROOT)/mc -I$(B)/gen -I$(REPO)/include -isystem /usr/include/eigen3 -MMD -MP -fno-access-control -fno-tree-slp-vectorize -Wno-deprecated-declarations

CHECKS := $(notdir $(wildcard $(ROOT)/checks/C*))

.PHONY: all version
all: $(foreach c,$(CHECKS),$(B)/$(c)/run)

# version.hpp is generated exactly as CMake's configure_file would (no /repo/_build needed)
$(B)/gen/smooth/version.hpp: $(REPO)/config/version.hpp.in $(REPO)/CMakeLists.txt
	@mkdir -p $(dir $@)
	@v=$$(sed -n 's/^project(smooth VERSION \([0-9.]*\)).*/\1/p' $(REPO)/CMakeLists.txt); \
	 maj=$${v%%.*}; rest=$${v#*.}; min=$${rest%%.*}; pat=$${rest#*.}; \
	 sed -e "s/@CMAKE_PROJECT_VERSION_MAJOR@/$$maj/" -e "s/@CMAKE_PROJECT_VERSION_MINOR@/$$min/" \
	     -e "s/@CMAKE_PROJECT_VERSION_PATCH@/$$pat/" -e "s/@CMAKE_PROJECT_VERSION@/$$v/" $< > $@

$(B)/mc.o: $(ROOT)/mc/mc.cpp $(ROOT)/mc/mc.hpp
	@mkdir -p $(dir $@)
	$(CXX) -std=c++20 -O2 -pthread -I$(ROOT)/mc -c $< -o $@
$(B)/fill_malloc.o: $(ROOT)/mc/fill_malloc.cpp
	@mkdir -p $(dir $@)
	$(CXX) -std=c++20 -O2 -fno-builtin -c $< -o $@

# per-check extra flags: checks/<ID>/flags.mk may set FLAGS_<ID> and LIBS_<ID>
-include $(wildcard $(ROOT)/checks/*/flags.mk)

define CHECK_RULES
$(B)/$(1)/main.o: $(ROOT)/mc/main.cpp $(ROOT)/mc/mc.hpp
	@mkdir -p $$(dir $$@)
	$(CXX) -std=c++20 -O2 -I$(ROOT)/mc -DMC_PID='"$(1)"' -c $$< -o $$@
$(B)/$(1)/%.o: $(ROOT)/checks/$(1)/%.cpp $(B)/gen/smooth/version.hpp $(ROOT)/Makefile $$(wildcard $(ROOT)/checks/$(1)/flags.mk)
	@mkdir -p $$(dir $$@)
	$(CXX) $(BASE) $$(FLAGS_$(1)) -c $$< -o $$@
$(B)/$(1)/run: $(B)/$(1)/main.o $(B)/mc.o $$(if $$(NOFILL_$(1)),,$(B)/fill_malloc.o) $$(patsubst $(ROOT)/checks/$(1)/%.cpp,$(B)/$(1)/%.o,$$(wildcard $(ROOT)/checks/$(1)/*.cpp))
	$(CXX) -pthread $$^ $$(LIBS_$(1)) -o $$@
endef
$(foreach c,$(CHECKS),$(eval $(call CHECK_RULES,$(c))))

# dependency files: only those of the requested check when bin/check passes CHECK=<ID> (parsing all of them costs seconds)
ifdef CHECK
-include $(wildcard $(B)/$(CHECK)/*.d)
else
-include $(wildcard $(B)/*/*.d)
endif
