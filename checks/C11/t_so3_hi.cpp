#include "c11.hpp"
MC_SUBCHECK(so3_hi)
{
  using G = smooth::SO3d;
  c11::run_hi<G>("SO3d");
}
