// C11 — cumulative spline evaluation and its derivative outputs are exact.
//
// E (DESIGN 4/C11): K = 1..6 x G in {SO3d, SE2d, SE3d, Bundle<SO3d,Vector2d>, Vector3d} x cumulative basis matrix in
//   {Bernstein cumulative, B-spline cumulative (both taken from smooth/polynomial/basis.hpp), one integer upper-
//   triangular test matrix} x u in {0, 1e-9, 1/4, 1/2, 1-1e-9, 1} x every K-tuple of differences over a difference
//   alphabet (8 entries for K <= 3, 4 entries for K >= 4 [quick tier: 3 entries for K = 5, 2 for K = 6]: zero, 1e-5-norm, O(1)
//   rotations and translations, all inside the injectivity radius) x every admissible combination of optional outputs. Two spaces per (G, K):
//   "eval" (cspline_eval_vs / _gs: value, vel, acc, jer) and "jac" (cspline_eval_dg_dvs / _dgs: Jacobians of
//   value, velocity, acceleration).
//
// O: the reference curve is the documented product  M(u) = [M(g_0)] prod_{i=1..K} expm(Btilde_i(u) hat_ref(v_i)),
//   Btilde_i(u) = sum_k u^k Bcum(k, i) read from the GIVEN matrix (column 0 is not used, as in the header formula),
//   in the documented matrix form of the group (mc/ref.hpp), long double.
//   * derivatives w.r.t. u: exact Taylor coefficients ("jets") of that matrix curve (every factor is the exponential
//     of a scalar polynomial times ONE matrix, so its jet is elementary), body-frame quantities
//     vel = vee(W), acc = vee(W'), jer = vee(W''), W = M^-1 M'.  The jets and the body-frame formulas are validated
//     at the start of every sub-check against 7-point central stencils of the reference curve in __float128
//     (both entry-wise on M and through x(t) = vee logm(M(u)^-1 M(u+t))) and against curves with known derivatives
//     (single exponential: vel = v, acc = jer = 0; two exponentials: closed form) — failing = harness error.
//     (DESIGN sketched the __float128 stencils as the deciding oracle; at ~0.1 ms per 4x4 __float128 expm that costs
//     ~100 ms per K=6 Jacobian case, 50x over budget, so the stencils validate the jets on a fixed menu instead.)
//   * Jacobians: 4-point central differences (step 2^-15, long double) of the reference value (through
//     vee logm(M(0)^-1 M(eps))), velocity and acceleration w.r.t. every coordinate of every difference
//     (v_j + eps e_c) resp. every control point (g_j exp(eps e_c), which changes log(g_{j-1}^-1 g_j) and
//     log(g_j^-1 g_{j+1}); those logarithms are reference logarithms: Newton on expm with a residual check).
//   * gs form: v_i = reference logarithm (Newton, residual-checked) of M(g_{i-1})^-1 M(g_i) from the STORED
//     coefficients of the control points that the library receives.
//
// Optional outputs: cspline_eval_vs/_gs assert vel for acc and acc for jer, cspline_eval_dg_dvs asserts dvel for
// dacc (preconditions), so the admissible sets are the nested ones; cspline_eval_dg_dgs admits all four sets.
// Every output is judged against the oracle under every admissible set in which it appears (worst over the sets).
#pragma once
#include "bind.hpp"

#include <smooth/spline/cumulative_spline.hpp>

namespace c11 {
using namespace mcb;
using ref::Q;

// ------------------------------------------------------------------ calibrated tolerances
// error measure: max-abs difference / max(1, max-abs reference entry) of the whole output.
// tolerance = max(100 x worst observed, 64 eps), worst taken over the thorough tier with alphabet menus (seeds) 0..3 on
// /repo at 35338b8 (pinned snapshot + the five numerical fix: commits); observed worst given next to each constant.
// The worst cases are all K >= 4 (mostly 6), mostly the Bernstein matrix at u = 1-1e-9, SE3d / SE2d, tuples made of the two
// O(1) differences (the outputs are sums of K Ad-transported terms with large basis derivatives that partly cancel).
// Mutants (see report) produce errors of 1..6, i.e. >= 1e7 x the loosest tolerance.
struct Tol
{
  static constexpr double value = 7e-13;    // observed 6.2e-15 (gs value, SE3d K5)
  static constexpr double vel   = 3.5e-11;  // observed 3.3e-13 (vs/gs vel, SE2d K6)
  static constexpr double acc   = 1e-9;     // observed 8.1e-12 (gs acc, SE3d K6)
  static constexpr double jer   = 1.5e-8;   // observed 1.25e-10 (gs jer, SE3d K6)
  static constexpr double dg    = 6e-11;    // observed 5.2e-13 (dgs dg, SE3d K6)
  static constexpr double dvel  = 2.5e-11;  // observed 2.1e-13 (dgs dvel, SE3d K6)
  static constexpr double dacc  = 2.5e-11;  // observed 2.3e-13 (dvs dacc, SE3d K4, seed 2)
};

// ------------------------------------------------------------------ G <-> reference
template<typename G>
struct is_vec : std::false_type
{};
template<typename S, int N>
struct is_vec<Eigen::Matrix<S, N, 1>> : std::true_type
{};

template<typename G>
G mk(const L * c)
{
  G g;
  if constexpr (is_vec<G>::value) {
    for (int i = 0; i < Ref<G>::Rep; ++i) g(i) = (double)c[i];
  } else {
    for (int i = 0; i < Ref<G>::Rep; ++i) g.coeffs()(i) = (double)c[i];
  }
  return g;
}
template<typename G>
Mat<L, Ref<G>::Dim> matL(const G & g)
{
  using R = Ref<G>;
  L c[R::Rep];
  if constexpr (is_vec<G>::value) {
    for (int i = 0; i < R::Rep; ++i) c[i] = (L)g(i);
  } else {
    for (int i = 0; i < R::Rep; ++i) c[i] = (L)g.coeffs()(i);
  }
  return R::template matrix<L>(c);
}
template<typename G>
std::string gstr(const G & g)
{
  if constexpr (is_vec<G>::value)
    return vstr(g);
  else
    return vstr(g.coeffs());
}

// ------------------------------------------------------------------ dense helpers (scalar-generic, exact 1/k)
/// scaling-and-squaring exponential; like ref::expm but with the Taylor coefficients formed in S (ref::expm forms 1/k
/// in long double, which limits a __float128 result to ~1e-20) and an adaptive number of terms.
template<typename S, int N>
Mat<S, N> expmX(Mat<S, N> X)
{
  L nrm = 0;
  for (int i = 0; i < N; i++) {
    L s = 0;
    for (int j = 0; j < N; j++) s += ref::absv(X(i, j));
    nrm = std::max(nrm, s);
  }
  if (!(nrm == nrm) || nrm > 1e6L) mc::harness_error("expmX: argument out of range");
  int sq = 0;
  while (nrm > 0.25L) {
    nrm /= 2;
    sq++;
  }
  X = X * S(std::ldexp(1.0L, -sq));
  const L tiny = std::is_same_v<S, Q> ? 1e-42L : 1e-26L;
  Mat<S, N> T = Mat<S, N>::Id(), R = T;
  for (int k = 1; k <= 60; k++) {
    T = ref::mul(T, X) * (S(1) / S(k));
    R = R + T;
    if (T.maxabs() < tiny) break;
  }
  for (int i = 0; i < sq; i++) R = ref::mul(R, R);
  return R;
}
/// log(I+E) by its series, ||E|| <~ 0.05
template<typename S, int N>
Mat<S, N> logmX(const Mat<S, N> & M)
{
  const Mat<S, N> E = M - Mat<S, N>::Id();
  if (!(E.maxabs() < 0.2L)) mc::harness_error("logmX: argument not near identity");
  const L tiny = std::is_same_v<S, Q> ? 1e-42L : 1e-26L;
  Mat<S, N> P = E, R;
  for (int k = 1; k <= 80; k++) {
    R = R + P * ((k % 2 ? S(1) : S(-1)) / S(k));
    P = ref::mul(P, E);
    if (P.maxabs() < tiny) break;
  }
  return R;
}
template<int N>
Mat<L, N, 1> mulv(const Mat<L, N> & A, const L * x)
{
  Mat<L, N, 1> r;
  for (int i = 0; i < N; i++)
    for (int j = 0; j < N; j++) r(i, 0) += A(i, j) * x[j];
  return r;
}

// ------------------------------------------------------------------ basis polynomials (from the GIVEN matrix)
struct Basis
{
  std::string name;
  int K = 0;
  L m[7][7] = {};  // m[k][i] = Bcum(k, i): coefficient of u^k in Btilde_i
};
/// Taylor coefficients s[p] = Btilde_i^(p)(u) / p!, p = 0..3
inline void btaylor(const Basis & b, int i, L u, L s[4])
{
  static const int binom[7][4] = {{1, 0, 0, 0}, {1, 1, 0, 0}, {1, 2, 1, 0}, {1, 3, 3, 1}, {1, 4, 6, 4}, {1, 5, 10, 10}, {1, 6, 15, 20}};
  for (int p = 0; p < 4; ++p) {
    L acc = 0, up = 1;
    for (int k = p; k <= b.K; ++k) {
      acc += binom[k][p] * up * b.m[k][i];
      up *= u;
    }
    s[p] = acc;
  }
}
inline Q bvalQ(const Basis & b, int i, Q x)
{
  Q acc = 0, xp = 1;
  for (int k = 0; k <= b.K; ++k) {
    acc += xp * Q(b.m[k][i]);
    xp *= x;
  }
  return acc;
}
template<int K>
struct Bases
{
  using MapT = Eigen::Map<const Eigen::Matrix<double, K + 1, K + 1, Eigen::RowMajor>>;
  std::array<std::array<double, size_t((K + 1) * (K + 1))>, 3> raw{};
  Basis b[3];
  Bases()
  {
    constexpr auto be = smooth::polynomial_cumulative_basis<smooth::PolynomialBasis::Bernstein, K>();
    constexpr auto bs = smooth::polynomial_cumulative_basis<smooth::PolynomialBasis::Bspline, K>();
    for (int k = 0; k <= K; ++k)
      for (int i = 0; i <= K; ++i) {
        raw[0][size_t(k * (K + 1) + i)] = be[size_t(k)][size_t(i)];
        raw[1][size_t(k * (K + 1) + i)] = bs[size_t(k)][size_t(i)];
        // integer, upper triangular, arbitrary (not a partition of unity; column 0 must be ignored by the library)
        raw[2][size_t(k * (K + 1) + i)] = k <= i ? double((2 * k + 3 * i) % 5 - 2) : 0.0;
      }
    const char * nm[3] = {"bernstein", "bspline", "inttri"};
    for (int q = 0; q < 3; ++q) {
      b[q].name = nm[q];
      b[q].K    = K;
      MapT M(raw[size_t(q)].data());
      for (int k = 0; k <= K; ++k)
        for (int i = 0; i <= K; ++i) b[q].m[k][i] = (L)M(k, i);  // read back through the object the library receives
    }
  }
  MapT map(int q) const { return MapT(raw[size_t(q)].data()); }
};

// ------------------------------------------------------------------ jets of the reference curve
template<int N>
struct Jet
{
  Mat<L, N> c[4];  // Taylor coefficients in t of a matrix curve M(u + t)
  static Jet constant(const Mat<L, N> & A)
  {
    Jet j;
    j.c[0] = A;
    return j;
  }
};
template<int N>
Jet<N> jmul(const Jet<N> & a, const Jet<N> & b, int ord)
{
  Jet<N> r;
  for (int n = 0; n <= ord; ++n)
    for (int k = 0; k <= n; ++k) r.c[n] = r.c[n] + ref::mul(a.c[k], b.c[n - k]);
  return r;
}
/// jet of expm(p(t) V), p(t) = s0 + s1 t + s2 t^2 + s3 t^3 + ...: all powers of V commute, so
/// expm(p V) = expm(s0 V) (I + q + q^2/2 + q^3/6 + O(t^4)), q = (s1 t + s2 t^2 + s3 t^3) V
template<typename R>
Jet<R::Dim> factor_jet(const L * v, const L s[4], int ord)
{
  constexpr int N = R::Dim;
  const auto V    = R::template hat<L>(v);
  const auto E0   = expmX<L, N>(V * s[0]);
  Jet<N> j;
  j.c[0] = E0;
  if (ord >= 1) j.c[1] = ref::mul(V * s[1], E0);
  if (ord >= 2) {
    const auto V2 = ref::mul(V, V);
    j.c[2]        = ref::mul(V * s[2] + V2 * (s[1] * s[1] / 2), E0);
    if (ord >= 3) {
      const auto V3 = ref::mul(V2, V);
      j.c[3]        = ref::mul(V * s[3] + V2 * (s[1] * s[2]) + V3 * (s[1] * s[1] * s[1] / 6), E0);
    }
  }
  return j;
}
/// body-frame derivatives of a matrix curve from its jet: W = M^-1 M', vel = vee W, acc = vee W', jer = vee W''
/// with W' = M^-1 M'' - W^2,  W'' = M^-1 M''' - W M^-1 M'' - W' W - W W'
template<typename R>
void body(const Jet<R::Dim> & J, int ord, L * vel, L * acc, L * jer)
{
  const auto Mi = ref::inv(J.c[0]);
  const auto W  = ref::mul(Mi, J.c[1]);
  R::template vee<L>(W, vel);
  if (ord < 2) return;
  const auto A  = ref::mul(Mi, J.c[2] * (L)2);
  const auto Wp = A - ref::mul(W, W);
  R::template vee<L>(Wp, acc);
  if (ord < 3) return;
  const auto J3  = ref::mul(Mi, J.c[3] * (L)6);
  const auto Wpp = J3 - ref::mul(W, A) - ref::mul(Wp, W) - ref::mul(W, Wp);
  R::template vee<L>(Wpp, jer);
}

/// the reference curve with prefix / suffix products of the factor jets
template<typename R>
struct Curve
{
  static constexpr int N = R::Dim, D = R::Dof;
  int K   = 0;
  int ord = 3;
  L v[7][D];      // v[1..K]
  L s[7][4];      // Taylor coefficients of Btilde_i at u
  Jet<N> P[8];    // P[j] = anchor F_1 .. F_j
  Jet<N> S[9];    // S[j] = F_j .. F_K, S[K+1] = I
  void build(const Basis & b, int K_, const L (*vv)[D], L u, const Mat<L, N> & anchor, int ord_)
  {
    K   = K_;
    ord = ord_;
    for (int i = 1; i <= K; ++i) {
      for (int c = 0; c < D; ++c) v[i][c] = vv[i][c];
      btaylor(b, i, u, s[i]);
    }
    Jet<N> F[8];
    for (int i = 1; i <= K; ++i) F[i] = factor_jet<R>(v[i], s[i], ord);
    P[0] = Jet<N>::constant(anchor);
    for (int i = 1; i <= K; ++i) P[i] = jmul(P[i - 1], F[i], ord);
    S[K + 1] = Jet<N>::constant(Mat<L, N>::Id());
    for (int i = K; i >= 1; --i) S[i] = jmul(F[i], S[i + 1], ord);
  }
  const Jet<N> & total() const { return P[K]; }
};

// ------------------------------------------------------------------ reference logarithm
/// Newton iteration for v = log(X) on the matrix exponential, right-sided correction
/// exp(v) exp(d) = exp(v + Jrinv(v) d + O(d^2)); Jinv may be approximate (it only affects the contraction rate);
/// the result is accepted on its residual |expm(hat v) - X| only.
template<typename R, typename S = L>
L newton_log(const Mat<S, R::Dim> & X, const Mat<L, R::Dof> & Jinv, S * v, int iters)
{
  constexpr int N = R::Dim, D = R::Dof;
  for (int it = 0; it < iters; ++it) {
    S nv[D];
    for (int c = 0; c < D; ++c) nv[c] = -v[c];
    const auto Rm = ref::mul(expmX<S, N>(R::template hat<S>(nv)), X);
    S d[D];
    R::template vee<S>(logmX<S, N>(Rm), d);
    for (int i = 0; i < D; ++i)
      for (int j = 0; j < D; ++j) v[i] += S(Jinv(i, j)) * d[j];
  }
  return (expmX<S, N>(R::template hat<S>(v)) - X).maxabs() / std::max((L)1, X.maxabs());
}

// ------------------------------------------------------------------ self-check bookkeeping
/// self-check with a measured value: records the worst value per name (written to the evidence notes) and reports
/// the value when it fails (harness error, exit 2)
inline std::map<std::string, std::pair<L, L>> & sc_worst()
{
  static std::map<std::string, std::pair<L, L>> m;
  return m;
}
inline void sc(const char * name, L value, L thr)
{
  auto & w = sc_worst()[name];
  w.first  = std::max(w.first, value == value ? value : (L)INFINITY);
  w.second = thr;
  if (!(value < thr)) fprintf(stderr, "C11 self-check '%s': value %.3Le, threshold %.3Le\n", name, value, thr);
  mc::selfcheck(name, value < thr);
}
inline void sc_note(const std::string & key)
{
  std::string j = "{";
  for (auto & [k, v] : sc_worst()) j += (j.size() > 1 ? "," : "") + ("\"" + mc::json_escape(k) + "\":") + mc::fmt("{\"worst\":%.3Le,\"threshold\":%.3Le}", v.first, v.second);
  mc::note("C11 self-check worst values " + key, j + "}");
}

// ------------------------------------------------------------------ difference alphabet
struct RawEnt
{
  double th;    // rotation angle
  int ax;       // 0: generic axis A (seed menu), 1: generic axis B, 2: z, 3: (1,1,1)/sqrt 3
  double t[3];  // translation-like part
  double alt;   // angle about axis 3 used instead when the group has no translation part and th == 0
};
/// simplest first; the first four entries form the small alphabet (K >= 4)
inline const std::vector<RawEnt> & raw_alphabet()
{
  static const std::vector<RawEnt> a = {
    {0, 0, {0, 0, 0}, 0},                      // zero
    {1e-8, 0, {0.6e-8, -0.8e-8, 0}, 0},        // 1e-8-norm rotation and translation (below any plausible 'is zero' threshold on |v|^2;
                                               // the 1e-5 small-angle region is still entered by the entries with a 1e-5 part below)
    {2.5, 1, {-1, 2, 0.5}, 0},                 // O(1) rotation (2.5 rad) and translation
    {-1.7, 0, {0.3, -0.4, 1.2}, 0},            // O(1), opposite sense about the first axis
    {1.0, 2, {0, 0, 0}, 0},                    // pure rotation about a principal axis
    {0, 0, {2, -1, 0.5}, 0.3},                 // pure translation (exact zero rotation)
    {-1e-5, 1, {1, 1, -2}, 0},                 // tiny rotation, O(1) translation
    {0.3, 0, {0, 1e-5, 0}, 0},                 // moderate rotation, tiny translation
  };
  return a;
}
inline std::array<double, 3> axis(int ax)
{
  const int s = ((mc::seed() % 4) + 4) % 4;
  if (ax == 0) return dirs_menu()[size_t(2 * s)];
  if (ax == 1) return dirs_menu()[size_t(2 * s + 1)];
  if (ax == 2) return {0, 0, 1};
  return {0.5773502691896258, 0.5773502691896258, 0.5773502691896258};
}
template<typename R>
std::array<double, size_t(R::Dof)> map_raw(const RawEnt & e)
{
  std::array<double, size_t(R::Dof)> a{};
  auto d = axis(e.ax);
  if constexpr (std::is_same_v<R, ref::SO3>) {
    double th = e.th;
    if (th == 0 && (e.t[0] != 0 || e.t[1] != 0 || e.t[2] != 0)) {
      th = e.alt;
      d  = axis(3);
    }
    for (int i = 0; i < 3; ++i) a[size_t(i)] = th * d[size_t(i)];
  } else if constexpr (std::is_same_v<R, ref::SE2>) {
    a[0] = e.t[0];
    a[1] = e.t[1];
    a[2] = e.th;
  } else if constexpr (std::is_same_v<R, ref::SE3>) {
    for (int i = 0; i < 3; ++i) a[size_t(i)] = e.t[i];
    for (int i = 0; i < 3; ++i) a[size_t(3 + i)] = e.th * d[size_t(i)];
  } else if constexpr (std::is_same_v<R, ref::Prod<ref::SO3, ref::Tn<2>>>) {
    for (int i = 0; i < 3; ++i) a[size_t(i)] = e.th * d[size_t(i)];
    a[3] = e.t[0];
    a[4] = e.t[1];
  } else {
    static_assert(std::is_same_v<R, ref::Tn<3>>, "add a mapping for this group");
    for (int i = 0; i < 3; ++i) a[size_t(i)] = e.t[i] + e.th * d[size_t(i)];
  }
  return a;
}

static const double US[6]  = {0.0, 1e-9, 0.25, 0.5, 1.0 - 1e-9, 1.0};
static const char * UN[6]  = {"u=0", "u=1e-9", "u=1/4", "u=1/2", "u=1-1e-9", "u=1"};
static const int KS[4]     = {-2, -1, 1, 2};                 // 4-point central difference f'(0) ~ sum w f(k e)/(12 e)
static const L WS[4]       = {1, -8, 8, -1};

/// everything that depends on the group only
template<typename G>
struct Setup
{
  using R                = Ref<G>;
  static constexpr int N = R::Dim, D = R::Dof;
  std::vector<std::array<double, size_t(D)>> alpha;  // difference alphabet (8 entries)
  std::vector<double> rot, tm;
  std::vector<Mat<L, D>> Jinv;                       // inverse right Jacobian of exp at each entry (reference)
  L eps = std::ldexp(1.0L, -15);
  // increments of the reference logarithms under right perturbation of a control point:
  // dplus[a][c][q] = log(exp(d_a) exp(k e_c eps)) - d_a,  dminus[a][c][q] = log(exp(-k e_c eps) exp(d_a)) - d_a,  k = KS[q]
  std::vector<std::array<std::array<std::array<L, size_t(D)>, 4>, size_t(D)>> dplus, dminus;
  Mat<L, N> G0;   // anchor (reference, unrounded)
  L g0tan[D];

  /// computed in __float128 (the increments are divided by eps in the Jacobian differences); the initial guess is the
  /// first-order one from the reference Jacobians, the result is accepted on its residual
  void build_tables(L e)
  {
    eps = e;
    dplus.assign(alpha.size(), {});
    dminus.assign(alpha.size(), {});
    for (size_t a = 0; a < alpha.size(); ++a) {
      L d[D];
      Q dq[D];
      for (int c = 0; c < D; ++c) {
        d[c]  = alpha[a][size_t(c)];
        dq[c] = Q(alpha[a][size_t(c)]);
      }
      const auto Ea = expmX<Q, N>(R::template hat<Q>(dq));
      const auto Jl = ref::inv(ref::dl_exp_ref<R>(d));
      for (int c = 0; c < D; ++c)
        for (int q = 0; q < 4; ++q) {
          L pe[D] = {}, ne[D] = {};
          Q peq[D] = {}, neq[D] = {};
          pe[c]  = KS[q] * eps;
          ne[c]  = -KS[q] * eps;
          peq[c] = Q(pe[c]);
          neq[c] = Q(ne[c]);
          {
            const auto X = ref::mul(Ea, expmX<Q, N>(R::template hat<Q>(peq)));
            Q v[D];
            L vl[D];
            const auto g = mulv<D>(Jinv[a], pe);
            for (int i = 0; i < D; ++i) vl[i] = d[i] + g(i, 0);
            Mat<L, N> Xl;
            for (size_t i = 0; i < Xl.d.size(); ++i) Xl.d[i] = (L)X.d[i];
            newton_log<R, L>(Xl, Jinv[a], vl, 4);  // cheap long double iterations first (contraction ~ eps per step)
            for (int i = 0; i < D; ++i) v[i] = Q(vl[i]);
            sc("reference log residual (perturbed, right, __float128) (1e-30)", newton_log<R, Q>(X, Jinv[a], v, 3), 1e-30L);
            for (int i = 0; i < D; ++i) dplus[a][size_t(c)][size_t(q)][size_t(i)] = (L)(v[i] - dq[i]);
          }
          {
            const auto X = ref::mul(expmX<Q, N>(R::template hat<Q>(neq)), Ea);
            Q v[D];
            L vl[D];
            const auto g = mulv<D>(Jl, ne);
            for (int i = 0; i < D; ++i) vl[i] = d[i] + g(i, 0);
            Mat<L, N> Xl;
            for (size_t i = 0; i < Xl.d.size(); ++i) Xl.d[i] = (L)X.d[i];
            newton_log<R, L>(Xl, Jinv[a], vl, 4);
            for (int i = 0; i < D; ++i) v[i] = Q(vl[i]);
            sc("reference log residual (perturbed, left, __float128) (1e-30)", newton_log<R, Q>(X, Jinv[a], v, 3), 1e-30L);
            for (int i = 0; i < D; ++i) dminus[a][size_t(c)][size_t(q)][size_t(i)] = (L)(v[i] - dq[i]);
          }
        }
    }
  }

  Setup()
  {
    for (auto & e : raw_alphabet()) {
      alpha.push_back(map_raw<R>(e));
      double tmx = 0;
      for (int i = 0; i < 3; ++i) tmx = std::max(tmx, std::fabs(e.t[i]));
      rot.push_back(std::is_same_v<R, ref::Tn<3>> ? 0.0 : std::fabs(e.th == 0 && std::is_same_v<R, ref::SO3> ? e.alt : e.th));
      tm.push_back(std::is_same_v<R, ref::SO3> ? 0.0 : tmx);
    }
    for (size_t i = 0; i < alpha.size(); ++i)
      for (size_t j = 0; j < i; ++j)
        if (alpha[i] == alpha[j]) mc::harness_error("difference alphabet has duplicate entries");
    for (auto & a : alpha) {
      L d[D];
      for (int c = 0; c < D; ++c) d[c] = a[size_t(c)];
      Jinv.push_back(ref::inv(ref::dr_exp_ref<R>(d)));
    }
    const RawEnt g0{0.7, 1, {0.5, -1.5, 2}, 0};
    const auto t = map_raw<R>(g0);
    for (int c = 0; c < D; ++c) g0tan[c] = t[size_t(c)];
    G0 = expmX<L, N>(R::template hat<L>(g0tan));
    build_tables(std::ldexp(1.0L, -15));
  }
};

// ------------------------------------------------------------------ one case: inputs
template<int K, typename G>
struct Inputs
{
  using R                = Ref<G>;
  static constexpr int N = R::Dim, D = R::Dof;
  using Tangent          = Eigen::Matrix<double, D, 1>;
  int a[K + 1];                       // alphabet indices a[1..K]
  L v[K + 1][D];                      // differences (exact alphabet values) v[1..K]
  // library inputs. (std::vector, as in the upstream tests: a std::array of tangents does not compile as `vs`,
  // utils::zip_view calls .operator*() on its iterators, which are raw pointers for std::array.)
  std::vector<Tangent> vs;            // vs form
  std::vector<G> gs;                  // gs form
  Mat<L, N> Mg[K + 1];                // reference matrices of the STORED control points
  L w[K + 1][D];                      // reference logarithms of the stored consecutive ratios, w[1..K]
  L logres = 0;
  double rot = 0, tm = 0;

  Inputs(const Setup<G> & S, uint64_t tuple, uint64_t nA, int aoff = 0)
  {
    mc::Radix r(tuple);
    vs.resize(size_t(K));
    gs.resize(size_t(K + 1));
    a[0] = 0;
    for (int i = 1; i <= K; ++i) a[i] = aoff + int(r.next(nA));
    for (int i = 1; i <= K; ++i) {
      for (int c = 0; c < D; ++c) {
        v[i][c]               = S.alpha[size_t(a[i])][size_t(c)];
        vs[size_t(i - 1)](c) = S.alpha[size_t(a[i])][size_t(c)];
      }
      rot = std::max(rot, S.rot[size_t(a[i])]);
      tm  = std::max(tm, S.tm[size_t(a[i])]);
    }
    // control points: chain in long double, rounded once to the scalar type
    Mat<L, N> M = S.G0;
    for (int i = 0; i <= K; ++i) {
      if (i > 0) M = ref::mul(M, expmX<L, N>(R::template hat<L>(v[i])));
      L c[R::Rep];
      R::from_matrix(M, c);
      gs[size_t(i)] = mk<G>(c);
      Mg[i]         = matL(gs[size_t(i)]);
    }
    for (int i = 1; i <= K; ++i) {
      const auto X = ref::mul(ref::inv(Mg[i - 1]), Mg[i]);
      for (int c = 0; c < D; ++c) w[i][c] = v[i][c];
      logres = std::max(logres, newton_log<R>(X, S.Jinv[size_t(a[i])], w[i], 2));
    }
  }
  std::string desc(const Basis & B, double u) const
  {
    std::string s = mc::fmt("K=%d basis=%s u=%a tuple=[", K, B.name.c_str(), u);
    for (int i = 1; i <= K; ++i) s += mc::fmt("%s%d", i > 1 ? "," : "", a[i]);
    s += "]";
    for (int i = 1; i <= K; ++i) s += mc::fmt(" v%d=", i) + vstr(vs[size_t(i - 1)]);
    for (int i = 0; i <= K; ++i) s += mc::fmt(" g%d=", i) + gstr(gs[size_t(i)]);
    return s;
  }
};

// ------------------------------------------------------------------ error measures
template<int D, typename E>
double verr(const E & lib, const L * r)
{
  L e = 0, m = 1;
  for (int i = 0; i < D; ++i) {
    const L d = std::fabs((L)lib(i) - r[i]);
    if (!(d == d)) return INFINITY;
    e = std::max(e, d);
    m = std::max(m, std::fabs(r[i]));
  }
  return (double)(e / m);
}
template<typename E>
double jerr(const E & lib, const std::vector<L> & r, int rows, int cols)
{
  if (lib.rows() != rows || lib.cols() != cols) return INFINITY;
  L e = 0, m = 1;
  for (int i = 0; i < rows; ++i)
    for (int j = 0; j < cols; ++j) {
      const L d = std::fabs((L)lib(i, j) - r[size_t(i * cols + j)]);
      if (!(d == d)) return INFINITY;
      e = std::max(e, d);
      m = std::max(m, std::fabs(r[size_t(i * cols + j)]));
    }
  return (double)(e / m);
}

// ------------------------------------------------------------------ Jacobian oracle
template<typename R>
struct JacOut
{
  int cols = 0;
  std::vector<L> dg, dvel, dacc;  // row-major D x cols
  void init(int c)
  {
    cols = c;
    dg.assign(size_t(R::Dof * c), 0);
    dvel = dacc = dg;
  }
};
/// accumulate the 4-point central difference of (value-difference, vel, acc) for one coordinate
template<typename R>
struct Diff4
{
  static constexpr int D = R::Dof;
  L x[D] = {}, ve[D] = {}, ac[D] = {};
  void add(int q, const Jet<R::Dim> & J, const Mat<L, R::Dim> & M0inv)
  {
    L a[D], b[D], c[D];
    R::template vee<L>(logmX<L, R::Dim>(ref::mul(M0inv, J.c[0])), a);
    body<R>(J, 2, b, c, nullptr);
    for (int i = 0; i < D; ++i) {
      x[i] += WS[q] * a[i];
      ve[i] += WS[q] * b[i];
      ac[i] += WS[q] * c[i];
    }
  }
  void store(JacOut<R> & o, int col, L eps) const
  {
    for (int i = 0; i < D; ++i) {
      o.dg[size_t(i * o.cols + col)]   = x[i] / (12 * eps);
      o.dvel[size_t(i * o.cols + col)] = ve[i] / (12 * eps);
      o.dacc[size_t(i * o.cols + col)] = ac[i] / (12 * eps);
    }
  }
};
/// right-Jacobians w.r.t. the differences: column (j-1) D + c  <->  v_j + eps e_c
template<typename R>
void jac_vs(const Curve<R> & cv, L eps, JacOut<R> & o)
{
  constexpr int D = R::Dof;
  const int K     = cv.K;
  o.init(D * K);
  const auto M0inv = ref::inv(cv.total().c[0]);
  for (int j = 1; j <= K; ++j)
    for (int c = 0; c < D; ++c) {
      Diff4<R> df;
      for (int q = 0; q < 4; ++q) {
        L vp[D];
        for (int i = 0; i < D; ++i) vp[i] = cv.v[j][i];
        vp[c] += KS[q] * eps;
        const auto F = factor_jet<R>(vp, cv.s[j], 2);
        df.add(q, jmul(jmul(cv.P[j - 1], F, 2), cv.S[j + 1], 2), M0inv);
      }
      df.store(o, (j - 1) * D + c, eps);
    }
}
/// right-Jacobians w.r.t. the control points: column j D + c  <->  g_j exp(eps e_c), j = 0..K.
/// cv is the curve anchored at g_0 with the reference logarithms; a[1..K] are the alphabet indices of the differences
template<typename G>
void jac_gs(const Curve<Ref<G>> & cv, const int * a, const Setup<G> & S, JacOut<Ref<G>> & o)
{
  using R         = Ref<G>;
  constexpr int D = R::Dof, N = R::Dim;
  const int K     = cv.K;
  const L eps     = S.eps;
  o.init(D * (K + 1));
  const auto M0inv = ref::inv(cv.total().c[0]);
  for (int j = 0; j <= K; ++j)
    for (int c = 0; c < D; ++c) {
      Diff4<R> df;
      for (int q = 0; q < 4; ++q) {
        Jet<N> J;
        if (j == 0) {
          L pe[D] = {};
          pe[c]   = KS[q] * eps;
          J       = Jet<N>::constant(ref::mul(cv.P[0].c[0], expmX<L, N>(R::template hat<L>(pe))));
        } else {
          L vp[D];
          for (int i = 0; i < D; ++i) vp[i] = cv.v[j][i] + S.dplus[size_t(a[j])][size_t(c)][size_t(q)][size_t(i)];
          J = jmul(cv.P[j - 1], factor_jet<R>(vp, cv.s[j], 2), 2);
        }
        if (j < K) {
          L vp[D];
          for (int i = 0; i < D; ++i) vp[i] = cv.v[j + 1][i] + S.dminus[size_t(a[j + 1])][size_t(c)][size_t(q)][size_t(i)];
          J = jmul(jmul(J, factor_jet<R>(vp, cv.s[j + 1], 2), 2), cv.S[j + 2], 2);
        }
        df.add(q, J, M0inv);
      }
      df.store(o, j * D + c, eps);
    }
}

// ------------------------------------------------------------------ oracle self-checks
/// reference curve in __float128 at parameter x
template<typename R>
Mat<Q, R::Dim> curveQ(const Basis & b, int K, const L (*v)[R::Dof], const Mat<L, R::Dim> & anchor, Q x)
{
  constexpr int N = R::Dim, D = R::Dof;
  Mat<Q, N> g;
  for (size_t i = 0; i < g.d.size(); ++i) g.d[i] = Q(anchor.d[i]);
  for (int i = 1; i <= K; ++i) {
    const Q Bq = bvalQ(b, i, x);
    Q vq[D];
    for (int c = 0; c < D; ++c) vq[c] = Q(v[i][c]) * Bq;
    g = ref::mul(g, expmX<Q, N>(R::template hat<Q>(vq)));
  }
  return g;
}
inline L relL(L e, L scale) { return e / std::max((L)1, scale); }

/// jets and body-frame formulas against 7-point central stencils of the reference curve in __float128
template<typename R>
void selfcheck_stencil(const Basis & b, int K, const L (*v)[R::Dof], const Mat<L, R::Dim> & anchor, double u)
{
  constexpr int N = R::Dim, D = R::Dof;
  Curve<R> cv;
  cv.build(b, K, v, (L)u, anchor, 3);
  const Jet<N> & J = cv.total();
  const Q h        = Q(1e-6L);
  Mat<Q, N> g[7];
  for (int k = -3; k <= 3; ++k) g[k + 3] = curveQ<R>(b, K, v, anchor, Q(u) + Q(k) * h);
  static const int w1[7] = {-1, 9, -45, 0, 45, -9, 1};          // / (60 h)
  static const int w2[7] = {2, -27, 270, -490, 270, -27, 2};    // / (180 h^2)
  static const int w3[7] = {1, -8, 13, 0, -13, 8, -1};          // / (8 h^3)
  L e0 = 0, e1 = 0, e2 = 0, e3 = 0, s1 = 0, s2 = 0, s3 = 0;
  for (size_t i = 0; i < J.c[0].d.size(); ++i) {
    Q d1 = 0, d2 = 0, d3 = 0;
    for (int k = 0; k < 7; ++k) {
      d1 += Q(w1[k]) * g[k].d[i];
      d2 += Q(w2[k]) * g[k].d[i];
      d3 += Q(w3[k]) * g[k].d[i];
    }
    d1 /= Q(60) * h;
    d2 /= Q(180) * h * h;
    d3 /= Q(8) * h * h * h;
    e0 = std::max(e0, std::fabs((L)(g[3].d[i] - Q(J.c[0].d[i]))));
    e1 = std::max(e1, std::fabs((L)(d1 - Q(J.c[1].d[i]))));
    e2 = std::max(e2, std::fabs((L)(d2 / Q(2) - Q(J.c[2].d[i]))));
    e3 = std::max(e3, std::fabs((L)(d3 / Q(6) - Q(J.c[3].d[i]))));
    s1 = std::max(s1, std::fabs(J.c[1].d[i]));
    s2 = std::max(s2, std::fabs(J.c[2].d[i]));
    s3 = std::max(s3, std::fabs(J.c[3].d[i]));
  }
  sc("long double curve = __float128 curve (1e-16)", relL(e0, J.c[0].maxabs()), 1e-16L);
  sc("jet order 1 = __float128 7-point stencil (1e-11)", relL(e1, s1), 1e-11L);
  sc("jet order 2 = __float128 7-point stencil (1e-11)", relL(e2, s2), 1e-11L);
  sc("jet order 3 = __float128 7-point stencil (1e-11)", relL(e3, s3), 1e-11L);
  // body frame: x(t) = vee logm(M(u)^-1 M(u+t)); vel = x', acc = x'', jer = x''' - [x', x'']/2
  const auto gi = ref::inv(g[3]);
  Q x[7][D];
  for (int k = 0; k < 7; ++k) R::template vee<Q>(logmX<Q, N>(ref::mul(gi, g[k])), x[k]);
  L vel[D], acc[D], jer[D], dv[D], da[D], dj[D];
  for (int c = 0; c < D; ++c) {
    Q d1 = 0, d2 = 0, d3 = 0;
    for (int k = 0; k < 7; ++k) {
      d1 += Q(w1[k]) * x[k][c];
      d2 += Q(w2[k]) * x[k][c];
      d3 += Q(w3[k]) * x[k][c];
    }
    dv[c] = (L)(d1 / (Q(60) * h));
    da[c] = (L)(d2 / (Q(180) * h * h));
    dj[c] = (L)(d3 / (Q(8) * h * h * h));
  }
  const auto adv = ref::ad_ref<R, L>(dv);
  const auto br  = mulv<D>(adv, da);
  for (int c = 0; c < D; ++c) dj[c] -= br(c, 0) / 2;
  body<R>(J, 3, vel, acc, jer);
  L ev = 0, ea = 0, ej = 0, sv = 0, sa = 0, sj = 0;
  for (int c = 0; c < D; ++c) {
    ev = std::max(ev, std::fabs(vel[c] - dv[c]));
    ea = std::max(ea, std::fabs(acc[c] - da[c]));
    ej = std::max(ej, std::fabs(jer[c] - dj[c]));
    sv = std::max(sv, std::fabs(dv[c]));
    sa = std::max(sa, std::fabs(da[c]));
    sj = std::max(sj, std::fabs(dj[c]));
  }
  sc("body velocity = stencil of vee logm(g(u)^-1 g(u+t)) (1e-11)", relL(ev, sv), 1e-11L);
  sc("body acceleration = stencil of vee logm(g(u)^-1 g(u+t)) (1e-11)", relL(ea, sa), 1e-11L);
  sc("body jerk = stencil of vee logm(g(u)^-1 g(u+t)) - [vel,acc]/2 (1e-11)", relL(ej, sj), 1e-11L);
}

/// curves with known derivatives; finite-difference Jacobians against known Jacobians
template<typename G>
void selfcheck_closed_forms(const Setup<G> & S)
{
  using R         = Ref<G>;
  constexpr int N = R::Dim, D = R::Dof;
  const auto Id   = Mat<L, N>::Id();
  for (size_t ia = 0; ia < S.alpha.size(); ++ia)
    for (double u : {0.0, 0.25, 1.0}) {
      L v[3][D];
      for (int c = 0; c < D; ++c) {
        v[1][c] = S.alpha[ia][size_t(c)];
        v[2][c] = S.alpha[(ia + 3) % S.alpha.size()][size_t(c)];
      }
      // single exponential exp(u v): vel = v, acc = jer = 0
      {
        Basis b;
        b.name    = "single";
        b.K       = 1;
        b.m[1][1] = 1;
        Curve<R> cv;
        cv.build(b, 1, v, (L)u, Id, 3);
        L vel[D], acc[D], jer[D], e = 0, z = 0;
        body<R>(cv.total(), 3, vel, acc, jer);
        for (int c = 0; c < D; ++c) {
          e = std::max(e, std::fabs(vel[c] - v[1][c]));
          z = std::max({z, std::fabs(acc[c]), std::fabs(jer[c])});
        }
        sc("exp(u v): vel = v, acc = jer = 0 (1e-15)", std::max(e / (1 + S.tm[ia]), z / ((1 + S.tm[ia]) * (1 + S.tm[ia]))), 1e-15L);
        // d/dv exp(B v) = B dr_exp(B v) with B = 0.75 (constant polynomial), reference phi1
        Basis b2;
        b2.name    = "const";
        b2.K       = 1;
        b2.m[0][1] = 0.75L;
        cv.build(b2, 1, v, (L)u, Id, 2);
        JacOut<R> o;
        jac_vs<R>(cv, S.eps, o);
        L bv[D];
        for (int c = 0; c < D; ++c) bv[c] = 0.75L * v[1][c];
        const auto Jr = ref::dr_exp_ref<R>(bv) * 0.75L;
        L ej = 0, zz = 0;
        for (int i = 0; i < D; ++i)
          for (int j = 0; j < D; ++j) {
            ej = std::max(ej, std::fabs(o.dg[size_t(i * D + j)] - Jr(i, j)));
            zz = std::max({zz, std::fabs(o.dvel[size_t(i * D + j)]), std::fabs(o.dacc[size_t(i * D + j)])});
          }
        sc("4-point difference of exp(B v) = B dr_exp_ref(B v) (1e-12)", std::max(relL(ej, Jr.maxabs()), zz), 1e-12L);
      }
      // two exponentials exp(u a) exp(u b): vel = w + b, acc = -ad_b w, jer = ad_b^2 w, w = Ad_{exp(-u b)} a
      {
        Basis b;
        b.name    = "double";
        b.K       = 2;
        b.m[1][1] = 1;
        b.m[1][2] = 1;
        Curve<R> cv;
        cv.build(b, 2, v, (L)u, Id, 3);
        L vel[D], acc[D], jer[D];
        body<R>(cv.total(), 3, vel, acc, jer);
        L ub[D], nub[D];
        for (int c = 0; c < D; ++c) {
          ub[c]  = (L)u * v[2][c];
          nub[c] = -ub[c];
        }
        const auto Wm = ref::mul(ref::mul(expmX<L, N>(R::template hat<L>(nub)), R::template hat<L>(v[1])), expmX<L, N>(R::template hat<L>(ub)));
        L w[D];
        R::template vee<L>(Wm, w);
        const auto adb = ref::ad_ref<R, L>(v[2]);
        const auto a1  = mulv<D>(adb, w);
        L a1v[D];
        for (int c = 0; c < D; ++c) a1v[c] = a1(c, 0);
        const auto a2 = mulv<D>(adb, a1v);
        L e = 0, sc = 1;
        for (int c = 0; c < D; ++c) {
          e  = std::max({e, std::fabs(vel[c] - (w[c] + v[2][c])), std::fabs(acc[c] + a1(c, 0)), std::fabs(jer[c] - a2(c, 0))});
          sc = std::max({sc, std::fabs(w[c]), std::fabs(a1(c, 0)), std::fabs(a2(c, 0))});
        }
        c11::sc("exp(u a) exp(u b): vel, acc, jer closed form (1e-15)", e / sc, 1e-15L);
      }
      // gs form with Btilde_1 = 1: the curve is g_1, so dg/dg_1 = I, dg/dg_0 = 0 (validates the perturbed-log tables)
      {
        Basis b;
        b.name    = "one";
        b.K       = 1;
        b.m[0][1] = 1;
        Curve<R> cv;
        cv.build(b, 1, v, (L)u, S.G0, 2);
        JacOut<R> o;
        int a[2] = {0, int(ia)};
        jac_gs<G>(cv, a, S, o);
        L e = 0;
        for (int i = 0; i < D; ++i)
          for (int j = 0; j < 2 * D; ++j) e = std::max(e, std::fabs(o.dg[size_t(i * 2 * D + j)] - ((j == D + i) ? 1 : 0)));
        sc("gs form with Btilde = 1: dg/dg_1 = I, dg/dg_0 = 0 (1e-12)", e, 1e-12L);
      }
    }
}

/// per (G, K): stencil validation on a fixed menu, and step-size independence of the Jacobian differences
template<int K, typename G>
void selfchecks(const Setup<G> & S0, const Setup<G> & S2, const Bases<K> & BS, uint64_t nA, int aoff)
{
  using R         = Ref<G>;
  constexpr int D = R::Dof;
  uint64_t nt     = 1;
  for (int i = 0; i < K; ++i) nt *= nA;
  // menu: two tuples of the space (the last one = all entries the largest O(1) difference of the small alphabet)
  std::vector<uint64_t> menu = {nt - 1, (nt * 5) / 7};
  for (uint64_t t : menu) {
    Inputs<K, G> in(S0, t, nA, aoff);
    for (int q = 0; q < 3; ++q)
      for (double u : {0.25, 1.0}) {
        selfcheck_stencil<R>(BS.b[q], K, in.v, Mat<L, R::Dim>::Id(), u);
        if (q == 1 && u == 1.0) selfcheck_stencil<R>(BS.b[q], K, in.w, in.Mg[0], u);
        // Jacobian differences with step eps and 2 eps agree
        Curve<R> cv, cg;
        cv.build(BS.b[q], K, in.v, (L)u, Mat<L, R::Dim>::Id(), 2);
        cg.build(BS.b[q], K, in.w, (L)u, in.Mg[0], 2);
        JacOut<R> a1, a2, b1, b2;
        jac_vs<R>(cv, S0.eps, a1);
        jac_vs<R>(cv, 2 * S0.eps, a2);
        jac_gs<G>(cg, in.a, S0, b1);
        jac_gs<G>(cg, in.a, S2, b2);
        auto cmp = [](const std::vector<L> & x, const std::vector<L> & y) {
          L e = 0, m = 1;
          for (size_t i = 0; i < x.size(); ++i) {
            e = std::max(e, std::fabs(x[i] - y[i]));
            m = std::max(m, std::fabs(x[i]));
          }
          return e / m;
        };
        const L e = std::max({cmp(a1.dg, a2.dg), cmp(a1.dvel, a2.dvel), cmp(a1.dacc, a2.dacc), cmp(b1.dg, b2.dg), cmp(b1.dvel, b2.dvel), cmp(b1.dacc, b2.dacc)});
        sc("Jacobian differences: step eps vs 2 eps (1e-11)", e, 1e-11L);
      }
  }
  (void)D;
}

// ------------------------------------------------------------------ the explored spaces
template<int K, typename G>
void run(const std::string & tn, const Setup<G> & S, const Setup<G> & S2)
{
  using R         = Ref<G>;
  constexpr int N = R::Dim, D = R::Dof;
  using Tangent   = Eigen::Matrix<double, D, 1>;
  const Bases<K> BS;
  // tiers (run-time budget): thorough = the designed space (4 entries for K >= 4); quick: K = 5 over the 3 entries
  // {zero, 1e-5, O(1)}, K = 6 over the 2 entries {1e-5, O(1)} (first alphabet index = aoff)
  const uint64_t nA = K <= 3 ? 8 : ((K == 4 || mc::thorough()) ? 4 : (K == 5 ? 3 : 2));
  const int aoff    = (K == 6 && !mc::thorough()) ? 1 : 0;
  uint64_t nt       = 1;
  for (int i = 0; i < K; ++i) nt *= nA;
  selfchecks<K, G>(S, S2, BS, nA, aoff);
  const auto Id = Mat<L, N>::Id();

  // ---------------- eval: cspline_eval_vs / cspline_eval_gs
  mc::explore("C11/eval/" + tn + mc::fmt("/K%d", K), nt * 18, [&](mc::Case & c) {
    mc::Radix r(c.idx);
    const int iu = int(r.next(6)), ib = int(r.next(3));
    const uint64_t tuple = r.next(nt);
    const double u       = US[iu];
    const Basis & B      = BS.b[ib];
    const auto Bm        = BS.map(ib);
    const Inputs<K, G> in(S, tuple, nA, aoff);
    c.desc = [&] { return in.desc(B, u); };
    c.param("K", K);
    c.param("u", u);
    c.param("basis", ib);
    c.param("rot", in.rot);
    c.param("tm", in.tm);
    c.outcome(B.name.c_str());
    c.outcome(UN[iu]);
    if (!(in.logres < 1e-14L)) mc::harness_error("reference logarithm of a control-point ratio did not converge: " + in.desc(B, u));

    // ---- vs form
    {
      Curve<R> cv;
      cv.build(B, K, in.v, (L)u, Id, 3);
      L vel[D], acc[D], jer[D];
      body<R>(cv.total(), 3, vel, acc, jer);
      const auto & Mr = cv.total().c[0];
      Tangent v1, v2, a2, v3, a3, j3;
      const G g0 = smooth::cspline_eval_vs<K, G>(in.vs, Bm, u);
      const G g1 = smooth::cspline_eval_vs<K, G>(in.vs, Bm, u, v1);
      const G g2 = smooth::cspline_eval_vs<K, G>(in.vs, Bm, u, v2, a2);
      const G g3 = smooth::cspline_eval_vs<K, G>(in.vs, Bm, u, v3, a3, j3);
      c.judge("vs value", std::max({ref::relerr1(matL(g0), Mr), ref::relerr1(matL(g1), Mr), ref::relerr1(matL(g2), Mr), ref::relerr1(matL(g3), Mr)}), Tol::value);
      c.judge("vs vel", std::max({verr<D>(v1, vel), verr<D>(v2, vel), verr<D>(v3, vel)}), Tol::vel);
      c.judge("vs acc", std::max(verr<D>(a2, acc), verr<D>(a3, acc)), Tol::acc);
      c.judge("vs jer", verr<D>(j3, jer), Tol::jer);
    }
    // ---- gs form
    {
      Curve<R> cv;
      cv.build(B, K, in.w, (L)u, in.Mg[0], 3);
      L vel[D], acc[D], jer[D];
      body<R>(cv.total(), 3, vel, acc, jer);
      const auto & Mr = cv.total().c[0];
      Tangent v1, v2, a2, v3, a3, j3;
      const G g0 = smooth::cspline_eval_gs<K>(in.gs, Bm, u);
      const G g1 = smooth::cspline_eval_gs<K>(in.gs, Bm, u, v1);
      const G g2 = smooth::cspline_eval_gs<K>(in.gs, Bm, u, v2, a2);
      const G g3 = smooth::cspline_eval_gs<K>(in.gs, Bm, u, v3, a3, j3);
      c.judge("gs value", std::max({ref::relerr1(matL(g0), Mr), ref::relerr1(matL(g1), Mr), ref::relerr1(matL(g2), Mr), ref::relerr1(matL(g3), Mr)}), Tol::value);
      c.judge("gs vel", std::max({verr<D>(v1, vel), verr<D>(v2, vel), verr<D>(v3, vel)}), Tol::vel);
      c.judge("gs acc", std::max(verr<D>(a2, acc), verr<D>(a3, acc)), Tol::acc);
      c.judge("gs jer", verr<D>(j3, jer), Tol::jer);
    }
  });

  // ---------------- jac: cspline_eval_dg_dvs / cspline_eval_dg_dgs
  mc::explore("C11/jac/" + tn + mc::fmt("/K%d", K), nt * 18, [&](mc::Case & c) {
    mc::Radix r(c.idx);
    const int iu = int(r.next(6)), ib = int(r.next(3));
    const uint64_t tuple = r.next(nt);
    const double u       = US[iu];
    const Basis & B      = BS.b[ib];
    const auto Bm        = BS.map(ib);
    const Inputs<K, G> in(S, tuple, nA, aoff);
    c.desc = [&] { return in.desc(B, u); };
    c.param("K", K);
    c.param("u", u);
    c.param("basis", ib);
    c.param("rot", in.rot);
    c.param("tm", in.tm);
    c.outcome(B.name.c_str());
    c.outcome(UN[iu]);
    if (!(in.logres < 1e-14L)) mc::harness_error("reference logarithm of a control-point ratio did not converge: " + in.desc(B, u));
    // ---- w.r.t. differences
    {
      Curve<R> cv;
      cv.build(B, K, in.v, (L)u, Id, 2);
      JacOut<R> o;
      jac_vs<R>(cv, S.eps, o);
      using SJ = smooth::SplineJacobian<G, K - 1>;
      SJ dv1, dv2, da2;
      const SJ J0 = smooth::cspline_eval_dg_dvs<K, G>(in.vs, Bm, u);
      const SJ J1 = smooth::cspline_eval_dg_dvs<K, G>(in.vs, Bm, u, dv1);
      const SJ J2 = smooth::cspline_eval_dg_dvs<K, G>(in.vs, Bm, u, dv2, da2);
      c.judge("dvs dg", std::max({jerr(J0, o.dg, D, o.cols), jerr(J1, o.dg, D, o.cols), jerr(J2, o.dg, D, o.cols)}), Tol::dg);
      c.judge("dvs dvel", std::max(jerr(dv1, o.dvel, D, o.cols), jerr(dv2, o.dvel, D, o.cols)), Tol::dvel);
      c.judge("dvs dacc", jerr(da2, o.dacc, D, o.cols), Tol::dacc);
    }
    // ---- w.r.t. control points
    {
      Curve<R> cv;
      cv.build(B, K, in.w, (L)u, in.Mg[0], 2);
      JacOut<R> o;
      jac_gs<G>(cv, in.a, S, o);
      using SJ = smooth::SplineJacobian<G, K>;
      SJ dv1, dv2, da2, da3;
      const SJ J0 = smooth::cspline_eval_dg_dgs<K>(in.gs, Bm, u);
      const SJ J1 = smooth::cspline_eval_dg_dgs<K>(in.gs, Bm, u, dv1);
      const SJ J2 = smooth::cspline_eval_dg_dgs<K>(in.gs, Bm, u, dv2, da2);
      const SJ J3 = smooth::cspline_eval_dg_dgs<K>(in.gs, Bm, u, {}, da3);
      c.judge("dgs dg", std::max({jerr(J0, o.dg, D, o.cols), jerr(J1, o.dg, D, o.cols), jerr(J2, o.dg, D, o.cols), jerr(J3, o.dg, D, o.cols)}), Tol::dg);
      c.judge("dgs dvel", std::max(jerr(dv1, o.dvel, D, o.cols), jerr(dv2, o.dvel, D, o.cols)), Tol::dvel);
      c.judge("dgs dacc", std::max(jerr(da2, o.dacc, D, o.cols), jerr(da3, o.dacc, D, o.cols)), Tol::dacc);
    }
  });
}

inline void common_notes()
{
  mc::assumption("C11: optional outputs are requested in the admissible sets only (acc needs vel, jer needs acc, dacc_dvs needs dvel_dvs: asserted preconditions); cspline_eval_dg_dgs is called with all four sets");
  mc::assumption("C11: u-derivatives of the reference curve are exact Taylor jets (long double) validated against __float128 7-point stencils on a fixed menu per (G, K); Jacobians are 4-point central differences (step 2^-15) of the reference curve");
  mc::assumption("C11: Btilde_i(u) = sum_k u^k Bcum(k,i), i = 1..K (column 0 unused), as in the header formula and basis.hpp's row-vector convention");
}

template<typename G>
void run_lo(const std::string & tn)
{
  common_notes();
  const Setup<G> S;
  Setup<G> S2 = S;  // same alphabet, perturbed-log tables for step 2 eps (step-size self-check)
  S2.build_tables(2 * S.eps);
  selfcheck_closed_forms<G>(S);
  run<1, G>(tn, S, S2);
  run<2, G>(tn, S, S2);
  run<3, G>(tn, S, S2);
  sc_note(tn + " K1-3");
}
template<typename G>
void run_hi(const std::string & tn)
{
  common_notes();
  const Setup<G> S;
  Setup<G> S2 = S;  // same alphabet, perturbed-log tables for step 2 eps (step-size self-check)
  S2.build_tables(2 * S.eps);
  run<4, G>(tn, S, S2);
  run<5, G>(tn, S, S2);
  run<6, G>(tn, S, S2);
  sc_note(tn + " K4-6");
}

}  // namespace c11
