#include "c11.hpp"
MC_SUBCHECK(se2_hi)
{
  using G = smooth::SE2d;
  c11::run_hi<G>("SE2d");
}
