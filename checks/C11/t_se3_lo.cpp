#include "c11.hpp"
MC_SUBCHECK(se3_lo)
{
  using G = smooth::SE3d;
  c11::run_lo<G>("SE3d");
}
