#include "c11.hpp"
MC_SUBCHECK(se2_lo)
{
  using G = smooth::SE2d;
  c11::run_lo<G>("SE2d");
}
