#include "c11.hpp"
MC_SUBCHECK(vec3_lo)
{
  using G = Eigen::Vector3d;
  c11::run_lo<G>("Vector3d");
}
