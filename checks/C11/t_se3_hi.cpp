#include "c11.hpp"
MC_SUBCHECK(se3_hi)
{
  using G = smooth::SE3d;
  c11::run_hi<G>("SE3d");
}
