#include "c11.hpp"
MC_SUBCHECK(vec3_hi)
{
  using G = Eigen::Vector3d;
  c11::run_hi<G>("Vector3d");
}
