#include "c11.hpp"
MC_SUBCHECK(bundle_hi)
{
  using G = smooth::Bundle<smooth::SO3d, Eigen::Vector2d>;
  c11::run_hi<G>("BundleSO3dT2");
}
