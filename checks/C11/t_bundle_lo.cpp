#include "c11.hpp"
MC_SUBCHECK(bundle_lo)
{
  using G = smooth::Bundle<smooth::SO3d, Eigen::Vector2d>;
  c11::run_lo<G>("BundleSO3dT2");
}
