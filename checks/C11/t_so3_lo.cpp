#include "c11.hpp"
MC_SUBCHECK(so3_lo)
{
  using G = smooth::SO3d;
  c11::run_lo<G>("SO3d");
}
