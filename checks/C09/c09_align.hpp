// C09: 3-D rotation / pose alignment problems  min sum_i |R p_i (+ t) - q_i|^2  in several parametrisations
// (SO3 | SE3 | Bundle<SO3,R3> | two arguments (SO3, R3) | two arguments (SO3, dynamic R^3)).
// Data: 3..6 fixed landmarks, target = true transform applied in long double (+ a fixed +-1e-3 sign pattern), rounded
// to double. Reference minimiser: Horn's closed form in long double from exactly those doubles.
#pragma once
#include "c09.hpp"

namespace c09 {
using c09ref::P3;
using c09ref::Rot3;

struct Align3Data
{
  std::string tag;
  int n = 0;
  bool with_t = true;
  std::vector<Eigen::Vector3d> p, q;
  // reference
  Rot3 Rmin{};
  P3 tmin{0, 0, 0};
  P3 paxis{1, 0, 0};  // principal axis of the landmark scatter (rotation by pi about it: stationary point of the noise-free cost)
  Rot3 Rtrue{};
  P3 ttrue{0, 0, 0};
  L gap = 0;
};

inline const std::array<std::array<double, 3>, 6> & landmarks3()
{
  static const std::array<std::array<double, 3>, 6> P = {{{1, 0, 0}, {0, 1, 0}, {0, 0, 1}, {-1, 0.5, 0.25}, {0.25, -0.75, 0.5}, {0.5, 0.75, -1}}};
  return P;
}

/// n landmarks, true transform 0 = identity, 1 = generic; pert = 0, +1 or -1 (times 1e-3 times a fixed sign pattern)
inline Align3Data make_align3(int n, int truth, int pert, bool with_t)
{
  Align3Data d;
  d.n      = n;
  d.with_t = with_t;
  d.tag    = mc::fmt("n%d/%s/%s", n, truth ? "generic" : "identity", pert == 0 ? "exact" : (pert > 0 ? "pert+1e-3" : "pert-1e-3"));
  static const int SG[6][3] = {{1, -1, 1}, {-1, -1, 1}, {1, 1, -1}, {-1, 1, 1}, {1, -1, -1}, {-1, 1, -1}};
  d.Rtrue = truth ? c09ref::rot_axis(P3{0.36L, -0.48L, 0.8L}, 0.7L) : c09ref::rot_axis(P3{1, 0, 0}, 0);
  d.ttrue = (truth && with_t) ? P3{0.5L, -1.0L, 2.0L} : P3{0, 0, 0};
  std::vector<P3> pl, ql;
  for (int i = 0; i < n; ++i) {
    const auto & a = landmarks3()[size_t(i)];
    d.p.emplace_back(a[0], a[1], a[2]);
    const P3 r = d.Rtrue.apply(P3{a[0], a[1], a[2]});
    Eigen::Vector3d q;
    for (int k = 0; k < 3; ++k) q(k) = (double)(r[size_t(k)] + d.ttrue[size_t(k)] + (L)pert * 1e-3L * SG[i][k]);
    d.q.push_back(q);
    pl.push_back(P3{a[0], a[1], a[2]});
    ql.push_back(P3{q(0), q(1), q(2)});
  }
  if (with_t) {
    c09ref::pose_fit(pl, ql, d.Rmin, d.tmin, &d.gap);
  } else {
    d.Rmin = c09ref::horn(pl, ql, &d.gap);
  }
  // principal axis of the (centred, when a translation is estimated) landmark scatter
  {
    P3 c = with_t ? c09ref::centroid(pl) : P3{0, 0, 0};
    c09ref::MatL S = c09ref::zeros(3, 3);
    for (auto & x : pl)
      for (size_t i = 0; i < 3; ++i)
        for (size_t j = 0; j < 3; ++j) S[i][j] += (x[i] - c[i]) * (x[j] - c[j]);
    c09ref::VecL w;
    c09ref::MatL V;
    c09ref::jacobi_eig(S, w, V);
    size_t b = 0;
    for (size_t i = 1; i < 3; ++i)
      if (w[i] > w[b]) b = i;
    d.paxis = P3{V[0][b], V[1][b], V[2][b]};
  }
  // ---- oracle self-checks: closed-form minimiser is a strict local minimum of the long-double cost in every tangent direction,
  //      and for exact data it reproduces the true transform
  {
    const L c0 = c09ref::pose_cost(pl, ql, d.Rmin, d.tmin);
    bool ok    = true;
    const L h  = 1e-5L;
    for (int ax = 0; ax < 3; ++ax)
      for (int sg = -1; sg <= 1; sg += 2) {
        P3 a{0, 0, 0};
        a[size_t(ax)] = 1;
        const Rot3 Rp = c09ref::mul(d.Rmin, c09ref::rot_axis(a, sg * h));
        if (!(c09ref::pose_cost(pl, ql, Rp, d.tmin) > c0)) ok = false;
        if (with_t) {
          P3 tp = d.tmin;
          tp[size_t(ax)] += sg * h;
          if (!(c09ref::pose_cost(pl, ql, d.Rmin, tp) > c0)) ok = false;
        }
      }
    mc::selfcheck("align3: closed-form (Horn) minimiser is a strict local minimum of the long-double cost", ok);
    if (pert == 0) {
      L e = 0;
      for (int i = 0; i < 3; ++i) {
        for (int j = 0; j < 3; ++j) e = std::max(e, std::fabs(d.Rmin.R[i][j] - d.Rtrue.R[i][j]));
        e = std::max(e, std::fabs(d.tmin[size_t(i)] - d.ttrue[size_t(i)]));
      }
      mc::selfcheck("align3: exact data -> closed form reproduces the true transform (1e-14)", e < 1e-14L);
    }
    // well-conditioned: eigen-gap of Horn's matrix bounded away from zero (it is ~ the curvature of the cost)
    mc::selfcheck("align3: Horn eigen-gap >= 0.5 (unique well-conditioned minimiser)", d.gap >= 0.5L);
  }
  return d;
}

/// a start: rotation (long double) and translation
struct Start3
{
  Rot3 R;
  P3 t;
  bool basin;
};
inline int nstarts3() { return 12; }
inline Start3 start3(const Align3Data & d, int s)
{
  static const P3 AX[3] = {{0.36L, -0.48L, 0.8L}, {-0.6L, 0.64L, 0.48L}, {0.48L, 0.6L, -0.64L}};
  static const P3 U     = {1.0L, -0.5L, 0.25L};
  L ang = 0, toff = 0;
  P3 ax = AX[0];
  bool basin = true;
  switch (s) {
  case 0: break;                                             // the minimiser itself
  case 1: ang = 1e-6L; toff = 1e-6L; ax = AX[0]; break;      // near
  case 2: ang = 1e-3L; toff = -1e-3L; ax = AX[1]; break;     // near
  case 3: ang = 0.1L; toff = 0.1L; ax = AX[2]; break;
  case 4: ang = 0.5L; toff = 0.5L; ax = AX[0]; break;        // mid-basin
  case 5: ang = -0.5L; toff = -0.5L; ax = AX[1]; break;      // mid-basin
  case 6: ang = 1.0L; toff = 1.0L; ax = AX[2]; break;        // edge of what is counted as "inside the basin"
  case 7: ang = 2.5L; toff = 3.0L; ax = AX[0]; basin = false; break;               // far: safety only
  case 8: ang = 3.14159265358979323846L - 1e-3L; ax = AX[1]; basin = false; break;  // almost opposite: safety only
  case 9: ang = 3.14159265358979323846L; ax = d.paxis; basin = false; break;        // stationary non-minimiser (zero gradient up to rounding)
  default: break;
  }
  Start3 st;
  st.R = c09ref::mul(d.Rmin, c09ref::rot_axis(ax, ang));
  st.t = d.tmin;
  for (size_t i = 0; i < 3; ++i) st.t[i] += toff * U[i];
  st.basin = basin;
  if (s == 10) {  // the group identity
    st.R = c09ref::rot_axis(P3{1, 0, 0}, 0);
    st.t = P3{0, 0, 0};
  }
  if (s == 11) {  // the true transform (differs from the minimiser only for perturbed data)
    st.R = d.Rtrue;
    st.t = d.ttrue;
  }
  if (s >= 10) {
    // inside the basin iff within 1 rad / 1.2 translation units of the minimiser
    L tr = 0, dt = 0;
    for (int i = 0; i < 3; ++i) {
      for (int j = 0; j < 3; ++j) tr += d.Rmin.R[j][i] * st.R.R[j][i];
      dt = std::max(dt, std::fabs(st.t[size_t(i)] - d.tmin[size_t(i)]));
    }
    const L c = std::min((L)1, std::max((L)-1, (tr - 1) / 2));
    st.basin  = std::acos(c) <= 1.0L && dt <= 1.2L;
  }
  if (!d.with_t) st.t = P3{0, 0, 0};
  return st;
}
inline bool hist3(int s) { return s == 0 || s == 4 || s == 7 || s == 9; }

inline smooth::SO3d so3_of(const Rot3 & R)
{
  ref::Mat<L, 3> M;
  for (int i = 0; i < 3; ++i)
    for (int j = 0; j < 3; ++j) M(i, j) = R.R[i][j];
  L q[4];
  ref::quat_from_R(M, q);
  smooth::SO3d g;
  for (int i = 0; i < 4; ++i) g.coeffs()(i) = (double)q[i];  // (x, y, z, w), normalised in long double
  return g;
}
inline Eigen::Vector3d v3_of(const P3 & t) { return Eigen::Vector3d{snap((double)t[0]), snap((double)t[1]), snap((double)t[2])}; }
inline Eigen::Matrix3d hat3d(const Eigen::Vector3d & p)
{
  Eigen::Matrix3d H;
  H << 0, -p.z(), p.y(), p.z(), 0, -p.x(), -p.y(), p.x(), 0;
  return H;
}
/// distance to the reference minimiser: largest entry-wise difference of rotation matrix and translation;
/// qc = stored quaternion coefficients (x, y, z, w), t = stored translation (nullptr: none)
inline double dist3(const Align3Data & d, const double * qc, const double * t)
{
  const Rot3 R = c09ref::rot_of_quat(qc[3], qc[0], qc[1], qc[2]);
  L e          = 0;
  for (int i = 0; i < 3; ++i)
    for (int j = 0; j < 3; ++j) e = std::max(e, std::fabs(R.R[i][j] - d.Rmin.R[i][j]));
  if (t)
    for (int i = 0; i < 3; ++i) e = std::max(e, std::fabs((L)t[i] - d.tmin[size_t(i)]));
  return (double)e;
}
inline double fscale3(const Align3Data & d, const double * t)
{
  double s = 0, tn = t ? std::sqrt(t[0] * t[0] + t[1] * t[1] + t[2] * t[2]) : 0;
  for (int i = 0; i < d.n; ++i) s = std::max(s, d.p[size_t(i)].norm() + d.q[size_t(i)].norm() + tn);
  return s;
}

/// the problem menu shared by all parametrisations: (n, truth, pert); `quick` marks the quick-tier subset
struct Align3Menu
{
  int n, truth, pert;
  bool quick;
};
inline std::vector<Align3Menu> align3_menu()
{
  std::vector<Align3Menu> v;
  for (int n = 3; n <= 6; ++n)
    for (int truth = 0; truth < 2; ++truth)
      for (int pert : {0, 1, -1}) v.push_back({n, truth, pert, (n == 3 || n == 6) && ((truth == 1 && pert >= 0) || (truth == 0 && pert == -1))});
  return v;
}

}  // namespace c09
