// C09 problem family: rotation alignment on SO3 and pose alignment on SE3 (single static argument, dynamic residual).
#include "c09_align.hpp"

namespace {
using namespace c09;

// ------------------------------------------------------------------ SO3:  r_i = R p_i - q_i
struct FSO3
{
  std::shared_ptr<const Align3Data> d;
  Eigen::VectorXd operator()(const smooth::SO3d & g) const
  {
    Eigen::VectorXd r(3 * d->n);
    for (int i = 0; i < d->n; ++i) r.segment<3>(3 * i) = g * d->p[size_t(i)] - d->q[size_t(i)];
    return r;
  }
  Eigen::Matrix<double, -1, 3> jacobian(const smooth::SO3d & g) const
  {
    Eigen::Matrix<double, -1, 3> J(3 * d->n, 3);
    const Eigen::Matrix3d R = g.matrix();
    for (int i = 0; i < d->n; ++i) J.middleRows<3>(3 * i) = -R * hat3d(d->p[size_t(i)]);
    return J;
  }
};
struct PSO3 : TPBase
{
  using Args = std::tuple<smooth::SO3d>;
  std::shared_ptr<const Align3Data> d;
  explicit PSO3(const Align3Menu & m) : d(std::make_shared<const Align3Data>(make_align3(m.n, m.truth, m.pert, false))) { name = "align/SO3/" + d->tag; }
  bool wellcond() const { return true; }
  int nres() const { return 3 * d->n; }
  int nstarts() const { return nstarts3(); }
  bool basin(int s) const { return start3(*d, s).basin; }
  bool hist(int s) const { return hist3(s); }
  Args start(int s) const { return Args{so3_of(start3(*d, s).R)}; }
  FSO3 functor() const { return FSO3{d}; }
  double fscale(const Args &) const { return fscale3(*d, nullptr); }
  double dist_min(const Args & a) const { return dist3(*d, std::get<0>(a).coeffs().data(), nullptr); }
};

// ------------------------------------------------------------------ SE3:  r_i = g p_i - q_i, tangent (v, w)
struct FSE3
{
  std::shared_ptr<const Align3Data> d;
  Eigen::VectorXd operator()(const smooth::SE3d & g) const
  {
    Eigen::VectorXd r(3 * d->n);
    for (int i = 0; i < d->n; ++i) r.segment<3>(3 * i) = g * d->p[size_t(i)] - d->q[size_t(i)];
    return r;
  }
  Eigen::Matrix<double, -1, 6> jacobian(const smooth::SE3d & g) const
  {
    Eigen::Matrix<double, -1, 6> J(3 * d->n, 6);
    const Eigen::Matrix3d R = g.so3().matrix();
    for (int i = 0; i < d->n; ++i) {
      J.block<3, 3>(3 * i, 0) = R;
      J.block<3, 3>(3 * i, 3) = -R * hat3d(d->p[size_t(i)]);
    }
    return J;
  }
};
struct PSE3 : TPBase
{
  using Args = std::tuple<smooth::SE3d>;
  std::shared_ptr<const Align3Data> d;
  explicit PSE3(const Align3Menu & m) : d(std::make_shared<const Align3Data>(make_align3(m.n, m.truth, m.pert, true))) { name = "align/SE3/" + d->tag; }
  bool wellcond() const { return true; }
  int nres() const { return 3 * d->n; }
  int nstarts() const { return nstarts3(); }
  bool basin(int s) const { return start3(*d, s).basin; }
  bool hist(int s) const { return hist3(s); }
  Args start(int s) const
  {
    const Start3 st = start3(*d, s);
    return Args{smooth::SE3d(so3_of(st.R), v3_of(st.t))};
  }
  FSE3 functor() const { return FSE3{d}; }
  // SE3 coefficients: [t(3), quaternion (x,y,z,w)]
  double fscale(const Args & a) const { return fscale3(*d, std::get<0>(a).coeffs().data()); }
  double dist_min(const Args & a) const { return dist3(*d, std::get<0>(a).coeffs().data() + 3, std::get<0>(a).coeffs().data()); }
};

struct Reg
{
  Reg()
  {
    registrars().push_back([] {
      for (auto & m : align3_menu()) {
        auto a = std::make_shared<const PSO3>(m);
        mc::selfcheck("align: analytic jacobian = central differences", jacobian_selfcheck(*a, 4));
        add_problem<PSO3>(a, m.quick);
        auto b = std::make_shared<const PSE3>(m);
        mc::selfcheck("align: analytic jacobian = central differences", jacobian_selfcheck(*b, 4));
        add_problem<PSE3>(b, m.quick);
      }
    });
  }
} reg;
}  // namespace
