// C09 problem family: linear least squares, static sizes (N = 1..4) and a dynamically sized argument.
// Data menus contain well-conditioned full-rank matrices (convergence clause applies), badly scaled columns,
// rank-deficient (duplicate column) and zero-column Jacobians (safety clauses only), right-hand sides with a
// non-zero residual at the minimiser, exactly representable zero residual at the minimiser / at the start.
#include "c09.hpp"

namespace {
using namespace c09;
using c09ref::MatL;
using c09ref::VecL;

struct LinData
{
  std::string tag;
  std::vector<std::vector<double>> A;  // m x n
  std::vector<double> b;
  std::vector<double> xint;  // a point with exactly representable A x = b (empty: none)
  int log2_scale = 0;        // the whole residual A x - b multiplied by 2^log2_scale (the minimiser does not move)
  int log2_bscale = 0;       // only b multiplied by 2^log2_bscale (the minimiser and the residual at O(1) points scale with it)
};

std::vector<LinData> lin_menu(int n)
{
  // well-conditioned base matrix: (n+1) x n, small integers
  static const double W[5][4] = {{2, 1, 0, -1}, {-1, 2, 1, 0}, {0, -1, 2, 1}, {1, 0, -1, 2}, {1, 1, 1, 1}};
  auto base = [&](int m) {
    std::vector<std::vector<double>> A((size_t)m, std::vector<double>((size_t)n, 0.0));
    for (int i = 0; i < m; ++i)
      for (int j = 0; j < n; ++j) A[size_t(i)][size_t(j)] = W[i][j];
    return A;
  };
  const int m = n + 1;
  std::vector<LinData> v;
  auto mulA = [&](const std::vector<std::vector<double>> & A, const std::vector<double> & x) {
    std::vector<double> r(A.size(), 0.0);
    for (size_t i = 0; i < A.size(); ++i)
      for (size_t j = 0; j < x.size(); ++j) r[i] += A[i][j] * x[j];
    return r;
  };
  const std::vector<double> xi_full = {3, -2, 1, 4};
  const std::vector<double> xi(xi_full.begin(), xi_full.begin() + n);
  const std::vector<double> bg_full = {1, -2, 0.5, 3, -1.5};
  const std::vector<double> bg(bg_full.begin(), bg_full.begin() + m);
  // 0: well conditioned, generic b (non-zero residual at the minimiser)
  v.push_back({"wc", base(m), bg, {}});
  // 1: well conditioned, b = A*xint exactly (zero residual at the minimiser; start menu contains xint)
  v.push_back({"wc0", base(m), mulA(base(m), xi), xi});
  // 2: b = 0: minimiser at the origin, zero residual there
  v.push_back({"wcb0", base(m), std::vector<double>(size_t(m), 0.0), std::vector<double>(size_t(n), 0.0)});
  // 3: badly scaled columns (1, 1e3, 1e-3, 1e2): safety only
  {
    auto A = base(m);
    const double sc[4] = {1, 1e3, 1e-3, 1e2};
    for (auto & r : A)
      for (int j = 0; j < n; ++j) r[size_t(j)] *= sc[j];
    v.push_back({"scaled", A, bg, {}});
  }
  // 4: zero column (last column zero): Jacobian has a zero column, minimiser not unique
  {
    auto A = base(m);
    for (auto & r : A) r[size_t(n - 1)] = 0;
    v.push_back({"zerocol", A, bg, {}});
  }
  // 5: all-zero Jacobian
  {
    auto A = base(m);
    for (auto & r : A)
      for (auto & e : r) e = 0;
    v.push_back({"zeroJ", A, bg, {}});
  }
  if (n >= 2) {
    // 6: rank deficient: last column duplicates the first
    auto A = base(m);
    for (auto & r : A) r[size_t(n - 1)] = r[0];
    v.push_back({"rankdef", A, bg, {}});
    // 7: rank deficient with zero residual at start: b = A*xint
    v.push_back({"rankdef0", A, mulA(A, xi), xi});
  }
  // the well-conditioned generic instance with the whole residual scaled by a power of two (same minimiser, same condition
  // number): "linear least squares with a unique well-conditioned minimiser" does not depend on the unit of the residual
  for (int e : {-27, -17, 27}) {
    auto A = base(m);
    auto b = bg;
    const double sc = std::ldexp(1.0, e);
    for (auto & r : A)
      for (auto & x : r) x *= sc;
    for (auto & x : b) x *= sc;
    v.push_back({"wc*2^" + std::to_string(e), A, b, {}, e});
  }
  // the well-conditioned generic instance with a right-hand side of magnitude 2^530 ~ 3.5e159 (fifth seeded round): residual
  // norms whose SQUARE is not representable in double, while A, J'J, J'r, the step and the minimiser (~1e159) all are. Only the
  // modes that use the functor's exact Jacobian are run (a finite-difference step cannot resolve f at arguments of this size:
  // outside the premise of numerical differentiation), and the distance to the minimiser is measured relative to its size.
  {
    auto b = bg;
    for (auto & x : b) x = std::ldexp(x, 530);
    v.push_back({"wc,b*2^530", base(m), b, {}, 0, 530});
  }
  return v;
}

const double U[4] = {1, -1, 0.5, -0.25};

/// common part of the static and dynamic linear problems
struct LinCommon : TPBase
{
  LinData d;
  int n = 0, m = 0;
  bool wc = false;
  std::vector<double> xmin;  // closed-form minimiser rounded to double (or the origin when it is not unique)
  VecL xminL;
  void init(const LinData & dd)
  {
    d = dd;
    log2_res_scale = d.log2_scale;
    m = int(d.A.size());
    n = int(d.A[0].size());
    MatL A((size_t)m, VecL((size_t)n, 0));
    VecL b((size_t)m, 0);
    for (int i = 0; i < m; ++i) {
      b[size_t(i)] = d.b[size_t(i)];
      for (int j = 0; j < n; ++j) A[size_t(i)][size_t(j)] = d.A[size_t(i)][size_t(j)];
    }
    const L k = c09ref::cond(A);
    wc        = k <= 10;  // "well-conditioned": cond(A) <= 10
    xmin.assign(size_t(n), 0.0);
    if (std::isfinite((double)k) && c09ref::lstsq(A, b, xminL)) {
      for (int j = 0; j < n; ++j) xmin[size_t(j)] = (double)xminL[size_t(j)];
      // oracle self-check: gradient A^T (A x* - b) vanishes in long double
      L g = 0, sc = 0;
      for (int j = 0; j < n; ++j) {
        L s = 0;
        for (int i = 0; i < m; ++i) {
          L r = -b[size_t(i)];
          for (int l = 0; l < n; ++l) r += A[size_t(i)][size_t(l)] * xminL[size_t(l)];
          s += A[size_t(i)][size_t(j)] * r;
          sc += std::fabs(A[size_t(i)][size_t(j)]) * (std::fabs(b[size_t(i)]) + 1);
        }
        g = std::max(g, std::fabs(s));
      }
      mc::selfcheck("linear: normal-equation minimiser has zero gradient (long double)", g <= 1e-15L * k * k * sc);
    } else {
      wc = false;
      xminL.assign(size_t(n), 0);
    }
  }
  bool wellcond() const { return wc; }
  unsigned modes() const { return d.log2_bscale ? 0x6u : 0xFu; }  // Analytic and Default(jacobian) only for the huge right-hand side
  int nres() const { return m; }
  int nstarts() const { return 9; }
  bool basin(int) const { return true; }  // a full-rank linear problem is convex: every start is inside the basin
  bool hist(int s) const { return s == 0 || s == 3 || s == 6 || s == 7; }
  std::vector<double> startv(int s) const
  {
    std::vector<double> x((size_t)n, 0.0);
    for (int j = 0; j < n; ++j) {
      const double c = xmin[size_t(j)], u = U[j];
      switch (s) {
      case 0: x[size_t(j)] = c; break;                  // the minimiser itself (zero gradient up to rounding)
      case 1: x[size_t(j)] = c + 1e-6 * u; break;       // near
      case 2: x[size_t(j)] = c + 1e-2 * u; break;       // near
      case 3: x[size_t(j)] = c + u; break;              // mid
      case 4: x[size_t(j)] = c + 100 * u; break;        // far (still in the basin: convex)
      case 5: x[size_t(j)] = 0; break;                  // origin
      case 6: x[size_t(j)] = d.xint.empty() ? c - 3 * u : d.xint[size_t(j)]; break;  // exact zero residual at start
      case 7: x[size_t(j)] = 1e3 * u; break;            // large
      default: x[size_t(j)] = c * (1 + 1e-9); break;    // a few hundred ulps from the minimiser
      }
      x[size_t(j)] = snap(x[size_t(j)]);
    }
    return x;
  }
  double fscale_v(const double * x) const
  {
    double s = 0;
    for (int i = 0; i < m; ++i) {
      double t = std::fabs(d.b[size_t(i)]);
      for (int j = 0; j < n; ++j) t += std::fabs(d.A[size_t(i)][size_t(j)] * x[j]);
      s = std::max(s, t);
    }
    return s;
  }
  double dist_v(const double * x) const
  {
    if (!wc) return NAN;
    L e = 0;
    for (int j = 0; j < n; ++j) e = std::max(e, std::fabs((L)x[j] - xminL[size_t(j)]));
    if (d.log2_bscale) {  // relative to the size of the minimiser
      L sz = 1;
      for (int j = 0; j < n; ++j) sz = std::max(sz, std::fabs(xminL[size_t(j)]));
      e /= sz;
    }
    return (double)e;
  }
};

// ------------------------------------------------------------------ static sizes
template<int M, int N>
struct LinFS
{
  Eigen::Matrix<double, M, N> A;
  Eigen::Matrix<double, M, 1> b;
  Eigen::Matrix<double, M, 1> operator()(const Eigen::Matrix<double, N, 1> & x) const { return A * x - b; }
  Eigen::Matrix<double, M, N> jacobian(const Eigen::Matrix<double, N, 1> &) const { return A; }
};
template<int N>
struct LinS : LinCommon
{
  static constexpr int M = N + 1;
  using Args = std::tuple<Eigen::Matrix<double, N, 1>>;
  LinFS<M, N> f;
  explicit LinS(const LinData & dd)
  {
    init(dd);
    name = "lin/static" + std::to_string(N) + "/" + d.tag;
    for (int i = 0; i < M; ++i) {
      f.b(i) = d.b[size_t(i)];
      for (int j = 0; j < N; ++j) f.A(i, j) = d.A[size_t(i)][size_t(j)];
    }
  }
  Args start(int s) const
  {
    auto v = startv(s);
    Eigen::Matrix<double, N, 1> x;
    for (int j = 0; j < N; ++j) x(j) = v[size_t(j)];
    return Args{x};
  }
  LinFS<M, N> functor() const { return f; }
  double fscale(const Args & a) const { return fscale_v(std::get<0>(a).data()); }
  double dist_min(const Args & a) const { return dist_v(std::get<0>(a).data()); }
};

// ------------------------------------------------------------------ dynamic size (argument and residual Eigen::VectorXd)
struct LinFD
{
  Eigen::MatrixXd A;
  Eigen::VectorXd b;
  Eigen::VectorXd operator()(const Eigen::VectorXd & x) const { return A * x - b; }
  Eigen::MatrixXd jacobian(const Eigen::VectorXd &) const { return A; }
};
struct LinD : LinCommon
{
  using Args = std::tuple<Eigen::VectorXd>;
  LinFD f;
  explicit LinD(const LinData & dd)
  {
    init(dd);
    name = "lin/dynamic" + std::to_string(n) + "/" + d.tag;
    f.A.resize(m, n);
    f.b.resize(m);
    for (int i = 0; i < m; ++i) {
      f.b(i) = d.b[size_t(i)];
      for (int j = 0; j < n; ++j) f.A(i, j) = d.A[size_t(i)][size_t(j)];
    }
  }
  Args start(int s) const
  {
    auto v = startv(s);
    Eigen::VectorXd x(n);
    for (int j = 0; j < n; ++j) x(j) = v[size_t(j)];
    return Args{x};
  }
  LinFD functor() const { return f; }
  double fscale(const Args & a) const { return fscale_v(std::get<0>(a).data()); }
  double dist_min(const Args & a) const { return dist_v(std::get<0>(a).data()); }
};

template<int N>
void reg_static()
{
  int k = 0;
  for (auto & d : lin_menu(N)) {
    auto p = std::make_shared<const LinS<N>>(d);
    // (the huge right-hand side instance has the same constant Jacobian A as the generic one; differences of f cancel there)
    if (!d.log2_bscale) mc::selfcheck("linear: analytic jacobian = central differences", jacobian_selfcheck(*p, 3));
    // quick tier: sizes 1 and 3 completely, the others only the generic well-conditioned and the rank-deficient instance
    add_problem<LinS<N>>(p, N == 1 || N == 3 || k == 0 || k == 6);
    ++k;
  }
}

struct Reg
{
  Reg()
  {
    registrars().push_back([] {
      reg_static<1>();
      reg_static<2>();
      reg_static<3>();
      reg_static<4>();
      for (int n = 1; n <= 4; ++n) {
        int k = 0;
        for (auto & d : lin_menu(n)) {
          auto p = std::make_shared<const LinD>(d);
          add_problem<LinD>(p, n == 2 || n == 4 || k == 1 || k == 4);
          ++k;
        }
      }
    });
  }
} reg;
}  // namespace
