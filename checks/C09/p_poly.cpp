// C09 problem family: polynomial residuals (scalar `double` argument and a 2-vector argument).
// Safety clauses only (the statement's convergence clause names linear least squares and alignment problems).
// Starts include points with vanishing Jacobian / gradient (x = 0 for x^2 - 2, the origin for the circle problem).
#include "c09.hpp"

namespace {
using namespace c09;

// ------------------------------------------------------------------ scalar argument
struct Poly1F
{
  double a[4], b[2];
  Eigen::Vector2d operator()(const double & x) const { return Eigen::Vector2d{a[0] + x * (a[1] + x * (a[2] + x * a[3])), b[0] + b[1] * x}; }
  Eigen::Matrix<double, 2, 1> jacobian(const double & x) const { return Eigen::Matrix<double, 2, 1>{a[1] + x * (2 * a[2] + x * 3 * a[3]), b[1]}; }
};
struct Poly1 : TPBase
{
  using Args = std::tuple<double>;
  Poly1F f;
  std::vector<double> starts;
  Poly1(const std::string & tag, std::array<double, 4> a, std::array<double, 2> b, std::vector<double> st) : starts(std::move(st))
  {
    name = "poly/scalar/" + tag;
    for (int i = 0; i < 4; ++i) f.a[i] = a[size_t(i)];
    f.b[0] = b[0];
    f.b[1] = b[1];
  }
  bool wellcond() const { return false; }
  int nres() const { return 2; }
  int nstarts() const { return int(starts.size()); }
  bool basin(int) const { return false; }
  bool hist(int s) const { return s < 4; }
  Args start(int s) const { return Args{starts[size_t(s)]}; }
  Poly1F functor() const { return f; }
  double fscale(const Args & t) const
  {
    const double x = std::fabs(std::get<0>(t));
    return std::max(std::fabs(f.a[0]) + x * (std::fabs(f.a[1]) + x * (std::fabs(f.a[2]) + x * std::fabs(f.a[3]))), std::fabs(f.b[0]) + std::fabs(f.b[1]) * x);
  }
  double dist_min(const Args &) const { return NAN; }
};

// ------------------------------------------------------------------ s * atan(k x): Gauss-Newton steps overshoot for |k x| > 1.39
// (a trial step that must be rejected), at unit scale and with a tiny residual on a steep graph (|f| < 2.2e-16, |J| > 1e-6)
struct AtanF
{
  double s, k;
  Eigen::Matrix<double, 1, 1> operator()(const double & x) const { return Eigen::Matrix<double, 1, 1>{s * std::atan(k * x)}; }
  Eigen::Matrix<double, 1, 1> jacobian(const double & x) const { return Eigen::Matrix<double, 1, 1>{s * k / (1 + (k * x) * (k * x))}; }
};
struct Atan1 : TPBase
{
  using Args = std::tuple<double>;
  AtanF f;
  std::vector<double> starts;
  Atan1(const std::string & tag, double s, double k)
  {
    name = "poly/scalar/atan/" + tag;
    f.s  = s;
    f.k  = k;
    log2_res_scale = std::log2(s);
    conv_max_tol   = 1e-6;
    for (double c : {3.0, 0.5, -10.0, 1.5, 1e-3, 0.0, -1.3917452002707}) starts.push_back(c / k);
  }
  // unit and 2^-7 scale: a unique minimiser x = 0 with J(0) = s, and the damped iteration converges from every start (the residual is
  // monotone): the convergence clause applies. The scaled-down variants are judged on the safety clauses only.
  bool wellcond() const { return f.s >= 0.0078125; }
  int nres() const { return 1; }
  int nstarts() const { return int(starts.size()); }
  bool basin(int) const { return f.s >= 0.0078125; }
  bool hist(int s) const { return s < 3; }
  Args start(int s) const { return Args{starts[size_t(s)]}; }
  AtanF functor() const { return f; }
  double fscale(const Args &) const { return f.s * 1.5707963267948966; }
  double dist_min(const Args & a) const { return f.s >= 0.0078125 ? std::fabs(std::get<0>(a)) : NAN; }
};

// ------------------------------------------------------------------ 2-vector argument
struct Poly2F
{
  int kind;
  Eigen::Vector2d operator()(const Eigen::Vector2d & v) const
  {
    const double x = v(0), y = v(1);
    switch (kind) {
    case 0: return {10 * (y - x * x), 1 - x};          // Rosenbrock
    case 1: return {x * x + y * y - 1, x - y};           // circle / diagonal
    case 2: return {x * y - 1, x + y - 3};               // hyperbola / line (two zero-residual solutions)
    default: return {x * x * x - y, 0.1 * (y * y - 4)};  // cubic
    }
  }
  Eigen::Matrix2d jacobian(const Eigen::Vector2d & v) const
  {
    const double x = v(0), y = v(1);
    Eigen::Matrix2d J;
    switch (kind) {
    case 0: J << -20 * x, 10, -1, 0; break;
    case 1: J << 2 * x, 2 * y, 1, -1; break;
    case 2: J << y, x, 1, 1; break;
    default: J << 3 * x * x, -1, 0, 0.2 * y; break;
    }
    return J;
  }
};
struct Poly2 : TPBase
{
  using Args = std::tuple<Eigen::Vector2d>;
  Poly2F f;
  std::vector<std::array<double, 2>> starts;
  Poly2(const std::string & tag, int kind, std::vector<std::array<double, 2>> st) : starts(std::move(st))
  {
    name   = "poly/vec2/" + tag;
    f.kind = kind;
  }
  bool wellcond() const { return false; }
  int nres() const { return 2; }
  int nstarts() const { return int(starts.size()); }
  bool basin(int) const { return false; }
  bool hist(int s) const { return s < 4; }
  Args start(int s) const { return Args{Eigen::Vector2d{starts[size_t(s)][0], starts[size_t(s)][1]}}; }
  Poly2F functor() const { return f; }
  double fscale(const Args & t) const
  {
    const double x = std::fabs(std::get<0>(t)(0)), y = std::fabs(std::get<0>(t)(1));
    switch (f.kind) {
    case 0: return std::max(10 * (y + x * x), 1 + x);
    case 1: return std::max(x * x + y * y + 1, x + y);
    case 2: return std::max(x * y + 1, x + y + 3);
    default: return std::max(x * x * x + y, 0.1 * (y * y + 4));
    }
  }
  double dist_min(const Args &) const { return NAN; }
};

struct Reg
{
  Reg()
  {
    registrars().push_back([] {
      const double s2 = 1.4142135623730951;
      std::vector<std::shared_ptr<const Poly1>> p1 = {
        // x^2 - 2: J = 0 at x = 0 (degenerate zero gradient, rho undefined), roots +-sqrt 2
        std::make_shared<const Poly1>("x2-2", std::array<double, 4>{-2, 0, 1, 0}, std::array<double, 2>{0, 0}, std::vector<double>{0, 1, s2, -3, 1e-8, 10, -1e3, s2 * (1 + 1e-12), 1e-14}),
        // x^2 + 1: minimiser x = 0 has J = 0 and residual 1
        std::make_shared<const Poly1>("x2+1", std::array<double, 4>{1, 0, 1, 0}, std::array<double, 2>{0, 0}, std::vector<double>{0, 1, -1e-3, 5, 1e-8, -40, 1e-14, -3e-11}),
        // (x^3 - x, x - 1/2)
        std::make_shared<const Poly1>("cubic", std::array<double, 4>{0, -1, 0, 1}, std::array<double, 2>{-0.5, 1}, std::vector<double>{0, 1, 0.5, -1, 0.5773502691896258, 3, -10}),
        // (x^2 - 1, 0.1 (x - 2)): non-zero residual at the minimiser
        std::make_shared<const Poly1>("x2-1+lin", std::array<double, 4>{-1, 0, 1, 0}, std::array<double, 2>{-0.2, 0.1}, std::vector<double>{0, 1, -1, 2, 1e-4, 30}),
      };
      for (auto & p : p1) {
        mc::selfcheck("poly: analytic jacobian = central differences", jacobian_selfcheck(*p, 1));
        add_problem<Poly1>(p);
      }
      for (auto & p : {std::make_shared<const Atan1>("unit", 1.0, 1.0), std::make_shared<const Atan1>("s=2^-7", 0.0078125, 1.0), std::make_shared<const Atan1>("s=2^-30", std::ldexp(1.0, -30), 1.0),
             std::make_shared<const Atan1>("s=2^-54,k=2^40", std::ldexp(1.0, -54), std::ldexp(1.0, 40))}) {
        add_problem<Atan1>(p);
      }
      std::vector<std::shared_ptr<const Poly2>> p2 = {
        std::make_shared<const Poly2>("rosenbrock", 0, std::vector<std::array<double, 2>>{{-1.2, 1}, {1, 1}, {0, 0}, {1.2, 1.2}, {-3, 5}, {1 + 1e-6, 1 - 1e-6}, {0, 10}}),
        std::make_shared<const Poly2>("circle", 1, std::vector<std::array<double, 2>>{{0, 0}, {1, 0}, {0.7071067811865476, 0.7071067811865476}, {-2, 3}, {1e-9, -1e-9}, {5, 5}}),
        std::make_shared<const Poly2>("hyperbola", 2, std::vector<std::array<double, 2>>{{0, 0}, {1.5, 1.5}, {2.618033988749895, 0.3819660112501051}, {3, -1}, {-4, 10}, {1, 1}}),
        std::make_shared<const Poly2>("cubic", 3, std::vector<std::array<double, 2>>{{0, 0}, {1, 1}, {1.2599210498948732, 2}, {-1, -2}, {3, 0}, {0, 2}}),
      };
      for (auto & p : p2) {
        mc::selfcheck("poly: analytic jacobian = central differences", jacobian_selfcheck(*p, 1));
        add_problem<Poly2>(p);
      }
    });
  }
} reg;
}  // namespace
