// C09 problem family: functors whose `jacobian` returns an Eigen::SparseMatrix (minimize then factorises with SimplicialLDLT).
//   * sparse linear least squares in a dynamic Eigen::VectorXd argument (signal smoothing: x_i - z_i, w (x_{i+1} - x_i));
//     closed form by long-double normal equations
//   * the three-rotation chain of upstream's test_nls (noise-free, zero residual at the solution):
//       f = [ log g1 ; (g3 - g2) - d23 ; (g1 - g3) - d31 ]   =>   g1 = I, g3 = exp(-d31), g2 = g3 exp(-d23)
#include "c09_align.hpp"

namespace {
using namespace c09;
using c09ref::MatL;
using c09ref::VecL;

// ------------------------------------------------------------------ sparse linear
struct FSpLin
{
  std::shared_ptr<const Eigen::VectorXd> z;
  double w;
  Eigen::VectorXd operator()(const Eigen::VectorXd & x) const
  {
    const Eigen::Index n = x.size();
    Eigen::VectorXd r(2 * n - 1);
    r.head(n) = x - *z;
    for (Eigen::Index i = 0; i + 1 < n; ++i) r(n + i) = w * (x(i + 1) - x(i));
    return r;
  }
  Eigen::SparseMatrix<double> jacobian(const Eigen::VectorXd & x) const
  {
    const Eigen::Index n = x.size();
    Eigen::SparseMatrix<double> J(2 * n - 1, n);
    for (Eigen::Index i = 0; i < n; ++i) J.insert(i, i) = 1;
    for (Eigen::Index i = 0; i + 1 < n; ++i) {
      J.insert(n + i, i + 1) = w;
      J.insert(n + i, i)     = -w;
    }
    J.makeCompressed();
    return J;
  }
};
struct PSpLin : TPBase
{
  using Args = std::tuple<Eigen::VectorXd>;
  std::shared_ptr<Eigen::VectorXd> z = std::make_shared<Eigen::VectorXd>();
  double w;
  int n;
  VecL xminL;
  PSpLin(int n_, double w_) : w(w_), n(n_)
  {
    name = mc::fmt("sparse/linear/n%d/w%g", n, w);
    static const double Z[8] = {0, 1, 0.5, -0.25, 2, 1.5, -1, 0.75};
    z->resize(n);
    for (int i = 0; i < n; ++i) (*z)(i) = Z[i];
    MatL A = c09ref::zeros(size_t(2 * n - 1), size_t(n));
    VecL b(size_t(2 * n - 1), 0);
    for (int i = 0; i < n; ++i) {
      A[size_t(i)][size_t(i)] = 1;
      b[size_t(i)]            = Z[i];
    }
    for (int i = 0; i + 1 < n; ++i) {
      A[size_t(n + i)][size_t(i + 1)] = w;
      A[size_t(n + i)][size_t(i)]     = -(L)w;
    }
    mc::selfcheck("sparse linear: normal equations solvable", c09ref::lstsq(A, b, xminL));
    mc::selfcheck("sparse linear: well conditioned (cond <= 10)", c09ref::cond(A) <= 10);
  }
  bool wellcond() const { return true; }
  int nres() const { return 2 * n - 1; }
  int nstarts() const { return 7; }
  bool basin(int) const { return true; }
  bool hist(int s) const { return s == 0 || s == 3 || s == 5; }
  Args start(int s) const
  {
    Eigen::VectorXd x(n);
    for (int i = 0; i < n; ++i) {
      const double xm = (double)xminL[size_t(i)], u = (i % 2 ? -1.0 : 1.0) * (1 + 0.25 * i);
      switch (s) {
      case 0: x(i) = xm; break;
      case 1: x(i) = xm + 1e-6 * u; break;
      case 2: x(i) = xm + 1e-2 * u; break;
      case 3: x(i) = xm + u; break;
      case 4: x(i) = (*z)(i); break;
      case 5: x(i) = 0; break;
      default: x(i) = 100 * u; break;
      }
      x(i) = snap(x(i));
    }
    return Args{x};
  }
  FSpLin functor() const { return FSpLin{z, w}; }
  double fscale(const Args & a) const { return (2 * std::get<0>(a).cwiseAbs().maxCoeff() + 2) * std::max(1.0, w); }
  double dist_min(const Args & a) const
  {
    const auto & x = std::get<0>(a);
    if (x.size() != n) return INFINITY;
    L e = 0;
    for (int i = 0; i < n; ++i) e = std::max(e, std::fabs((L)x(i) - xminL[size_t(i)]));
    return (double)e;
  }
};

// ------------------------------------------------------------------ three-rotation chain with sparse analytic Jacobian
struct FChain
{
  Eigen::Vector3d d23, d31;
  Eigen::VectorXd operator()(const smooth::SO3d & g1, const smooth::SO3d & g2, const smooth::SO3d & g3) const
  {
    Eigen::VectorXd f(9);
    f.segment<3>(0) = g1.log();
    f.segment<3>(3) = (g3 - g2) - d23;
    f.segment<3>(6) = (g1 - g3) - d31;
    return f;
  }
  Eigen::SparseMatrix<double> jacobian(const smooth::SO3d & g1, const smooth::SO3d & g2, const smooth::SO3d & g3) const
  {
    const Eigen::Matrix3d a  = smooth::SO3d::dr_expinv(g1.log());
    const Eigen::Matrix3d b3 = smooth::SO3d::dr_expinv(g3 - g2), b2 = -smooth::SO3d::dl_expinv(g3 - g2);
    const Eigen::Matrix3d c1 = smooth::SO3d::dr_expinv(g1 - g3), c3 = -smooth::SO3d::dl_expinv(g1 - g3);
    Eigen::SparseMatrix<double> J(9, 9);
    for (int i = 0; i < 3; ++i)
      for (int j = 0; j < 3; ++j) {
        J.insert(i, j)         = a(i, j);
        J.insert(3 + i, 3 + j) = b2(i, j);
        J.insert(3 + i, 6 + j) = b3(i, j);
        J.insert(6 + i, 6 + j) = c3(i, j);
        J.insert(6 + i, j)     = c1(i, j);
      }
    J.makeCompressed();
    return J;
  }
};
Rot3 rot_of_vec(const Eigen::Vector3d & v, L sign)
{
  const L n = std::sqrt((L)v(0) * v(0) + (L)v(1) * v(1) + (L)v(2) * v(2));
  if (n == 0) return c09ref::rot_axis(P3{1, 0, 0}, 0);
  return c09ref::rot_axis(P3{(L)v(0) / n, (L)v(1) / n, (L)v(2) / n}, sign * n);
}
struct PChain : TPBase
{
  using Args = std::tuple<smooth::SO3d, smooth::SO3d, smooth::SO3d>;
  FChain f;
  Rot3 R1, R2, R3;
  PChain(const std::string & tag, const Eigen::Vector3d & d23, const Eigen::Vector3d & d31)
  {
    name  = "sparse/chain3xSO3/" + tag;
    f.d23 = d23;
    f.d31 = d31;
    R1    = c09ref::rot_axis(P3{1, 0, 0}, 0);
    R3    = rot_of_vec(d31, -1);
    R2    = c09ref::mul(R3, rot_of_vec(d23, -1));
  }
  bool wellcond() const { return true; }
  int nres() const { return 9; }
  int nstarts() const { return 8; }
  static L ang(int s)
  {
    static const L a[8] = {0, 1e-6L, 1e-3L, 0.1L, 0.5L, -0.5L, 2.5L, 3.1405926535897932L};
    return a[s];
  }
  bool basin(int s) const { return s <= 5; }
  bool hist(int s) const { return s == 0 || s == 4 || s == 6; }
  Args start(int s) const
  {
    static const P3 AX[3] = {{0.36L, -0.48L, 0.8L}, {-0.6L, 0.64L, 0.48L}, {0.48L, 0.6L, -0.64L}};
    return Args{so3_of(c09ref::mul(R1, c09ref::rot_axis(AX[0], ang(s)))), so3_of(c09ref::mul(R2, c09ref::rot_axis(AX[1], -ang(s)))),
      so3_of(c09ref::mul(R3, c09ref::rot_axis(AX[2], ang(s) / 2)))};
  }
  FChain functor() const { return f; }
  double fscale(const Args &) const { return 4 + f.d23.norm() + f.d31.norm(); }
  static L rdiff(const smooth::SO3d & g, const Rot3 & R)
  {
    const auto & c = g.coeffs();
    const Rot3 G   = c09ref::rot_of_quat(c(3), c(0), c(1), c(2));
    L e            = 0;
    for (int i = 0; i < 3; ++i)
      for (int j = 0; j < 3; ++j) e = std::max(e, std::fabs(G.R[i][j] - R.R[i][j]));
    return e;
  }
  double dist_min(const Args & a) const { return (double)std::max({rdiff(std::get<0>(a), R1), rdiff(std::get<1>(a), R2), rdiff(std::get<2>(a), R3)}); }
};

struct Reg
{
  Reg()
  {
    registrars().push_back([] {
      for (int n : {2, 5, 8})
        for (double w : {0.5, 2.0}) {
          auto p = std::make_shared<const PSpLin>(n, w);
          mc::selfcheck("sparse: analytic jacobian = central differences", jacobian_selfcheck(*p, 3));
          add_problem<PSpLin>(p, n != 5);
        }
      {
        auto p = std::make_shared<const PChain>("generic", Eigen::Vector3d(0.3, -0.2, 0.5), Eigen::Vector3d(-0.4, 0.1, 0.25));
        mc::selfcheck("sparse: analytic jacobian = central differences", jacobian_selfcheck(*p, 3));
        // oracle self-check: the closed-form solution has zero residual (evaluated with the user functor, 1e-14)
        mc::selfcheck("chain: closed-form solution has zero residual", std::apply(p->functor(), p->start(0)).norm() < 1e-14);
        add_problem<PChain>(p);
        auto q = std::make_shared<const PChain>("zero", Eigen::Vector3d(0, 0, 0), Eigen::Vector3d(0, 0, 0));
        add_problem<PChain>(q);
      }
    });
  }
} reg;
}  // namespace
