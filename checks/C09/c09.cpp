// C09 — minimize never makes things worse, terminates, and finds the minimiser.
//
// E  problems x starts x modes x max_iter x ptol x ftol x strategy state, all enumerated. Strategy states are the two
//    default-constructed strategy objects (sub-check a_fresh) and every state reachable by a BFS over solve histories
//    (sub-check b_history: the state left in MinimizeOptions::strat by one / two previous solves, merged by the exact
//    bytes of the private fields).
// O  every judged case executes minimize twice from the same strategy state: with max_iter = m (run A, judged) and
//    with max_iter = m+1 (run B, only used to decide why A stopped).
//      safety (from every reachable strategy state):
//        * first callback at the start point, one callback per accepted step, cost |f|^2 (recomputed by the harness,
//          summed in long double) non-increasing up to the rounding error of evaluating f
//        * arguments on return = last callback
//        * iter <= max_iter, callbacks <= iter + 1
//        * status contract: status != MaxIters  =>  B is identical to A (status, iter, trace, arguments);
//                           status == MaxIters  =>  A.iter == m, B.iter == m+1 and B's trace extends A's
//      convergence (only from fresh state or a state left by a converged solve, only for starts inside the basin of
//        problems with a closed-form well-conditioned minimiser): Ftol/Ptol result within 1e-3 of that minimiser.
#include "c09.hpp"

#include <atomic>
#include <map>
#include <thread>

namespace c09 {
std::vector<Problem> & problems()
{
  static std::vector<Problem> v;
  return v;
}
std::vector<std::function<void()>> & registrars()
{
  static std::vector<std::function<void()>> v;
  return v;
}
}  // namespace c09

namespace {
using namespace c09;

// ------------------------------------------------------------------ calibrated constants
// The statement allows a cost increase "up to the rounding error of evaluating f" and gives no number. The error
// measure of the two cost judgements is therefore the perturbation |df| of |f| that is needed to explain the observed
// increase, in units of eps * sqrt(m) * fscale (m residuals, fscale = magnitude of the terms summed inside f), after
// discounting 4 eps |f|^2 for the norm computations. Calibration (DESIGN section 7: max(100 x worst observed, 64)) on
// the tree on which the check runs clean (pinned tree + repair of the two C09 defects, thorough tier, all reachable
// strategy states): worst per step 2.75, worst start-to-return 17.3 per callback (Numerical mode: dr_numerical
// leaves the arguments a few ulps off after every iteration, the C08 restore defect; 0.3 / 0.3 in Analytic mode).
constexpr double KF_STEP = 300;
constexpr double KF_RET  = 2000;
// arguments on return vs last callback, relative per coefficient, in units of eps. Exactly 0 in Analytic mode;
// Numerical mode: worst observed 28.5 eps (same C08 restore drift, accumulates over rejected iterations).
constexpr double KFINAL = 3000;

void build_menu()
{
  static bool done = false;
  if (done) return;
  done = true;
  for (auto & r : registrars()) r();
  auto & P = problems();
  std::sort(P.begin(), P.end(), [](const Problem & a, const Problem & b) { return a.name < b.name; });
  for (size_t i = 1; i < P.size(); ++i)
    if (P[i].name == P[i - 1].name) mc::harness_error("duplicate problem name " + P[i].name);
  // representatives (one or two per family / argument type) for the judged menu of depth-2 history states
  static const char * const DEEP[] = {"lin/static3/wc", "lin/static3/rankdef", "lin/dynamic2/wc0", "poly/scalar/x2+1", "poly/vec2/rosenbrock",
    "align/SO3/n3/generic/exact", "align/SE3/n6/generic/pert+1e-3", "align/SE2/n3/generic/pert+1e-3", "curve/vector<Vector2d>/K3/w0.5",
    "twoarg/(SO3,VectorXd)/n3/generic/exact", "sparse/chain3xSO3/generic", "sparse/linear/n8/w2"};
  size_t ndeep = 0;
  for (auto & p : P)
    for (auto * nm : DEEP)
      if (p.name == nm) {
        p.deep = true;
        ++ndeep;
      }
  if (mc::thorough()) mc::selfcheck("menu: all depth-2 representatives exist", ndeep == sizeof(DEEP) / sizeof(DEEP[0]));
  size_t wc = 0, basin = 0;
  for (auto & p : P)
    if (p.wellcond) {
      ++wc;
      for (char b : p.basin) basin += b ? 1 : 0;
    }
  mc::selfcheck("menu: convergence clause is not vacuous (well-conditioned problems with in-basin starts exist)", wc > 0 && basin > 0);
  mc::assumption("convergence clause judged only for: full-rank linear problems with cond(A) <= 10, alignment problems with 3-6 fixed landmarks "
                 "(Horn eigen-gap >= 0.5), noise-free or +-1e-3 perturbed; starts within 1 rad / 1.2 length units of the closed-form minimiser; "
                 "strategy state fresh or left by a converged solve");
  mc::assumption("start coordinates of Eigen-vector arguments of the convergence-judged families are 0 or >= 1e-9 in magnitude (accuracy range of "
                 "dr_numerical's relative step, property C08); distance = largest entry-wise difference of rotation matrices / translations / vectors");
  mc::assumption("two strategy objects whose private fields are bit-identical behave identically (states are merged on the exact bytes of m_delta, m_reduce)");
  mc::note("calibration", mc::fmt("{\"KF_STEP\": %g, \"KF_RET\": %g, \"KFINAL_eps\": %g, \"observed_on_repaired_tree\": {\"step\": 2.75, \"return\": 17.3, \"final_eps\": 28.5}}",
                            KF_STEP, KF_RET, KFINAL));
  mc::note("problems", mc::fmt("{\"total\": %zu, \"wellconditioned_with_closed_form\": %zu, \"in_basin_starts\": %zu}", P.size(), wc, basin));
}

struct PSM
{
  int prob, start, mode;
};
/// (problem, start, mode) triples; level 0: everything in the tier; level 1: history start menu, Numerical | Analytic;
/// level 2: level 1 restricted to the representative problems
std::vector<PSM> psm_menu(int level)
{
  std::vector<PSM> v;
  auto & P = problems();
  for (size_t i = 0; i < P.size(); ++i) {
    if (!mc::thorough() && !P[i].quick) continue;
    if (level >= 2 && !P[i].deep) continue;
    for (int s = 0; s < P[i].nstarts; ++s) {
      if (level >= 1 && !P[i].hist[size_t(s)]) continue;
      for (int m = 0; m < NMODES; ++m) {
        if (!(P[i].modes >> m & 1)) continue;
        if (level >= 1 && m >= DefaultJac) continue;
        v.push_back({int(i), s, m});
      }
    }
  }
  return v;
}

struct Node
{
  StratState s;
  bool conv = false;  // reachable as the state left by a converged (Ftol/Ptol) solve, or fresh
  int depth = 0;
  std::string witness;  // one shortest history reaching it
};

std::string spec_str(const PSM & q, int mi, int pt, int ft)
{
  const Problem & P = problems()[size_t(q.prob)];
  return mc::fmt("%s start#%d=%s mode=%s max_iter=%zu ptol=%g ftol=%g", P.name.c_str(), q.start, P.start_desc(q.start).c_str(), MODE_NAME[q.mode],
    MAXIT[mi], TOLS[pt], TOLS[ft]);
}

double needed_k(L c0, L c1, double S)
{
  if (!(c0 == c0) || !(c1 == c1)) return NAN;
  const L y = std::sqrt(c1) - std::sqrt(c0) * (1 + 2 * (L)EPS);
  if (y <= 0) return 0;
  return (double)(y / ((L)EPS * std::max(S, 1e-300)));
}

bool same_run(const RunOut & a, const RunOut & b)
{
  if (a.status != b.status || a.iter != b.iter || a.tr.size() != b.tr.size()) return false;
  for (size_t i = 0; i < a.tr.size(); ++i)
    if (!flat_same_bits(a.tr[i], b.tr[i])) return false;
  return flat_same_bits(a.fin, b.fin);
}
bool prefix_run(const RunOut & a, const RunOut & b)
{
  if (a.tr.size() > b.tr.size()) return false;
  for (size_t i = 0; i < a.tr.size(); ++i)
    if (!flat_same_bits(a.tr[i], b.tr[i])) return false;
  return true;
}

/// the judged experiment
RunOut judge_case(mc::Case & c, const PSM & q, int mi, int pt, int ft, const Node & st)
{
  const Problem & P = problems()[size_t(q.prob)];
  const size_t m    = MAXIT[mi];
  c.desc            = [&P, q, mi, pt, ft, &st] {
    return spec_str(q, mi, pt, ft) + " strategy=" + st.s.str() + (st.witness.empty() ? std::string(" (fresh)") : " left by history: " + st.witness);
  };
  c.param("delta", st.s.delta);
  c.param("wellcond", P.wellcond ? 1 : 0);
  c.param("log2_res_scale", P.log2_res_scale);
  c.param("ptol", TOLS[pt]);
  c.param("ftol", TOLS[ft]);
  c.param("max_iter", double(m));
  c.param("mode", q.mode);
  const RunOut A = P.run(q.start, q.mode, m, TOLS[pt], TOLS[ft], st.s);
  const RunOut B = P.run(q.start, q.mode, m + 1, TOLS[pt], TOLS[ft], st.s);

  if (c.verbose) {
    static const char * const SN[3] = {"Ftol", "Ptol", "MaxIters"};
    printf("  run A (max_iter=%zu): status=%s iter=%u callbacks=%zu end-strategy=%s\n", m, SN[A.status], A.iter, A.tr.size(), A.end.str().c_str());
    for (size_t k = 0; k < A.tr.size(); ++k) printf("    callback %zu: |f|^2=%.21Lg  args=%s\n", k, A.cost[k], flat_str(A.tr[k]).c_str());
    printf("    on return:  |f|^2=%.21Lg  args=%s  distance to closed-form minimiser=%g\n", A.cost_fin, flat_str(A.fin).c_str(), A.dist_min);
    printf("  run B (max_iter=%zu): status=%s iter=%u callbacks=%zu\n", m + 1, SN[B.status], B.iter, B.tr.size());
  }
  c.outcome(A.status == 0 ? "status Ftol" : (A.status == 1 ? "status Ptol" : "status MaxIters"));
  if (A.iter > A.tr.size() - 1 + (A.tr.empty() ? 1 : 0)) c.outcome("some iterations rejected their step");
  if (!A.cost.empty() && A.cost[0] == 0) c.outcome("zero residual at start");

  // ---- trace
  c.require("first callback at the start point", !A.tr.empty() && flat_diff(A.tr[0], A.start) == 0);
  const double rt = std::sqrt(double(P.nres));  // rounding errors of the components of f add up in |f|
  double kworst = 0;
  bool beyond4  = false;
  for (size_t k = 0; k + 1 < A.cost.size(); ++k) {
    const double kn = needed_k(A.cost[k], A.cost[k + 1], rt * std::max(A.scale[k], A.scale[k + 1]));
    if (!(kn == kn)) {
      kworst = NAN;
      break;
    }
    if (kn > 0) beyond4 = true;
    kworst = std::max(kworst, kn);
  }
  if (beyond4) c.outcome("a step's cost increase exceeded 4eps|f|^2 (explained by f rounding)");
  c.judge("callback cost non-increasing: |df| needed / (eps*sqrt(m)*fscale)", kworst, KF_STEP);
  const double fd = A.tr.empty() ? INFINITY : flat_diff(A.fin, A.tr.back());
  if (fd != 0) c.outcome("arguments on return differ from last callback by rounding");
  c.judge("arguments on return = last callback (in eps)", fd / EPS, KFINAL);
  {
    // returned point not worse than the start: allow one f-rounding per callback
    double kn = A.cost.empty() ? INFINITY : needed_k(A.cost[0], A.cost_fin, rt * std::max(A.scale[0], A.scale_fin));
    c.judge("returned point not worse than start: |df| needed / (eps*sqrt(m)*fscale) per callback", kn / double(std::max<size_t>(1, A.tr.size())), KF_RET);
  }
  // ---- iteration bound and status contract
  c.require("iter <= max_iter", A.iter <= m);
  if (!A.overloads_agree && mc::replaying()) printf("  overloads: %s\n", A.overloads_note.c_str());
  c.require("the overloads without a callback are the same solve (status, iter, arguments, strategy state identical)", A.overloads_agree);
  c.require("callbacks <= iter + 1", A.tr.size() <= size_t(A.iter) + 1);
  if (A.status != 2) {
    c.outcome(A.iter == m ? "converged in the last allowed iteration" : "converged before the bound");
    c.require("Ftol/Ptol: replay with max_iter+1 is identical (not stopped by the bound)", same_run(A, B));
  } else {
    c.require("MaxIters: iter == max_iter", A.iter == m);
    c.require("MaxIters: replay with max_iter+1 runs one more iteration on the same trace prefix", B.iter == m + 1 && prefix_run(A, B));
    if (B.tr.size() > A.tr.size()) c.outcome("MaxIters: next iteration accepts a step");
    else
      c.outcome(B.status != 2 ? "MaxIters: next iteration converges" : "MaxIters: next iteration rejects its step");
  }
  // ---- convergence clause
  if (A.status != 2) {
    // problems outside the families the statement names (the atan family) converge only as far as the tolerances ask for:
    // their convergence clause is judged for tolerances well below the 1e-3 target
    const bool tol_ok = P.conv_max_tol >= 1 || std::max(TOLS[pt], TOLS[ft]) <= P.conv_max_tol;
    if (P.wellcond && P.basin[size_t(q.start)] && st.conv && tol_ok) {
      c.outcome("convergence clause judged");
      c.judge("Ftol/Ptol result within 1e-3 of the closed-form minimiser", A.dist_min, 1e-3);
      if (!(A.dist_min <= 1e-3))
        c.outcome(st.s.delta < 1e-6 ? "convergence violated: trust region < 1e-6" : (st.s.delta < 1 ? "convergence violated: trust region in [1e-6,1)"
                                    : (st.s.delta < 1000 ? "convergence violated: trust region in [1,1000)" : "convergence violated: trust region >= 1000")));
    } else {
      c.outcome(!tol_ok ? "convergence clause n/a: tolerance above this family's limit" : !P.wellcond ? "convergence clause n/a: no unique well-conditioned closed-form minimiser"
                            : (!P.basin[size_t(q.start)] ? "convergence clause n/a: start outside the basin" : "convergence clause n/a: strategy state not left by a converged solve"));
    }
  }
  return A;
}

void parallel_for(size_t n, const std::function<void(size_t)> & fn)
{
  std::atomic<size_t> next{0};
  std::vector<std::thread> th;
  for (int w = 0; w < 16; ++w)
    th.emplace_back([&] {
      for (;;) {
        const size_t i = next.fetch_add(1);
        if (i >= n) break;
        fn(i);
      }
    });
  for (auto & t : th) t.join();
}

}  // namespace

// ====================================================================================================================
namespace {
std::string family_of(const Problem & P) { return P.name.substr(0, P.name.find('/')); }
std::vector<std::string> families()
{
  std::vector<std::string> f;
  for (auto & P : problems())
    if (std::find(f.begin(), f.end(), family_of(P)) == f.end()) f.push_back(family_of(P));
  return f;
}
std::vector<PSM> filter_family(const std::vector<PSM> & m, const std::string & fam)
{
  std::vector<PSM> v;
  for (auto & q : m)
    if (family_of(problems()[size_t(q.prob)]) == fam) v.push_back(q);
  return v;
}
const char * const KIND[2] = {"Ceres", "Disney"};
}  // namespace

MC_SUBCHECK(a_fresh)
{
  build_menu();
  const auto menu = psm_menu(0);
  for (int kind = 0; kind < 2; ++kind) {
    Node fresh;
    fresh.s    = fresh_state(kind);
    fresh.conv = true;
    for (auto & fam : families()) {
      const auto fm = filter_family(menu, fam);
      if (fm.empty()) continue;
      mc::explore(std::string("C09/fresh/") + KIND[kind] + "/" + fam, fm.size() * 45, [&](mc::Case & c) {
        mc::Radix r(c.idx);
        const int ft = int(r.next(3)), pt = int(r.next(3)), mi = int(r.next(5));
        const PSM & q = fm[r.next(fm.size())];
        judge_case(c, q, mi, pt, ft, fresh);
      });
    }
  }
}

// ====================================================================================================================
MC_SUBCHECK(b_history)
{
  build_menu();
  // ---- BFS over solve histories (states merged by the exact bytes of the strategy's private fields).
  //      A transition is one prefix solve: (problem, history start menu, Numerical | Analytic) x max_iter in {1,2,5,1000}
  //      x ptol=ftol in {1e-12,1e-6,1e-2}. First prefix solve: every problem of the tier; second prefix solve
  //      (thorough only): the representative problems (otherwise the number of bit-distinct Ceres radii explodes).
  const int HMI[4]  = {1, 2, 3, 4};
  const int HTOL[3] = {0, 1, 2};
  const int maxdepth = mc::thorough() ? 2 : 1;
  std::map<StratState, Node> seen;
  std::vector<std::vector<StratState>> frontier(1);
  for (int kind = 0; kind < 2; ++kind) {
    Node n;
    n.s    = fresh_state(kind);
    n.conv = true;
    seen[n.s] = n;
    frontier[0].push_back(n.s);
  }
  uint64_t transitions = 0;
  struct Res
  {
    StratState e;
    bool conv;
  };
  std::string hsizes;
  for (int d = 0; d < maxdepth; ++d) {
    const auto hmenu = psm_menu(d == 0 ? 1 : 2);
    const size_t nh  = hmenu.size() * 4 * 3;
    hsizes += (d ? ", " : "") + std::to_string(nh);
    auto hspec = [&](size_t j, PSM & q, int & mi, int & tl) {
      mc::Radix r(j);
      tl = HTOL[r.next(3)];
      mi = HMI[r.next(4)];
      q  = hmenu[r.next(hmenu.size())];
    };
    const std::vector<StratState> fr = frontier[size_t(d)];  // copy: `frontier` grows below
    std::vector<Res> res(fr.size() * nh);
    parallel_for(res.size(), [&](size_t i) {
      PSM q;
      int mi, tl;
      hspec(i % nh, q, mi, tl);
      const RunOut o = problems()[size_t(q.prob)].run(q.start, q.mode, MAXIT[mi], TOLS[tl], TOLS[tl], fr[i / nh]);
      res[i]         = {o.end, o.status != 2};
    });
    transitions += res.size();
    frontier.emplace_back();
    for (size_t i = 0; i < res.size(); ++i) {
      auto it = seen.find(res[i].e);
      if (it == seen.end()) {
        PSM q;
        int mi, tl;
        hspec(i % nh, q, mi, tl);
        Node n;
        n.s       = res[i].e;
        n.conv    = res[i].conv;
        n.depth   = d + 1;
        const std::string w = seen[fr[i / nh]].witness;
        n.witness = (w.empty() ? std::string() : w + " ; then ") + "{" + spec_str(q, mi, tl, tl) + "}";
        seen[n.s] = n;
        frontier.back().push_back(n.s);
      } else if (res[i].conv) {
        it->second.conv = true;
      }
    }
    std::sort(frontier.back().begin(), frontier.back().end());
  }
  {
    std::string ex = "\"frontier_sizes\": [";
    for (size_t d = 0; d < frontier.size(); ++d) ex += (d ? ", " : "") + std::to_string(frontier[d].size());
    ex += "], \"history_menu_per_depth\": [" + hsizes + "]";
    size_t nconv = 0;
    double dmin = INFINITY, dmax = 0;
    for (auto & kv : seen) {
      nconv += kv.second.conv;
      dmin = std::min(dmin, kv.first.delta);
      dmax = std::max(dmax, kv.first.delta);
    }
    ex += mc::fmt(", \"states_left_by_a_converged_solve\": %zu, \"delta_min\": \"%.6g\", \"delta_max\": \"%.6g\"", nconv, dmin, dmax);
    std::vector<std::string> samples;
    for (size_t d = 1; d < frontier.size(); ++d)
      if (!frontier[d].empty()) {
        samples.push_back(seen[frontier[d].front()].s.str() + " <- " + seen[frontier[d].front()].witness);
        samples.push_back(seen[frontier[d].back()].s.str() + " <- " + seen[frontier[d].back()].witness);
      }
    mc::report_space("C09/bfs-strategy-states", seen.size(), transitions, transitions, samples, true, ex);
  }
  // ---- judged spaces: every state of depth d x judged menu (history start menu, Numerical | Analytic).
  //      thorough depth 1: all problems x all 45 (max_iter, ptol, ftol) triples
  //      quick    depth 1: quick-tier problems x max_iter in {0,1,2,5,1000} x ptol=ftol in {1e-12,1e-6,1e-2}
  //      thorough depth 2: representative problems x max_iter in {2,1000} x ptol=ftol in {1e-12,1e-2}
  for (int d = 1; d <= maxdepth; ++d)
    for (int kind = 0; kind < 2; ++kind) {
      const auto menu = psm_menu(d == 1 ? 1 : 2);
      std::vector<Node> nodes;
      for (auto & s : frontier[size_t(d)])
        if (s.kind == kind) nodes.push_back(seen[s]);
      if (nodes.empty()) continue;
      const int optmode = d >= 2 ? 2 : (mc::thorough() ? 0 : 1);
      const size_t nopt = optmode == 0 ? 45 : (optmode == 1 ? 15 : 4);
      for (auto & fam : families()) {
        const auto fm = filter_family(menu, fam);
        if (fm.empty()) continue;
        mc::explore(mc::fmt("C09/history/depth%d/%s/%s", d, KIND[kind], fam.c_str()), nodes.size() * fm.size() * nopt, [&](mc::Case & c) {
          mc::Radix r(c.idx);
          int ft, pt, mi;
          if (optmode == 0) {
            ft = int(r.next(3));
            pt = int(r.next(3));
            mi = int(r.next(5));
          } else if (optmode == 1) {
            ft = pt = int(r.next(3));
            mi      = int(r.next(5));
          } else {
            ft = pt = r.next(2) ? 2 : 0;
            mi      = r.next(2) ? 4 : 2;
          }
          const PSM & q  = fm[r.next(fm.size())];
          const Node & n = nodes[r.next(nodes.size())];
          judge_case(c, q, mi, pt, ft, n);
        });
      }
    }
}
