// C09 problem family: pose alignment on SE2 (planar) and on Bundle<SO3, R3> (rotation and translation as a direct product).
#include "c09_align.hpp"

namespace {
using namespace c09;
using c09ref::P2;

// ------------------------------------------------------------------ Bundle<SO3,R3>:  r_i = R p_i + t - q_i, tangent (w, dt)
using BG = smooth::Bundle<smooth::SO3d, Eigen::Vector3d>;
struct FBundle
{
  std::shared_ptr<const Align3Data> d;
  Eigen::VectorXd operator()(const BG & g) const
  {
    Eigen::VectorXd r(3 * d->n);
    for (int i = 0; i < d->n; ++i) r.segment<3>(3 * i) = g.part<0>() * d->p[size_t(i)] + g.part<1>() - d->q[size_t(i)];
    return r;
  }
  Eigen::Matrix<double, -1, 6> jacobian(const BG & g) const
  {
    Eigen::Matrix<double, -1, 6> J(3 * d->n, 6);
    const Eigen::Matrix3d R = g.part<0>().matrix();
    for (int i = 0; i < d->n; ++i) {
      J.block<3, 3>(3 * i, 0) = -R * hat3d(d->p[size_t(i)]);
      J.block<3, 3>(3 * i, 3).setIdentity();
    }
    return J;
  }
};
struct PBundle : TPBase
{
  using Args = std::tuple<BG>;
  std::shared_ptr<const Align3Data> d;
  explicit PBundle(const Align3Menu & m) : d(std::make_shared<const Align3Data>(make_align3(m.n, m.truth, m.pert, true))) { name = "align/Bundle<SO3,R3>/" + d->tag; }
  bool wellcond() const { return true; }
  int nres() const { return 3 * d->n; }
  int nstarts() const { return nstarts3(); }
  bool basin(int s) const { return start3(*d, s).basin; }
  bool hist(int s) const { return hist3(s); }
  Args start(int s) const
  {
    const Start3 st = start3(*d, s);
    return Args{BG(so3_of(st.R), v3_of(st.t))};
  }
  FBundle functor() const { return FBundle{d}; }
  // Bundle coefficients: [quaternion (x,y,z,w), t(3)]
  double fscale(const Args & a) const { return fscale3(*d, std::get<0>(a).coeffs().data() + 4); }
  double dist_min(const Args & a) const { return dist3(*d, std::get<0>(a).coeffs().data(), std::get<0>(a).coeffs().data() + 4); }
};

// ------------------------------------------------------------------ SE2:  r_i = g p_i - q_i, tangent (vx, vy, w)
struct Align2Data
{
  std::string tag;
  int n = 0;
  std::vector<Eigen::Vector2d> p, q;
  L thmin = 0, thtrue = 0;
  P2 tmin{0, 0}, ttrue{0, 0};
};
Align2Data make_align2(int n, int truth, int pert)
{
  static const double P[6][2] = {{1, 0}, {0, 1}, {-1, 0.5}, {0.25, -0.75}, {0.5, 0.75}, {-0.5, -0.625}};
  static const int SG[6][2]   = {{1, -1}, {-1, -1}, {1, 1}, {-1, 1}, {1, -1}, {-1, 1}};
  Align2Data d;
  d.n      = n;
  d.tag    = mc::fmt("n%d/%s/%s", n, truth ? "generic" : "identity", pert == 0 ? "exact" : (pert > 0 ? "pert+1e-3" : "pert-1e-3"));
  d.thtrue = truth ? 0.7L : 0.0L;
  d.ttrue  = truth ? P2{0.5L, -1.0L} : P2{0, 0};
  std::vector<P2> pl, ql;
  for (int i = 0; i < n; ++i) {
    d.p.emplace_back(P[i][0], P[i][1]);
    const L x = std::cos(d.thtrue) * P[i][0] - std::sin(d.thtrue) * P[i][1] + d.ttrue[0] + (L)pert * 1e-3L * SG[i][0];
    const L y = std::sin(d.thtrue) * P[i][0] + std::cos(d.thtrue) * P[i][1] + d.ttrue[1] + (L)pert * 1e-3L * SG[i][1];
    d.q.emplace_back((double)x, (double)y);
    pl.push_back(P2{P[i][0], P[i][1]});
    ql.push_back(P2{(L)d.q.back()(0), (L)d.q.back()(1)});
  }
  c09ref::pose_fit2(pl, ql, d.thmin, d.tmin);
  const L c0 = c09ref::pose_cost2(pl, ql, d.thmin, d.tmin);
  bool ok    = true;
  for (int sg = -1; sg <= 1; sg += 2) {
    if (!(c09ref::pose_cost2(pl, ql, d.thmin + sg * 1e-5L, d.tmin) > c0)) ok = false;
    for (size_t k = 0; k < 2; ++k) {
      P2 t = d.tmin;
      t[k] += sg * 1e-5L;
      if (!(c09ref::pose_cost2(pl, ql, d.thmin, t) > c0)) ok = false;
    }
  }
  mc::selfcheck("align2: closed-form minimiser is a strict local minimum of the long-double cost", ok);
  if (pert == 0)
    mc::selfcheck("align2: exact data -> closed form reproduces the true transform (1e-15)",
      std::fabs(d.thmin - d.thtrue) < 1e-15L && std::fabs(d.tmin[0] - d.ttrue[0]) < 1e-15L && std::fabs(d.tmin[1] - d.ttrue[1]) < 1e-15L);
  return d;
}
struct FSE2
{
  std::shared_ptr<const Align2Data> d;
  Eigen::VectorXd operator()(const smooth::SE2d & g) const
  {
    Eigen::VectorXd r(2 * d->n);
    for (int i = 0; i < d->n; ++i) r.segment<2>(2 * i) = g * d->p[size_t(i)] - d->q[size_t(i)];
    return r;
  }
  Eigen::Matrix<double, -1, 3> jacobian(const smooth::SE2d & g) const
  {
    Eigen::Matrix<double, -1, 3> J(2 * d->n, 3);
    const Eigen::Matrix2d R = g.so2().matrix();
    for (int i = 0; i < d->n; ++i) {
      J.block<2, 2>(2 * i, 0) = R;
      J.block<2, 1>(2 * i, 2) = R * Eigen::Vector2d(-d->p[size_t(i)](1), d->p[size_t(i)](0));
    }
    return J;
  }
};
struct PSE2 : TPBase
{
  using Args = std::tuple<smooth::SE2d>;
  std::shared_ptr<const Align2Data> d;
  explicit PSE2(const Align3Menu & m) : d(std::make_shared<const Align2Data>(make_align2(m.n, m.truth, m.pert))) { name = "align/SE2/" + d->tag; }
  bool wellcond() const { return true; }
  int nres() const { return 2 * d->n; }
  int nstarts() const { return 12; }
  struct St
  {
    L th;
    P2 t;
    bool basin;
  };
  St st(int s) const
  {
    static const L PI_L = 3.14159265358979323846L;
    L dth = 0, toff = 0;
    bool basin = true;
    switch (s) {
    case 0: break;
    case 1: dth = 1e-6L; toff = 1e-6L; break;
    case 2: dth = -1e-3L; toff = -1e-3L; break;
    case 3: dth = 0.1L; toff = 0.1L; break;
    case 4: dth = 0.5L; toff = 0.5L; break;
    case 5: dth = -0.5L; toff = -0.5L; break;
    case 6: dth = 1.0L; toff = 1.0L; break;
    case 7: dth = 2.5L; toff = 3.0L; basin = false; break;
    case 8: dth = PI_L - 1e-3L; basin = false; break;
    case 9: dth = PI_L; basin = false; break;  // opposite orientation, optimal translation: stationary (maximum over the angle)
    default: break;
    }
    St r{d->thmin + dth, P2{d->tmin[0] + toff, d->tmin[1] - toff / 2}, basin};
    if (s == 9) {
      // translation that is optimal for the opposite orientation: gradient w.r.t. everything vanishes (up to rounding)
      P2 pc{0, 0}, qc{0, 0};
      for (int i = 0; i < d->n; ++i)
        for (size_t k = 0; k < 2; ++k) {
          pc[k] += (L)d->p[size_t(i)](Eigen::Index(k)) / d->n;
          qc[k] += (L)d->q[size_t(i)](Eigen::Index(k)) / d->n;
        }
      r.t = P2{qc[0] - (std::cos(r.th) * pc[0] - std::sin(r.th) * pc[1]), qc[1] - (std::sin(r.th) * pc[0] + std::cos(r.th) * pc[1])};
    }
    if (s == 10) r = St{0, P2{0, 0}, false};
    if (s == 11) r = St{d->thtrue, d->ttrue, false};
    if (s >= 10) {
      L a = std::remainder(r.th - d->thmin, 2 * PI_L);
      r.basin = std::fabs(a) <= 1.0L && std::max(std::fabs(r.t[0] - d->tmin[0]), std::fabs(r.t[1] - d->tmin[1])) <= 1.2L;
    }
    return r;
  }
  bool basin(int s) const { return st(s).basin; }
  bool hist(int s) const { return hist3(s); }
  Args start(int s) const
  {
    const St x = st(s);
    smooth::SE2d g;
    // SE2 coefficients: [x, y, sin, cos]
    g.coeffs() << snap((double)x.t[0]), snap((double)x.t[1]), (double)std::sin(x.th), (double)std::cos(x.th);
    return Args{g};
  }
  FSE2 functor() const { return FSE2{d}; }
  double fscale(const Args & a) const
  {
    const auto & c = std::get<0>(a).coeffs();
    double s = 0, tn = std::hypot(c(0), c(1));
    for (int i = 0; i < d->n; ++i) s = std::max(s, d->p[size_t(i)].norm() + d->q[size_t(i)].norm() + tn);
    return s;
  }
  double dist_min(const Args & a) const
  {
    const auto & c = std::get<0>(a).coeffs();
    L e = std::max(std::fabs((L)c(2) - std::sin(d->thmin)), std::fabs((L)c(3) - std::cos(d->thmin)));
    e   = std::max(e, std::max(std::fabs((L)c(0) - d->tmin[0]), std::fabs((L)c(1) - d->tmin[1])));
    return (double)e;
  }
};

struct Reg
{
  Reg()
  {
    registrars().push_back([] {
      for (auto & m : align3_menu()) {
        auto a = std::make_shared<const PBundle>(m);
        mc::selfcheck("align: analytic jacobian = central differences", jacobian_selfcheck(*a, 4));
        add_problem<PBundle>(a, m.quick);
        auto b = std::make_shared<const PSE2>(m);
        mc::selfcheck("align: analytic jacobian = central differences", jacobian_selfcheck(*b, 4));
        add_problem<PSE2>(b, m.quick);
      }
    });
  }
} reg;
}  // namespace
