// C09 — minimize never makes things worse, terminates, and finds the minimiser.
//
// Shared machinery: strategy-state handling, the type-erased problem registry, the generic typed runner that
// executes ONE smooth::minimize call and records everything observable about it (status, iter, the callback
// trace with the cost |f|^2 recomputed by the harness in long double, the arguments on return, the strategy
// state left behind, the distance to the closed-form minimiser).
#pragma once
#include "bind.hpp"

#include <functional>
#include <memory>
#include <tuple>

#include <smooth/manifolds/vector.hpp>
#include <smooth/optim.hpp>

#include "c09ref.hpp"

namespace c09 {
using L = long double;
constexpr double EPS = 2.220446049250313e-16;

// ------------------------------------------------------------------ option menus (DESIGN C09)
static const size_t MAXIT[5] = {0, 1, 2, 5, 1000};
static const double TOLS[3]  = {1e-12, 1e-6, 1e-2};
/// differentiation modes: the three the statement names; Default is exercised on a functor that offers
/// `jacobian` (resolves to Analytic) and on one that does not (resolves to Numerical)
enum Mode { Numerical = 0, Analytic = 1, DefaultJac = 2, DefaultNoJac = 3, NMODES = 4 };
static const char * const MODE_NAME[4] = {"Numerical", "Analytic", "Default(jacobian)", "Default(no jacobian)"};

// ------------------------------------------------------------------ strategy state (persists inside MinimizeOptions::strat)
struct StratState
{
  int kind      = 0;  // 0 Ceres, 1 Disney
  double delta  = 0;  // trust-region radius
  double reduce = 0;  // Ceres reduce factor (0 for Disney)
  std::array<uint64_t, 3> key() const
  {
    std::array<uint64_t, 3> k{uint64_t(kind), 0, 0};
    std::memcpy(&k[1], &delta, 8);
    std::memcpy(&k[2], &reduce, 8);
    return k;
  }
  bool operator<(const StratState & o) const { return key() < o.key(); }
  bool operator==(const StratState & o) const { return key() == o.key(); }
  std::string str() const
  {
    return kind == 0 ? mc::fmt("Ceres{delta=%a(%.6g),reduce=%a(%.6g)}", delta, delta, reduce, reduce) : mc::fmt("Disney{delta=%a(%.6g)}", delta, delta);
  }
};
/// a strategy object in exactly this state (private fields through -fno-access-control; states come only from
/// `read_strat` of objects that went through real solves, or from a default-constructed object)
inline std::shared_ptr<smooth::TrustRegionStrategy> make_strat(const StratState & s)
{
  if (s.kind == 0) {
    auto p      = std::make_shared<smooth::CeresStrategy>();
    p->m_delta  = s.delta;
    p->m_reduce = s.reduce;
    return p;
  }
  auto p     = std::make_shared<smooth::DisneyStrategy>();
  p->m_delta = s.delta;
  return p;
}
inline StratState read_strat(int kind, const smooth::TrustRegionStrategy & t)
{
  StratState s;
  s.kind = kind;
  if (kind == 0) {
    const auto & c = static_cast<const smooth::CeresStrategy &>(t);
    s.delta        = c.m_delta;
    s.reduce       = c.m_reduce;
  } else {
    s.delta = static_cast<const smooth::DisneyStrategy &>(t).m_delta;
  }
  return s;
}
inline StratState fresh_state(int kind)
{
  if (kind == 0) return read_strat(0, smooth::CeresStrategy{});
  return read_strat(1, smooth::DisneyStrategy{});
}

/// Start coordinates of R^n-type arguments of the convergence-judged families are either exactly zero or at least 1e-9 in
/// magnitude: dr_numerical scales its step with |x_j| for Eigen vectors, so a coordinate like 1e-17 yields a step of 1e-25 and
/// a useless Jacobian column. That is the accuracy range of numerical differentiation (property C08: "coordinates zero or
/// 0.1...10"), not a property of minimize; such starts are outside the premise of the convergence clause and are not generated.
inline double snap(double x) { return std::fabs(x) < 1e-9 ? 0.0 : x; }

// ------------------------------------------------------------------ flattening of argument tuples
inline void flat(double x, std::vector<double> & o) { o.push_back(x); }
template<typename D>
void flat(const Eigen::MatrixBase<D> & x, std::vector<double> & o)
{
  for (Eigen::Index i = 0; i < x.size(); ++i) o.push_back(x(i));
}
template<typename G>
  requires requires(const G & g) { g.coeffs(); }
void flat(const G & g, std::vector<double> & o)
{
  for (Eigen::Index i = 0; i < g.coeffs().size(); ++i) o.push_back(g.coeffs()(i));
}
template<typename T>
void flat(const std::vector<T> & v, std::vector<double> & o)
{
  for (auto & x : v) flat(x, o);
}
template<typename... T>
void flat(const std::tuple<T...> & t, std::vector<double> & o)
{
  std::apply([&](const auto &... a) { (flat(a, o), ...); }, t);
}
template<typename A>
std::vector<double> flatten(const A & a)
{
  std::vector<double> o;
  flat(a, o);
  return o;
}
/// max |a_i - b_i| / max(1, |b_i|); inf on size mismatch; NaN propagates
inline double flat_diff(const std::vector<double> & a, const std::vector<double> & b)
{
  if (a.size() != b.size()) return INFINITY;
  double e = 0;
  for (size_t i = 0; i < a.size(); ++i) {
    const double d = std::fabs(a[i] - b[i]) / std::max(1.0, std::fabs(b[i]));
    if (!(d == d)) return NAN;
    e = std::max(e, d);
  }
  return e;
}
inline bool flat_same_bits(const std::vector<double> & a, const std::vector<double> & b)
{
  return a.size() == b.size() && (a.empty() || std::memcmp(a.data(), b.data(), a.size() * sizeof(double)) == 0);
}
inline std::string flat_str(const std::vector<double> & a)
{
  std::string s = "[";
  for (size_t i = 0; i < a.size(); ++i) s += (i ? "," : "") + mc::fmt("%a", a[i]);
  return s + "]";
}

// ------------------------------------------------------------------ what one minimize call showed
struct RunOut
{
  int status    = -1;  // 0 Ftol, 1 Ptol, 2 MaxIters
  unsigned iter = 0;
  std::vector<L> cost;                  // |f|^2 at every callback, recomputed by the harness (sum in long double)
  std::vector<double> scale;            // forward-error scale of evaluating f at every callback
  std::vector<std::vector<double>> tr;  // the callback arguments
  std::vector<double> start;            // the start point
  std::vector<double> fin;              // arguments on return
  L cost_fin       = 0;
  double scale_fin = 0;
  double dist_min  = NAN;  // distance of the arguments on return to the closed-form minimiser (NaN: none)
  StratState end;
  /// the overloads without a callback (minimize<D>(f, x, opts), and minimize(f, x, opts) for Default), run from the same start
  /// and strategy state, returned the same status / iteration count / arguments / strategy state, bit for bit
  bool overloads_agree = true;
  std::string overloads_note;
};

/// functor adaptor that hides `jacobian` (so that diff::Type::Default must fall back to Numerical)
template<typename F>
struct NoJac
{
  F f;
  auto operator()(const auto &... a) const { return f(a...); }
};

template<typename R>
L cost_of(const R & r)
{
  L c = 0;
  for (Eigen::Index i = 0; i < r.size(); ++i) c += (L)r(i) * (L)r(i);
  return c;
}

/// Typed problem TP provides:  using Args = std::tuple<...>;  Args start(int) const;  auto functor() const;
/// double fscale(const Args&) const;  double dist_min(const Args&) const;
template<typename TP>
RunOut run_one(const TP & p, int start, int mode, size_t max_iter, double ptol, double ftol, const StratState & s0)
{
  using Args = typename TP::Args;
  RunOut o;
  Args x  = p.start(start);
  o.start = flatten(x);
  std::vector<Args> trace;
  trace.reserve(24);
  auto cb = [&trace](const auto &... a) { trace.emplace_back(a...); };
  smooth::MinimizeOptions opts;
  opts.strat    = make_strat(s0);
  opts.ptol     = ptol;
  opts.ftol     = ftol;
  opts.max_iter = max_iter;
  opts.verbose  = false;
  auto xr       = std::apply([](auto &... a) { return std::forward_as_tuple(a...); }, x);
  auto fj       = p.functor();
  smooth::SolveResult res{};
  switch (mode) {
  case Numerical: res = smooth::minimize<smooth::diff::Type::Numerical>(fj, xr, cb, opts); break;
  case Analytic: res = smooth::minimize<smooth::diff::Type::Analytic>(fj, xr, cb, opts); break;
  case DefaultJac: res = smooth::minimize<smooth::diff::Type::Default>(fj, xr, cb, opts); break;
  default: {
    NoJac<decltype(fj)> fn{fj};
    res = smooth::minimize<smooth::diff::Type::Default>(fn, xr, cb, opts);
  }
  }
  o.status = res.status == smooth::SolveResult::Status::Ftol ? 0 : (res.status == smooth::SolveResult::Status::Ptol ? 1 : 2);
  o.iter   = res.iter;
  o.end    = read_strat(s0.kind, *opts.strat);
  for (auto & a : trace) {
    o.tr.push_back(flatten(a));
    o.cost.push_back(cost_of(std::apply(fj, a)));
    o.scale.push_back(p.fscale(a));
  }
  o.fin       = flatten(x);
  o.cost_fin  = cost_of(std::apply(fj, x));
  o.scale_fin = p.fscale(x);
  o.dist_min  = p.dist_min(x);
  // the convenience overloads must be the same solve
  for (int variant = 0; variant < (mode >= DefaultJac ? 2 : 1); ++variant) {
    Args x2 = p.start(start);
    smooth::MinimizeOptions o2 = opts;
    o2.strat                   = make_strat(s0);
    auto xr2                   = std::apply([](auto &... a) { return std::forward_as_tuple(a...); }, x2);
    smooth::SolveResult r2{};
    NoJac<decltype(fj)> fn{fj};
    if (variant == 0) {
      switch (mode) {
      case Numerical: r2 = smooth::minimize<smooth::diff::Type::Numerical>(fj, xr2, o2); break;
      case Analytic: r2 = smooth::minimize<smooth::diff::Type::Analytic>(fj, xr2, o2); break;
      case DefaultJac: r2 = smooth::minimize<smooth::diff::Type::Default>(fj, xr2, o2); break;
      default: r2 = smooth::minimize<smooth::diff::Type::Default>(fn, xr2, o2);
      }
    } else {
      if (mode == DefaultJac)
        r2 = smooth::minimize(fj, xr2, o2);
      else
        r2 = smooth::minimize(fn, xr2, o2);
    }
    const auto f2 = flatten(x2);
    const bool same = r2.status == res.status && r2.iter == res.iter && f2.size() == o.fin.size() &&
                      std::memcmp(f2.data(), o.fin.data(), f2.size() * sizeof(double)) == 0 && read_strat(s0.kind, *o2.strat) == o.end;
    if (!same && o.overloads_agree) {
      o.overloads_agree = false;
      o.overloads_note  = mc::fmt("%s: status %d iter %u vs status %d iter %u with callback", variant == 0 ? "minimize<D>(f, x, opts)" : "minimize(f, x, opts)",
        int(r2.status), unsigned(r2.iter), int(res.status), unsigned(res.iter));
    }
  }
  return o;
}

// ------------------------------------------------------------------ type-erased problem menu
struct Problem
{
  std::string name;
  int nstarts     = 0;
  unsigned modes  = 0xF;     // bit m set: mode m is available
  bool wellcond   = false;   // unique well-conditioned minimiser with a closed form: the convergence clause applies
  bool quick      = true;    // member of the quick-tier menu
  int nres        = 1;       // number of residuals
  double log2_res_scale = 0; // see TPBase
  double conv_max_tol   = 1; // see TPBase
  std::vector<char> basin;   // per start: inside the basin (premise of the convergence clause)
  std::vector<char> hist;    // per start: member of the history (prefix-solve) menu
  bool deep       = false;   // representative used for the judged menu of depth-2 history states
  std::function<RunOut(int, int, size_t, double, double, const StratState &)> run;
  std::function<std::string(int)> start_desc;
};
std::vector<Problem> & problems();  // defined in c09.cpp; filled by `build_menu()` from the registrars of the family TUs
/// deferred registration (family TUs push a function at static-init time; it runs inside the sub-check)
std::vector<std::function<void()>> & registrars();

template<typename TP>
void add_problem(std::shared_ptr<const TP> p, bool quick = true)
{
  Problem P;
  P.name     = p->name;
  P.log2_res_scale = p->log2_res_scale;
  P.conv_max_tol   = p->conv_max_tol;
  P.nstarts  = p->nstarts();
  P.modes    = p->modes();
  P.wellcond = p->wellcond();
  P.quick    = quick;
  P.nres     = p->nres();
  for (int s = 0; s < P.nstarts; ++s) {
    P.basin.push_back(p->basin(s));
    P.hist.push_back(p->hist(s));
  }
  P.run        = [p](int s, int m, size_t mi, double pt, double ft, const StratState & st) { return run_one(*p, s, m, mi, pt, ft, st); };
  P.start_desc = [p](int s) { return flat_str(flatten(p->start(s))); };
  problems().push_back(std::move(P));
}

/// common defaults for typed problems
struct TPBase
{
  std::string name;
  double log2_res_scale = 0;  // log2 of a uniform factor applied to the residual function (0: none)
  double conv_max_tol   = 1;  // the convergence clause is judged when max(ptol, ftol) <= this (1: always)
  unsigned modes() const { return 0xF; }
};

/// analytic Jacobian of a typed problem's functor vs central differences in the tangent space (harness self-check:
/// the "user" side of the experiment must be right for the Analytic runs to mean anything)
/// x (+) e argument by argument (the harness's own segment bookkeeping, not the library's wrt_rplus)
template<typename Tuple>
Tuple tuple_rplus(const Tuple & x, const Eigen::VectorXd & e)
{
  Tuple r = x;
  Eigen::Index off = 0;
  std::apply(
    [&](auto &... a) {
      (([&] {
         const Eigen::Index n = smooth::dof(a);
         a                    = smooth::rplus(a, e.segment(off, n));
         off += n;
       }()),
        ...);
    },
    r);
  return r;
}

template<typename TP>
bool jacobian_selfcheck(const TP & p, int start)
{
  auto x  = p.start(start);
  auto fj = p.functor();
  Eigen::MatrixXd J = Eigen::MatrixXd(std::apply([&](const auto &... a) { return fj.jacobian(a...); }, x));
  const Eigen::VectorXd f0 = std::apply(fj, x);
  const double h = 1e-5;
  double worst = 0;
  for (Eigen::Index j = 0; j < J.cols(); ++j) {
    Eigen::VectorXd e = Eigen::VectorXd::Zero(J.cols());
    e(j)              = h;
    auto xp = tuple_rplus(x, e);
    e(j)    = -h;
    auto xm = tuple_rplus(x, e);
    const Eigen::VectorXd fp = std::apply(fj, xp), fm = std::apply(fj, xm);
    const Eigen::VectorXd col = (fp - fm) / (2 * h);
    worst = std::max(worst, (col - J.col(j)).cwiseAbs().maxCoeff() / std::max(1.0, J.cwiseAbs().maxCoeff()));
  }
  (void)f0;
  return worst < 1e-6;
}

}  // namespace c09
