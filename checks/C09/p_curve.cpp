// C09 problem family: curve fitting with a dynamically sized std::vector<...> argument.
//   * std::vector<Eigen::Vector2d>: data term x_i - z_i and smoothness w (x_{i+1} - x_i): a linear least-squares
//     problem in a dynamic argument -> closed form by long-double normal equations (convergence clause applies)
//   * std::vector<SO3d>: the same on rotations (rminus); safety clauses only (no closed form)
#include "c09.hpp"

namespace {
using namespace c09;
using c09ref::MatL;
using c09ref::VecL;

// ------------------------------------------------------------------ std::vector<Vector2d>
using VV2 = std::vector<Eigen::Vector2d>;
struct FCurve2
{
  std::shared_ptr<const VV2> z;
  double w;
  Eigen::VectorXd operator()(const VV2 & x) const
  {
    const Eigen::Index K = Eigen::Index(x.size());
    Eigen::VectorXd r(2 * K + 2 * (K - 1));
    for (Eigen::Index i = 0; i < K; ++i) r.segment<2>(2 * i) = x[size_t(i)] - (*z)[size_t(i)];
    for (Eigen::Index i = 0; i + 1 < K; ++i) r.segment<2>(2 * K + 2 * i) = w * (x[size_t(i + 1)] - x[size_t(i)]);
    return r;
  }
  Eigen::MatrixXd jacobian(const VV2 & x) const
  {
    const Eigen::Index K = Eigen::Index(x.size());
    Eigen::MatrixXd J    = Eigen::MatrixXd::Zero(2 * K + 2 * (K - 1), 2 * K);
    for (Eigen::Index i = 0; i < 2 * K; ++i) J(i, i) = 1;
    for (Eigen::Index i = 0; i + 1 < K; ++i)
      for (int c = 0; c < 2; ++c) {
        J(2 * K + 2 * i + c, 2 * (i + 1) + c) = w;
        J(2 * K + 2 * i + c, 2 * i + c)       = -w;
      }
    return J;
  }
};
struct PCurve2 : TPBase
{
  using Args = std::tuple<VV2>;
  std::shared_ptr<VV2> z = std::make_shared<VV2>();
  double w;
  int K;
  VecL xminL;
  PCurve2(int K_, double w_) : w(w_), K(K_)
  {
    name = mc::fmt("curve/vector<Vector2d>/K%d/w%g", K, w);
    static const double Z[6][2] = {{0, 0}, {1, 0.5}, {2, -0.25}, {3, 1}, {4, 0.75}, {5, -1}};
    for (int i = 0; i < K; ++i) z->emplace_back(Z[i][0], Z[i][1]);
    // reference: normal equations of the stacked linear system in long double
    const size_t n = size_t(2 * K), m = size_t(2 * K + 2 * (K - 1));
    MatL A = c09ref::zeros(m, n);
    VecL b(m, 0);
    for (size_t i = 0; i < n; ++i) {
      A[i][i] = 1;
      b[i]    = (*z)[i / 2](Eigen::Index(i % 2));
    }
    for (size_t i = 0; i + 1 < size_t(K); ++i)
      for (size_t c = 0; c < 2; ++c) {
        A[n + 2 * i + c][2 * (i + 1) + c] = w;
        A[n + 2 * i + c][2 * i + c]       = -(L)w;
      }
    mc::selfcheck("curve: normal equations solvable", c09ref::lstsq(A, b, xminL));
    mc::selfcheck("curve: linear smoothing problem is well conditioned (cond <= 10)", c09ref::cond(A) <= 10);
  }
  bool wellcond() const { return true; }
  int nres() const { return 2 * K + 2 * (K - 1); }
  int nstarts() const { return 7; }
  bool basin(int) const { return true; }
  bool hist(int s) const { return s == 0 || s == 3 || s == 5; }
  Args start(int s) const
  {
    VV2 x(size_t(K), Eigen::Vector2d::Zero());
    for (int i = 0; i < K; ++i)
      for (int c = 0; c < 2; ++c) {
        const double xm = (double)xminL[size_t(2 * i + c)], u = ((i + c) % 2 ? -1.0 : 1.0) * (1 + 0.25 * i);
        double v;
        switch (s) {
        case 0: v = xm; break;
        case 1: v = xm + 1e-6 * u; break;
        case 2: v = xm + 1e-2 * u; break;
        case 3: v = xm + u; break;
        case 4: v = (*z)[size_t(i)](c); break;  // the data itself
        case 5: v = 0; break;
        default: v = 100 * u; break;
        }
        x[size_t(i)](c) = snap(v);
      }
    return Args{x};
  }
  FCurve2 functor() const { return FCurve2{z, w}; }
  double fscale(const Args & a) const
  {
    double s = 0;
    for (auto & v : std::get<0>(a)) s = std::max(s, v.cwiseAbs().maxCoeff());
    return (2 * s + 6) * std::max(1.0, w);
  }
  double dist_min(const Args & a) const
  {
    const auto & x = std::get<0>(a);
    if (int(x.size()) != K) return INFINITY;
    L e = 0;
    for (int i = 0; i < K; ++i)
      for (int c = 0; c < 2; ++c) e = std::max(e, std::fabs((L)x[size_t(i)](c) - xminL[size_t(2 * i + c)]));
    return (double)e;
  }
};

// ------------------------------------------------------------------ std::vector<SO3d>
using VSO3 = std::vector<smooth::SO3d>;
struct FCurveSO3
{
  std::shared_ptr<const VSO3> z;
  double w;
  Eigen::VectorXd operator()(const VSO3 & x) const
  {
    const Eigen::Index K = Eigen::Index(x.size());
    Eigen::VectorXd r(3 * K + 3 * (K - 1));
    for (Eigen::Index i = 0; i < K; ++i) r.segment<3>(3 * i) = x[size_t(i)] - (*z)[size_t(i)];
    for (Eigen::Index i = 0; i + 1 < K; ++i) r.segment<3>(3 * K + 3 * i) = w * (x[size_t(i + 1)] - x[size_t(i)]);
    return r;
  }
  Eigen::MatrixXd jacobian(const VSO3 & x) const
  {
    const Eigen::Index K = Eigen::Index(x.size());
    Eigen::MatrixXd J    = Eigen::MatrixXd::Zero(3 * K + 3 * (K - 1), 3 * K);
    for (Eigen::Index i = 0; i < K; ++i) J.block<3, 3>(3 * i, 3 * i) = smooth::SO3d::dr_expinv(x[size_t(i)] - (*z)[size_t(i)]);
    for (Eigen::Index i = 0; i + 1 < K; ++i) {
      const Eigen::Vector3d e                        = x[size_t(i + 1)] - x[size_t(i)];
      J.block<3, 3>(3 * K + 3 * i, 3 * (i + 1)) = w * smooth::SO3d::dr_expinv(e);
      J.block<3, 3>(3 * K + 3 * i, 3 * i)       = -w * smooth::SO3d::dl_expinv(e);
    }
    return J;
  }
};
struct PCurveSO3 : TPBase
{
  using Args = std::tuple<VSO3>;
  std::shared_ptr<VSO3> z = std::make_shared<VSO3>();
  double w;
  int K;
  PCurveSO3(int K_, double w_) : w(w_), K(K_)
  {
    name = mc::fmt("curve/vector<SO3>/K%d/w%g", K, w);
    static const double Z[5][3] = {{0, 0, 0}, {0.3, -0.1, 0.2}, {0.5, 0.2, 0.1}, {0.4, 0.6, -0.3}, {-0.2, 0.9, 0.1}};
    for (int i = 0; i < K; ++i) z->push_back(smooth::SO3d::exp(Eigen::Vector3d(Z[i][0], Z[i][1], Z[i][2])));
  }
  bool wellcond() const { return false; }
  int nres() const { return 3 * K + 3 * (K - 1); }
  int nstarts() const { return 5; }
  bool basin(int) const { return false; }
  bool hist(int s) const { return s == 0 || s == 2 || s == 4; }
  Args start(int s) const
  {
    VSO3 x;
    for (int i = 0; i < K; ++i) {
      const Eigen::Vector3d u(0.3 + 0.1 * i, -0.2, 0.25 - 0.1 * i);
      switch (s) {
      case 0: x.push_back((*z)[size_t(i)]); break;                             // the data
      case 1: x.push_back((*z)[size_t(i)] + 1e-3 * u); break;
      case 2: x.push_back((*z)[size_t(i)] + u); break;
      case 3: x.push_back(smooth::SO3d::Identity()); break;
      default: x.push_back((*z)[size_t(i)] + 8.0 * u); break;                   // far (wraps around)
      }
    }
    return Args{x};
  }
  FCurveSO3 functor() const { return FCurveSO3{z, w}; }
  double fscale(const Args &) const { return 4 * std::max(1.0, w); }
  double dist_min(const Args &) const { return NAN; }
};

struct Reg
{
  Reg()
  {
    registrars().push_back([] {
      for (int K : {3, 4, 6})
        for (double w : {0.5, 2.0}) {
          auto p = std::make_shared<const PCurve2>(K, w);
          mc::selfcheck("curve: analytic jacobian = central differences", jacobian_selfcheck(*p, 3));
          add_problem<PCurve2>(p, K != 4);
        }
      for (int K : {2, 4})
        for (double w : {0.5, 2.0}) {
          auto p = std::make_shared<const PCurveSO3>(K, w);
          mc::selfcheck("curve: analytic jacobian = central differences", jacobian_selfcheck(*p, 2));
          add_problem<PCurveSO3>(p, w == 0.5);
        }
    });
  }
} reg;
}  // namespace
