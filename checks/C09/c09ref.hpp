// C09 reference side: closed-form minimisers in long double, independent of smooth and of Eigen.
//  * linear least squares: normal equations, Gaussian elimination with partial pivoting (long double)
//  * 3-D rotation / pose alignment: Horn's closed form (largest eigenvector of a symmetric 4x4, cyclic Jacobi)
//  * 2-D pose alignment: closed form angle from centred cross/dot sums
#pragma once
#include <algorithm>
#include <array>
#include <cmath>
#include <vector>

namespace c09ref {
using L    = long double;
using VecL = std::vector<L>;
using MatL = std::vector<VecL>;  // row major

inline MatL zeros(size_t r, size_t c) { return MatL(r, VecL(c, 0)); }

/// solve S x = y (S square) by Gaussian elimination with partial pivoting; returns false if a pivot vanishes
inline bool solve(MatL S, VecL y, VecL & x)
{
  const size_t n = S.size();
  for (size_t c = 0; c < n; ++c) {
    size_t p = c;
    for (size_t r = c + 1; r < n; ++r)
      if (std::fabs(S[r][c]) > std::fabs(S[p][c])) p = r;
    if (S[p][c] == 0) return false;
    std::swap(S[c], S[p]);
    std::swap(y[c], y[p]);
    for (size_t r = c + 1; r < n; ++r) {
      const L f = S[r][c] / S[c][c];
      if (f == 0) continue;
      for (size_t j = c; j < n; ++j) S[r][j] -= f * S[c][j];
      y[r] -= f * y[c];
    }
  }
  x.assign(n, 0);
  for (size_t i = n; i-- > 0;) {
    L s = y[i];
    for (size_t j = i + 1; j < n; ++j) s -= S[i][j] * x[j];
    x[i] = s / S[i][i];
  }
  return true;
}

/// minimiser of |A x - b|^2 from the normal equations
inline bool lstsq(const MatL & A, const VecL & b, VecL & x)
{
  const size_t m = A.size(), n = m ? A[0].size() : 0;
  MatL S = zeros(n, n);
  VecL y(n, 0);
  for (size_t i = 0; i < n; ++i) {
    for (size_t j = 0; j < n; ++j)
      for (size_t k = 0; k < m; ++k) S[i][j] += A[k][i] * A[k][j];
    for (size_t k = 0; k < m; ++k) y[i] += A[k][i] * b[k];
  }
  return solve(S, y, x);
}

/// cyclic Jacobi eigen-decomposition of a symmetric matrix: S = V diag(w) V^T
inline void jacobi_eig(MatL S, VecL & w, MatL & V)
{
  const size_t n = S.size();
  V              = zeros(n, n);
  for (size_t i = 0; i < n; ++i) V[i][i] = 1;
  for (int sweep = 0; sweep < 60; ++sweep) {
    L off = 0;
    for (size_t i = 0; i < n; ++i)
      for (size_t j = i + 1; j < n; ++j) off += S[i][j] * S[i][j];
    if (off == 0) break;
    for (size_t p = 0; p < n; ++p)
      for (size_t q = p + 1; q < n; ++q) {
        if (S[p][q] == 0) continue;
        const L th = (S[q][q] - S[p][p]) / (2 * S[p][q]);
        const L t  = (th >= 0 ? 1 : -1) / (std::fabs(th) + std::sqrt(th * th + 1));
        const L c = 1 / std::sqrt(t * t + 1), s = t * c;
        for (size_t k = 0; k < n; ++k) {
          const L a = S[k][p], b = S[k][q];
          S[k][p] = c * a - s * b;
          S[k][q] = s * a + c * b;
        }
        for (size_t k = 0; k < n; ++k) {
          const L a = S[p][k], b = S[q][k];
          S[p][k] = c * a - s * b;
          S[q][k] = s * a + c * b;
        }
        for (size_t k = 0; k < n; ++k) {
          const L a = V[k][p], b = V[k][q];
          V[k][p] = c * a - s * b;
          V[k][q] = s * a + c * b;
        }
      }
  }
  w.assign(n, 0);
  for (size_t i = 0; i < n; ++i) w[i] = S[i][i];
}

/// condition number (sigma_max / sigma_min) of A via the eigenvalues of A^T A; inf when rank deficient
inline L cond(const MatL & A)
{
  const size_t m = A.size(), n = A[0].size();
  MatL S = zeros(n, n);
  for (size_t i = 0; i < n; ++i)
    for (size_t j = 0; j < n; ++j)
      for (size_t k = 0; k < m; ++k) S[i][j] += A[k][i] * A[k][j];
  VecL w;
  MatL V;
  jacobi_eig(S, w, V);
  L lo = w[0], hi = w[0];
  for (L x : w) {
    lo = std::min(lo, x);
    hi = std::max(hi, x);
  }
  if (!(lo > 1e-25L * hi)) return INFINITY;
  return std::sqrt(hi / lo);
}

using P3 = std::array<L, 3>;
struct Rot3
{
  L R[3][3];
  P3 apply(const P3 & p) const
  {
    P3 r;
    for (int i = 0; i < 3; ++i) r[size_t(i)] = R[i][0] * p[0] + R[i][1] * p[1] + R[i][2] * p[2];
    return r;
  }
};
/// rotation matrix of the unit quaternion (w; x, y, z)
inline Rot3 rot_of_quat(L w, L x, L y, L z)
{
  Rot3 r;
  r.R[0][0] = 1 - 2 * (y * y + z * z);
  r.R[0][1] = 2 * (x * y - w * z);
  r.R[0][2] = 2 * (x * z + w * y);
  r.R[1][0] = 2 * (x * y + w * z);
  r.R[1][1] = 1 - 2 * (x * x + z * z);
  r.R[1][2] = 2 * (y * z - w * x);
  r.R[2][0] = 2 * (x * z - w * y);
  r.R[2][1] = 2 * (y * z + w * x);
  r.R[2][2] = 1 - 2 * (x * x + y * y);
  return r;
}
/// rotation by angle th about the unit axis a (Rodrigues)
inline Rot3 rot_axis(const P3 & a, L th) { return rot_of_quat(std::cos(th / 2), a[0] * std::sin(th / 2), a[1] * std::sin(th / 2), a[2] * std::sin(th / 2)); }
inline Rot3 mul(const Rot3 & a, const Rot3 & b)
{
  Rot3 r;
  for (int i = 0; i < 3; ++i)
    for (int j = 0; j < 3; ++j) r.R[i][j] = a.R[i][0] * b.R[0][j] + a.R[i][1] * b.R[1][j] + a.R[i][2] * b.R[2][j];
  return r;
}

/// Horn 1987: rotation maximising sum q_i . (R p_i); gap = lambda_1 - lambda_2 of the 4x4 (conditioning of the answer)
inline Rot3 horn(const std::vector<P3> & p, const std::vector<P3> & q, L * gap = nullptr)
{
  L S[3][3] = {};
  for (size_t k = 0; k < p.size(); ++k)
    for (int i = 0; i < 3; ++i)
      for (int j = 0; j < 3; ++j) S[i][j] += p[k][size_t(i)] * q[k][size_t(j)];
  MatL N = zeros(4, 4);
  N[0]   = {S[0][0] + S[1][1] + S[2][2], S[1][2] - S[2][1], S[2][0] - S[0][2], S[0][1] - S[1][0]};
  N[1]   = {S[1][2] - S[2][1], S[0][0] - S[1][1] - S[2][2], S[0][1] + S[1][0], S[2][0] + S[0][2]};
  N[2]   = {S[2][0] - S[0][2], S[0][1] + S[1][0], -S[0][0] + S[1][1] - S[2][2], S[1][2] + S[2][1]};
  N[3]   = {S[0][1] - S[1][0], S[2][0] + S[0][2], S[1][2] + S[2][1], -S[0][0] - S[1][1] + S[2][2]};
  VecL w;
  MatL V;
  jacobi_eig(N, w, V);
  size_t b = 0;
  for (size_t i = 1; i < 4; ++i)
    if (w[i] > w[b]) b = i;
  if (gap) {
    L second = -INFINITY;
    for (size_t i = 0; i < 4; ++i)
      if (i != b) second = std::max(second, w[i]);
    *gap = w[b] - second;
  }
  L n = std::sqrt(V[0][b] * V[0][b] + V[1][b] * V[1][b] + V[2][b] * V[2][b] + V[3][b] * V[3][b]);
  return rot_of_quat(V[0][b] / n, V[1][b] / n, V[2][b] / n, V[3][b] / n);
}

inline P3 centroid(const std::vector<P3> & p)
{
  P3 c{0, 0, 0};
  for (auto & x : p)
    for (size_t i = 0; i < 3; ++i) c[i] += x[i];
  for (size_t i = 0; i < 3; ++i) c[i] /= (L)p.size();
  return c;
}

/// minimiser of sum |R p_i + t - q_i|^2 over rotations and translations
inline void pose_fit(const std::vector<P3> & p, const std::vector<P3> & q, Rot3 & R, P3 & t, L * gap = nullptr)
{
  const P3 pc = centroid(p), qc = centroid(q);
  std::vector<P3> pp = p, qq = q;
  for (auto & x : pp)
    for (size_t i = 0; i < 3; ++i) x[i] -= pc[i];
  for (auto & x : qq)
    for (size_t i = 0; i < 3; ++i) x[i] -= qc[i];
  R          = horn(pp, qq, gap);
  const P3 r = R.apply(pc);
  for (size_t i = 0; i < 3; ++i) t[i] = qc[i] - r[i];
}
inline L pose_cost(const std::vector<P3> & p, const std::vector<P3> & q, const Rot3 & R, const P3 & t)
{
  L c = 0;
  for (size_t k = 0; k < p.size(); ++k) {
    const P3 r = R.apply(p[k]);
    for (size_t i = 0; i < 3; ++i) {
      const L d = r[i] + t[i] - q[k][i];
      c += d * d;
    }
  }
  return c;
}

using P2 = std::array<L, 2>;
/// minimiser of sum |Rot(th) p_i + t - q_i|^2 in the plane
inline void pose_fit2(const std::vector<P2> & p, const std::vector<P2> & q, L & th, P2 & t)
{
  P2 pc{0, 0}, qc{0, 0};
  for (size_t k = 0; k < p.size(); ++k)
    for (size_t i = 0; i < 2; ++i) {
      pc[i] += p[k][i] / (L)p.size();
      qc[i] += q[k][i] / (L)p.size();
    }
  L sd = 0, sc = 0;
  for (size_t k = 0; k < p.size(); ++k) {
    const L px = p[k][0] - pc[0], py = p[k][1] - pc[1], qx = q[k][0] - qc[0], qy = q[k][1] - qc[1];
    sd += px * qx + py * qy;
    sc += px * qy - py * qx;
  }
  th   = std::atan2(sc, sd);
  t[0] = qc[0] - (std::cos(th) * pc[0] - std::sin(th) * pc[1]);
  t[1] = qc[1] - (std::sin(th) * pc[0] + std::cos(th) * pc[1]);
}
inline L pose_cost2(const std::vector<P2> & p, const std::vector<P2> & q, L th, const P2 & t)
{
  L c = 0;
  for (size_t k = 0; k < p.size(); ++k) {
    const L dx = std::cos(th) * p[k][0] - std::sin(th) * p[k][1] + t[0] - q[k][0];
    const L dy = std::sin(th) * p[k][0] + std::cos(th) * p[k][1] + t[1] - q[k][1];
    c += dx * dx + dy * dy;
  }
  return c;
}

}  // namespace c09ref
