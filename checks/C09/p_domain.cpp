// C09 problem family: residuals that are only defined on part of the argument space (log x, sqrt x): a Gauss-Newton trial step
// can leave the domain, where the residual is NaN. The safety clauses still apply ("for any residual function and starting
// point"): a trial point with NaN cost must never be accepted, handed to the callback or returned.
// Safety clauses only (no closed-form convergence claim).
#include "c09.hpp"

namespace {
using namespace c09;

struct Dom1F
{
  int kind;
  Eigen::Vector2d operator()(const double & x) const
  {
    switch (kind) {
    case 0: return {std::log(x), 0.1 * (x - 1)};              // defined for x > 0, minimiser x = 1
    case 1: return {std::sqrt(x) - 2, 0.05 * (x - 4)};        // defined for x >= 0, minimiser x = 4
    default: return {std::log(x) - 1, std::log(3 - x) + 0.5};  // defined on (0, 3)
    }
  }
  Eigen::Matrix<double, 2, 1> jacobian(const double & x) const
  {
    switch (kind) {
    case 0: return {1 / x, 0.1};
    case 1: return {0.5 / std::sqrt(x), 0.05};
    default: return {1 / x, -1 / (3 - x)};
    }
  }
};
struct Dom1 : TPBase
{
  using Args = std::tuple<double>;
  Dom1F f;
  std::vector<double> starts;
  Dom1(const std::string & tag, int kind, std::vector<double> st) : starts(std::move(st))
  {
    name   = "domain/scalar/" + tag;
    f.kind = kind;
  }
  bool wellcond() const { return false; }
  int nres() const { return 2; }
  int nstarts() const { return int(starts.size()); }
  bool basin(int) const { return false; }
  bool hist(int s) const { return s < 3; }
  Args start(int s) const { return Args{starts[size_t(s)]}; }
  Dom1F functor() const { return f; }
  double fscale(const Args & t) const
  {
    const double x = std::get<0>(t);
    const Eigen::Vector2d v = f(x);
    const double m = std::max(std::fabs(v(0)), std::fabs(v(1)));
    return std::max(1.0, m == m ? m + 3 : 1.0);
  }
  double dist_min(const Args &) const { return NAN; }
};

struct Reg
{
  Reg()
  {
    registrars().push_back([] {
      std::vector<std::shared_ptr<const Dom1>> ps = {
        // from x0 >= 10 the first full Gauss-Newton step of log x lands at x < 0 (x - x log x < 0 for x > e)
        std::make_shared<const Dom1>("log", 0, std::vector<double>{10, 25, 100, 2, 1, 0.01, 1e3}),
        std::make_shared<const Dom1>("sqrt", 1, std::vector<double>{100, 4, 30, 1e-3, 1e4, 0.5}),
        std::make_shared<const Dom1>("log-interval", 2, std::vector<double>{2.9, 0.05, 1.5, 2.999, 1e-3}),
      };
      for (auto & p : ps) {
        mc::selfcheck("domain: analytic jacobian = central differences", jacobian_selfcheck(*p, 2));
        add_problem<Dom1>(p);
      }
    });
  }
} reg;
}  // namespace
