// C09 problem family: problems in two arguments.
//   * (SO3d R, Vector3d t):  pose alignment r_i = R p_i + t - q_i            (static, static)
//   * (SO3d R, VectorXd t):  the same with a dynamically sized translation   (static, dynamic -> dynamic Jacobian)
//   * (Vector2d a, double s): linear least squares A1 a + a2 s - b            (vector, scalar)
#include "c09_align.hpp"

namespace {
using namespace c09;

template<typename T>
struct FPose2
{
  std::shared_ptr<const Align3Data> d;
  Eigen::VectorXd operator()(const smooth::SO3d & g, const T & t) const
  {
    Eigen::VectorXd r(3 * d->n);
    for (int i = 0; i < d->n; ++i) r.segment<3>(3 * i) = g * d->p[size_t(i)] + t - d->q[size_t(i)];
    return r;
  }
  Eigen::Matrix<double, -1, T::SizeAtCompileTime == 3 ? 6 : -1> jacobian(const smooth::SO3d & g, const T &) const
  {
    Eigen::Matrix<double, -1, T::SizeAtCompileTime == 3 ? 6 : -1> J(3 * d->n, 6);
    const Eigen::Matrix3d R = g.matrix();
    for (int i = 0; i < d->n; ++i) {
      J.template block<3, 3>(3 * i, 0) = -R * hat3d(d->p[size_t(i)]);
      J.template block<3, 3>(3 * i, 3).setIdentity();
    }
    return J;
  }
};
template<typename T>
struct PPose2 : TPBase
{
  using Args = std::tuple<smooth::SO3d, T>;
  std::shared_ptr<const Align3Data> d;
  explicit PPose2(const Align3Menu & m) : d(std::make_shared<const Align3Data>(make_align3(m.n, m.truth, m.pert, true)))
  {
    name = std::string("twoarg/(SO3,") + (T::SizeAtCompileTime == 3 ? "Vector3d" : "VectorXd") + ")/" + d->tag;
  }
  bool wellcond() const { return true; }
  int nres() const { return 3 * d->n; }
  int nstarts() const { return nstarts3(); }
  bool basin(int s) const { return start3(*d, s).basin; }
  bool hist(int s) const { return hist3(s); }
  Args start(int s) const
  {
    const Start3 st = start3(*d, s);
    T t             = v3_of(st.t);
    return Args{so3_of(st.R), t};
  }
  FPose2<T> functor() const { return FPose2<T>{d}; }
  double fscale(const Args & a) const { return fscale3(*d, std::get<1>(a).data()); }
  double dist_min(const Args & a) const { return dist3(*d, std::get<0>(a).coeffs().data(), std::get<1>(a).data()); }
};

// ------------------------------------------------------------------ (Vector2d, double) linear
struct FLin2
{
  Eigen::Matrix<double, 4, 2> A1;
  Eigen::Vector4d a2, b;
  Eigen::Vector4d operator()(const Eigen::Vector2d & a, const double & s) const { return A1 * a + a2 * s - b; }
  Eigen::Matrix<double, 4, 3> jacobian(const Eigen::Vector2d &, const double &) const
  {
    Eigen::Matrix<double, 4, 3> J;
    J << A1, a2;
    return J;
  }
};
struct PLin2 : TPBase
{
  using Args = std::tuple<Eigen::Vector2d, double>;
  FLin2 f;
  c09ref::VecL xminL;
  bool wc = false;
  PLin2(const std::string & tag, bool zero_res)
  {
    name = "twoarg/(Vector2d,double)/" + tag;
    f.A1 << 2, 1, -1, 2, 0, -1, 1, 0;
    f.a2 << 0, 1, 2, -1;
    if (zero_res) {
      f.b = f.A1 * Eigen::Vector2d(3, -2) + f.a2 * 1.0;  // exactly representable: zero residual at (3,-2,1)
    } else {
      f.b << 1, -2, 0.5, 3;
    }
    c09ref::MatL A = c09ref::zeros(4, 3);
    c09ref::VecL b(4);
    for (size_t i = 0; i < 4; ++i) {
      A[i][0] = f.A1(Eigen::Index(i), 0);
      A[i][1] = f.A1(Eigen::Index(i), 1);
      A[i][2] = f.a2(Eigen::Index(i));
      b[i]    = f.b(Eigen::Index(i));
    }
    wc = c09ref::cond(A) <= 10;
    mc::selfcheck("twoarg linear: normal equations solvable and well conditioned", c09ref::lstsq(A, b, xminL) && wc);
  }
  bool wellcond() const { return wc; }
  int nres() const { return 4; }
  int nstarts() const { return 7; }
  bool basin(int) const { return true; }
  bool hist(int s) const { return s == 0 || s == 3 || s == 5; }
  Args start(int s) const
  {
    const double u[3] = {1, -1, 0.5};
    double x[3];
    for (int j = 0; j < 3; ++j) {
      const double c = (double)xminL[size_t(j)];
      switch (s) {
      case 0: x[j] = c; break;
      case 1: x[j] = c + 1e-6 * u[j]; break;
      case 2: x[j] = c + 1e-2 * u[j]; break;
      case 3: x[j] = c + u[j]; break;
      case 4: x[j] = c + 100 * u[j]; break;
      case 5: x[j] = 0; break;
      default: x[j] = j == 0 ? 3 : (j == 1 ? -2 : 1); break;  // the exact zero-residual point of the "zero" instance
      }
      x[j] = snap(x[j]);
    }
    return Args{Eigen::Vector2d(x[0], x[1]), x[2]};
  }
  FLin2 functor() const { return f; }
  double fscale(const Args & a) const
  {
    return (f.A1.cwiseAbs() * std::get<0>(a).cwiseAbs() + f.a2.cwiseAbs() * std::fabs(std::get<1>(a)) + f.b.cwiseAbs()).maxCoeff();
  }
  double dist_min(const Args & a) const
  {
    L e = std::max(std::fabs((L)std::get<0>(a)(0) - xminL[0]), std::fabs((L)std::get<0>(a)(1) - xminL[1]));
    return (double)std::max(e, std::fabs((L)std::get<1>(a) - xminL[2]));
  }
};

struct Reg
{
  Reg()
  {
    registrars().push_back([] {
      for (auto & m : align3_menu()) {
        if (m.n == 5) continue;  // 3, 4 and 6 landmarks for the two-argument forms
        auto a = std::make_shared<const PPose2<Eigen::Vector3d>>(m);
        mc::selfcheck("twoarg: analytic jacobian = central differences", jacobian_selfcheck(*a, 4));
        add_problem<PPose2<Eigen::Vector3d>>(a, m.quick);
        if (m.n == 4) continue;
        auto b = std::make_shared<const PPose2<Eigen::VectorXd>>(m);
        mc::selfcheck("twoarg: analytic jacobian = central differences", jacobian_selfcheck(*b, 4));
        add_problem<PPose2<Eigen::VectorXd>>(b, m.quick && m.n == 3);
      }
      for (bool z : {false, true}) {
        auto p = std::make_shared<const PLin2>(z ? "zero-residual" : "generic", z);
        mc::selfcheck("twoarg: analytic jacobian = central differences", jacobian_selfcheck(*p, 3));
        add_problem<PLin2>(p);
      }
    });
  }
} reg;
}  // namespace
