#include "c03.hpp"
using namespace smooth;
MC_SUBCHECK(so)
{
  c03::run<SO2d>("SO2d");
  c03::run<SO2f>("SO2f");
  c03::run<SO3d>("SO3d");
  c03::run<SO3f>("SO3f");
  c03::run<C1d>("C1d");
  c03::run<C1f>("C1f");
}
