#include "c03.hpp"
using namespace smooth;
MC_SUBCHECK(se2)
{
  c03::run<SE2d>("SE2d");
  c03::run<SE2f>("SE2f");
}
