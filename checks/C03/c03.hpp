// C03 — Ad, ad, hat, vee and the Lie bracket are the adjoint representation.
// E: all elements (Ad), all tangents (ad, hat, vee, Ad(exp a)), all pairs of the reduced alphabets (bracket, antisymmetry,
//    Ad(g1 g2)), all triples (Jacobi).   O: derived generically from the documented matrix()/hat()/vee() forms.
#pragma once
#include "bind.hpp"

namespace c03 {
using namespace mcb;

template<typename G>
void run(const std::string & tn)
{
  using S = typename G::Scalar;
  using R = Ref<G>;
  constexpr int D = R::Dof, Dim = R::Dim;
  constexpr bool F = std::is_same_v<S, float>;
  // The statement fixes no tolerance. Calibrated (DESIGN 7): worst observed on the thorough alphabet is 1.5e-15 (double) and
  // 6e-7 (float) for Ad, exact for ad/hat/vee; tolerance = 100x that, rounded up.
  const double T    = F ? 1e-4 : 1e-12;
  const double Texp = F ? 1e-3 : 1e-9;  // Ad(exp a) inherits C02's bound on exp
  const double epsS = std::numeric_limits<S>::epsilon();

  auto Ts = tangents<R, S>(AlphaOpts::dense());
  mc::explore("C03/tangent/" + tn, Ts.size(), [&](mc::Case & c) {
    const auto & t = Ts[c.idx];
    const auto a   = make<G>(t);
    c.desc         = [&] { return "a=" + vstr(a); };
    c.param("rot", t.rot);
    c.param("tm", t.tm);
    L al[D];
    toL(a, al);
    const auto Ah = R::template hat<L>(al);
    const auto H  = G::hat(a);
    c.judge("hat=documented", ref::relerr1<Dim, Dim>(H, Ah), 2 * epsS);
    {
      const auto v = G::vee(H);
      L e = 0, m = 1;
      for (int i = 0; i < D; ++i) {
        e = std::max(e, std::fabs((L)v(i) - al[i]));
        m = std::max(m, std::fabs(al[i]));
      }
      c.judge("vee(hat a)=a", (double)(e / m), 2 * epsS);
      // hat(vee(A)) = A on the algebra
      Eigen::Matrix<S, Dim, Dim> A;
      for (int i = 0; i < Dim; ++i)
        for (int j = 0; j < Dim; ++j) A(i, j) = (S)Ah(i, j);
      c.judge("hat(vee A)=A", ref::relerr1<Dim, Dim>(G::hat(G::vee(A)), Ah), 2 * epsS);
    }
    const auto adr = ref::ad_ref<R, L>(al);
    c.judge("ad=documented", ref::relerr1<D, D>(G::ad(a), adr), 4 * epsS);
    // Ad(exp a) = expm(ad a)
    const G g       = G::exp(a);
    const auto Ade  = ref::expm(adr);
    c.judge("Ad(exp a)=expm(ad a)", ref::relerr1<D, D>(g.Ad(), Ade), Texp);
  });

  auto Es = elements<R, S>(AlphaOpts::dense().upto(2 * PI + 1e-3));
  mc::explore("C03/Ad/" + tn, Es.size(), [&](mc::Case & c) {
    const G g = make<G>(Es[c.idx]);
    c.desc    = [&] { return "g=" + vstr(g.coeffs()); };
    c.param("rot", Es[c.idx].rot);
    c.param("tm", Es[c.idx].tm);
    const auto cg  = coeffsL(g);
    const auto Adr = ref::Ad_ref<R, L>(cg.data());
    const auto Ad  = g.Ad();
    c.judge("Ad=vee(M hat M^-1)", ref::relerr1<D, D>(Ad, Adr), T);
  });

  // pairs over the reduced alphabets
  // the bracket is bilinear: it is judged relative to |a||b| (no floor at 1), on an alphabet that also contains tangents whose
  // every coefficient is tiny but non-zero (1e-13) and huge-times-tiny pairs
  AlphaOpts bo = AlphaOpts::reduced();
  bo.extra_thetas = {1e-13};  // also reaches the parts of Bundles
  bo.extra_tmags  = {1e-13};
  auto Tr = tangents<R, S>(bo);
  const uint64_t n = Tr.size();
  mc::explore("C03/bracket/" + tn, n * n, [&](mc::Case & c) {
    const uint64_t i = c.idx / n, j = c.idx % n;
    const auto a = make<G>(Tr[i]), b = make<G>(Tr[j]);
    c.desc = [&] { return "a=" + vstr(a) + " b=" + vstr(b); };
    L al[D], bl[D];
    toL(a, al);
    toL(b, bl);
    const auto A = R::template hat<L>(al), B = R::template hat<L>(bl);
    L br[D];
    R::template vee<L>(ref::mul(A, B) - ref::mul(B, A), br);
    L scale = 1;
    {
      L ma = 0, mb = 0;
      for (int k = 0; k < D; ++k) {
        ma = std::max(ma, std::fabs(al[k]));
        mb = std::max(mb, std::fabs(bl[k]));
      }
      scale = ma * mb;
      if (scale == 0) scale = 1;  // one argument is zero: the bracket must be exactly zero
    }
    const auto lb  = G::lie_bracket(a, b);
    const auto lb2 = (G::ad(a) * b).eval();
    const auto lba = G::lie_bracket(b, a);
    L e1 = 0, e2 = 0, e3 = 0;
    for (int k = 0; k < D; ++k) {
      e1 = std::max(e1, std::fabs((L)lb(k) - br[k]));
      e2 = std::max(e2, std::fabs((L)lb2(k) - br[k]));
      e3 = std::max(e3, std::fabs((L)lb(k) + (L)lba(k)));
    }
    c.judge("lie_bracket=vee([A,B])", (double)(e1 / scale), 64 * epsS);
    c.judge("ad(a)b=vee([A,B])", (double)(e2 / scale), 64 * epsS);
    c.judge("antisymmetry", (double)(e3 / scale), 64 * epsS);
  });
  // Ad homomorphism over pairs of the reduced element alphabet
  auto Er = elements<R, S>(AlphaOpts::reduced().upto(PI));
  const uint64_t m = Er.size();
  mc::explore("C03/Ad-hom/" + tn, m * m, [&](mc::Case & c) {
    const uint64_t i = c.idx / m, j = c.idx % m;
    const G g1 = make<G>(Er[i]), g2 = make<G>(Er[j]);
    c.desc = [&] { return "g1=" + vstr(g1.coeffs()) + " g2=" + vstr(g2.coeffs()); };
    const auto A1 = ref::Ad_ref<R, L>(coeffsL(g1).data()), A2 = ref::Ad_ref<R, L>(coeffsL(g2).data());
    const auto P  = ref::mul(A1, A2);
    const L sc    = ref::mul(ref::cabs(A1), ref::cabs(A2)).maxabs();
    const auto Ad12 = (g1 * g2).Ad();
    c.judge("Ad(g1 g2)=Ad(g1)Ad(g2)", ref::relerr_scaled(toM<D, D>(Ad12), P, sc), 4 * T);
    const auto AdAd = (g1.Ad() * g2.Ad()).eval();
    c.judge("lib Ad(g1)Ad(g2)", ref::relerr_scaled(toM<D, D>(AdAd), P, sc), 4 * T);
  });
  // Jacobi identity over triples of a tiny tangent alphabet
  AlphaOpts jo = AlphaOpts::reduced();
  jo.thetas    = {0, 1.0001e-4, 0.3, 3};
  jo.tmags     = {0, 1};
  auto Tj      = tangents<R, S>(jo);
  const uint64_t q = Tj.size();
  mc::explore("C03/jacobi/" + tn, q * q * q, [&](mc::Case & c) {
    mc::Radix r(c.idx);
    const auto a = make<G>(Tj[r.next(q)]), b = make<G>(Tj[r.next(q)]), d = make<G>(Tj[r.next(q)]);
    c.desc = [&] { return "a=" + vstr(a) + " b=" + vstr(b) + " c=" + vstr(d); };
    const auto s = (G::lie_bracket(a, G::lie_bracket(b, d)) + G::lie_bracket(b, G::lie_bracket(d, a)) + G::lie_bracket(d, G::lie_bracket(a, b))).eval();
    const double sc = std::max(1.0, (double)a.cwiseAbs().maxCoeff() * (double)b.cwiseAbs().maxCoeff() * (double)d.cwiseAbs().maxCoeff());
    c.judge("jacobi", (double)s.cwiseAbs().maxCoeff() / sc, 512 * epsS);
  });
}
}  // namespace c03
