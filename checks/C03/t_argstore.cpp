#include "valsem.hpp"
MC_SUBCHECK(argument_storage) { mcb::argument_storage_all<4>("C03"); }
