#include "c03.hpp"
using namespace smooth;
MC_SUBCHECK(galilei)
{
  c03::run<Galileid>("Galileid");
  c03::run<Galileif>("Galileif");
}
