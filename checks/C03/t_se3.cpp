#include "c03.hpp"
using namespace smooth;
MC_SUBCHECK(se3)
{
  c03::run<SE3d>("SE3d");
  c03::run<SE3f>("SE3f");
}
