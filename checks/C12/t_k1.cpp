#include "c12.hpp"
using namespace smooth;
MC_SUBCHECK(k1)
{
  c12::run<1, Eigen::Vector2d>("K1/Vector2d");
  c12::run<1, SO3d>("K1/SO3d");
  c12::run<1, SE2d>("K1/SE2d");
}
