#include "c12.hpp"
using namespace smooth;
MC_SUBCHECK(k3)
{
  c12::run<3, Eigen::Vector2d>("K3/Vector2d");
  c12::run<3, SO3d>("K3/SO3d");
  c12::run<3, SE2d>("K3/SE2d");
}
