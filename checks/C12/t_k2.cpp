#include "c12.hpp"
using namespace smooth;
MC_SUBCHECK(k2)
{
  c12::run<2, Eigen::Vector2d>("K2/Vector2d");
  c12::run<2, SO3d>("K2/SO3d");
  c12::run<2, SE2d>("K2/SE2d");
}
