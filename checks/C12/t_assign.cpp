// C12 (object identity): the five parallel per-segment vectors and the start element travel together. A Spline that was
// copy-/move-constructed or copy-/move-assigned from another one, or built by operator+ (which must leave its operands
// untouched), is the same curve: same t_max / size / start / end and identical value, velocity, acceleration at every probe time.
#include "bind.hpp"

#include <smooth/spline/spline.hpp>

using namespace mcb;

template<int K, typename G>
static smooth::Spline<K, G> make(int k)
{
  using Sp = smooth::Spline<K, G>;
  using T  = Eigen::Matrix<double, smooth::Dof<G>, 1>;
  auto tan = [](int i, double s) {
    T a;
    for (int j = 0; j < a.size(); ++j) a(j) = s * (((j * 5 + i * 3) % 7) - 3) / 4.0;
    return a;
  };
  G ga;
  if constexpr (requires { G::exp(tan(0, 1)); }) ga = G::exp(tan(k + 3, 0.9)); else ga = tan(k + 3, 1.5);
  Sp s = Sp::ConstantVelocity(tan(k, 1.0), 0.5 + k, k % 2 ? ga : smooth::Identity<G>());
  for (int i = 0; i < k; ++i) s += Sp::ConstantVelocity(tan(i + k + 1, 0.7), 1.0 + 0.5 * i);
  if (k == 3) s = s.crop(0.7, s.t_max() - 0.4, false);
  return s;
}
template<int K, typename G>
static bool same_curve(const smooth::Spline<K, G> & x, const smooth::Spline<K, G> & y)
{
  using T = Eigen::Matrix<double, smooth::Dof<G>, 1>;
  auto cf = [](const G & g) {
    if constexpr (requires { g.coeffs(); }) return Eigen::VectorXd(g.coeffs()); else return Eigen::VectorXd(g);
  };
  if (x.t_max() != y.t_max() || x.size() != y.size()) return false;
  if (cf(x.start()) != cf(y.start()) || cf(x.end()) != cf(y.end())) return false;
  for (double f : {-0.2, 0.0, 0.17, 0.5, 0.83, 1.0, 1.2}) {
    const double t = f * y.t_max();
    T v1, a1, v2, a2;
    const G g1 = x(t, v1, a1), g2 = y(t, v2, a2);
    if (cf(g1) != cf(g2) || v1 != v2 || a1 != a2) return false;
  }
  return true;
}
template<int K, typename G>
static void run(const std::string & tn)
{
  using Sp = smooth::Spline<K, G>;
  const uint64_t n = 4;
  mc::explore("C12/assign/" + tn, n * n * 6, [&](mc::Case & c) {
    mc::Radix r(c.idx);
    const int form = int(r.next(6)), ib = int(r.next(n)), ia = int(r.next(n));
    static const char * names[6] = {"copy-construct", "copy-assign", "move-assign from temporary", "move-construct", "move-assign into empty", "operator+ leaves its operands untouched"};
    c.desc = [&, form, ia, ib] { return mc::fmt("K=%d %s: target spline #%d, source spline #%d", K, names[form], ia, ib); };
    const Sp B = make<K, G>(ib);
    if (form == 0) {
      const Sp X(B);
      c.require("copy is the same curve", same_curve(X, B));
    } else if (form == 1) {
      Sp X = make<K, G>(ia);
      X    = B;
      c.require("copy-assigned spline is the same curve", same_curve(X, B));
    } else if (form == 2) {
      Sp X = make<K, G>(ia);
      X    = make<K, G>(ib);
      c.require("move-assigned spline is the same curve", same_curve(X, B));
    } else if (form == 3) {
      Sp T = make<K, G>(ib);
      const Sp X(std::move(T));
      c.require("move-constructed spline is the same curve", same_curve(X, B));
    } else if (form == 4) {
      Sp X;
      X = make<K, G>(ib);
      c.require("move-assigned (into empty) spline is the same curve", same_curve(X, B));
    } else {
      Sp A = make<K, G>(ia), B2 = make<K, G>(ib);
      const Sp A0 = A, B0 = B2;
      const Sp S1 = A + B2;
      Sp S2 = A0;
      S2 += B0;
      c.require("operator+ = copy then +=", same_curve(S1, S2));
      c.require("operator+ leaves the left operand untouched", same_curve(A, A0));
      c.require("operator+ leaves the right operand untouched", same_curve(B2, B0));
    }
  });
}
MC_SUBCHECK(zz_assign)
{
  run<1, Eigen::Vector2d>("K1/Vector2d");
  run<3, Eigen::Vector2d>("K3/Vector2d");
  run<3, smooth::SE2d>("K3/SE2d");
  run<5, smooth::SO3d>("K5/SO3d");
}
