#include "c12.hpp"
using namespace smooth;
MC_SUBCHECK(k5)
{
  c12::run<5, Eigen::Vector2d>("K5/Vector2d");
  c12::run<5, SO3d>("K5/SO3d");
  c12::run<5, SE2d>("K5/SE2d");
}
