// C12 — Spline construction, concatenation and cropping preserve the curve (history property).
// Explicit-state BFS over the real Spline<K,G> object: operations concat_local / concat_global with every atom of a
// menu and crop(ta, tb, localize) with ta, tb from a state-dependent menu (below range, 0, every knot, every segment
// midpoint, knot +- 1e-9, t_max, above range). States are merged by the exact bytes of the six private members.
//
// Oracle (no hand-written expected values): a state's reference is a list of pieces (atom, prefix P, start s0, duration T)
// maintained by the documented semantics of each operation (append / re-anchor with x1(t1) / restrict and re-anchor with
// x(ta)^-1); the value of a piece at local time tau is P * atom(s0 + tau), where atom(.) is the evaluation of the FRESH
// one-segment spline (ConstantVelocity atoms additionally against ga*expm(t v); cspline evaluation itself is C11's subject)
// and P is accumulated in long double. Body velocity / acceleration are those of the atom (left factors do not change them).
#pragma once
#include "bind.hpp"

#include <smooth/spline/spline.hpp>

#include <functional>
#include <memory>
#include <unordered_set>

namespace c12 {
using namespace mcb;

/// coefficient vector of a group element (Eigen vectors are their own coefficients)
template<typename G>
decltype(auto) cf(const G & g)
{
  if constexpr (requires { g.coeffs(); }) {
    return g.coeffs();
  } else {
    return (g);
  }
}

template<int K, typename G>
struct Machine
{
  using Sp = smooth::Spline<K, G>;
  using R  = Ref<G>;
  static constexpr int D = R::Dof, Dim = R::Dim;
  using Tan = Eigen::Matrix<double, D, 1>;
  using M   = Mat<L, Dim>;

  struct Piece
  {
    std::shared_ptr<const Sp> atom;  // fresh one-segment spline that defines the curve of this piece
    M P;
    L s0, T;
  };
  struct RefS
  {
    M g0 = M::Id();  // value of the empty spline
    std::vector<Piece> pcs;
    /// a crop boundary coincided with a knot to within rounding: whether a sliver segment of length ~ulp exists is then
    /// decided by rounding, so size() is not compared in this state and its descendants (values still are)
    bool fuzzy = false;
    /// times of knots where the curve may jump (local concatenation of a spline that does not start at identity): the value AT
    /// such a knot is ambiguous (statement: x1's side, header: x2's side), so crops are not generated with a boundary exactly there
    std::vector<L> jumps;
    L tmax() const
    {
      L s = 0;
      for (auto & p : pcs) s += p.T;
      return s;
    }
  };
  struct State
  {
    Sp s;
    RefS r;
  };
  struct Ev
  {
    M val;
    L vel[D], acc[D];
    L pieceT = 1;  // duration of the piece the evaluation belongs to (conditioning of time derivatives)
  };

  std::vector<std::shared_ptr<const Sp>> atoms;                  // fixed atoms, some with a non-identity start (initial states)
  std::vector<std::shared_ptr<const Sp>> local_atoms;            // the same curves starting at identity (concat_local operands:
                                                                 // a local spline starting elsewhere would make the result discontinuous)
  std::vector<std::function<Sp(const G &)>> factories;           // the same curves anchored at a given start (concat_global)
  std::vector<std::string> atom_names;
  std::vector<bool> nonidentity_start;
  std::string tn;

  static M mat(const G & g)
  {
    L c[R::Rep];
    for (int i = 0; i < R::Rep; ++i) c[i] = (L)cf(g)(i);
    return R::template matrix<L>(c);
  }

  static Ev atom_eval(const std::shared_ptr<const Sp> & a, L s)
  {
    Tan v, ac;
    const double sd = (double)s;
    const G g = (*a)(sd, v, ac);
    Ev e;
    e.val = mat(g);
    for (int i = 0; i < D; ++i) {
      e.vel[i] = v(i);
      e.acc[i] = ac(i);
    }
    return e;
  }
  M start_value(const RefS & r) const
  {
    if (r.pcs.empty()) return r.g0;
    return ref::mul(r.pcs[0].P, atom_eval(r.pcs[0].atom, r.pcs[0].s0).val);
  }
  M end_value(const RefS & r) const
  {
    if (r.pcs.empty()) return r.g0;
    const auto & p = r.pcs.back();
    return ref::mul(p.P, atom_eval(p.atom, p.s0 + p.T).val);
  }
  /// reference evaluation; at a knot both adjacent pieces are returned (the statement assigns the joining time to x1,
  /// the header to x2; for continuous curves they agree)
  std::vector<Ev> ref_eval(const RefS & r, L t, L lib_tmax = -1) const
  {
    // classification of t against the domain uses the library's own t_max (judged separately against the reference);
    // pieces within a few ulp of t are all candidates
    const L tmx = lib_tmax >= 0 ? lib_tmax : r.tmax();
    const L dl  = 8 * std::numeric_limits<double>::epsilon() * std::max<L>(1, tmx);
    std::vector<Ev> out;
    Ev z;
    for (int i = 0; i < D; ++i) z.vel[i] = z.acc[i] = 0;
    if (r.pcs.empty() || t < 0) {
      z.val = start_value(r);
      out.push_back(z);
      return out;
    }
    if (t > tmx) {
      z.val = end_value(r);
      out.push_back(z);
      return out;
    }
    L o = 0;
    for (size_t i = 0; i < r.pcs.size(); ++i) {
      const auto & p = r.pcs[i];
      const bool last = i + 1 == r.pcs.size();
      if (t >= o - dl && (t <= o + p.T + dl || last)) {
        Ev e  = atom_eval(p.atom, p.s0 + std::clamp<L>(t - o, 0, p.T));
        e.val = ref::mul(p.P, e.val);
        e.pieceT = p.T;
        out.push_back(e);
      }
      o += p.T;
    }
    return out;
  }
  /// value used by crop for x(ta): the piece that starts at / contains ta (right side at a knot)
  M value_right(const RefS & r, L t) const
  {
    auto v = ref_eval(r, t);
    return v.back().val;
  }

  // ---------------- operations (applied to library object and reference alike)
  struct Op
  {
    int kind;  // 0 concat_local (identity-start atom), 1 concat_global, 2 crop, 3 concat_local with a fixed atom (any start),
               // 4 concat_global of the inner part [0.3 T, 0.8 T] of an atom (a cropped operand: segments with T0 != 0, Del != 1)
    int atom;
    double ta, tb;
    bool loc;
    std::string name() const
    {
      if (kind == 0) return mc::fmt("concat_local(atom%d anchored at identity)", atom);
      if (kind == 1) return mc::fmt("concat_global(atom%d anchored at end())", atom);
      if (kind == 3) return mc::fmt("concat_local(atom%d as is: non-identity start)", atom);
      if (kind == 4) return mc::fmt("concat_global(atom%d anchored to continue at end(), cropped to its inner part [0.3T, 0.8T])", atom);
      return mc::fmt("crop(%a~%.10g, %a~%.10g, %s)", ta, ta, tb, tb, loc ? "localize" : "global");
    }
  };
  RefS atom_ref(int a) const
  {
    RefS r;
    r.pcs.push_back({atoms[size_t(a)], M::Id(), 0, (L)atoms[size_t(a)]->t_max()});
    return r;
  }
  void apply(State & st, const Op & o) const
  {
    if (o.kind == 0) {
      const M E = end_value(st.r);
      st.s.concat_local(*local_atoms[size_t(o.atom)]);
      st.r.pcs.push_back({local_atoms[size_t(o.atom)], E, 0, (L)local_atoms[size_t(o.atom)]->t_max()});
    } else if (o.kind == 3) {
      // y(t) = x1(t1) * x2(t - t1) also holds for an x2 that does not start at identity (the curve then jumps at t1)
      const M E = end_value(st.r);
      st.r.jumps.push_back(st.r.tmax());
      st.s.concat_local(*atoms[size_t(o.atom)]);
      st.r.pcs.push_back({atoms[size_t(o.atom)], E, 0, (L)atoms[size_t(o.atom)]->t_max()});
    } else if (o.kind == 4) {
      // the operand of concat_global is itself the result of a (non-localised) crop strictly inside a segment; it is anchored
      // so that it starts where this spline ends. Its reference piece is the anchored full curve on [0.3 T, 0.8 T].
      const Sp & loc  = *local_atoms[size_t(o.atom)];
      const double T  = loc.t_max(), ta = 0.3 * T, tb = 0.8 * T;
      const G anchor  = smooth::composition(st.s.end(), smooth::inverse(loc(ta)));
      auto full       = std::make_shared<const Sp>(factories[size_t(o.atom)](anchor));
      const Sp x2     = full->crop(ta, tb, false);
      st.s.concat_global(x2);
      st.r.pcs.push_back({full, M::Id(), (L)ta, (L)tb - (L)ta});
    } else if (o.kind == 1) {
      // global concatenation of a curve that starts where this one ends (a Spline is a continuous curve): the appended
      // spline is the atom's curve anchored at end(), as a fresh object that then also serves as the reference of its piece
      auto x2 = std::make_shared<const Sp>(factories[size_t(o.atom)](st.s.end()));
      st.s.concat_global(*x2);
      st.r.pcs.push_back({x2, M::Id(), 0, (L)x2->t_max()});
    } else {
      const L ta = std::max<L>(o.ta, 0), tb = std::min<L>(o.tb, st.r.tmax());
      RefS n;
      n.fuzzy = st.r.fuzzy;
      for (auto j : st.r.jumps)
        if (j > ta && j < tb) n.jumps.push_back(j - ta);
      if (tb > ta) {
        const M Lf = o.loc ? ref::inv(value_right(st.r, ta)) : M::Id();
        const L dl = 32 * std::numeric_limits<double>::epsilon() * std::max<L>(1, st.r.tmax());
        L off = 0;
        for (auto & p : st.r.pcs) {
          const L a = std::max(off, ta), b = std::min(off + p.T, tb);
          if (b - a > dl) {
            n.pcs.push_back({p.atom, ref::mul(Lf, p.P), p.s0 + (a - off), b - a});
          } else if (b - a > -dl) {
            // the boundary coincides with a knot to within rounding: the library may or may not keep a sliver segment of
            // length ~ulp(t_max) here. Keep it as a zero-length piece: evaluations within rounding of it accept either side.
            n.pcs.push_back({p.atom, ref::mul(Lf, p.P), p.s0 + (std::min(a, b) - off), std::max<L>(b - a, 0)});
            n.fuzzy = true;
          }
          off += p.T;
        }
      }
      st.s = st.s.crop(o.ta, o.tb, o.loc);
      st.r = n;
    }
  }
  /// operation menu of a state
  std::vector<Op> menu(const State & st, bool full) const
  {
    std::vector<Op> ops;
    const int na = int(atoms.size());
    for (int a = 0; a < na; ++a) {
      if (!full && a >= 2 && a != na - 1) continue;
      ops.push_back({0, a, 0, 0, false});
      ops.push_back({1, a, 0, 0, false});
    }
    for (int a = 0; a < na; ++a)
      if (nonidentity_start[size_t(a)] && (full || a == 1)) ops.push_back({3, a, 0, 0, false});
    for (int a = 0; a < na; ++a)
      if (a == 0 || a == na - 1) ops.push_back({4, a, 0, 0, false});  // two atoms suffice: the operand's crop offsets are what matters
    std::vector<double> ts;
    const double tm = st.s.t_max();
    if (tm > 0) {
      ts.push_back(-0.5);
      ts.push_back(0);
      double prev = 0;
      for (auto e : st.s.m_end_t) {
        ts.push_back(0.5 * (prev + e));
        if (full && e < tm) {
          ts.push_back(e - 1e-9);
          ts.push_back(e + 1e-9);
        }
        ts.push_back(e);
        prev = e;
      }
      ts.push_back(tm + 0.5);
      ts.erase(std::remove_if(ts.begin(), ts.end(), [&](double t) {
        for (auto j : st.r.jumps)
          if (std::fabs((L)t - j) < 1e-12) return true;
        return false;
      }), ts.end());
      std::sort(ts.begin(), ts.end());
      for (size_t i = 0; i < ts.size(); ++i)
        for (size_t j = i + 1; j < ts.size(); ++j) {
          // only crops whose clamped interval is non-empty are within the statement's premise (ta < tb)
          // (and at least 1e-10 long: knot times are doubles of magnitude t_max, a shorter interval is below time resolution)
          if (std::min(ts[j], tm) - std::max(ts[i], 0.0) < 1e-10) continue;
          if (ts[i] <= 0 && ts[j] >= tm && !(ts[i] == 0 && ts[j] == tm)) continue;  // same as identity crop: keep one
          ops.push_back({2, 0, ts[i], ts[j], true});
          ops.push_back({2, 0, ts[i], ts[j], false});
        }
    }
    return ops;
  }
  static uint64_t hash(const Sp & s)
  {
    uint64_t h = 1469598103934665603ull;
    auto mix = [&](const void * p, size_t n) {
      const unsigned char * b = (const unsigned char *)p;
      for (size_t i = 0; i < n; ++i) h = (h ^ b[i]) * 1099511628211ull;
      h ^= h >> 29;
    };
    mix(s.m_g0.data(), sizeof(double) * size_t(R::Rep));
    const size_t n = s.m_end_t.size();
    mix(&n, sizeof n);
    for (size_t i = 0; i < n; ++i) {
      mix(&s.m_end_t[i], 8);
      mix(s.m_end_g[i].data(), sizeof(double) * size_t(R::Rep));
      mix(s.m_Vs[i].data(), sizeof(double) * size_t(D * K));
      mix(&s.m_seg_T0[i], 8);
      mix(&s.m_seg_Del[i], 8);
    }
    return h;
  }

  // ---------------- judgement of one state
  // tolerances: the statement fixes none. Calibrated (DESIGN 7) on the thorough tier: worst value 2e-13, velocity 1e-12,
  // acceleration 3e-11 (acceleration of cropped segments is scaled by (Del/T)^2).
  static constexpr double TOLV = 1e-10, TOLD = 1e-9, TOLA = 1e-8;
  void judge(mc::Case & c, const State & st) const
  {
    const L tm = st.r.tmax();
    c.judge("t_max", std::fabs((double)(tm - (L)st.s.t_max())) / std::max(1.0, (double)tm), 1e-12);
    if (!st.r.fuzzy) c.require("size() = number of pieces", st.s.size() == st.r.pcs.size());
    c.outcome(st.r.fuzzy ? "crop boundary within rounding of a knot (size not compared)" : "generic");
    c.judge("start()", ref::relerr1(mat(st.s.start()), start_value(st.r)), TOLV);
    c.judge("end()", ref::relerr1(mat(st.s.end()), end_value(st.r)), TOLV);
    std::vector<double> ts = {-0.3, 0.0};
    double prev = 0;
    for (auto e : st.s.m_end_t) {
      ts.push_back(prev + (e - prev) / 3);
      ts.push_back(prev + 2 * (e - prev) / 3);
      ts.push_back(e - 1e-9);
      ts.push_back(e);
      ts.push_back(e + 1e-9);
      prev = e;
    }
    ts.push_back((double)tm + 0.3);
    double wv = 0, wd = 0, wa = 0, wonly = 0;
    for (double t : ts) {
      Tan v, a;
      const G g  = st.s(t, v, a);
      const G g2 = st.s(t);  // value only: must not depend on the requested outputs
      wonly      = std::max(wonly, (double)(mat(g) - mat(g2)).maxabs());
      const auto cands = ref_eval(st.r, t, (L)st.s.t_max());
      double bv = INFINITY, bd = INFINITY, ba = INFINITY;
      for (auto & e : cands) {
        const double ev = ref::relerr1(mat(g), e.val);
        L ed = 0, ea = 0, sd = 1, sa = 1;
        for (int i = 0; i < D; ++i) {
          ed = std::max(ed, std::fabs((L)v(i) - e.vel[i]));
          ea = std::max(ea, std::fabs((L)a(i) - e.acc[i]));
          sd = std::max(sd, std::fabs(e.vel[i]));
          sa = std::max(sa, std::fabs(e.acc[i]));
        }
        if (!(ev == ev)) continue;
        // Knot times are stored as doubles of magnitude t_max, so the duration of a piece is only known to ulp(t_max): the time
        // scaling Del/T of velocity (squared for acceleration) carries the relative uncertainty ulp(t_max)/duration. This
        // conditioning term is subtracted before comparing with the tolerance (it only matters for the 1e-9-long pieces that
        // crops at knot +- 1e-9 create).
        const double cond = e.pieceT > 0 ? 4 * std::numeric_limits<double>::epsilon() * std::max(1.0, (double)tm) / (double)e.pieceT : INFINITY;
        const double rd = std::max(0.0, (double)(ed / sd) - 2 * cond), ra = std::max(0.0, (double)(ea / sa) - 4 * cond);
        // choose the candidate jointly (the evaluation must be consistent with ONE piece)
        const double tot = ev / TOLV + rd / TOLD + ra / TOLA;
        const double cur = bv / TOLV + bd / TOLD + ba / TOLA;
        if (!(tot >= cur)) {
          bv = ev;
          bd = rd;
          ba = ra;
        }
      }
      wv = std::max(wv, bv);
      wd = std::max(wd, bd);
      wa = std::max(wa, ba);
      if (!(bv == bv)) wv = INFINITY;
    }
    c.judge("value", wv, TOLV);
    c.judge("velocity", wd, TOLD);
    c.judge("acceleration", wa, TOLA);
    c.judge("value independent of requested outputs", wonly, 1e-14);
    if constexpr (K == 3 && R::NRot == 0) judge_arclength(c, st, ts);
  }

  /// arclength(t) = integral over [0,t] of the component-wise absolute body velocity (vector spaces, K = 3):
  /// per piece the velocity is a quadratic in time; it is recovered from three evaluations of the piece's atom and
  /// |quadratic| is integrated exactly by root splitting in long double
  static L int_abs_quadratic(L a, L b, L c, L x0, L x1)
  {
    std::vector<L> cuts{x0, x1};
    if (a != 0) {
      const L disc = b * b - 4 * a * c;
      if (disc > 0) {
        const L sq = std::sqrt(disc), q = -(b + (b >= 0 ? sq : -sq)) / 2;
        for (L r : {q / a, q != 0 ? c / q : (L)0})
          if (r > x0 && r < x1) cuts.push_back(r);
      }
    } else if (b != 0) {
      const L r = -c / b;
      if (r > x0 && r < x1) cuts.push_back(r);
    }
    std::sort(cuts.begin(), cuts.end());
    auto F = [&](L x) { return a * x * x * x / 3 + b * x * x / 2 + c * x; };
    L s = 0;
    for (size_t i = 0; i + 1 < cuts.size(); ++i) s += std::fabs(F(cuts[i + 1]) - F(cuts[i]));
    return s;
  }
  void judge_arclength(mc::Case & c, const State & st, const std::vector<double> & ts, bool relative_to_total = false) const
  {
    double worst = 0;
    L total[D] = {};
    if (relative_to_total) {
      for (auto & p : st.r.pcs) {
        const Ev e0 = atom_eval(p.atom, p.s0), e1 = atom_eval(p.atom, p.s0 + p.T / 2), e2 = atom_eval(p.atom, p.s0 + p.T);
        for (int k = 0; k < D; ++k) {
          const L y0 = e0.vel[k], y1 = e1.vel[k], y2 = e2.vel[k], h = p.T / 2;
          total[k] += int_abs_quadratic((y0 - 2 * y1 + y2) / (2 * h * h), (-3 * y0 + 4 * y1 - y2) / (2 * h), y0, 0, p.T);
        }
      }
    }
    for (double t : ts) {
      const Tan al = st.s.arclength(t);
      L refv[D] = {};
      const L tt = std::clamp<L>(t, 0, st.r.tmax());
      L off = 0;
      for (auto & p : st.r.pcs) {
        const L b = std::min(tt - off, p.T);
        if (b > 0) {
          // velocity of the atom at three points of [s0, s0+T] -> quadratic through them (x = local time in the piece)
          const Ev e0 = atom_eval(p.atom, p.s0), e1 = atom_eval(p.atom, p.s0 + p.T / 2), e2 = atom_eval(p.atom, p.s0 + p.T);
          for (int k = 0; k < D; ++k) {
            const L y0 = e0.vel[k], y1 = e1.vel[k], y2 = e2.vel[k], h = p.T / 2;
            const L qa = (y0 - 2 * y1 + y2) / (2 * h * h), qb = (-3 * y0 + 4 * y1 - y2) / (2 * h), qc = y0;
            refv[k] += int_abs_quadratic(qa, qb, qc, 0, b);
          }
        }
        off += p.T;
      }
      for (int k = 0; k < D; ++k) {
        const L scale = relative_to_total ? std::max<L>(total[k], 1e-300L) : std::max<L>(1, refv[k]);
        worst = std::max(worst, (double)(std::fabs((L)al(k) - refv[k]) / scale));
      }
      if (!(al.array() == al.array()).all()) worst = INFINITY;
    }
    c.judge("arclength", worst, 1e-9);
  }

  // ---------------- BFS
  void bfs(const std::vector<State> & init, const std::vector<std::string> & init_names, int depth_full, int depth_reduced)
  {
    std::vector<State> frontier = init;
    std::unordered_set<uint64_t> seen;
    std::vector<std::vector<std::pair<uint32_t, std::string>>> prov(1);
    for (uint32_t i = 0; i < frontier.size(); ++i) {
      seen.insert(hash(frontier[i].s));
      prov[0].push_back({i, init_names[i]});
    }
    // judge the initial states
    mc::explore("C12/bfs/" + tn + "/depth0", frontier.size(), [&](mc::Case & c) {
      c.desc = [&] { return "state: " + init_names[c.idx]; };
      judge(c, frontier[c.idx]);
    });
    uint64_t total = frontier.size();
    std::vector<uint64_t> sizes{frontier.size()};
    const int depth = std::max(depth_full, depth_reduced);
    for (int d = 1; d <= depth; ++d) {
      const bool full = d <= depth_full;
      // enumerate (state, op) pairs of this level
      std::vector<std::pair<uint32_t, Op>> work;
      for (uint32_t i = 0; i < frontier.size(); ++i) {
        if (frontier[i].s.size() >= 8) continue;  // bound on the number of segments
        for (auto & o : menu(frontier[i], full)) work.push_back({i, o});
      }
      auto history = [&](uint32_t idx, int level) {
        std::vector<std::string> names;
        uint32_t p = idx;
        for (int l = level; l >= 0; --l) {
          names.push_back(prov[size_t(l)][p].second);
          p = prov[size_t(l)][p].first;
        }
        std::string s;
        for (size_t k = names.size(); k-- > 0;) s += names[k] + (k ? "; " : "");
        return s;
      };
      const std::string label = mc::fmt("C12/bfs/%s/depth%d%s", tn.c_str(), d, full ? "" : "-reduced-menu");
      std::vector<uint64_t> hs(work.size());
      auto body = [&](mc::Case & c) {
        const auto & w = work[c.idx];
        State st       = frontier[w.first];
        c.desc         = [&] { return history(w.first, d - 1) + "; THEN " + w.second.name(); };
        c.param("depth", d);
        c.param("segments", double(st.s.size()));
        apply(st, w.second);
        judge(c, st);
        hs[c.idx] = hash(st.s);
      };
      if (mc::replaying() && mc::replay_label() != label) {
        for (uint64_t i = 0; i < work.size(); ++i) {
          State st = frontier[work[i].first];
          apply(st, work[i].second);
          hs[i] = hash(st.s);
        }
      } else {
        mc::explore(label, work.size(), body);
      }
      if (d == depth) break;
      std::vector<State> next;
      std::vector<std::pair<uint32_t, std::string>> pv;
      for (uint64_t i = 0; i < work.size(); ++i) {
        if (!seen.insert(hs[i]).second) continue;
        State st = frontier[work[i].first];
        apply(st, work[i].second);
        next.push_back(std::move(st));
        pv.push_back({work[i].first, work[i].second.name()});
      }
      frontier.swap(next);
      prov.push_back(pv);
      total += frontier.size();
      sizes.push_back(frontier.size());
    }
    std::string ls;
    for (auto v : sizes) ls += (ls.empty() ? "" : ",") + std::to_string(v);
    mc::note("bfs " + tn, mc::fmt("{\"depth_full_menu\": %d, \"depth_reduced_menu\": %d, \"distinct_states_expanded\": %llu, \"frontier_sizes\": [%s]}", depth_full,
                            depth_reduced, (unsigned long long)total, ls.c_str()));
  }
};

/// tangent / element helpers for the atom menus
template<typename G>
Eigen::Matrix<double, Ref<G>::Dof, 1> tan_of(int k, double scale)
{
  using R = Ref<G>;
  Eigen::Matrix<double, R::Dof, 1> a;
  for (int i = 0; i < R::Dof; ++i) a(i) = scale * (((i * 5 + k * 3) % 7) - 3) / 4.0;
  if constexpr (R::NRot == 3)
    for (int i = 0; i < 3; ++i) a(R::RotOff + i) = scale * (k % 2 ? 0.4 : -0.3) * (i + 1) / 2.0;
  if constexpr (R::NRot == 1) a(R::RotOff) = scale * (k % 2 ? 0.7 : -0.5);
  return a;
}
template<typename G>
G elem_of(int k)
{
  using R = Ref<G>;
  if constexpr (R::NRot == 0) {
    return tan_of<G>(k + 3, 1.5);
  } else {
    return G::exp(tan_of<G>(k + 3, 1.3));
  }
}

template<int K, typename G>
void run(const std::string & tn)
{
  using Mc = Machine<K, G>;
  using Sp = typename Mc::Sp;
  Mc m;
  m.tn = tn;
  const G I = smooth::Identity<G>();
  // atoms: each is a curve family anchored at a start element; atoms[k] is the fixed object, factories[k](ga) re-anchors it
  {
    const auto v = tan_of<G>(0, 1.0);
    m.factories.push_back([v](const G & ga) { return Sp::ConstantVelocity(v, 1.0, ga); });
    m.atoms.push_back(std::make_shared<const Sp>(m.factories.back()(I)));
    m.atom_names.push_back("ConstantVelocity(v0, T=1, I)");
  }
  {
    const auto v = tan_of<G>(1, 0.8);
    m.factories.push_back([v](const G & ga) { return Sp::ConstantVelocity(v, 0.5, ga); });
    m.atoms.push_back(std::make_shared<const Sp>(m.factories.back()(elem_of<G>(0))));
    m.atom_names.push_back("ConstantVelocity(v1, T=0.5, g0)");
  }
  {
    Eigen::Matrix<double, Mc::D, K> V;
    for (int j = 0; j < K; ++j) V.col(j) = tan_of<G>(j + 2, 0.6 + 0.2 * j);
    // through the range-of-tangents constructor (the matrix overloads are used by the last atom and by the atom-level spaces)
    std::vector<Eigen::Matrix<double, Mc::D, 1>> vs;
    for (int j = 0; j < K; ++j) vs.push_back(V.col(j));
    m.factories.push_back([vs](const G & ga) { return Sp(3.0, vs, ga); });
    m.atoms.push_back(std::make_shared<const Sp>(m.factories.back()(I)));
    m.atom_names.push_back("Spline(T=3, range of K tangents, I)");
  }
  if constexpr (K == 3) {
    const G gb = elem_of<G>(1);
    const auto va = tan_of<G>(2, 0.5), vb = tan_of<G>(3, 0.7);
    // anchored variant: the same relative motion gb' = ga * (g2^-1 * gb)
    const G rel = smooth::composition(smooth::inverse(elem_of<G>(2)), gb);
    m.factories.push_back([rel, va, vb](const G & ga) { return Sp::FixedCubic(smooth::composition(ga, rel), va, vb, 2.0, ga); });
    m.atoms.push_back(std::make_shared<const Sp>(Sp::FixedCubic(gb, va, vb, 2.0, elem_of<G>(2))));
    m.atom_names.push_back("FixedCubic(gb, va, vb, T=2, ga)");
  } else {
    Eigen::Matrix<double, Mc::D, K> V;
    for (int j = 0; j < K; ++j) V.col(j) = tan_of<G>(2 * j + 1, 0.9 - 0.1 * j);
    // through the rvalue overload Spline(T, Matrix &&, G &&)
    m.factories.push_back([V](const G & ga) { return Sp(1.0, Eigen::Matrix<double, Mc::D, K>(V), G(ga)); });
    m.atoms.push_back(std::make_shared<const Sp>(m.factories.back()(elem_of<G>(2))));
    m.atom_names.push_back("Spline(T=1, V' (rvalue), g2 (rvalue))");
  }
  for (auto & f : m.factories) m.local_atoms.push_back(std::make_shared<const Sp>(f(I)));
  for (auto & a : m.atoms) m.nonidentity_start.push_back((Mc::mat(a->start()) - Mc::M::Id()).maxabs() > 1e-6);
  // atom-level clauses: ConstantVelocity(v,T,ga)(t) = ga*exp(t v) for every degree; FixedCubic end conditions
  {
    struct CV
    {
      int k;
      double sc, T;
      int ga;
    };
    std::vector<CV> cvs = {{0, 1.0, 1.0, -1}, {1, 0.8, 0.5, 0}, {2, 2.0, 2.0, 1}, {3, 1e-5, 3.0, 2}, {4, 0.3, 1e-3, -1}, {5, 1.0, 7.0, 0}};
    const std::vector<double> us = {0, 1e-9, 0.25, 0.5, 0.75, 1 - 1e-9, 1};
    mc::explore("C12/ConstantVelocity/" + tn, cvs.size() * us.size(), [&](mc::Case & c) {
      const auto & cv = cvs[c.idx / us.size()];
      const double t  = us[c.idx % us.size()] * cv.T;
      const auto v    = tan_of<G>(cv.k, cv.sc);
      const G ga      = cv.ga < 0 ? I : elem_of<G>(cv.ga);
      c.desc = [&, t] { return mc::fmt("K=%d T=%g t=%a ", K, cv.T, t) + "v=" + vstr(v) + " ga=" + vstr(cf(ga)); };
      const Sp s = Sp::ConstantVelocity(v, cv.T, ga);
      Eigen::Matrix<double, Mc::D, 1> vel, acc;
      const G g = s(t, vel, acc);
      L vl[Mc::D];
      for (int i = 0; i < Mc::D; ++i) vl[i] = (L)v(i) * (L)t;
      const auto Mr = ref::mul(Mc::mat(ga), ref::exp_ref<Ref<G>>(vl));
      c.judge("x(t)=ga*exp(t v)", ref::relerr1(Mc::mat(g), Mr), 1e-10);
      c.judge("velocity=v", (double)(vel - v).cwiseAbs().maxCoeff() / std::max(1.0, (double)v.cwiseAbs().maxCoeff()), 1e-9);
      c.judge("acceleration=0", (double)acc.cwiseAbs().maxCoeff() / std::max(1.0, (double)v.cwiseAbs().maxCoeff()), 1e-8);
      c.judge("t_max=T", std::fabs(s.t_max() - cv.T) / cv.T, 1e-15);
    });
    if constexpr (K == 3) {
      mc::explore("C12/FixedCubic/" + tn, 8, [&](mc::Case & c) {
        const int k = int(c.idx);
        const G ga = k % 2 ? elem_of<G>(k) : I, gb = elem_of<G>(k + 1);
        const auto va = tan_of<G>(k, 0.5), vb = tan_of<G>(k + 2, 0.8);
        const double T = k < 4 ? 2.0 : 0.25;
        c.desc = [&] { return mc::fmt("T=%g ", T) + "ga=" + vstr(cf(ga)) + " gb=" + vstr(cf(gb)) + " va=" + vstr(va) + " vb=" + vstr(vb); };
        const Sp s = Sp::FixedCubic(gb, va, vb, T, ga);
        Eigen::Matrix<double, Mc::D, 1> v0, v1;
        const G g0 = s(0., v0), g1 = s(T, v1);
        c.judge("x(0)=ga", ref::relerr1(Mc::mat(g0), Mc::mat(ga)), 1e-10);
        c.judge("x(T)=gb", ref::relerr1(Mc::mat(g1), Mc::mat(gb)), 1e-10);
        c.judge("velocity(0)=va", (double)(v0 - va).cwiseAbs().maxCoeff(), 1e-9);
        c.judge("velocity(T)=vb", (double)(v1 - vb).cwiseAbs().maxCoeff(), 1e-9);
      });
    }
  }
  // arclength over magnitudes: slow / short segments with sign-changing quadratic velocity components (vector spaces, K = 3)
  if constexpr (K == 3 && Ref<G>::NRot == 0) {
    const std::vector<double> scales = {1, 1e-2, 1e-3, 1e-4, 1e-6}, Ts = {2e-4, 1e-2, 1, 50};
    const std::vector<double> fr = {-0.2, 0, 0.1, 0.3, 0.5, 0.7, 0.9, 1.0, 1.3};
    const int nshape = 6;
    mc::explore("C12/arclength-scales/" + tn, scales.size() * Ts.size() * nshape * 2, [&](mc::Case & c) {
      mc::Radix r(c.idx);
      const bool two = r.next(2);
      const int sh   = int(r.next(nshape));
      const double T = Ts[r.next(Ts.size())], sc = scales[r.next(scales.size())];
      Eigen::Matrix<double, Mc::D, K> V;
      // control velocities with sign changes: patterns of (+,-,+), (-,+,+), ...
      static const double pat[6][3] = {{1, -1, 1}, {-1, 2, 0.5}, {0.5, -0.1, -1}, {1, 1, -2}, {-0.3, 1, -0.3}, {2, -3, 2}};
      for (int j = 0; j < K; ++j)
        for (int i = 0; i < Mc::D; ++i) V(i, j) = sc * T / 3 * pat[(sh + i) % 6][j];
      typename Mc::State st;
      auto a1 = std::make_shared<const Sp>(Sp(T, V, I));
      st.s = *a1;
      st.r.pcs.push_back({a1, Mc::M::Id(), 0, (L)T});
      if (two) {
        Eigen::Matrix<double, Mc::D, K> V2 = -0.7 * V;
        auto a2 = std::make_shared<const Sp>(Sp(0.5 * T, V2, I));
        const auto E = m.end_value(st.r);
        st.s.concat_local(*a2);
        st.r.pcs.push_back({a2, E, 0, (L)(0.5 * T)});
      }
      c.desc = [&, T, sc, sh, two] { return mc::fmt("T=%g velocity scale=%g control pattern #%d segments=%d", T, sc, sh, two ? 2 : 1); };
      c.param("scale", sc);
      std::vector<double> ts;
      for (double f : fr) ts.push_back(f * st.s.t_max());
      // relative to the total length (small curves must be accurate relative to their own size)
      const auto tot = st.s.arclength(st.s.t_max());
      (void)tot;
      m.judge_arclength(c, st, ts, true);
    });
  }
  // initial states: empty (identity and generic start), each atom
  std::vector<typename Mc::State> init;
  std::vector<std::string> names;
  {
    typename Mc::State e;
    e.s = Sp(I);
    init.push_back(e);
    names.push_back("empty(I)");
    typename Mc::State e2;
    e2.s    = Sp(elem_of<G>(1));
    e2.r.g0 = Mc::mat(elem_of<G>(1));
    init.push_back(e2);
    names.push_back("empty(g1)");
  }
  for (int a = 0; a < int(m.atoms.size()); ++a) {
    typename Mc::State s;
    s.s = *m.atoms[size_t(a)];
    s.r = m.atom_ref(a);
    init.push_back(s);
    names.push_back("atom" + std::to_string(a) + "=" + m.atom_names[size_t(a)]);
  }
  const bool th = mc::thorough();
  m.bfs(init, names, th ? 4 : 3, th ? 5 : 3);
}

}  // namespace c12
