#include "c12.hpp"
using namespace smooth;
MC_SUBCHECK(k3_se3) { c12::run<3, SE3d>("K3/SE3d"); }
