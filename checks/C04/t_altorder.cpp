#include "float_first.hpp"
// second pass in a fresh process: every routine is first called in single precision (DESIGN 0.2)
MC_ALT_ORDER_WARMUP { mcb::float_first_warmup(); }
