#include "c04.hpp"
using namespace smooth;
MC_SUBCHECK(se3)
{
  c04::run<SE3d>("SE3d");
  c04::run<SE3f>("SE3f");
  c04::action<SE3d, 3>("SE3d");
  c04::action<SE3f, 3>("SE3f");
}
