#include "c04.hpp"
using namespace smooth;
MC_SUBCHECK(so)
{
  c04::run<SO2d>("SO2d");
  c04::run<SO2f>("SO2f");
  c04::run<SO3d>("SO3d");
  c04::run<SO3f>("SO3f");
  c04::run<C1d>("C1d");
  c04::run<C1f>("C1f");
  c04::action<SO2d, 2>("SO2d");
  c04::action<SO2f, 2>("SO2f");
  c04::action<SO3d, 3>("SO3d");
  c04::action<SO3f, 3>("SO3f");
}
