#include "c04.hpp"
using namespace smooth;
MC_SUBCHECK(galilei)
{
  c04::run<Galileid>("Galileid");
  c04::run<Galileif>("Galileif");
  c04::action<Galileid, 4>("Galileid");
  c04::action<Galileif, 4>("Galileif");
}
