#include "c04.hpp"
using namespace smooth;
MC_SUBCHECK(se2)
{
  c04::run<SE2d>("SE2d");
  c04::run<SE2f>("SE2f");
  c04::action<SE2d, 2>("SE2d");
  c04::action<SE2f, 2>("SE2f");
}
