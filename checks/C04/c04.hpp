// C04 — first-order derivative formulas are the true Jacobians.
// E: every alphabet tangent (any rotation norm for dr_exp/dl_exp; <= pi-1e-3 for the inverses and rminus Jacobians),
//    every (element, point) pair for dr_action.   O: phi1(-/+ ad_ref a) via augmented expm, LU inverse, M hat(e_i) v.
#pragma once
#include "bind.hpp"

#include <smooth/derivatives.hpp>

namespace c04 {
using namespace mcb;

template<typename G>
void run(const std::string & tn)
{
  using S = typename G::Scalar;
  using R = Ref<G>;
  constexpr int D = R::Dof;
  constexpr bool F = std::is_same_v<S, float>;
  const double T   = F ? 1e-2 : 1e-7;  // stated, relative to the largest entry of the exact matrix

  auto Ts = tangents<R, S>(AlphaOpts::dense());
  mc::explore("C04/exp-jac/" + tn, Ts.size(), [&](mc::Case & c) {
    const auto & t = Ts[c.idx];
    const auto a   = make<G>(t);
    c.desc         = [&] { return "a=" + vstr(a); };
    c.param("rot", t.rot);
    c.param("tm", t.tm);
    c.outcome(t.rot * t.rot < 1e-8 ? "rot^2<eps2" : (t.rot <= PI - 1e-3 ? "eps2<=rot^2,rot<=pi-1e-3" : "rot>pi-1e-3"));
    L al[D];
    toL(a, al);
    const auto Jr = ref::dr_exp_ref<R>(al);
    const auto Jl = ref::dl_exp_ref<R>(al);
    c.judge("dr_exp", ref::relerr_big<D, D>(G::dr_exp(a), Jr), T);
    c.judge("dl_exp", ref::relerr_big<D, D>(G::dl_exp(a), Jl), T);
    if (t.rot <= PI - 1e-3) {
      const auto Jri = ref::inv(Jr), Jli = ref::inv(Jl);
      c.judge("dr_expinv", ref::relerr_big<D, D>(G::dr_expinv(a), Jri), T);
      c.judge("dl_expinv", ref::relerr_big<D, D>(G::dl_expinv(a), Jli), T);
      c.judge("dr_rminus", ref::relerr_big<D, D>(smooth::dr_rminus<G>(a), Jri), T);
      Mat<L, 1, D> rs;
      for (int j = 0; j < D; ++j)
        for (int i = 0; i < D; ++i) rs(0, j) += al[i] * Jri(i, j);
      c.judge("dr_rminus_squarednorm", ref::relerr_big<1, D>(smooth::dr_rminus_squarednorm<G>(a), rs), T);
    }
  });
}

/// dr_action: column i = M(g) hat(e_i) v~  (first NP rows)
template<typename G, int NP>
void action(const std::string & tn)
{
  using S = typename G::Scalar;
  using R = Ref<G>;
  constexpr int D = R::Dof, Dim = R::Dim;
  constexpr bool F = std::is_same_v<S, float>;
  const double T   = F ? 1e-2 : 1e-7;
  auto E = elements<R, S>(AlphaOpts::full().upto(PI + 1e-3));
  std::vector<std::array<double, 4>> pts = {{0, 0, 0, 0}, {1, 0, 0, 0}, {0, 1, 0, 0}, {0, 0, 1, 0}, {0, 0, 0, 1}, {0.3, -1.7, 2.2, 0.9},
    {300., -1700., 2200., 900.}, {-1e-3, 2e-3, 5e-4, -1e-3}};
  const uint64_t np = pts.size();
  mc::explore("C04/dr_action/" + tn, E.size() * np, [&](mc::Case & c) {
    const uint64_t i = c.idx / np, k = c.idx % np;
    const G g = make<G>(E[i]);
    Eigen::Matrix<S, NP, 1> v;
    for (int q = 0; q < NP; ++q) v(q) = (S)pts[k][size_t(q)];
    c.desc = [&] { return "g=" + vstr(g.coeffs()) + " v=" + vstr(v); };
    c.param("tm", E[i].tm);
    const auto M = R::template matrix<L>(coeffsL(g).data());
    Mat<L, Dim, 1> h;
    for (int q = 0; q < Dim; ++q) h(q, 0) = q < NP ? (L)v(q) : (L)1;
    Mat<L, NP, D> Jref;
    for (int j = 0; j < D; ++j) {
      L e[D] = {};
      e[j]   = 1;
      const auto col = ref::mul(ref::mul(M, R::template hat<L>(e)), h);
      for (int q = 0; q < NP; ++q) Jref(q, j) = col(q, 0);
    }
    c.judge("dr_action", ref::relerr_big<NP, D>(g.dr_action(v), Jref), T);
  });
}
}  // namespace c04
