#include "c15.hpp"
using namespace smooth;
MC_SUBCHECK(galilei)
{
  c15::run<Galileid>("Galileid", 3, 5);
  c15::run<SE_K_3<double, 2>>("SE_2_3d", 3, 5);
}
