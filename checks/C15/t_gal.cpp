#include "c15.hpp"
using namespace smooth;
MC_SUBCHECK(galilei)
{
  c15::run<Galileid>("Galileid", 5, 6);
  c15::run<SE_K_3<double, 2>>("SE_2_3d", 5, 6);
}
