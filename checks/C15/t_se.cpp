#include "c15.hpp"
using namespace smooth;
MC_SUBCHECK(se)
{
  c15::run<SE2d>("SE2d", 5, 6);
  c15::run<SE3d>("SE3d", 5, 6);
}
