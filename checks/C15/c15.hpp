// C15 — representation invariants and accuracy survive any history of operations (double precision; the statement's
// absolute bounds (n+1)*1e-14 / (n+1)*1e-13 are below float's unit round-off).
// (a) BFS over ALL programs up to a depth on a register file of 2 elements + 2 (constant) tangents, on the real objects,
//     states merged by the exact bit pattern of the registers; (b) every homogeneous chain and every periodic program of
//     period 2 unrolled to long lengths with the invariants monitored at every step.
// O: the same program executed on reference matrices in long double (product, Gauss-Jordan inverse, expm of the documented
//    hat matrix); |coeff constraint| <= (n+1)e-14; SO3 parts keep q_w >= 0; matrix within (n+1)e-13 (relative).
#pragma once
#include "bind.hpp"

#include <smooth/manifolds.hpp>

#include <thread>
#include <unordered_set>

namespace c15 {
using namespace mcb;

/// quaternion w coefficients of all SO3 parts (canonical sign clause)
template<typename R>
struct QW
{
  static void get(const L *, std::vector<L> &) {}
};
template<>
struct QW<ref::SO3>
{
  static void get(const L * c, std::vector<L> & o) { o.push_back(c[3]); }
};
template<int K>
struct QW<ref::SEK3<K>>
{
  static void get(const L * c, std::vector<L> & o) { o.push_back(c[3 * K + 3]); }
};
template<>
struct QW<ref::Gal>
{
  static void get(const L * c, std::vector<L> & o) { o.push_back(c[10]); }
};
template<typename A, typename B>
struct QW<ref::Prod<A, B>>
{
  static void get(const L * c, std::vector<L> & o)
  {
    QW<A>::get(c, o);
    QW<B>::get(c + A::Rep, o);
  }
};

template<typename G>
struct State
{
  using R = Ref<G>;
  G r[2];
  Mat<L, R::Dim> m[2];
  double mag[2] = {1, 1};
  /// number of roundings that have entered the register (rounding errors of the operands add up; r = r*r doubles them)
  double amp[2] = {1, 1};
};

template<typename G>
struct Machine
{
  using R = Ref<G>;
  static constexpr int D = R::Dof, Dim = R::Dim;
  using Tan = Eigen::Matrix<double, D, 1>;
  Tan a[2];
  Mat<L, Dim> ea[2];  // reference exp of the tangents
  static constexpr bool HasYaw = std::is_same_v<G, smooth::SO3d> || std::is_same_v<G, smooth::SE3d>;
  static constexpr bool HasLift = std::is_same_v<G, smooth::SO2d> || std::is_same_v<G, smooth::SE2d>;

  // operation table: kind, i, j, k
  struct Op
  {
    int kind, i, j, k;
    std::string name;
  };
  std::vector<Op> ops;
  Machine()
  {
    for (int i = 0; i < 2; ++i)
      for (int j = 0; j < 2; ++j)
        for (int k = 0; k < 2; ++k) ops.push_back({0, i, j, k, mc::fmt("r%d=r%d*r%d", i, j, k)});
    for (int i = 0; i < 2; ++i) ops.push_back({1, i, 0, 0, mc::fmt("r%d=r%d.inverse()", i, i)});
    for (int i = 0; i < 2; ++i)
      for (int j = 0; j < 2; ++j) ops.push_back({2, i, j, 0, mc::fmt("r%d*=r%d", i, j)});
    for (int i = 0; i < 2; ++i)
      for (int k = 0; k < 2; ++k) ops.push_back({3, i, 0, k, mc::fmt("r%d+=a%d", i, k)});
    for (int i = 0; i < 2; ++i)
      for (int k = 0; k < 2; ++k) ops.push_back({4, i, 0, k, mc::fmt("r%d=rplus(r%d,a%d)", i, 1 - i, k)});
    for (int i = 0; i < 2; ++i)
      for (int k = 0; k < 2; ++k) ops.push_back({5, i, 0, k, mc::fmt("r%d=exp(a%d)", i, k)});
    for (int i = 0; i < 2; ++i) ops.push_back({6, i, 0, 0, mc::fmt("r%d=r%d.cast<double>()", i, i)});
    if constexpr (HasYaw || HasLift)
      for (int i = 0; i < 2; ++i) ops.push_back({7, i, 0, 0, mc::fmt(HasYaw ? "r%d=lift(project(r%d))" : "r%d=project(lift(r%d))", i, i)});
  }

  void set_tangents(const Tan & a0, const Tan & a1)
  {
    a[0] = a0;
    a[1] = a1;
    for (int k = 0; k < 2; ++k) {
      L al[D];
      toL(a[k], al);
      ea[k] = ref::exp_ref<R>(al);
    }
  }
  State<G> init(const G & g0, const G & g1) const
  {
    State<G> s;
    s.r[0] = g0;
    s.r[1] = g1;
    for (int i = 0; i < 2; ++i) {
      s.m[i]   = R::template matrix<L>(coeffsL(s.r[i]).data());
      s.mag[i] = std::max(1.0, (double)s.m[i].maxabs());
    }
    return s;
  }
  /// yaw-only reference (project then lift): rotation about z by atan2(R10, R00), translation (x, y, 0)
  static Mat<L, Dim> yaw_ref(const Mat<L, Dim> & M)
  {
    Mat<L, Dim> r = Mat<L, Dim>::Id();
    if constexpr (HasYaw) {
      const L n = std::hypot(M(0, 0), M(1, 0));
      const L c = M(0, 0) / n, s = M(1, 0) / n;
      r(0, 0) = c;
      r(0, 1) = -s;
      r(1, 0) = s;
      r(1, 1) = c;
      if constexpr (Dim == 4) {
        r(0, 3) = M(0, 3);
        r(1, 3) = M(1, 3);
      }
    }
    return r;
  }
  /// applies op to s (library side and reference side); returns the index of the modified register
  int apply(State<G> & s, const Op & o) const
  {
    const int i = o.i;
    switch (o.kind) {
      case 0: {
        const G t = s.r[o.j] * s.r[o.k];
        const auto M = ref::mul(s.m[o.j], s.m[o.k]);
        const double mg = std::max({s.mag[o.j] * s.mag[o.k], (double)M.maxabs()});
        const double am = s.amp[o.j] + s.amp[o.k] + 1;
        s.r[i]   = t;
        s.m[i]   = M;
        s.mag[i] = mg;
        s.amp[i] = am;
        break;
      }
      case 1:
        s.r[i]   = s.r[i].inverse();
        s.m[i]   = ref::inv(s.m[i]);
        s.mag[i] = std::max({s.mag[i], (double)s.m[i].maxabs()});
        s.amp[i] += 1;
        break;
      case 2: {
        const auto M = ref::mul(s.m[i], s.m[o.j]);
        const double mg = std::max({s.mag[i] * s.mag[o.j], (double)M.maxabs()});
        const double am = s.amp[i] + s.amp[o.j] + 1;
        s.r[i] *= s.r[o.j];
        s.m[i]   = M;
        s.mag[i] = mg;
        s.amp[i] = am;
        break;
      }
      case 3:
        s.r[i] += a[o.k];
        s.m[i]   = ref::mul(s.m[i], ea[o.k]);
        s.mag[i] = std::max({s.mag[i] * (double)ea[o.k].maxabs(), (double)s.m[i].maxabs()});
        s.amp[i] += 2;
        break;
      case 4:
        s.r[i]   = smooth::rplus(s.r[1 - i], a[o.k]);
        s.m[i]   = ref::mul(s.m[1 - i], ea[o.k]);
        s.mag[i] = std::max({s.mag[1 - i] * (double)ea[o.k].maxabs(), (double)s.m[i].maxabs()});
        s.amp[i] = s.amp[1 - i] + 2;
        break;
      case 5:
        s.r[i]   = G::exp(a[o.k]);
        s.m[i]   = ea[o.k];
        s.mag[i] = std::max(1.0, (double)s.m[i].maxabs());
        s.amp[i] = 1;
        break;
      case 6: s.r[i] = s.r[i].template cast<double>(); break;
      case 7:
        if constexpr (HasYaw) {
          // yaw extraction is discontinuous where the image of the x axis is vertical: outside any accuracy premise
          if (std::hypot((double)s.m[i](0, 0), (double)s.m[i](1, 0)) < 0.1) s.amp[i] = INFINITY;
          s.amp[i] += 2;
        }
        if constexpr (std::is_same_v<G, smooth::SO3d>) {
          s.r[i] = s.r[i].project_so2().lift_so3();
          s.m[i] = yaw_ref(s.m[i]);
        } else if constexpr (std::is_same_v<G, smooth::SE3d>) {
          s.r[i] = s.r[i].project_se2().lift_se3();
          s.m[i] = yaw_ref(s.m[i]);
        } else if constexpr (std::is_same_v<G, smooth::SO2d>) {
          s.r[i] = s.r[i].lift_so3().project_so2();
        } else if constexpr (std::is_same_v<G, smooth::SE2d>) {
          s.r[i] = s.r[i].lift_se3().project_se2();
        }
        break;
    }
    return i;
  }
  static uint64_t hash(const State<G> & s)
  {
    uint64_t h = 1469598103934665603ull;
    for (int i = 0; i < 2; ++i)
      for (int k = 0; k < G::RepSize; ++k) {
        uint64_t b;
        const double v = s.r[i].coeffs()(k);
        memcpy(&b, &v, 8);
        h = (h ^ b) * 1099511628211ull;
        h ^= h >> 29;
      }
    return h;
  }
  /// invariants of register i after n operations
  void judge(mc::Case & c, const State<G> & s, int i, int n) const
  {
    const auto cg = coeffsL(s.r[i]);
    bool fin = true;
    for (auto v : cg)
      if (!std::isfinite((double)v)) fin = false;
    c.require("finite", fin);
    // The (n+1)-linear budgets presuppose that every operation contributes one fresh rounding. Programs that feed a
    // register into itself (r = r*r ...) duplicate earlier roundings exponentially; no finite-precision implementation can
    // meet a linear budget there, so the accuracy clauses are judged only while the rounding count stays linear.
    const bool linear = s.amp[i] <= 4.0 * (n + 1);
    c.outcome(linear ? "roundings<=4(n+1): accuracy judged" : "roundings>4(n+1): only finite / canonical sign judged");
    if (linear) c.judge("|constraint|<=(n+1)e-14", (double)R::template constraint<L>(cg.data()) / (n + 1), 1e-14);
    std::vector<L> qw;
    QW<R>::get(cg.data(), qw);
    bool canon = true;
    for (auto w : qw)
      if (!(w >= 0)) canon = false;
    if (!qw.empty()) c.require("SO3 part keeps q_w>=0", canon);
    const auto M = R::template matrix<L>(cg.data());
    const L e    = (M - s.m[i]).maxabs();
    if (linear) c.judge("matrix within (n+1)e-13 of exact", (double)(e / std::max((L)s.mag[i], (L)1)) / (n + 1), 1e-13);
  }
};

struct InitFile
{
  std::array<double, 3> ax0, ax1;  // rotation axis*angle of r0, r1 (3-vectors; planar groups use z)
  double t0, t1;                   // translation magnitudes
  std::array<double, 3> w0, w1;    // rotation parts of a0, a1
  double v0, v1;
  const char * name;
};
inline std::vector<InitFile> init_files()
{
  const double P = PI;
  return {
    {{0, 0, 0}, {0.36 * 1.1, -0.48 * 1.1, 0.8 * 1.1}, 0, 1, {0.3, -0.2, 0.5}, {1e-5 * 0.6, 1e-5 * 0.64, -1e-5 * 0.48}, 1, 0.1, "identity,generic|generic,tiny"},
    {{0, 0, P}, {1e-9, 0, 0}, 2, 1e-3, {-0.6 * 3.1, 0.64 * 3.1, 0.48 * 3.1}, {0, 0, 1e-4}, 0.5, 1, "half-turn,near-identity|near-pi,switch"},
    {{0.36 * (P - 1e-9), -0.48 * (P - 1e-9), 0.8 * (P - 1e-9)}, {0, 0, -2.5}, 1, 3, {0, 0, 2.0}, {0.2, 0.1, -0.3}, 2, 0, "w~0,planar|planar,generic"},
  };
}

/// build an element from (rotation vector, translation magnitude) through the reference exponential and public coefficients
template<typename G>
G make_elem(const std::array<double, 3> & w, double t)
{
  using R = Ref<G>;
  if constexpr (R::NRot == -1) {
    // Bundle<SO3, T3>-like composites: build part-wise through the tangent vector
    Eigen::Matrix<double, R::Dof, 1> a = Eigen::Matrix<double, R::Dof, 1>::Zero();
    for (int i = 0; i < R::Dof; ++i) a(i) = i < 3 ? w[size_t(i)] : t * ((i * 7 % 5) - 2) / 3.0;
    L al[R::Dof], c[R::Rep];
    toL(a, al);
    ref::exp_coeffs<R>(al, c);
    G g;
    for (int i = 0; i < R::Rep; ++i) g.coeffs()(i) = (double)c[i];
    return g;
  } else {
    L al[R::Dof] = {};
    int ti       = 0;
    for (int i = 0; i < R::Dof; ++i) {
      if (i >= R::RotOff && i < R::RotOff + R::NRot) continue;
      al[i] = t * ((ti * 7 % 5) - 2) / 3.0 + (ti == 0 ? t : 0);
      ++ti;
    }
    if constexpr (R::NRot == 3)
      for (int i = 0; i < 3; ++i) al[R::RotOff + i] = w[size_t(i)];
    if constexpr (R::NRot == 1) al[R::RotOff] = w[2] != 0 ? w[2] : (w[0] != 0 ? w[0] : 0);
    if constexpr (std::is_same_v<R, ref::C1>) al[0] = std::min(t, 1.0) * 0.7;
    L c[R::Rep];
    ref::exp_coeffs<R>(al, c);
    G g;
    for (int i = 0; i < R::Rep; ++i) g.coeffs()(i) = (double)c[i];
    return g;
  }
}
template<typename G>
Eigen::Matrix<double, Ref<G>::Dof, 1> make_tan(const std::array<double, 3> & w, double v)
{
  using R = Ref<G>;
  Eigen::Matrix<double, R::Dof, 1> a = Eigen::Matrix<double, R::Dof, 1>::Zero();
  if constexpr (R::NRot == -1) {
    for (int i = 0; i < R::Dof; ++i) a(i) = i < 3 ? w[size_t(i)] : v * ((i * 3 % 7) - 3) / 4.0;
  } else {
    int ti = 0;
    for (int i = 0; i < R::Dof; ++i) {
      if (i >= R::RotOff && i < R::RotOff + R::NRot) continue;
      a(i) = v * ((ti * 3 % 7) - 3) / 4.0 + (ti == 1 ? v : 0);
      ++ti;
    }
    if constexpr (R::NRot == 3)
      for (int i = 0; i < 3; ++i) a(R::RotOff + i) = w[size_t(i)];
    if constexpr (R::NRot == 1) a(R::RotOff) = w[2] != 0 ? w[2] : w[0];
    if constexpr (std::is_same_v<R, ref::C1>) a(0) = 0.3 * v;
  }
  return a;
}

/// (a) BFS over all programs up to `depth`
template<typename G>
void bfs(const std::string & tn, int depth)
{
  Machine<G> mach;
  const uint64_t nops = mach.ops.size();
  auto files = init_files();
  for (size_t fi = 0; fi < files.size(); ++fi) {
    const auto & f = files[fi];
    mach.set_tangents(make_tan<G>(f.w0, f.v0), make_tan<G>(f.w1, f.v1));
    std::vector<State<G>> frontier{mach.init(make_elem<G>(f.ax0, f.t0), make_elem<G>(f.ax1, f.t1))};
    std::vector<std::vector<std::pair<uint32_t, uint8_t>>> prov;  // per level: (parent index, op) of every frontier state
    prov.push_back({{0, 0}});
    std::unordered_set<uint64_t> visited{Machine<G>::hash(frontier[0])};
    uint64_t total_states = 1, total_trans = 0;
    std::vector<uint64_t> level_sizes{1};
    for (int d = 1; d <= depth; ++d) {
      const std::string label = mc::fmt("C15/bfs/%s/file%zu/depth%d", tn.c_str(), fi, d);
      const uint64_t n = uint64_t(frontier.size()) * nops;
      std::vector<uint64_t> hashes(d < depth ? n : 0);
      auto program = [&](uint64_t idx) {
        // reconstruct the operation list of transition idx
        std::vector<std::string> names{mach.ops[idx % nops].name};
        uint32_t p = uint32_t(idx / nops);
        for (int l = d - 1; l >= 1; --l) {
          names.push_back(mach.ops[prov[size_t(l)][p].second].name);
          p = prov[size_t(l)][p].first;
        }
        std::string s = std::string("init=") + f.name + " program: ";
        for (size_t k = names.size(); k-- > 0;) s += names[k] + (k ? "; " : "");
        return s;
      };
      auto body = [&](mc::Case & c) {
        State<G> s   = frontier[c.idx / nops];
        const auto & o = mach.ops[c.idx % nops];
        c.desc       = [&] { return program(c.idx); };
        c.param("depth", d);
        const int i = mach.apply(s, o);
        mach.judge(c, s, i, d);
        if (d < depth) hashes[c.idx] = Machine<G>::hash(s);
      };
      if (mc::replaying() && mc::replay_label() != label) {
        // rebuild the frontier of this level without judging (plain loop)
        for (uint64_t idx = 0; idx < n; ++idx) {
          mc::Case c;
          c.idx = idx;
          body(c);
        }
      } else {
        mc::explore(label, n, body);
      }
      total_trans += n;
      if (d == depth) break;
      // next frontier: first occurrence (in index order) of every new bit pattern
      std::vector<State<G>> next;
      std::vector<std::pair<uint32_t, uint8_t>> pv;
      for (uint64_t idx = 0; idx < n; ++idx) {
        if (!visited.insert(hashes[idx]).second) continue;
        State<G> s = frontier[idx / nops];
        mach.apply(s, mach.ops[idx % nops]);
        next.push_back(s);
        pv.push_back({uint32_t(idx / nops), uint8_t(idx % nops)});
      }
      frontier.swap(next);
      prov.push_back(pv);
      total_states += frontier.size();
      level_sizes.push_back(frontier.size());
    }
    std::string ls;
    for (auto v : level_sizes) ls += (ls.empty() ? "" : ",") + std::to_string(v);
    mc::note(mc::fmt("bfs %s file%zu", tn.c_str(), fi),
      mc::fmt("{\"depth\": %d, \"operations_per_state\": %llu, \"distinct_states_expanded\": %llu, \"transitions\": %llu, \"frontier_sizes\": [%s]}", depth,
        (unsigned long long)nops, (unsigned long long)total_states, (unsigned long long)total_trans, ls.c_str()));
  }
}

/// (b) homogeneous chains and periodic programs of period 2, invariants monitored at every step
template<typename G>
void chains(const std::string & tn, int len_homog, int len_period)
{
  Machine<G> mach;
  const uint64_t nops = mach.ops.size();
  auto files = init_files();
  for (size_t fi = 0; fi < files.size(); ++fi) {
    const auto & f = files[fi];
    mach.set_tangents(make_tan<G>(f.w0, f.v0), make_tan<G>(f.w1, f.v1));
    const State<G> s0 = mach.init(make_elem<G>(f.ax0, f.t0), make_elem<G>(f.ax1, f.t1));
    // programs: op p (homogeneous) or (p, q) alternating
    mc::explore(mc::fmt("C15/chain/%s/file%zu", tn.c_str(), fi), nops + nops * nops, [&](mc::Case & c) {
      const bool homog = c.idx < nops;
      const uint64_t p = homog ? c.idx : (c.idx - nops) / nops, q = homog ? c.idx : (c.idx - nops) % nops;
      if (!homog && p == q) {
        c.trivial();
        return;
      }
      const int len = homog ? len_homog : len_period;
      c.desc = [&, p, q, len] { return std::string("init=") + f.name + " program: (" + mach.ops[p].name + (homog ? "" : "; " + mach.ops[q].name) + mc::fmt(") repeated to length %d", len); };
      c.param("len", len);
      c.param("program", double(c.idx));
      State<G> s = s0;
      double worst_c = 0, worst_m = 0;
      bool fin = true, canon = true;
      int at_c = 0, at_m = 0;
      for (int n = 1; n <= len; ++n) {
        const int i   = mach.apply(s, mach.ops[(n & 1) ? p : q]);
        // translations may grow geometrically under repeated composition: stop before magnitudes leave "moderate"
        if (!(s.mag[i] < 1e6) || !(s.amp[i] <= 4.0 * (n + 1))) break;
        const auto cg = coeffsL(s.r[i]);
        for (auto v : cg)
          if (!std::isfinite((double)v)) fin = false;
        const double ec = (double)Ref<G>::template constraint<L>(cg.data()) / (n + 1);
        if (ec > worst_c) {
          worst_c = ec;
          at_c    = n;
        }
        std::vector<L> qw;
        QW<Ref<G>>::get(cg.data(), qw);
        for (auto w : qw)
          if (!(w >= 0)) canon = false;
        const auto M    = Ref<G>::template matrix<L>(cg.data());
        const double em = (double)((M - s.m[i]).maxabs() / std::max((L)s.mag[i], (L)1)) / (n + 1);
        if (!(em <= worst_m)) {
          worst_m = em;
          at_m    = n;
        }
      }
      if (mc::replaying()) printf("  worst constraint/(n+1) at step %d, worst matrix error/(n+1) at step %d (register magnitudes %.3g %.3g)\n", at_c, at_m, s.mag[0], s.mag[1]);
      c.require("finite", fin);
      c.require("SO3 part keeps q_w>=0", canon);
      c.judge("|constraint|<=(n+1)e-14", worst_c, 1e-14);
      c.judge("matrix within (n+1)e-13 of exact", worst_m, 1e-13);
    });
  }
}

template<typename G>
void run(const std::string & tn, int depth_quick, int depth_thorough)
{
  bfs<G>(tn, mc::thorough() ? depth_thorough : depth_quick);
  chains<G>(tn, mc::thorough() ? 100000 : 10000, mc::thorough() ? 10000 : 1000);
}
}  // namespace c15
