#include "c15.hpp"
using namespace smooth;
MC_SUBCHECK(bundle)
{
  c15::run<Bundle<SO3d, Eigen::Vector3d>>("Bundle<SO3,T3>d", 3, 5);
}
