#include "c15.hpp"
using namespace smooth;
MC_SUBCHECK(bundle)
{
  c15::run<Bundle<SO3d, Eigen::Vector3d>>("Bundle<SO3,T3>d", 5, 6);
  c15::run<Bundle<SO3d, C1d, Eigen::Vector2d>>("Bundle<SO3,C1,T2>d", 4, 5);
}
