#include "c15.hpp"
using namespace smooth;
MC_SUBCHECK(so)
{
  c15::run<SO2d>("SO2d", 5, 6);
  c15::run<SO3d>("SO3d", 5, 6);
  c15::run<C1d>("C1d", 5, 6);
}
