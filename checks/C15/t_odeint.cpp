// C15 (c): fixed-step integration through the boost::odeint adaptor. Every explicit fixed-step Runge-Kutta stepper of the
// installed Boost x step counts x horizons x constant body velocities x groups: the result is x0 * exp(T v).
#include "bind.hpp"

#include <boost/numeric/odeint.hpp>

#include <smooth/compat/odeint.hpp>

using namespace mcb;
namespace ode = boost::numeric::odeint;

template<typename G, template<typename...> class Stepper>
static void integrate(G & x, const Eigen::Matrix<double, G::Dof, 1> & v, double T, int steps)
{
  using deriv_t = Eigen::Matrix<double, G::Dof, 1>;
  Stepper<G, double, deriv_t, double, ode::vector_space_algebra> st;
  const auto sys = [&](const G &, deriv_t & d, double) { d = v; };
  const double dt = T / steps;
  double t = 0;
  for (int k = 0; k < steps; ++k) {
    st.do_step(sys, x, t, dt);
    t += dt;
  }
}

template<typename G>
static void run(const std::string & tn)
{
  using R = Ref<G>;
  constexpr int D = R::Dof, Dim = R::Dim;
  using Tan = Eigen::Matrix<double, D, 1>;
  struct St
  {
    const char * name;
    int stages;
    void (*f)(G &, const Tan &, double, int);
  };
  const std::vector<St> steppers = {{"euler", 1, integrate<G, ode::euler>}, {"runge_kutta4", 4, integrate<G, ode::runge_kutta4>},
    {"runge_kutta4_classic", 4, integrate<G, ode::runge_kutta4_classic>}, {"runge_kutta_cash_karp54", 6, integrate<G, ode::runge_kutta_cash_karp54>},
    {"runge_kutta_dopri5", 7, integrate<G, ode::runge_kutta_dopri5>}, {"runge_kutta_fehlberg78", 13, integrate<G, ode::runge_kutta_fehlberg78>}};
  const std::vector<int> counts  = mc::thorough() ? std::vector<int>{1, 2, 5, 10, 100, 1000, 10000} : std::vector<int>{1, 2, 5, 10, 100, 1000};
  const std::vector<double> Ts   = {1e-3, 1, 10};
  AlphaOpts o = AlphaOpts::reduced();
  o.thetas    = {0, 1e-5, 1.0001e-4, 0.3, 2};
  o.tmags     = {0, 1};
  auto Vs = tangents<R, double>(o);
  auto X0 = elements<R, double>(AlphaOpts::tiny());
  const uint64_t ns = steppers.size(), nc = counts.size(), nT = Ts.size(), nv = Vs.size(), nx = X0.size();
  mc::explore("C15/odeint/" + tn, ns * nc * nT * nv * nx, [&](mc::Case & c) {
    mc::Radix r(c.idx);
    const auto & x0e = X0[r.next(nx)];
    const auto & ve  = Vs[r.next(nv)];
    const double T   = Ts[r.next(nT)];
    const int steps  = counts[r.next(nc)];
    const auto & st  = steppers[r.next(ns)];
    const G x0  = make<G>(x0e);
    const Tan v = make<G>(ve);
    c.desc = [&, T, steps] { return std::string(st.name) + mc::fmt(" steps=%d T=%g ", steps, T) + "x0=" + vstr(x0.coeffs()) + " v=" + vstr(v); };
    c.param("steps", steps);
    G x = x0;
    st.f(x, v, T, steps);
    const int n = steps * st.stages;  // number of group operations (one rplus per stage)
    L vl[D];
    for (int i = 0; i < D; ++i) vl[i] = (L)v(i) * (L)T;
    const auto M0   = R::template matrix<L>(coeffsL(x0).data());
    const auto E    = ref::exp_ref<R>(vl);
    const auto Mref = ref::mul(M0, E);
    const L scale   = std::max((L)1, ref::mul(ref::cabs(M0), ref::cabs(E)).maxabs());
    const auto cg   = coeffsL(x);
    bool fin = true;
    for (auto q : cg)
      if (!std::isfinite((double)q)) fin = false;
    c.require("finite", fin);
    c.judge("|constraint|<=(n+1)e-14", (double)R::template constraint<L>(cg.data()) / (n + 1), 1e-14);
    // time-step accumulation: dt = T/steps is rounded once, so the integrated horizon is steps*fl(T/steps); its deviation from T
    // (<= 1 ulp of T) moves the exact answer by |v| * ulp(T): part of the forward-error scale
    L vmax = 0;
    for (int i = 0; i < D; ++i) vmax = std::max(vmax, std::fabs(vl[i]));
    const L tscale = 1 + vmax;
    c.judge("x(T)=x0*exp(T v) within (n+1)e-13", (double)((R::template matrix<L>(cg.data()) - Mref).maxabs() / (scale * tscale)) / (n + 1), 1e-13);
  });
}

// The adaptor's mechanism itself: scale_sum(1, alpha_2 .. alpha_n)(y, x, a_2 .. a_n) must give y = x * exp(sum alpha_i a_i) for
// DIFFERENT derivatives a_i and DIFFERENT weights (a stepper integrating a constant velocity passes equal derivatives, which
// hides any mix-up between weights and derivatives). All arities 1..6 derivatives x start elements x derivative menus.
template<typename G>
static void scale_sum_space(const std::string & tn)
{
  using R = Ref<G>;
  constexpr int D = R::Dof;
  using Tan = Eigen::Matrix<double, D, 1>;
  AlphaOpts o = AlphaOpts::reduced();
  o.thetas    = {0, 1.0001e-4, 0.3, 2};
  o.tmags     = {0, 1};
  auto Vs = tangents<R, double>(o);
  auto X0 = elements<R, double>(AlphaOpts::tiny());
  const uint64_t nv = Vs.size(), nx = X0.size();
  static const double W[7] = {1.0, 0.5, -0.25, 0.125, 2.0, -1.5, 0.3};
  mc::explore("C15/odeint-scale-sum/" + tn, 6 * nv * nx, [&](mc::Case & c) {
    mc::Radix r(c.idx);
    const int N     = int(r.next(6)) + 1;  // number of derivatives
    const size_t v0 = r.next(nv);
    const G x       = make<G>(X0[r.next(nx)]);
    Tan a[6];
    for (int i = 0; i < 6; ++i) a[i] = make<G>(Vs[(v0 + size_t(i) * 5) % nv]) * (0.5 + 0.25 * i);
    c.desc = [&, N] { return mc::fmt("scale_sum%d, weights 1,0.5,-0.25,0.125,2,-1.5,0.3; ", N + 1) + "x=" + vstr(x.coeffs()) + " a_2=" + vstr(a[0]); };
    G y = x;
    using Ops = smooth::detail::BoostOdeintOps;
    switch (N) {
    case 1: Ops::scale_sum<double, double>(W[0], W[1])(y, x, a[0]); break;
    case 2: Ops::scale_sum<double, double, double>(W[0], W[1], W[2])(y, x, a[0], a[1]); break;
    case 3: Ops::scale_sum<double, double, double, double>(W[0], W[1], W[2], W[3])(y, x, a[0], a[1], a[2]); break;
    case 4: Ops::scale_sum<double, double, double, double, double>(W[0], W[1], W[2], W[3], W[4])(y, x, a[0], a[1], a[2], a[3]); break;
    case 5: Ops::scale_sum<double, double, double, double, double, double>(W[0], W[1], W[2], W[3], W[4], W[5])(y, x, a[0], a[1], a[2], a[3], a[4]); break;
    default:
      Ops::scale_sum<double, double, double, double, double, double, double>(W[0], W[1], W[2], W[3], W[4], W[5], W[6])(y, x, a[0], a[1], a[2], a[3], a[4], a[5]);
    }
    L sl[D];
    L smax = 0;
    for (int k = 0; k < D; ++k) {
      sl[k] = 0;
      for (int i = 0; i < N; ++i) sl[k] += (L)W[i + 1] * (L)a[i](k);
      smax = std::max(smax, std::fabs(sl[k]));
    }
    const auto M0   = R::template matrix<L>(coeffsL(x).data());
    const auto E    = ref::exp_ref<R>(sl);
    const auto Mref = ref::mul(M0, E);
    const L scale   = std::max((L)1, ref::mul(ref::cabs(M0), ref::cabs(E)).maxabs()) * (1 + smax);
    const auto cg   = coeffsL(y);
    c.judge("|constraint|<=2e-14", (double)R::template constraint<L>(cg.data()), 2e-14);
    c.judge("y = x*exp(sum alpha_i a_i) within (N+2)e-13", (double)((R::template matrix<L>(cg.data()) - Mref).maxabs() / scale) / (N + 2), 1e-13);
  });
}

MC_SUBCHECK(odeint_scale_sum)
{
  scale_sum_space<smooth::SO3d>("SO3d");
  scale_sum_space<smooth::SE2d>("SE2d");
  scale_sum_space<smooth::SE3d>("SE3d");
  scale_sum_space<smooth::Bundle<smooth::SO3d, Eigen::Vector3d>>("Bundle<SO3,T3>d");
}

MC_SUBCHECK(odeint)
{
  run<smooth::SO3d>("SO3d");
  run<smooth::SE2d>("SE2d");
  run<smooth::SE3d>("SE3d");
  run<smooth::Bundle<smooth::SO3d, Eigen::Vector3d>>("Bundle<SO3,T3>d");
}
