// C15 — "starting from elements produced by the library's constructors": every normalising constructor, for inputs on a
// ladder of norms (exactly unit, 1 +- 2^-k for every k down to one ulp, and far from unit), yields an element that meets
// the n = 0 budgets (constraint <= 1e-14, q_w >= 0, matrix within 1e-13 of the exact normalised input), and one further
// operation on it (n = 1) meets the n = 1 budgets.
// X: (constructor) x (angle / axis alphabet incl. the special angles) x (norm ladder) x (sign), all combinations.
#include "c15.hpp"
#include <mutex>
#include <set>
using namespace smooth;
using namespace c15;

namespace {
const char * K(const std::string & a, const char * b)
{
  static std::mutex mu;
  static std::set<std::string> pool;
  std::lock_guard<std::mutex> lk(mu);
  return pool.insert(a + b).first->c_str();
}
std::vector<double> ladder()
{
  std::vector<double> s{1.0, 0.1, 7.0, 1e-3, 1e3, 1e-100, 1e100};
  for (int k = 1; k <= 52; ++k) {
    s.push_back(1.0 + std::ldexp(1.0, -k));
    s.push_back(1.0 - std::ldexp(1.0, -k));
    if (k > 2) s.push_back(1.0 + 3 * std::ldexp(1.0, -k));
  }
  return s;
}
Mat<L, 2> rot2(L c, L s)
{
  Mat<L, 2> M;
  M(0, 0) = M(1, 1) = c;
  M(1, 0)           = s;
  M(0, 1)           = -s;
  return M;
}
Mat<L, 3> rotq(const L q[4])  // x y z w, unit
{
  Mat<L, 3> R;
  const L x = q[0], y = q[1], z = q[2], w = q[3];
  R(0, 0) = 1 - 2 * (y * y + z * z);
  R(0, 1) = 2 * (x * y - z * w);
  R(0, 2) = 2 * (x * z + y * w);
  R(1, 0) = 2 * (x * y + z * w);
  R(1, 1) = 1 - 2 * (x * x + z * z);
  R(1, 2) = 2 * (y * z - x * w);
  R(2, 0) = 2 * (x * z - y * w);
  R(2, 1) = 2 * (y * z + x * w);
  R(2, 2) = 1 - 2 * (x * x + y * y);
  return R;
}
template<typename G, int Dim>
void judge0(mc::Case & c, const char * who, const G & g, const Mat<L, Dim> & Mexact, int n)
{
  using R = Ref<G>;
  const auto cg = coeffsL(g);
  bool fin = true;
  for (auto v : cg)
    if (!std::isfinite((double)v)) fin = false;
  c.require(K(who, ": finite"), fin);
  c.judge(K(who, ": |constraint|<=(n+1)e-14"), (double)R::template constraint<L>(cg.data()) / (n + 1), 1e-14);
  std::vector<L> qw;
  QW<R>::get(cg.data(), qw);
  for (auto w : qw) c.require(K(who, ": q_w>=0"), w >= 0);
  const auto M = R::template matrix<L>(cg.data());
  c.judge(K(who, ": matrix within (n+1)e-13 of exact"), (double)(M - Mexact).maxabs() / (n + 1), 1e-13);
}
}  // namespace

MC_SUBCHECK(ctor_so2)
{
  const auto S  = ladder();
  const auto th = thetas_full();
  const SO2d g0 = SO2d::exp(Eigen::Matrix<double, 1, 1>(0.37));
  const auto M0 = rot2(std::cos((L)0.37), std::sin((L)0.37));
  mc::explore("C15/ctor/SO2d", th.size() * S.size() * 2, [&](mc::Case & c) {
    mc::Radix r(c.idx);
    const int sg   = r.next(2) ? -1 : 1;
    const double s = S[r.next(S.size())];
    const double t = sg * th[r.next(th.size())];
    const double re = s * (double)std::cos((L)t), im = s * (double)std::sin((L)t);
    c.desc = [&] { return mc::fmt("inputs re=%a im=%a (angle %.17g, norm %a)", re, im, t, s); };
    c.param("t", t);
    c.param("log2|norm-1|", s == 1.0 ? -60.0 : std::log2(std::fabs(s - 1.0)));
    const L n = std::hypot((L)re, (L)im);
    if (!(n > 0)) {
      c.trivial();
      return;
    }
    const auto Me = rot2((L)re / n, (L)im / n);
    const SO2d a(im, re);
    judge0(c, "SO2(qz,qw)", a, Me, 0);
    const SO2d b(std::complex<double>(re, im));
    judge0(c, "SO2(complex)", b, Me, 0);
    const C1d cc(std::complex<double>(re, im));
    judge0(c, "C1(complex).so2()", cc.so2(), Me, 0);
    const C1d cs(s > 1e-50 && s < 1e50 ? s : 1.0, t);
    judge0(c, "C1(scaling,angle).so2()", cs.so2(), rot2(std::cos((L)t), std::sin((L)t)), 0);
    const SO2d d(t);
    judge0(c, "SO2(angle)", d, rot2(std::cos((L)t), std::sin((L)t)), 0);
    // n = 1
    judge0(c, "SO2(qz,qw)*g0", a * g0, ref::mul(Me, M0), 1);
    judge0(c, "SO2(complex).inverse()", b.inverse(), ref::inv(Me), 1);
    SE2d e(a, Eigen::Vector2d(1, -2));
    const auto ce = coeffsL(e);
    c.judge("SE2(SO2(qz,qw), t): |constraint|<=1e-14", (double)ref::SE2::constraint<L>(ce.data()), 1e-14);
  });
}

MC_SUBCHECK(ctor_so3)
{
  const auto S = ladder();
  std::vector<std::array<L, 4>> Q;
  for (auto & e : elements<ref::SO3, double>(AlphaOpts::reduced().upto(2 * PI + 1e-3))) Q.push_back({e.c[0], e.c[1], e.c[2], e.c[3]});
  for (L w : {0.0L, -0.0L, 1e-20L, -1e-20L}) Q.push_back({0.6L, 0.8L, 0, w});
  Eigen::Vector3d w0(0.3, -0.2, 0.5);
  const SO3d g0 = SO3d::exp(w0);
  L w0l[3] = {0.3, -0.2, 0.5};
  const auto M0 = ref::exp_ref<ref::SO3>(w0l);
  mc::explore("C15/ctor/SO3d", Q.size() * S.size() * 2, [&](mc::Case & c) {
    mc::Radix r(c.idx);
    const int sg   = r.next(2) ? -1 : 1;
    const double s = S[r.next(S.size())];
    const auto & q = Q[r.next(Q.size())];
    double qi[4];
    for (int i = 0; i < 4; ++i) qi[i] = (double)(sg * s * q[size_t(i)]);
    c.desc = [&] { return mc::fmt("Quaternion(w=%a, x=%a, y=%a, z=%a) norm %a", qi[3], qi[0], qi[1], qi[2], s); };
    c.param("log2|norm-1|", s == 1.0 ? -60.0 : std::log2(std::fabs(s - 1.0)));
    L ql[4], n = 0;
    for (int i = 0; i < 4; ++i) n += (L)qi[i] * (L)qi[i];
    n = std::sqrt(n);
    if (!(n > 0)) {
      c.trivial();
      return;
    }
    for (int i = 0; i < 4; ++i) ql[i] = (L)qi[i] / n;
    const auto Me = rotq(ql);
    const SO3d a(Eigen::Quaterniond(qi[3], qi[0], qi[1], qi[2]));
    judge0(c, "SO3(quat)", a, Me, 0);
    judge0(c, "SO3(quat)*g0", a * g0, ref::mul(Me, M0), 1);
    judge0(c, "SO3(quat).inverse()", a.inverse(), ref::inv(Me), 1);
    const SE3d e(a, Eigen::Vector3d(1, -2, 3));
    const auto ce = coeffsL(e);
    c.judge("SE3(SO3(quat), t): |constraint|<=1e-14", (double)ref::SEK3<1>::constraint<L>(ce.data()), 1e-14);
    std::vector<L> qw;
    QW<ref::SEK3<1>>::get(ce.data(), qw);
    c.require("SE3(SO3(quat), t): q_w>=0", qw[0] >= 0);
  });
  // rot_x / rot_y / rot_z over the angle alphabet, both signs, beyond one turn
  std::vector<double> th = thetas_full();
  for (double t : thetas_full()) {
    th.push_back(t + 2 * PI);
    th.push_back(t + 4 * PI);
  }
  mc::explore("C15/ctor/rot_xyz", th.size() * 6, [&](mc::Case & c) {
    mc::Radix r(c.idx);
    const int ax   = (int)r.next(3);
    const int sg   = r.next(2) ? -1 : 1;
    const double t = sg * th[r.next(th.size())];
    c.desc = [&] { return mc::fmt("rot_%c(%a ~ %.17g)", "xyz"[ax], t, t); };
    c.param("t", t);
    L w[3] = {0, 0, 0};
    w[ax]  = t;
    const auto Me = ref::exp_ref<ref::SO3>(w);
    const SO3d g  = ax == 0 ? SO3d::rot_x(t) : ax == 1 ? SO3d::rot_y(t) : SO3d::rot_z(t);
    judge0(c, "rot_i(t)", g, Me, 0);
    judge0(c, "rot_i(t)*g0", g * g0, ref::mul(Me, M0), 1);
  });
}
