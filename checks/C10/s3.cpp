// C10 static-size instantiations: J is Eigen::Matrix<double, M, 3> for M = 1..6
#include "c10.hpp"
static c10::RegisterStatic<3> c10_register_static_3;
