// C10 static-size instantiations: J is Eigen::Matrix<double, M, 5> for M = 1..6
#include "c10.hpp"
static c10::RegisterStatic<5> c10_register_static_5;
