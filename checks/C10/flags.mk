# the C10 harness brings its own pre-filling malloc (t_checks.cpp)
NOFILL_C10 := 1
