// C10 — the trust-region step solver returns the regularised least-squares minimiser.
// Shared part: problem alphabets (J families, d, r menus), long-double oracle, static-size dispatch table.
//
// E: full product  shape x J-family x d-menu x lambda (or Delta) x r-menu, each case executed through every
//    representation of the same J: dense dynamic, dense static (shapes <= 6x6), sparse column-major, sparse
//    row-major.
// O: long-double dense algebra written here (normal matrix, Jacobi eigen-decomposition, Gauss elimination, complex
//    step); nothing from Eigen / smooth is used on the oracle side.
#pragma once
#include "bind.hpp"

#include <cfloat>
#include <complex>

#include <smooth/detail/math.hpp>
#include <smooth/optim/tr_solver.hpp>

namespace c10 {
using L  = long double;
using CL = std::complex<long double>;

// ------------------------------------------------------------------ static-size dispatch (filled in by s<N>.cpp)
constexpr int SMAX = 6;
struct SIn
{
  const double * J;  // column-major m x n
  const double * d;  // n
  const double * r;  // m
  double s;          // lambda (mode 0, 3) or Delta (mode 1)
  int mode;          // 0: solve_linear_ldlt with dphi, 1: solve_trust_region, 2: colwise_norm, 3: solve_linear_ldlt without dphi
};
struct SOut
{
  double x[SMAX];
  double dphi;
  double lam;
};
using SFn = void (*)(const SIn &, SOut &);
SFn & static_fn(int m, int n);  // defined in t_checks.cpp

template<int M, int N>
void run_static(const SIn & in, SOut & out)
{
  Eigen::Matrix<double, M, N> J;
  for (int j = 0; j < N; ++j)
    for (int i = 0; i < M; ++i) J(i, j) = in.J[j * M + i];
  Eigen::Matrix<double, N, 1> d;
  Eigen::Matrix<double, M, 1> r;
  for (int j = 0; j < N; ++j) d(j) = in.d[j];
  for (int i = 0; i < M; ++i) r(i) = in.r[i];
  out.dphi = std::nan("");
  out.lam  = std::nan("");
  Eigen::Matrix<double, N, 1> x;
  if (in.mode == 0) {
    double dp = std::nan("");
    auto ret  = smooth::solve_linear_ldlt(J, d, r, in.s, dp);
    static_assert(std::is_same_v<decltype(ret), Eigen::Matrix<double, N, 1>>);
    x        = ret;
    out.dphi = dp;
  } else if (in.mode == 3) {
    x = smooth::solve_linear_ldlt(J, d, r, in.s);
  } else if (in.mode == 1) {
    auto ret = smooth::solve_trust_region(J, d, r, in.s);
    static_assert(std::is_same_v<decltype(ret), std::pair<Eigen::Matrix<double, N, 1>, double>>);
    x       = ret.first;
    out.lam = ret.second;
  } else {
    auto ret = smooth::colwise_norm(J);
    static_assert(std::is_same_v<decltype(ret), Eigen::Matrix<double, N, 1>>);
    x = ret;
  }
  for (int j = 0; j < N; ++j) out.x[j] = x(j);
}
template<int N>
struct RegisterStatic
{
  RegisterStatic()
  {
    static_fn(1, N) = &run_static<1, N>;
    static_fn(2, N) = &run_static<2, N>;
    static_fn(3, N) = &run_static<3, N>;
    static_fn(4, N) = &run_static<4, N>;
    static_fn(5, N) = &run_static<5, N>;
    static_fn(6, N) = &run_static<6, N>;
  }
};

// ------------------------------------------------------------------ tiny long-double dense algebra
struct LMat
{
  int r = 0, c = 0;
  std::vector<L> a;
  LMat() {}
  LMat(int r_, int c_) : r(r_), c(c_), a(size_t(r_) * size_t(c_), 0.0L) {}
  L & operator()(int i, int j) { return a[size_t(i) * size_t(c) + size_t(j)]; }
  const L & operator()(int i, int j) const { return a[size_t(i) * size_t(c) + size_t(j)]; }
};
using LVec = std::vector<L>;
inline L norm2(const LVec & v)
{
  L s = 0;
  for (L x : v) s += x * x;
  return std::sqrt(s);
}
inline L normF(const LMat & A)
{
  L s = 0;
  for (L x : A.a) s += x * x;
  return std::sqrt(s);
}
inline LVec mulv(const LMat & A, const LVec & x)
{
  LVec y(size_t(A.r), 0.0L);
  for (int i = 0; i < A.r; ++i) {
    L s = 0;
    for (int j = 0; j < A.c; ++j) s += A(i, j) * x[size_t(j)];
    y[size_t(i)] = s;
  }
  return y;
}

/// cyclic Jacobi for a symmetric matrix, relative stopping criterion |a_pq| <= eps sqrt(a_pp a_qq)
/// (accurate small eigenvalues for positive definite matrices). Returns eigenvalues w and eigenvectors V (columns).
inline void jacobi_eig(LMat A, LVec & w, LMat & V)
{
  const int n = A.r;
  V           = LMat(n, n);
  for (int i = 0; i < n; ++i) V(i, i) = 1;
  const L eps = LDBL_EPSILON;
  for (int sweep = 0; sweep < 100; ++sweep) {
    int rot = 0;
    for (int p = 0; p < n; ++p)
      for (int q = p + 1; q < n; ++q) {
        const L apq = A(p, q);
        if (apq == 0) continue;
        if (std::fabs(apq) <= eps * std::sqrt(std::fabs(A(p, p) * A(q, q)))) continue;
        ++rot;
        const L theta = (A(q, q) - A(p, p)) / (2 * apq);
        const L t     = (theta >= 0 ? 1.0L : -1.0L) / (std::fabs(theta) + std::sqrt(theta * theta + 1));
        const L c = 1 / std::sqrt(t * t + 1), s = t * c;
        for (int k = 0; k < n; ++k) {
          const L akp = A(k, p), akq = A(k, q);
          A(k, p) = c * akp - s * akq;
          A(k, q) = s * akp + c * akq;
        }
        for (int k = 0; k < n; ++k) {
          const L apk = A(p, k), aqk = A(q, k);
          A(p, k) = c * apk - s * aqk;
          A(q, k) = s * apk + c * aqk;
        }
        for (int k = 0; k < n; ++k) {
          const L vkp = V(k, p), vkq = V(k, q);
          V(k, p) = c * vkp - s * vkq;
          V(k, q) = s * vkp + c * vkq;
        }
      }
    if (!rot) break;
  }
  w.assign(size_t(n), 0.0L);
  for (int i = 0; i < n; ++i) w[size_t(i)] = A(i, i);
}

/// Gaussian elimination with partial pivoting (real or complex long double); returns false if a pivot is 0
template<typename S>
bool ge_solve(std::vector<S> A, std::vector<S> b, int n, std::vector<S> & x)
{
  auto at = [&](int i, int j) -> S & { return A[size_t(i) * size_t(n) + size_t(j)]; };
  for (int c = 0; c < n; ++c) {
    int p = c;
    for (int i = c + 1; i < n; ++i)
      if (std::abs(at(i, c)) > std::abs(at(p, c))) p = i;
    if (std::abs(at(p, c)) == 0) return false;
    if (p != c) {
      for (int j = 0; j < n; ++j) std::swap(at(c, j), at(p, j));
      std::swap(b[size_t(c)], b[size_t(p)]);
    }
    for (int i = c + 1; i < n; ++i) {
      const S f = at(i, c) / at(c, c);
      if (f == S(0)) continue;
      for (int j = c; j < n; ++j) at(i, j) -= f * at(c, j);
      b[size_t(i)] -= f * b[size_t(c)];
    }
  }
  x.assign(size_t(n), S(0));
  for (int i = n - 1; i >= 0; --i) {
    S s = b[size_t(i)];
    for (int j = i + 1; j < n; ++j) s -= at(i, j) * x[size_t(j)];
    x[size_t(i)] = s / at(i, i);
  }
  return true;
}

// ------------------------------------------------------------------ alphabets
constexpr int NFAM = 8;
inline const char * fam_name(int f)
{
  static const char * nm[NFAM] = {"identity", "generic", "graded-cols", "vandermonde", "duplicate-col", "zero-col", "near-dependent", "banded"};
  return nm[f];
}
/// fixed "generic" entry table: multiples of 1/32 in (-1,1), never 0 (hash of (i,j); a fixed menu, not a random source)
inline double gen(int i, int j)
{
  uint32_t h = uint32_t(i + 1) * 73856093u ^ uint32_t(j + 1) * 19349663u;
  h ^= h >> 13;
  h *= 2654435761u;
  h ^= h >> 16;
  const int k = int(h % 64u);
  return (k - 31.5) / 32.0;
}
inline double p10(int e)
{
  static const double t[13] = {1e-6, 1e-5, 1e-4, 1e-3, 1e-2, 1e-1, 1, 1e1, 1e2, 1e3, 1e4, 1e5, 1e6};
  return t[e + 6];
}
/// integer decade of a grading from 10^lo to 10^hi over n entries
inline int grade(int j, int n, int lo, int hi)
{
  if (n == 1) return 0;
  return int(std::lround(lo + double(hi - lo) * j / double(n - 1)));
}
inline Eigen::MatrixXd make_J(int fam, int m, int n)
{
  Eigen::MatrixXd J = Eigen::MatrixXd::Zero(m, n);
  auto G            = [&] {
    for (int i = 0; i < m; ++i)
      for (int j = 0; j < n; ++j) J(i, j) = gen(i, j);
  };
  switch (fam) {
  case 0:
    for (int i = 0; i < std::min(m, n); ++i) J(i, i) = 1;
    break;
  case 1: G(); break;
  case 2:  // column norms graded from 1e-6 to 1e6
    G();
    for (int j = 0; j < n; ++j) J.col(j) *= p10(grade(j, n, -6, 6));
    break;
  case 3:  // Vandermonde on equispaced nodes in [-1,1]
    for (int i = 0; i < m; ++i) {
      const double x = m == 1 ? 1.0 : -1.0 + 2.0 * i / double(m - 1);
      double p       = 1;
      for (int j = 0; j < n; ++j) {
        J(i, j) = p;
        p *= x;
      }
    }
    break;
  case 4:  // last column duplicates the first
    G();
    if (n >= 2) J.col(n - 1) = J.col(0);
    break;
  case 5:  // one column identically zero
    G();
    J.col(n / 2).setZero();
    break;
  case 6:  // last column = first + 1e-7 * (another generic vector)
    G();
    if (n >= 2)
      for (int i = 0; i < m; ++i) J(i, n - 1) = J(i, 0) + 1e-7 * gen(i, n + 3);
    break;
  case 7:  // banded (tridiagonal pattern)
    for (int i = 0; i < m; ++i)
      for (int j = 0; j < n; ++j) {
        if (i == j) J(i, j) = 2;
        if (j == i + 1) J(i, j) = -1;
        if (j == i - 1) J(i, j) = -0.5;
      }
    break;
  }
  return J;
}
constexpr int ND = 5;
inline const char * d_name(int k)
{
  static const char * nm[ND] = {"1e-6", "1", "1e3", "graded-up", "graded-down"};
  return nm[k];
}
inline Eigen::VectorXd make_d(int k, int n)
{
  Eigen::VectorXd d(n);
  for (int j = 0; j < n; ++j) {
    switch (k) {
    case 0: d(j) = 1e-6; break;
    case 1: d(j) = 1; break;
    case 2: d(j) = 1e3; break;
    case 3: d(j) = p10(grade(j, n, -3, 3)); break;
    default: d(j) = p10(grade(j, n, 3, -3)); break;
    }
  }
  return d;
}
constexpr int NR = 7;
inline const char * r_name(int k)
{
  static const char * nm[NR] = {"zero", "e_first", "e_last", "ones", "J*ones", "J*alt", "perp-range(J)"};
  return nm[k];
}
constexpr int NS = 7;
/// lambda resp. Delta menu. The two extreme entries are the same extreme regularisation seen from both sides: lambda = 1e20 in
/// solve_linear_ldlt and Delta = 1e-20 (lambda = 1/Delta = 1e20) in solve_trust_region; see s_val_mode()
inline double s_val(int k)
{
  static const double t[NS] = {1e-6, 1e-3, 1, 1e3, 1e6, 1e20, 1e-20};
  return t[k];
}

struct Problem
{
  int m = 0, n = 0, fam = 0;
  bool famdup = false;  // same matrix as an earlier family of this shape
  Eigen::MatrixXd J;
  Eigen::SparseMatrix<double> Jc;
  Eigen::SparseMatrix<double, Eigen::RowMajor> Jr;
  LMat JL;
  std::vector<Eigen::VectorXd> rs;
  std::vector<char> rdup;
  int rank_est = 0;  // numerical rank (long double MGS, relative threshold 1e-10)
};

/// r menu; the "perp" entry is a fixed vector minus its projection on range(J), computed in long double (MGS, twice)
inline void make_rs(Problem & P)
{
  const int m = P.m, n = P.n;
  P.rs.assign(NR, Eigen::VectorXd::Zero(m));
  P.rs[1](0)     = 1;
  P.rs[2](m - 1) = 1;
  P.rs[3].setOnes();
  {
    LVec a(size_t(n), 0.0L), b(size_t(n), 0.0L);
    for (int j = 0; j < n; ++j) {
      a[size_t(j)] = 1;
      b[size_t(j)] = (j % 2 ? -1.0L : 1.0L) * (1 + j / 4.0L);
    }
    LVec ya = mulv(P.JL, a), yb = mulv(P.JL, b);
    for (int i = 0; i < m; ++i) {
      P.rs[4](i) = (double)ya[size_t(i)];
      P.rs[5](i) = (double)yb[size_t(i)];
    }
  }
  // orthonormal basis of range(J)
  std::vector<LVec> Q;
  for (int j = 0; j < n; ++j) {
    LVec c(size_t(m), 0.0L), c0;
    for (int i = 0; i < m; ++i) c[size_t(i)] = P.JL(i, j);
    c0         = c;
    const L n0 = norm2(c0);
    if (n0 == 0) continue;
    for (int pass = 0; pass < 2; ++pass)
      for (auto & q : Q) {
        L s = 0;
        for (int i = 0; i < m; ++i) s += q[size_t(i)] * c[size_t(i)];
        for (int i = 0; i < m; ++i) c[size_t(i)] -= s * q[size_t(i)];
      }
    const L n1 = norm2(c);
    if (n1 <= 1e-10L * n0) continue;
    for (auto & x : c) x /= n1;
    Q.push_back(c);
  }
  P.rank_est = int(Q.size());
  LVec v(size_t(m), 0.0L);
  for (int i = 0; i < m; ++i) v[size_t(i)] = (i % 2 ? -1.0L : 1.0L) * (1 + (i % 5) / 4.0L) + 0.25L * gen(i, 77);
  const L v0 = norm2(v);
  for (int pass = 0; pass < 2; ++pass)
    for (auto & q : Q) {
      L s = 0;
      for (int i = 0; i < m; ++i) s += q[size_t(i)] * v[size_t(i)];
      for (int i = 0; i < m; ++i) v[size_t(i)] -= s * q[size_t(i)];
    }
  L vm = 0;
  for (L x : v) vm = std::max(vm, std::fabs(x));
  if (norm2(v) > 1e-6L * v0 && int(Q.size()) < m)
    for (int i = 0; i < m; ++i) P.rs[6](i) = (double)(v[size_t(i)] / vm);
  P.rdup.assign(NR, 0);
  for (int a = 0; a < NR; ++a)
    for (int b = 0; b < a; ++b)
      if (P.rs[size_t(a)] == P.rs[size_t(b)]) P.rdup[size_t(a)] = 1;
}

inline std::vector<int> sizes()
{
  if (mc::thorough()) return {1, 2, 3, 4, 5, 6, 7, 8, 16, 40};
  return {1, 2, 3, 4, 5, 6, 7};  // 7: smallest shape exhibiting the recorded finding (numerically singular H, cond >= 1e16)
}

inline std::vector<Problem> make_problems()
{
  std::vector<Problem> ps;
  const auto S = sizes();
  for (int m : S)
    for (int n : S) {
      const size_t first = ps.size();
      for (int f = 0; f < NFAM; ++f) {
        Problem P;
        P.m = m, P.n = n, P.fam = f;
        P.J  = make_J(f, m, n);
        P.Jc = P.J.sparseView();
        P.Jc.makeCompressed();
        P.Jr = P.J.sparseView();
        P.Jr.makeCompressed();
        P.JL = LMat(m, n);
        for (int i = 0; i < m; ++i)
          for (int j = 0; j < n; ++j) P.JL(i, j) = (L)P.J(i, j);
        for (size_t q = first; q < ps.size(); ++q)
          if (ps[q].J == P.J) P.famdup = true;
        make_rs(P);
        ps.push_back(std::move(P));
      }
    }
  return ps;
}

inline std::string vhex(const double * v, int n, int maxn = 40)
{
  std::string s = "[";
  for (int i = 0; i < n && i < maxn; ++i) s += (i ? "," : "") + mc::fmt("%a", v[i]);
  if (n > maxn) s += ",...";
  return s + "]";
}

}  // namespace c10
