// C10 — trust-region step solver: sub-checks (see c10.hpp for alphabets and oracle algebra)
#include "c10.hpp"

#include <atomic>

using namespace c10;
using Eigen::VectorXd;

// Make reads of uninitialised heap memory deterministic: every block handed out by malloc (Eigen's aligned_malloc and
// operator new end up here) is pre-filled with 0x55 bytes (as a double: +1.19e103). A solver that returns a vector it
// never wrote then yields the same absurd numbers in every run and in the replay, instead of heap addresses that change
// from run to run (which would trip the explorer's determinism guard, exit 2, rather than produce a VIOLATION).
extern "C" {
void * __libc_malloc(size_t);
void * malloc(size_t n)
{
  void * p = __libc_malloc(n);
  if (p) std::memset(p, 0x55, n);
  return p;
}
}

namespace c10 {
SFn & static_fn(int m, int n)
{
  static SFn t[SMAX + 1][SMAX + 1] = {};
  return t[m][n];
}
}  // namespace c10

namespace {

// ------------------------------------------------------------------ tolerances
// fixed by the statement
constexpr double TOL_BACKWARD = 1e-8;   // normal equations, relative backward error
constexpr double TOL_DENSE_SPARSE = 1e-6;  // dense vs sparse dx, relative, premise cond <= 1e8
constexpr double COND_PREMISE = 1e8;
constexpr double TOL_DESCENT  = 1e-12;  // |J dx + r| <= |r| (1 + 1e-12)   (DESIGN C10)
// not fixed by the statement: calibrated = max(100 x worst observed on the thorough alphabet, 64 eps)
constexpr double EPS = 2.220446049250313e-16;
// dphi: error relative to |dphi_ref| + forward-error scale (see build_RO); worst observed on the thorough alphabet
// (pinned tree, all four representations, 388 591 judgements): 1.0e-16  ->  100 x worst = 1.0e-14 < 64 eps
constexpr double TOL_DPHI = 64 * EPS;
// lambda returned by solve_trust_region vs 1/Delta evaluated in long double: worst observed 4.6e-17 (half an ulp)
constexpr double TOL_LAMBDA = 64 * EPS;
// colwise_norm relative to the column norm: worst observed 3.08e-16 (sparse, 40 rows) -> 100 x worst
constexpr double TOL_CWNORM = 3.1e-14;
// dphi is judged while the long-double oracle resolves the forward-error scale and first-order analysis applies
constexpr double COND_DPHI = 1e12;

enum Rep { DENSE_DYN = 0, DENSE_STATIC, SPARSE_COL, SPARSE_ROW, NREP };
const char * rep_name[NREP] = {"dense-dyn", "dense-static", "sparse-col", "sparse-row"};

struct Res
{
  bool have = false;
  std::vector<double> x;
  double dphi = std::nan(""), lam = std::nan("");
};

template<typename JT>
Res call_dyn(const JT & J, const VectorXd & d, const VectorXd & r, double s, int mode)
{
  Res o;
  o.have = true;
  VectorXd x;
  if (mode == 0) {
    double dp = std::nan("");
    x         = smooth::solve_linear_ldlt(J, d, r, s, dp);
    o.dphi    = dp;
  } else if (mode == 3) {
    x = smooth::solve_linear_ldlt(J, d, r, s);
  } else if (mode == 1) {
    auto ret = smooth::solve_trust_region(J, d, r, s);
    static_assert(std::is_same_v<decltype(ret), std::pair<VectorXd, double>>);
    x     = ret.first;
    o.lam = ret.second;
  } else {
    x = smooth::colwise_norm(J);
  }
  o.x.assign(x.data(), x.data() + x.size());
  return o;
}
Res call_static(const Problem & P, const VectorXd & d, const VectorXd & r, double s, int mode)
{
  Res o;
  if (P.m > SMAX || P.n > SMAX) return o;
  SIn in{P.J.data(), d.data(), r.data(), s, mode};
  SOut out;
  static_fn(P.m, P.n)(in, out);
  o.have = true;
  o.x.assign(out.x, out.x + P.n);
  o.dphi = out.dphi;
  o.lam  = out.lam;
  return o;
}
std::array<Res, NREP> call_all(const Problem & P, const VectorXd & d, const VectorXd & r, double s, int mode)
{
  std::array<Res, NREP> o;
  o[DENSE_DYN]    = call_dyn(P.J, d, r, s, mode);
  o[DENSE_STATIC] = call_static(P, d, r, s, mode);
  o[SPARSE_COL]   = call_dyn(P.Jc, d, r, s, mode);
  o[SPARSE_ROW]   = call_dyn(P.Jr, d, r, s, mode);
  return o;
}

// ------------------------------------------------------------------ oracle
/// everything that depends on (J, d, lambda) only; cached per worker thread (r is the fastest index)
struct HO
{
  const Problem * P = nullptr;
  int dk = -1;
  L lam  = -1;
  int n  = 0;
  LVec d;
  LMat JtJ, H;
  L nHF = 0;
  LVec w;
  LMat V;
  L wmin = 0, wmax = 0, cond = INFINITY;
  bool inv_ok = false;  // cond <= COND_DPHI: Hinv and the scaled norms are available
  LMat Hinv;
  L nA = 0, nDHinv = 0;
};
void build_HO(HO & o, const Problem & P, int dk, const VectorXd & d, L lam)
{
  const int n = P.n, m = P.m;
  o.P = &P, o.dk = dk, o.lam = lam, o.n = n;
  o.d.assign(size_t(n), 0);
  for (int j = 0; j < n; ++j) o.d[size_t(j)] = (L)d(j);
  o.JtJ = LMat(n, n);
  for (int i = 0; i < n; ++i)
    for (int j = i; j < n; ++j) {
      L s = 0;
      for (int k = 0; k < m; ++k) s += P.JL(k, i) * P.JL(k, j);
      o.JtJ(i, j) = s;
      o.JtJ(j, i) = s;
    }
  o.H = o.JtJ;
  for (int i = 0; i < n; ++i) o.H(i, i) += lam * o.d[size_t(i)] * o.d[size_t(i)];
  o.nHF = normF(o.H);
  jacobi_eig(o.H, o.w, o.V);
  o.wmin = INFINITY, o.wmax = 0;
  for (L x : o.w) {
    o.wmin = std::min(o.wmin, x);
    o.wmax = std::max(o.wmax, std::fabs(x));
  }
  o.cond   = o.wmin > 0 ? o.wmax / o.wmin : (L)INFINITY;
  o.inv_ok = o.cond <= (L)COND_DPHI;
  if (o.inv_ok) {
    o.Hinv = LMat(n, n);
    for (int i = 0; i < n; ++i)
      for (int j = i; j < n; ++j) {
        L s = 0;
        for (int k = 0; k < n; ++k) s += o.V(i, k) * o.V(j, k) / o.w[size_t(k)];
        o.Hinv(i, j) = s;
        o.Hinv(j, i) = s;
      }
    L a = 0, b = 0;
    for (int i = 0; i < n; ++i)
      for (int j = 0; j < n; ++j) {
        const L h = o.Hinv(i, j);
        a += (o.d[size_t(i)] * h * o.d[size_t(j)]) * (o.d[size_t(i)] * h * o.d[size_t(j)]);
        b += (o.d[size_t(i)] * h) * (o.d[size_t(i)] * h);
      }
    o.nA     = std::sqrt(a);
    o.nDHinv = std::sqrt(b);
  }
}
HO & cached_HO(const Problem & P, int dk, const VectorXd & d, L lam)
{
  static thread_local HO o;
  if (o.P != &P || o.dk != dk || o.lam != lam) build_HO(o, P, dk, d, lam);
  return o;
}

/// the part that depends on r
struct RO
{
  LVec g, gabs;
  L ng = 0, ngabs = 0, nr = 0;
  LVec xref;
  L nxref = 0, phi = 0, dphi = 0, dphi_scale = 0;
};
void build_RO(RO & q, const HO & o, const Problem & P, const VectorXd & r)
{
  const int n = P.n, m = P.m;
  q.g.assign(size_t(n), 0);
  q.gabs.assign(size_t(n), 0);
  for (int j = 0; j < n; ++j) {
    L s = 0, a = 0;
    for (int k = 0; k < m; ++k) {
      const L t = P.JL(k, j) * (L)r(k);
      s += t;
      a += std::fabs(t);
    }
    q.g[size_t(j)]    = s;
    q.gabs[size_t(j)] = a;
  }
  q.ng = norm2(q.g), q.ngabs = norm2(q.gabs);
  L s = 0;
  for (int k = 0; k < m; ++k) s += (L)r(k) * (L)r(k);
  q.nr = std::sqrt(s);
  if (o.inv_ok) {
    q.xref = mulv(o.Hinv, q.g);
    for (auto & x : q.xref) x = -x;
    q.nxref = norm2(q.xref);
    LVec u(size_t(n), 0.0L), qq(size_t(n), 0.0L);
    for (int j = 0; j < n; ++j) {
      u[size_t(j)]  = o.d[size_t(j)] * q.xref[size_t(j)];
      qq[size_t(j)] = o.d[size_t(j)] * u[size_t(j)];
    }
    q.phi  = norm2(u);
    LVec y = mulv(o.Hinv, qq);
    L t    = 0;
    for (int j = 0; j < n; ++j) t += qq[size_t(j)] * y[size_t(j)];
    q.dphi = q.phi > 0 ? -t / q.phi : 0.0L;
    // forward-error scale of dphi per unit of relative backward error in the two solves and in forming J'r:
    //   u = D dx,  f(u) = -u'Au/|u|,  A = D H^-1 D:   |df| <= 3|A| |du| + |u' dA u|/|u|
    //   |du| <= |D H^-1| (|H||dx| + ||J|'|r||),   |dA| <= |D H^-1|^2 |H|
    const L beta = o.nDHinv * (o.nHF * q.nxref + q.ngabs);
    q.dphi_scale = 3 * o.nA * beta + o.nDHinv * o.nDHinv * o.nHF * q.phi;
  }
}

bool finite_all(const std::vector<double> & x)
{
  for (double v : x)
    if (!std::isfinite(v)) return false;
  return true;
}
/// relative backward error of the normal equations, all quantities in long double:
///   |H x + J'r| / (|H|_F |x| + | |J|'|r| |)        (| |J|'|r| | = |J'r| unless J'r cancels: forward-error scale)
double backward_error(const HO & o, const RO & q, const std::vector<double> & x)
{
  if (!finite_all(x)) return std::nan("");
  LVec xl(x.begin(), x.end());
  LVec res = mulv(o.H, xl);
  for (size_t j = 0; j < res.size(); ++j) res[j] += q.g[j];
  const L rn = norm2(res), sc = o.nHF * norm2(xl) + q.ngabs;
  if (sc == 0) return rn == 0 ? 0.0 : INFINITY;
  return (double)(rn / sc);
}
/// difference of two solutions relative to |dx_ref| + 1e-8 |H^-1| ||J|'|r||: the second term is the part of the
/// forward error caused by rounding in J'r when it cancels; at cond = 1e8 it has the same weight as the first
double forward_diff(const HO & o, const RO & q, const std::vector<double> & a, const std::vector<double> & b)
{
  if (!finite_all(a) || !finite_all(b)) return std::nan("");
  L s = 0;
  for (size_t j = 0; j < a.size(); ++j) s += ((L)a[j] - (L)b[j]) * ((L)a[j] - (L)b[j]);
  s          = std::sqrt(s);
  const L sc = q.nxref + 1e-8L * q.ngabs / o.wmin;
  if (sc == 0) return s == 0 ? 0.0 : INFINITY;
  return (double)(s / sc);
}

std::atomic<uint64_t> n_cross{0};
/// cross-check of the analytic derivative (long double) by complex step and by central difference
void cross_check_dphi(const HO & o, const RO & q)
{
  const int n = o.n;
  if (!(q.phi > 0)) return;
  auto phi_at = [&](L lam, L & out) {
    LVec A(size_t(n) * size_t(n)), b(size_t(n), 0.0L), x;
    for (int i = 0; i < n; ++i) {
      for (int j = 0; j < n; ++j) A[size_t(i) * size_t(n) + size_t(j)] = o.JtJ(i, j);
      A[size_t(i) * size_t(n) + size_t(i)] += lam * o.d[size_t(i)] * o.d[size_t(i)];
      b[size_t(i)] = -q.g[size_t(i)];
    }
    if (!ge_solve<L>(A, b, n, x)) return false;
    L s = 0;
    for (int i = 0; i < n; ++i) s += o.d[size_t(i)] * x[size_t(i)] * o.d[size_t(i)] * x[size_t(i)];
    out = std::sqrt(s);
    return true;
  };
  // complex step
  {
    const L h = o.lam * 1e-30L;
    std::vector<CL> A(size_t(n) * size_t(n)), b(size_t(n), 0.0L), x;
    for (int i = 0; i < n; ++i) {
      for (int j = 0; j < n; ++j) A[size_t(i) * size_t(n) + size_t(j)] = CL(o.JtJ(i, j), 0);
      A[size_t(i) * size_t(n) + size_t(i)] += CL(o.lam, h) * CL(o.d[size_t(i)] * o.d[size_t(i)], 0);
      b[size_t(i)] = CL(-q.g[size_t(i)], 0);
    }
    if (!ge_solve<CL>(A, b, n, x)) mc::harness_error("oracle: complex elimination broke down");
    CL s = 0;
    for (int i = 0; i < n; ++i) s += CL(o.d[size_t(i)] * o.d[size_t(i)], 0) * x[size_t(i)] * x[size_t(i)];
    const L cs = std::sqrt(s).imag() / h;
    if (!(std::fabs(cs - q.dphi) <= 1e-14L * q.dphi_scale + 1e-15L * std::fabs(q.dphi)))
      mc::harness_error(mc::fmt("oracle self-check: analytic dphi %.20Lg != complex step %.20Lg (scale %.6Lg, m=%d n=%d fam=%d dk=%d lam=%Lg)",
        q.dphi, cs, q.dphi_scale, o.P->m, o.P->n, o.P->fam, o.dk, o.lam));
  }
  // central difference
  {
    const L del = 1e-4L;
    L fp = 0, fm = 0;
    if (!phi_at(o.lam * (1 + del), fp) || !phi_at(o.lam * (1 - del), fm)) mc::harness_error("oracle: elimination broke down");
    const L cd   = (fp - fm) / (2 * o.lam * del);
    const L beta = o.nDHinv * (o.nHF * q.nxref + q.ngabs);
    if (!(std::fabs(cd - q.dphi) <= 1e-6L * q.phi / o.lam + 1e-14L * beta / (o.lam * del)))
      mc::harness_error(mc::fmt("oracle self-check: analytic dphi %.20Lg != central difference %.20Lg (m=%d n=%d fam=%d dk=%d lam=%Lg)", q.dphi,
        cd, o.P->m, o.P->n, o.P->fam, o.dk, o.lam));
  }
  n_cross++;
}

const char * cond_class(L c)
{
  if (c <= 1e4L) return "cond(H)<=1e4";
  if (c <= 1e8L) return "cond(H) in (1e4,1e8]";
  if (c <= 1e12L) return "cond(H) in (1e8,1e12]";
  if (c <= 1e16L) return "cond(H) in (1e12,1e16]";
  return "cond(H)>1e16 (numerically singular in double)";
}

std::string jname(const char * what, int rep) { return std::string(what) + " [" + rep_name[rep] + "]"; }
struct Names
{
  std::string be[NREP], dphi[NREP], ds[NREP][NREP], lam[NREP], direct[NREP], descent[NREP], cw[NREP], cwds[NREP][NREP];
  Names()
  {
    for (int a = 0; a < NREP; ++a) {
      be[a]      = jname("normal-eq backward error", a);
      dphi[a]    = jname("dphi=d|D dx|/dlambda", a);
      lam[a]     = jname("tr: lambda=1/Delta", a);
      direct[a]  = jname("tr: dx=solve_linear_ldlt(1/Delta) (cond<=1e8)", a);
      descent[a] = jname("tr: |J dx+r|<=|r|", a);
      cw[a]      = jname("colwise_norm=definition", a);
      for (int b = 0; b < NREP; ++b) {
        ds[a][b]   = std::string("dx ") + rep_name[a] + "=" + rep_name[b] + " (cond<=1e8)";
        cwds[a][b] = std::string("colwise_norm ") + rep_name[a] + "=" + rep_name[b];
      }
    }
  }
};
const Names & names()
{
  static const Names n;
  return n;
}

struct Tables
{
  std::vector<Problem> ps;
  std::map<int, std::vector<VectorXd>> ds;
  std::map<int, std::vector<char>> ddup;
  Tables()
  {
    for (int m = 1; m <= SMAX; ++m)
      for (int n = 1; n <= SMAX; ++n)
        if (!static_fn(m, n)) mc::harness_error("static instantiation table incomplete");
    ps = make_problems();
    for (int n : sizes()) {
      for (int k = 0; k < ND; ++k) ds[n].push_back(make_d(k, n));
      ddup[n].assign(ND, 0);
      for (int a = 0; a < ND; ++a)
        for (int b = 0; b < a; ++b)
          if (ds[n][size_t(a)] == ds[n][size_t(b)]) ddup[n][size_t(a)] = 1;
    }
  }
};
const Tables & tables()
{
  static const Tables t;
  return t;
}

std::string describe(const Problem & P, int dk, int rk, const char * sname, double s, const VectorXd & d, const VectorXd & r)
{
  std::string t = mc::fmt("m=%d n=%d J=%s d=%s r=%s %s=%a(%g)", P.m, P.n, fam_name(P.fam), d_name(dk), r_name(rk), sname, s, s);
  t += " d=" + vhex(d.data(), P.n, 8) + " r=" + vhex(r.data(), P.m, 8) + " J(col-major)=" + vhex(P.J.data(), P.m * P.n, 36);
  return t;
}

void oracle_selfchecks()
{
  mc::assumption("C10 backward error = |H x + J'r|_2 / (|H|_F |x|_2 + | |J|'|r| |_2), H = J'J + lambda D^2, all in long double "
                 "(| |J|'|r| | replaces |J'r| so that cancellation in J'r is not charged to the solver)");
  mc::assumption("C10 dense-vs-sparse / TR-vs-direct dx: |a-b|_2 / (|dx_ref|_2 + 1e-8 | |J|'|r| |_2 / lambda_min(H)) <= 1e-6, judged only "
                 "when the long-double 2-norm condition number of H (Jacobi eigenvalues) is <= 1e8");
  mc::assumption("C10 dphi: |dphi - ref| / (|ref| + S) with S the first-order forward-error scale per unit backward error "
                 "3|A|_F |DH^-1|_F (|H|_F|dx| + ||J|'|r||) + |DH^-1|_F^2 |H|_F |D dx|, A = D H^-1 D; judged when cond(H) <= 1e12; "
                 "tolerance calibrated (64 eps; worst observed 1.0e-16); the analytic long-double derivative is cross-checked in every "
                 "case with cond(H) <= 1e8 by a complex step and a central difference (failure = harness error)");
  mc::assumption("C10 malloc is interposed to pre-fill blocks with 0x55 bytes so that a result vector the library never wrote is "
                 "deterministic (replayable) instead of containing heap addresses");
  mc::assumption("C10 static-size Eigen types cover shapes 1..6 x 1..6 (Matrix<double,M,N>, Vector<N>, Vector<M>); larger shapes are "
                 "dynamic-size only; scalar type double only (lambda/Delta are double in the API)");
  // Jacobi: V diag(w) V' = H, V'V = I on a graded SPD matrix; GE agrees with the eigen-solve
  const int n = 6;
  LMat B(n, n), H(n, n);
  for (int i = 0; i < n; ++i)
    for (int j = 0; j < n; ++j) B(i, j) = (L)gen(i, j) * (L)p10(j - 3);
  for (int i = 0; i < n; ++i)
    for (int j = 0; j < n; ++j) {
      L s = 0;
      for (int k = 0; k < n; ++k) s += B(k, i) * B(k, j);
      H(i, j) = s;
    }
  LVec w;
  LMat V;
  jacobi_eig(H, w, V);
  L e1 = 0, e2 = 0;
  for (int i = 0; i < n; ++i)
    for (int j = 0; j < n; ++j) {
      L s = 0, t = 0;
      for (int k = 0; k < n; ++k) {
        s += V(i, k) * w[size_t(k)] * V(j, k);
        t += V(k, i) * V(k, j);
      }
      e1 = std::max(e1, std::fabs(s - H(i, j)) / std::sqrt(H(i, i) * H(j, j)));
      e2 = std::max(e2, std::fabs(t - (i == j ? 1.0L : 0.0L)));
    }
  mc::selfcheck("jacobi: V diag(w) V' = H (entrywise relative to sqrt(h_ii h_jj))", e1 < 1e-16L);
  mc::selfcheck("jacobi: V orthogonal", e2 < 1e-17L);
  bool pos = true;
  for (L x : w) pos = pos && x > 0;
  mc::selfcheck("jacobi: SPD input gives positive eigenvalues", pos);
  LVec b(size_t(n), 0.0L), x;
  for (int i = 0; i < n; ++i) b[size_t(i)] = 1 + i;
  LVec A(H.a);
  const bool ok = ge_solve<L>(A, b, n, x);
  LVec hx       = mulv(H, x);
  L e3          = 0;
  for (int i = 0; i < n; ++i) e3 = std::max(e3, std::fabs(hx[size_t(i)] - b[size_t(i)]));
  mc::selfcheck("gauss elimination residual (backward error)", ok && e3 <= 1e-17L * (normF(H) * norm2(x) + norm2(b)));
  // 1x1 closed form: J=a, d, r: dx = -a r/(a^2+lam d^2), phi = d|a r|/(a^2+lam d^2), phi' = -d^3 |a r| /(a^2+lam d^2)^2
  {
    Problem P;
    P.m = P.n = 1;
    P.J       = Eigen::MatrixXd::Constant(1, 1, 3.0);
    P.JL      = LMat(1, 1);
    P.JL(0, 0) = 3;
    VectorXd d = VectorXd::Constant(1, 2.0), r = VectorXd::Constant(1, 5.0);
    HO o;
    build_HO(o, P, 0, d, 0.5L);
    RO q;
    build_RO(q, o, P, r);
    const L den = 9 + 0.5L * 4;
    mc::selfcheck("1x1 closed form dx", std::fabs(q.xref[0] + 15 / den) < 1e-18L);
    mc::selfcheck("1x1 closed form dphi", std::fabs(q.dphi + 8 * 15 / (den * den)) < 1e-18L);
    cross_check_dphi(o, q);
  }
}

}  // namespace

// ====================================================================== sub-checks
MC_SUBCHECK(a_colwise_norm)
{
  oracle_selfchecks();
  const auto & T = tables();
  const auto & N = names();
  mc::explore("C10/colwise_norm", T.ps.size(), [&](mc::Case & c) {
    const Problem & P = T.ps[c.idx];
    const VectorXd none = VectorXd::Zero(std::max(P.m, P.n));
    c.desc = [&] { return mc::fmt("m=%d n=%d J=%s J(col-major)=", P.m, P.n, fam_name(P.fam)) + vhex(P.J.data(), P.m * P.n, 36); };
    c.param("m", P.m);
    c.param("n", P.n);
    c.param("fam", P.fam);
    if (P.famdup) c.trivial();
    c.outcome(P.m > P.n ? "tall" : (P.m < P.n ? "wide" : "square"));
    LVec ref(size_t(P.n), 0);
    bool anyzero = false;
    for (int j = 0; j < P.n; ++j) {
      L s = 0;
      for (int i = 0; i < P.m; ++i) s += P.JL(i, j) * P.JL(i, j);
      ref[size_t(j)] = std::sqrt(s);
      if (s == 0) anyzero = true;
    }
    if (anyzero) c.outcome("has zero column");
    auto res = call_all(P, none.head(P.n), none.head(P.m), 0, 2);
    auto rel = [&](const std::vector<double> & a, auto && bval) {
      if (!finite_all(a)) return std::nan("");
      L e = 0;
      for (int j = 0; j < P.n; ++j) {
        const L b = bval(j), rr = ref[size_t(j)];
        if (!std::isfinite(b)) return std::nan("");
        const L df = std::fabs((L)a[size_t(j)] - b);
        if (rr == 0) {
          if (df != 0) return (double)INFINITY;
        } else
          e = std::max(e, df / rr);
      }
      return (double)e;
    };
    for (int a = 0; a < NREP; ++a) {
      if (!res[a].have) continue;
      c.judge(N.cw[a].c_str(), rel(res[a].x, [&](int j) { return ref[size_t(j)]; }), TOL_CWNORM);
    }
    for (int a : {DENSE_DYN, DENSE_STATIC})
      for (int b : {SPARSE_COL, SPARSE_ROW})
        if (res[a].have && res[b].have)
          c.judge(N.cwds[a][b].c_str(), rel(res[a].x, [&](int j) { return (L)res[b].x[size_t(j)]; }), TOL_CWNORM);
  });
}

MC_SUBCHECK(b_solve_linear_ldlt)
{
  oracle_selfchecks();
  const auto & T = tables();
  const auto & N = names();
  const uint64_t n = T.ps.size() * ND * NS * NR;
  mc::explore("C10/solve_linear_ldlt", n, [&](mc::Case & c) {
    mc::Radix rx(c.idx);
    const int rk = int(rx.next(NR)), sk = int(rx.next(NS)), dk = int(rx.next(ND));
    const Problem & P   = T.ps[rx.next(T.ps.size())];
    const VectorXd & d  = T.ds.at(P.n)[size_t(dk)];
    const VectorXd & r  = P.rs[size_t(rk)];
    const double lambda = sk == 6 ? 1e12 : s_val(sk);  // extremes: strong regularisation only (tiny lambda d^2 is the singular regime of the recorded finding)
    c.desc = [&] { return describe(P, dk, rk, "lambda", lambda, d, r); };
    if (P.famdup || P.rdup[size_t(rk)] || T.ddup.at(P.n)[size_t(dk)]) c.trivial();
    const HO & o = cached_HO(P, dk, d, (L)lambda);
    RO q;
    build_RO(q, o, P, r);
    c.param("m", P.m);
    c.param("n", P.n);
    c.param("fam", P.fam);
    c.param("log10lambda", std::log10(lambda));
    c.param("log10cond", (double)std::log10(o.cond));
    c.param("dk", dk);
    c.outcome(cond_class(o.cond));
    c.outcome(P.rank_est < P.n ? "J rank-deficient" : "J full column rank");
    c.outcome(P.m > P.n ? "tall" : (P.m < P.n ? "wide" : "square"));
    const bool premise = o.cond <= (L)COND_PREMISE;
    if (premise) cross_check_dphi(o, q);

    auto res = call_all(P, d, r, lambda, 0);
    for (int a = 0; a < NREP; ++a) {
      if (!res[a].have) continue;
      c.judge(N.be[a].c_str(), backward_error(o, q, res[a].x), TOL_BACKWARD);
      if (o.inv_ok) {
        const L den = std::fabs(q.dphi) + q.dphi_scale;
        double e;
        if (!std::isfinite(res[a].dphi))
          e = std::nan("");
        else if (den == 0)
          e = res[a].dphi == 0 ? 0.0 : INFINITY;
        else
          e = (double)(std::fabs((L)res[a].dphi - q.dphi) / den);
        c.judge(N.dphi[a].c_str(), e, TOL_DPHI);
      }
    }
    if (!o.inv_ok) c.outcome("dphi not judged (cond(H)>1e12)");
    if (premise) {
      for (int a : {DENSE_DYN, DENSE_STATIC})
        for (int b : {SPARSE_COL, SPARSE_ROW})
          if (res[a].have && res[b].have) c.judge(N.ds[a][b].c_str(), forward_diff(o, q, res[a].x, res[b].x), TOL_DENSE_SPARSE);
    }
  });
  mc::note("dphi_cross_checks_ldlt", std::to_string(n_cross.load()));
}

MC_SUBCHECK(c_solve_trust_region)
{
  oracle_selfchecks();
  const auto & T = tables();
  const auto & N = names();
  const uint64_t n = T.ps.size() * ND * NS * NR;
  mc::explore("C10/solve_trust_region", n, [&](mc::Case & c) {
    mc::Radix rx(c.idx);
    const int rk = int(rx.next(NR)), sk = int(rx.next(NS)), dk = int(rx.next(ND));
    const Problem & P  = T.ps[rx.next(T.ps.size())];
    const VectorXd & d = T.ds.at(P.n)[size_t(dk)];
    const VectorXd & r = P.rs[size_t(rk)];
    const double Delta = sk == 5 ? 1e-12 : s_val(sk);  // extremes: tiny trust regions 1e-12, 1e-20 (lambda = 1/Delta up to 1e20)
    c.desc = [&] { return describe(P, dk, rk, "Delta", Delta, d, r); };
    if (P.famdup || P.rdup[size_t(rk)] || T.ddup.at(P.n)[size_t(dk)]) c.trivial();
    const L lamL = 1.0L / (L)Delta;
    const HO & o = cached_HO(P, dk, d, lamL);
    RO q;
    build_RO(q, o, P, r);
    c.param("m", P.m);
    c.param("n", P.n);
    c.param("fam", P.fam);
    c.param("log10Delta", std::log10(Delta));
    c.param("log10cond", (double)std::log10(o.cond));
    c.param("dk", dk);
    c.outcome(cond_class(o.cond));
    c.outcome(P.rank_est < P.n ? "J rank-deficient" : "J full column rank");
    const bool premise = o.cond <= (L)COND_PREMISE;

    auto res = call_all(P, d, r, Delta, 1);
    std::array<Res, NREP> dir;
    if (premise) dir = call_all(P, d, r, 1.0 / Delta, 3);
    for (int a = 0; a < NREP; ++a) {
      if (!res[a].have) continue;
      c.judge(N.be[a].c_str(), backward_error(o, q, res[a].x), TOL_BACKWARD);
      c.judge(N.lam[a].c_str(), (double)(std::fabs((L)res[a].lam - lamL) / lamL), TOL_LAMBDA);
      if (premise) c.judge(N.direct[a].c_str(), forward_diff(o, q, res[a].x, dir[a].x), TOL_DENSE_SPARSE);
      // descent of the linearised cost
      double e;
      if (!finite_all(res[a].x))
        e = std::nan("");
      else {
        LVec xl(res[a].x.begin(), res[a].x.end());
        LVec jx = mulv(P.JL, xl);
        L s     = 0;
        for (int i = 0; i < P.m; ++i) s += (jx[size_t(i)] + (L)r(i)) * (jx[size_t(i)] + (L)r(i));
        s = std::sqrt(s);
        e = q.nr == 0 ? (s == 0 ? 0.0 : (double)INFINITY) : (double)(s / q.nr - 1);  // r = 0: the step must be J-null
      }
      if (a == DENSE_DYN) c.outcome(e < 0 ? "strict descent (dense-dyn)" : "no strict descent (dense-dyn)");
      c.judge(N.descent[a].c_str(), e, TOL_DESCENT);
    }
  });
}
