// C10 static-size instantiations: J is Eigen::Matrix<double, M, 6> for M = 1..6
#include "c10.hpp"
static c10::RegisterStatic<6> c10_register_static_6;
