// C10 static-size instantiations: J is Eigen::Matrix<double, M, 4> for M = 1..6
#include "c10.hpp"
static c10::RegisterStatic<4> c10_register_static_4;
