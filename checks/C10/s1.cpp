// C10 static-size instantiations: J is Eigen::Matrix<double, M, 1> for M = 1..6
#include "c10.hpp"
static c10::RegisterStatic<1> c10_register_static_1;
