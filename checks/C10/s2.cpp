// C10 static-size instantiations: J is Eigen::Matrix<double, M, 2> for M = 1..6
#include "c10.hpp"
static c10::RegisterStatic<2> c10_register_static_2;
