// C20 / monomial_derivative<K>(u,p), monomial_derivatives<K,P>(u), monomial_integral<K,P>().
// E: all K = 0..10, all orders p = 0..K+1 (p = K+1 is the documented all-zero case), u on a dyadic grid of [-2,2].
// O: d^p/du^p u^k = k!/(k-p)! u^(k-p) in long double;  M_ij = int_0^1 (u^i)^(P) (u^j)^(P) du exactly,
//    cross-checked by Gauss-Legendre quadrature in long double.
#include "c20.hpp"
using namespace c20;

namespace {
constexpr int KMAX = 10;
constexpr int PMAX = KMAX + 1;

L dmono(int k, int p, L u) { return p > k ? 0 : ffact(k, p) * ipow(u, k - p); }

std::vector<double> ugrid()
{
  const int N = mc::thorough() ? 256 : 32;
  std::vector<double> g;
  for (int i = 0; i <= N; ++i) g.push_back(-2.0 + 4.0 * i / N);
  // a few non-dyadic points
  for (double x : {1.0 / 3, -0.7, 0.1, 1.9}) g.push_back(x);
  return g;
}

using DFn  = void (*)(double, std::size_t, double *);
using DsFn = void (*)(double, double *);
using IFn  = void (*)(double *);

struct Tab
{
  DFn d[KMAX + 1];
  DsFn ds[KMAX + 1][PMAX + 1];
  IFn in[KMAX + 1][PMAX + 1];
  IFn in_ct[KMAX + 1][PMAX + 1];
};

template<std::size_t K>
void f_d(double u, std::size_t p, double * out)
{
  const auto r = smooth::monomial_derivative<K, double>(u, p);
  for (std::size_t k = 0; k <= K; ++k) out[k] = r[0][k];
}
template<std::size_t K, std::size_t P>
void f_ds(double u, double * out)
{
  const auto r = smooth::monomial_derivatives<K, P, double>(u);
  for (std::size_t p = 0; p <= P; ++p)
    for (std::size_t k = 0; k <= K; ++k) out[p * (K + 1) + k] = r[p][k];
}
template<std::size_t K, std::size_t P>
void f_in(double * out)
{
  const auto r = smooth::monomial_integral<K, P>();
  for (std::size_t i = 0; i <= K; ++i)
    for (std::size_t j = 0; j <= K; ++j) out[i * (K + 1) + j] = r[i][j];
}
template<std::size_t K, std::size_t P>
void f_in_ct(double * out)
{
  static constexpr auto r = smooth::monomial_integral<K, P>();
  for (std::size_t i = 0; i <= K; ++i)
    for (std::size_t j = 0; j <= K; ++j) out[i * (K + 1) + j] = r[i][j];
}

template<std::size_t K>
void fill_K(Tab & t)
{
  t.d[K] = &f_d<K>;
  for_idx<K + 2>([&](auto pp) {
    constexpr std::size_t P = decltype(pp)::value;
    t.ds[K][P]              = &f_ds<K, P>;
    t.in[K][P]              = &f_in<K, P>;
    t.in_ct[K][P]           = &f_in_ct<K, P>;
  });
}

Tab make_tab()
{
  Tab t{};
  for_idx<KMAX + 1>([&](auto kk) { fill_K<decltype(kk)::value>(t); });
  return t;
}

L integral_ref(int i, int j, int P)
{
  if (i < P || j < P) return 0;
  return ffact(i, P) * ffact(j, P) / (L)(i + j - 2 * P + 1);
}
}  // namespace

MC_SUBCHECK(monomial)
{
  const Tab tab = make_tab();
  const auto G  = ugrid();
  const uint64_t ng = G.size();

  // oracle self-check: the closed form of the integral agrees with 16-point Gauss-Legendre (exact to degree 31)
  {
    std::vector<L> gx, gw;
    gauss_legendre(16, gx, gw);
    L worst = 0;
    for (int P = 0; P <= PMAX; ++P)
      for (int i = 0; i <= KMAX; ++i)
        for (int j = 0; j <= KMAX; ++j) {
          L s = 0;
          for (size_t q = 0; q < gx.size(); ++q) {
            const L u = (gx[q] + 1) / 2;
            s += gw[q] / 2 * dmono(i, P, u) * dmono(j, P, u);
          }
          worst = std::max(worst, rel(s, integral_ref(i, j, P)));
        }
    mc::selfcheck("monomial_integral oracle: closed form agrees with Gauss-Legendre", worst < 1e-15L);
    // derivative oracle against a central difference of the next lower order (long double)
    L wd = 0;
    for (int k = 0; k <= KMAX; ++k)
      for (int p = 1; p <= k + 1; ++p)
        for (L u : {-1.5L, -0.3L, 0.7L, 2.0L}) {
          const L h  = 1e-5L;
          const L fd = (dmono(k, p - 1, u + h) - dmono(k, p - 1, u - h)) / (2 * h);
          wd         = std::max(wd, rel(fd, dmono(k, p, u)));
        }
    mc::selfcheck("monomial derivative oracle agrees with central differences", wd < 1e-6L);
  }

  // ---- monomial_derivative<K>(u, p)
  mc::explore("C20/monomial_derivative", (KMAX + 1) * (PMAX + 1) * ng, [&](mc::Case & c) {
    mc::Radix r(c.idx);
    const double u = G[r.next(ng)];
    const int p = (int)r.next(PMAX + 1), K = (int)r.next(KMAX + 1);
    c.desc = [=] { return "K=" + std::to_string(K) + " p=" + std::to_string(p) + " u=" + mc::hexf(u); };
    c.param("K", K);
    c.param("p", p);
    c.param("u", u);
    if (p > K + 1) {  // orders beyond K+1 repeat the all-zero case
      c.trivial();
    }
    c.outcome(p > K ? "p>K: all zero" : (p == 0 ? "p=0: monomials" : "0<p<=K"));
    double out[KMAX + 1];
    tab.d[K](u, (std::size_t)p, out);
    L e = 0;
    for (int k = 0; k <= K; ++k) e = std::max(e, rel(out[k], dmono(k, p, u)));
    c.judge("U_k = d^p/du^p u^k", (double)e, TOL);
  });

  // ---- monomial_derivatives<K,P>(u), P = 0..K+1
  mc::explore("C20/monomial_derivatives", (KMAX + 1) * (PMAX + 1) * ng, [&](mc::Case & c) {
    mc::Radix r(c.idx);
    const double u = G[r.next(ng)];
    const int P = (int)r.next(PMAX + 1), K = (int)r.next(KMAX + 1);
    c.desc = [=] { return "K=" + std::to_string(K) + " P=" + std::to_string(P) + " u=" + mc::hexf(u); };
    c.param("K", K);
    c.param("P", P);
    c.param("u", u);
    if (P > K + 1) {  // not instantiated: rows beyond K+1 are identical to row K+1
      c.trivial();
      c.outcome("P>K+1 (not in the enumerated family)");
      return;
    }
    c.outcome(P > K ? "P=K+1: last row zero" : "P<=K");
    double out[(PMAX + 1) * (KMAX + 1)];
    tab.ds[K][P](u, out);
    L e = 0;
    for (int p = 0; p <= P; ++p)
      for (int k = 0; k <= K; ++k) e = std::max(e, rel(out[p * (K + 1) + k], dmono(k, p, u)));
    c.judge("U_pk = d^p/du^p u^k", (double)e, TOL);
  });

  // ---- monomial_integral<K,P>()
  mc::explore("C20/monomial_integral", (KMAX + 1) * (PMAX + 1) * 2, [&](mc::Case & c) {
    mc::Radix r(c.idx);
    const int ct = (int)r.next(2), P = (int)r.next(PMAX + 1), K = (int)r.next(KMAX + 1);
    c.desc = [=] { return "K=" + std::to_string(K) + " P=" + std::to_string(P) + (ct ? " constexpr" : " run-time"); };
    c.param("K", K);
    c.param("P", P);
    if (P > K + 1) {
      c.trivial();
      c.outcome("P>K+1 (not in the enumerated family)");
      return;
    }
    c.outcome(P > K ? "P>K: zero matrix" : "P<=K");
    double out[(KMAX + 1) * (KMAX + 1)];
    (ct ? tab.in_ct : tab.in)[K][P](out);
    L e = 0;
    for (int i = 0; i <= K; ++i)
      for (int j = 0; j <= K; ++j) e = std::max(e, rel(out[i * (K + 1) + j], integral_ref(i, j, P)));
    c.judge("M_ij = int_0^1 D^P u^i D^P u^j du", (double)e, TOL);
  });
}
