// C20 / lgr_nodes<K> (K = 1..16) and integrate_absolute_polynomial.
// lgr: E all K x all monomials / Chebyshev / Legendre polynomials of degree <= 2K-2 x {run-time, constexpr} result.
//      O exact integrals over [-1,1]; nodes are the roots of P_{K-1}+P_K (long double Newton correction).
// intabs: E coefficient triples x intervals, four strata (moderate / degenerate leading coefficients /
//      the implementation's threshold values / large intervals).  O root splitting in long double.
#include "c20.hpp"
using namespace c20;

namespace {
// ================================================================== lgr_nodes
constexpr int NMAX = 16;
struct Rule
{
  std::vector<double> x, w;
};
struct Rules
{
  Rule rt[NMAX + 1], ct[NMAX + 1];
};
Rules make_rules()
{
  Rules R;
  for_idx<NMAX>([&](auto kk) {
    constexpr std::size_t K = decltype(kk)::value + 1;
    {
      const auto [xs, ws] = smooth::lgr_nodes<K>();
      R.rt[K].x.assign(xs.begin(), xs.end());
      R.rt[K].w.assign(ws.begin(), ws.end());
    }
    {
      static constexpr auto nw = smooth::lgr_nodes<K>();
      R.ct[K].x.assign(nw.first.begin(), nw.first.end());
      R.ct[K].w.assign(nw.second.begin(), nw.second.end());
    }
  });
  return R;
}

void legendre(int n, L x, L * P, L * dP)
{
  // P[0..n], dP[0..n]
  for (int k = 0; k <= n; ++k) {
    P[k]  = k == 0 ? 1 : k == 1 ? x : ((2 * k - 1) * x * P[k - 1] - (k - 1) * P[k - 2]) / k;
    dP[k] = k == 0 ? 0 : k == 1 ? 1 : dP[k - 2] + (2 * k - 1) * P[k - 1];  // P'_k = P'_{k-2} + (2k-1) P_{k-1}
  }
}

void run_lgr()
{
  const Rules R = make_rules();
  // oracle self-check: int_{-1}^{1} of x^m, T_m, P_m by 24-point Gauss-Legendre in long double
  {
    std::vector<L> gx, gw;
    gauss_legendre(24, gx, gw);
    L worst = 0;
    for (int m = 0; m <= 2 * NMAX - 2; ++m) {
      L s0 = 0, s1 = 0, s2 = 0;
      for (size_t q = 0; q < gx.size(); ++q) {
        L P[2 * NMAX], dP[2 * NMAX];
        legendre(m, gx[q], P, dP);
        s0 += gw[q] * ipow(gx[q], m);
        s1 += gw[q] * std::cos(m * std::acos(gx[q]));
        s2 += gw[q] * P[m];
      }
      worst = std::max({worst, std::fabs(s0 - ((m & 1) ? 0 : 2 / (L)(m + 1))), std::fabs(s1 - ((m & 1) ? 0 : 2 / (1 - (L)m * m))),
        std::fabs(s2 - (m == 0 ? 2 : 0))});
    }
    mc::selfcheck("lgr oracle: exact integrals agree with Gauss-Legendre", worst < 1e-16L);
  }

  const int MM = 2 * NMAX - 1;  // degrees 0 .. 2*16-2
  mc::explore("C20/lgr_nodes/exactness", uint64_t(NMAX) * MM * 3 * 2, [&](mc::Case & c) {
    mc::Radix r(c.idx);
    const int ct = (int)r.next(2), fam = (int)r.next(3), m = (int)r.next(MM), K = (int)r.next(NMAX) + 1;
    static const char * FAM[3] = {"monomial", "Chebyshev T_m", "Legendre P_m"};
    const Rule & q = ct ? R.ct[K] : R.rt[K];
    c.desc = [=] { return "lgr_nodes<" + std::to_string(K) + ">" + (ct ? " constexpr " : " run-time ") + FAM[fam] + " degree " + std::to_string(m); };
    c.param("K", K);
    c.param("deg", m);
    if (m > 2 * K - 2) {  // the rule is not claimed exact beyond degree 2K-2
      c.trivial();
      c.outcome("degree > 2K-2 (not demanded)");
      return;
    }
    c.outcome(Kname(K));
    L s = 0, exact = 0;
    for (int i = 0; i < K; ++i) {
      const L x = q.x[size_t(i)], w = q.w[size_t(i)];
      L P[2 * NMAX], dP[2 * NMAX];
      L f = 0;
      switch (fam) {
      case 0: f = ipow(x, m); break;
      case 1: {  // recurrence (nodes may be off [-1,1] by rounding: no acos)
        L t0 = 1, t1 = x;
        for (int k = 2; k <= m; ++k) {
          const L t2 = 2 * x * t1 - t0;
          t0 = t1, t1 = t2;
        }
        f = m == 0 ? 1 : t1;
      } break;
      default:
        legendre(m, x, P, dP);
        f = P[m];
      }
      s += w * f;
    }
    switch (fam) {
    case 0: exact = (m & 1) ? 0 : 2 / (L)(m + 1); break;
    case 1: exact = (m & 1) ? 0 : 2 / (1 - (L)m * m); break;
    default: exact = m == 0 ? 2 : 0;
    }
    c.judge("sum w_i f(x_i) = int_{-1}^{1} f", (double)rel(s, exact), TOL);
  });

  mc::explore("C20/lgr_nodes/definition", uint64_t(NMAX) * 2, [&](mc::Case & c) {
    const int ct = int(c.idx % 2), K = int(c.idx / 2) + 1;
    const Rule & q = ct ? R.ct[K] : R.rt[K];
    c.desc = [=, &q] { return "lgr_nodes<" + std::to_string(K) + ">" + (ct ? " constexpr" : " run-time") + " x=" + vhex(q.x) + " w=" + vhex(q.w); };
    c.param("K", K);
    c.outcome(Kname(K));
    c.require("K nodes and K weights", (int)q.x.size() == K && (int)q.w.size() == K);
    // nodes: roots of P_{K-1} + P_K, first node -1, increasing, inside [-1,1)
    L worst = 0, wsum = 0;
    bool ordered = true, positive = true;
    for (int i = 0; i < K; ++i) {
      const L x = q.x[size_t(i)];
      L P[NMAX + 2], dP[NMAX + 2];
      legendre(K, x, P, dP);
      const L f = P[K - 1] + P[K], df = dP[K - 1] + dP[K];
      worst = std::max(worst, std::fabs(f / df));  // first-order distance to the exact root
      if (i > 0 && !(q.x[size_t(i)] > q.x[size_t(i - 1)])) ordered = false;
      if (!(q.w[size_t(i)] > 0)) positive = false;
      wsum += q.w[size_t(i)];
    }
    c.judge("nodes are the roots of P_{K-1}+P_K", (double)worst, TOL);
    c.judge("first node is -1", std::fabs(q.x[0] + 1), TOL);
    c.require("nodes strictly increasing", ordered);
    c.require("last node < 1", q.x[size_t(K - 1)] < 1 || K == 1);
    c.require("weights positive", positive);
    c.judge("weights sum to 2", (double)std::fabs(wsum - 2), TOL);
    // vacuity evidence: the rule is genuinely a K-point Radau rule (degree 2K-1 is NOT integrated exactly)
    {
      L s = 0;
      for (int i = 0; i < K; ++i) {
        L P[2 * NMAX + 2], dP[2 * NMAX + 2];
        legendre(2 * K - 1, q.x[size_t(i)], P, dP);
        s += q.w[size_t(i)] * P[2 * K - 1];
      }
      c.outcome(std::fabs(s) > 1e-6L ? "degree 2K-1 not exact (as expected for Radau)" : "degree 2K-1 exact (unexpected)");
    }
  });
}

// ================================================================== integrate_absolute_polynomial
/// int_{t0}^{t1} |A t^2 + B t + C| dt by splitting at the real roots inside the interval (long double).
/// Root errors enter only to second order (the integrand vanishes at a root).
L intabs_ref(double t0, double t1, double A, double B, double C, int * nsplit = nullptr)
{
  const L a = A, b = B, c = C;
  std::vector<L> cut;
  if (a == 0) {
    if (b != 0) cut.push_back(-c / b);
  } else {
    const L disc = b * b - 4 * a * c;
    if (disc > 0) {
      const L s = std::sqrt(disc);
      const L q = -(b + (b >= 0 ? s : -s)) / 2;  // never 0 when disc > 0
      cut.push_back(q / a);
      cut.push_back(c / q);
    }
  }
  std::vector<L> pts = {(L)t0};
  std::sort(cut.begin(), cut.end());
  for (L r : cut)
    if (r > (L)t0 && r < (L)t1) pts.push_back(r);
  pts.push_back((L)t1);
  if (nsplit) *nsplit = (int)pts.size() - 2;
  L s = 0;
  for (size_t i = 0; i + 1 < pts.size(); ++i) {
    const L p = pts[i], q = pts[i + 1];
    // int_p^q = (q-p) [a (q^2+qp+p^2)/3 + b (q+p)/2 + c]   (no F(q)-F(p) cancellation)
    s += std::fabs((q - p) * (a * (q * q + q * p + p * p) / 3 + b * (q + p) / 2 + c));
  }
  return s;
}

/// brute force: composite midpoint rule on |p| (self-check only)
L intabs_brute(double t0, double t1, double A, double B, double C)
{
  const int N = 1 << 21;
  const L h   = ((L)t1 - (L)t0) / N;
  L s         = 0;
  for (int i = 0; i < N; ++i) {
    const L t = (L)t0 + (i + 0.5L) * h;
    s += std::fabs(((L)A * t + (L)B) * t + (L)C);
  }
  return s * h;
}

struct Stratum
{
  const char * label;
  std::vector<double> As, Bs, Cs, Ts;
};

std::vector<double> pm(std::initializer_list<double> mags, bool zero = true)
{
  std::vector<double> v;
  if (zero) v.push_back(0);
  for (double m : mags) {
    v.push_back(m);
    v.push_back(-m);
  }
  return v;
}

void run_stratum(const Stratum & S)
{
  // intervals: all pairs t0 <= t1 (std::clamp inside the function requires t0 <= t1)
  std::vector<std::pair<double, double>> iv;
  for (double a : S.Ts)
    for (double b : S.Ts)
      if (a <= b) iv.emplace_back(a, b);
  const uint64_t nA = S.As.size(), nB = S.Bs.size(), nC = S.Cs.size(), nI = iv.size();
  mc::explore(S.label, nA * nB * nC * nI, [&](mc::Case & c) {
    mc::Radix r(c.idx);
    const auto & ivl = iv[r.next(nI)];
    const double t0 = ivl.first, t1 = ivl.second;
    const double C = S.Cs[r.next(nC)], B = S.Bs[r.next(nB)], A = S.As[r.next(nA)];
    c.desc = [=] {
      return "t0=" + mc::hexf(t0) + " t1=" + mc::hexf(t1) + " A=" + mc::hexf(A) + " B=" + mc::hexf(B) + " C=" + mc::hexf(C) +
             mc::fmt(" (%g,%g,%g,%g,%g)", t0, t1, A, B, C);
    };
    c.param("absA", std::fabs(A));
    c.param("absB", std::fabs(B));
    c.param("absC", std::fabs(C));
    c.param("t0", t0);
    c.param("t1", t1);
    c.param("tmax", std::max(std::fabs(t0), std::fabs(t1)));
    if (t0 == t1) c.trivial();
    int ns        = 0;
    const L ref   = intabs_ref(t0, t1, A, B, C, &ns);
    c.outcome(ns == 0 ? "no sign change inside" : ns == 1 ? "one sign change inside" : "two sign changes inside");
    c.outcome(A == 0 ? (B == 0 ? "constant" : "linear") : "quadratic");
    const double got = smooth::integrate_absolute_polynomial(t0, t1, A, B, C);
    c.judge("integral of |At^2+Bt+C|", (double)rel(got, ref), TOL);
  });
}

void run_intabs()
{
  // oracle self-checks
  mc::selfcheck("intabs oracle: int_{-2}^{3}|t^2-1| = 28/3", std::fabs(intabs_ref(-2, 3, 1, 0, -1) - 28 / 3.0L) < 1e-17L);
  mc::selfcheck("intabs oracle: spike case equals 4", std::fabs(intabs_ref(0, 4000, 5e-10, -1e-6, 0) - 4) < 1e-12L);
  {
    const double cs[][5] = {{-2, 3, 1, 0, -1}, {0, 4000, 5e-10, -1e-6, 0}, {-1, 3, -3, 0.5, 1}, {-4000, 4000, 0, 1e-10, 0}, {-2, 1, 1e-8, 1, 1},
      {0, 3, 0.5, -1, 0.5}, {-10, 4000, 1e-10, -1e-8, 1e-3}, {-2, 3, 1000, 0.001, -0.5}};
    for (auto & k : cs) {
      const L a = intabs_ref(k[0], k[1], k[2], k[3], k[4]), b = intabs_brute(k[0], k[1], k[2], k[3], k[4]);
      mc::selfcheck("intabs oracle: root splitting agrees with brute-force midpoint rule", std::fabs(a - b) <= 1e-9L * std::max<L>(1e-6L, std::fabs(a)) + 1e-15L);
    }
  }

  const bool th = mc::thorough();
  // (1) moderate coefficient product space (DESIGN): {0,+-1e-3,+-0.5,+-1,+-3,+-1e3}^3 x {-2,-1,0,0.5,1,3}^2
  Stratum mod{"C20/intabs/moderate", pm({1e-3, 0.5, 1, 3, 1e3}), pm({1e-3, 0.5, 1, 3, 1e3}), pm({1e-3, 0.5, 1, 3, 1e3}), {-2, -1, 0, 0.5, 1, 3}};
  if (th) {
    mod.As = mod.Bs = mod.Cs = pm({1e-3, 0.1, 0.5, 1, 2, 3, 30, 1e3});
    mod.Ts = {-2, -1.5, -1, -0.25, 0, 0.5, 1, 2, 3};
  }
  run_stratum(mod);
  // (2) degenerate leading coefficients on the moderate intervals
  Stratum deg{"C20/intabs/degenerate", pm({1e-12, 1e-10, 1e-8}), pm({1e-12, 1e-10, 1e-8, 1e-3, 1}), pm({1e-10, 1e-3, 1}), {-2, -1, 0, 0.5, 1, 3}};
  if (th) {
    deg.Bs = pm({1e-12, 1e-10, 1e-8, 1e-6, 1e-3, 0.5, 1, 1e3});
    deg.Cs = pm({1e-10, 1e-6, 1e-3, 0.5, 1, 1e3});
  }
  run_stratum(deg);
  // (3) exactly the implementation's absolute thresholds (|A| = 1e-9 or |B| = 1e-9), moderate intervals
  Stratum thr{"C20/intabs/threshold", pm({1e-9}), pm({1e-9, 1e-3, 1}), pm({1e-3, 1}), {-2, -1, 0, 0.5, 1, 3}};
  run_stratum(thr);
  // (4) large intervals with small coefficients
  Stratum big{"C20/intabs/large", pm({1e-12, 1e-10, 5e-10, 1e-8, 1e-6}), pm({1e-12, 1e-10, 1e-8, 1e-6, 1e-3, 1}), pm({1e-3, 1}), {-4e3, -10, 0, 10, 4e3}};
  if (th) {
    big.As = pm({1e-12, 1e-11, 1e-10, 5e-10, 2e-9, 1e-8, 1e-7, 1e-6});
    big.Cs = pm({1e-6, 1e-3, 1});
    big.Ts = {-4e3, -1e3, -10, 0, 10, 1e3, 4e3};
  }
  run_stratum(big);
}
}  // namespace

MC_SUBCHECK(lgr) { run_lgr(); }
MC_SUBCHECK(intabs) { run_intabs(); }
