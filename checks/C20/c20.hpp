// C20 — polynomial, quadrature and search utilities equal their definitions.
// Shared helpers: exact small-integer combinatorics in long double, compile-time index dispatch.
// Oracles live next to their sub-checks; nothing here calls into smooth.
#pragma once
#include "bind.hpp"  // eigen_assert trap, <cmath>/<algorithm> before smooth/polynomial/basis.hpp

#include <array>
#include <ranges>
#include <span>
#include <string>
#include <utility>
#include <vector>

#include <smooth/detail/utils.hpp>
#include <smooth/polynomial/basis.hpp>
#include <smooth/polynomial/quadrature.hpp>

namespace c20 {
using L = long double;

/// The statement's tolerance ("equal their definitions to 1e-9"), applied relative to max(1,|value|).
constexpr double TOL = 1e-9;

inline L ipow(L x, int k)
{
  L r = 1;
  for (int i = 0; i < k; ++i) r *= x;
  return r;
}
/// binomial coefficient, exact (every intermediate is an integer < 2^64 for n <= 40)
inline L binom(int n, int k)
{
  if (k < 0 || k > n) return 0;
  L r = 1;
  for (int i = 1; i <= k; ++i) r = r * (L)(n - k + i) / (L)i;
  return r;
}
inline L fact(int k)
{
  L r = 1;
  for (int i = 2; i <= k; ++i) r *= (L)i;
  return r;
}
/// falling factorial k!/(k-p)! (0 when p > k): the coefficient of d^p/du^p u^k
inline L ffact(int k, int p)
{
  if (p > k) return 0;
  L r = 1;
  for (int i = 0; i < p; ++i) r *= (L)(k - i);
  return r;
}
/// error relative to max(1,|reference|)
inline L rel(L got, L ref) { return std::fabs(got - ref) / std::max<L>(1, std::fabs(ref)); }

/// f(integral_constant<size_t,0>), ..., f(integral_constant<size_t,N-1>)
template<std::size_t N, typename F>
void for_idx(F && f)
{
  [&]<std::size_t... I>(std::index_sequence<I...>) { (f(std::integral_constant<std::size_t, I>{}), ...); }
  (std::make_index_sequence<N>{});
}

inline const char * Kname(int K)
{
  static const char * nm[] = {"K=0", "K=1", "K=2", "K=3", "K=4", "K=5", "K=6", "K=7", "K=8", "K=9", "K=10", "K=11", "K=12",
    "K=13", "K=14", "K=15", "K=16", "K=17"};
  return nm[std::clamp(K, 0, 17)];
}

inline std::string vhex(const std::vector<double> & v)
{
  std::string s = "[";
  for (size_t i = 0; i < v.size(); ++i) s += (i ? "," : "") + mc::hexf(v[i]);
  return s + "]";
}

/// n-point Gauss-Legendre rule on [-1,1] in long double (Newton on the three-term recurrence); used only
/// for oracle self-checks (an integration route that shares nothing with the closed forms).
inline void gauss_legendre(int n, std::vector<L> & x, std::vector<L> & w)
{
  x.assign(n, 0);
  w.assign(n, 0);
  const L pi = 3.141592653589793238462643383279502884L;
  for (int i = 0; i < n; ++i) {
    L z = std::cos(pi * (i + 0.75L) / (n + 0.5L));
    L dp = 1;
    for (int it = 0; it < 100; ++it) {
      L p0 = 1, p1 = z;
      for (int k = 1; k < n; ++k) {
        const L p2 = ((2 * k + 1) * z * p1 - k * p0) / (k + 1);
        p0 = p1;
        p1 = p2;
      }
      dp         = n * (z * p1 - p0) / (z * z - 1);
      const L dz = p1 / dp;
      z -= dz;
      if (std::fabs(dz) < 1e-19L) break;
    }
    {
      L p0 = 1, p1 = z;
      for (int k = 1; k < n; ++k) {
        const L p2 = ((2 * k + 1) * z * p1 - k * p0) / (k + 1);
        p0 = p1;
        p1 = p2;
      }
      dp = n * (z * p1 - p0) / (z * z - 1);
    }
    x[i] = z;
    w[i] = 2 / ((1 - z * z) * dp * dp);
  }
}

}  // namespace c20
