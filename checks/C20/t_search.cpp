// C20 / utils::binary_interval_search.
// E (short): EVERY sorted range of length 0..8 over {0,1,2,3,4} with repeats (1287 ranges) x EVERY query in
//   {-1,-0.5,...,4.5,5}, for int / double / float elements, double / float / int queries, std::span, and the
//   custom-comparator overload (element type not convertible to double -> pure bisection; and double elements).
// E (long): every length 1..64 (thorough 1..200) x stride {1,1e-9,1e9} x offset {0,1} x repeat factor {1,3}
//   x spacing {uniform, quadratic, geometric} x queries below the front, just below / at / just above every element
//   (next representable value of the query type), midway between neighbours, above the back.
// O: linear scan for the four documented cases.
#include "c20.hpp"
#include <atomic>
#include <chrono>
#include <compare>
#include <cstdlib>
#include <limits>
#include <thread>
using namespace c20;
using smooth::utils::binary_interval_search;

namespace {
struct Item  // NOT convertible to double: the interpolation step of the search is disabled (alpha = 1/2)
{
  int key;
  const char * payload;
};

/// Non-termination containment (local to this check; the explorer itself only contains crashes): a search that
/// does not return is a violation of "obeys its four documented cases". While at least one library call is in
/// flight and no call at all has completed for 30 s (a call takes well under a microsecond), abort(): the
/// explorer's parent process then reports the in-flight indices as VIOLATION (kind "crash") with replay files.
struct Watchdog
{
  std::atomic<uint64_t> done{0};
  std::atomic<int> inflight{0};
  std::atomic<bool> stop{false};
  std::thread th;
  Watchdog()
  {
    th = std::thread([this] {
      using clk     = std::chrono::steady_clock;
      uint64_t last = done.load();
      auto t_last   = clk::now();
      while (!stop.load()) {
        std::this_thread::sleep_for(std::chrono::milliseconds(100));
        const uint64_t d = done.load();
        if (d != last || inflight.load() == 0) {
          last   = d;
          t_last = clk::now();
        } else if (clk::now() - t_last > std::chrono::seconds(30)) {
          fprintf(stderr, "C20: binary_interval_search has not returned for 30 s (non-termination) -- aborting sub-check\n");
          fflush(stderr);
          std::abort();
        }
      }
    });
  }
  ~Watchdog()
  {
    stop = true;
    th.join();
  }
};
Watchdog * g_wd = nullptr;
struct Beat
{
  Beat()
  {
    if (g_wd) g_wd->inflight++;
  }
  ~Beat()
  {
    if (g_wd) {
      g_wd->done++;
      g_wd->inflight--;
    }
  }
};
struct WatchdogScope
{
  Watchdog w;
  WatchdogScope() { g_wd = &w; }
  ~WatchdogScope() { g_wd = nullptr; }
};

/// the four documented cases, by linear scan; returns the expected offset from begin (n = end)
template<typename R, typename Key>
std::ptrdiff_t spec(const R & r, L t, Key key, const char *& cls)
{
  const std::ptrdiff_t n = (std::ptrdiff_t)std::ranges::size(r);
  if (n == 0) {
    cls = "case 1: empty -> end";
    return n;
  }
  if (t < key(r[0])) {
    cls = "case 2: t < front -> end";
    return n;
  }
  if (t >= key(r[size_t(n - 1)])) {
    cls = "case 3: t >= back -> end-1";
    return n - 1;
  }
  cls = "case 4: interior";
  for (std::ptrdiff_t i = 0; i + 1 < n; ++i)
    if (key(r[size_t(i)]) <= t && t < key(r[size_t(i + 1)])) return i;
  mc::harness_error("linear-scan specification found no interval (range not sorted?)");
}

template<typename R, typename T, typename Key, typename... Wo>
void judge_search(mc::Case & c, const R & r, const T & t, Key key, Wo &... wo)
{
  const char * cls          = "";
  const std::ptrdiff_t want = spec(r, (L)t, key, cls);
  c.outcome(cls);
  std::ptrdiff_t got;
  {
    Beat beat;
    const auto it = binary_interval_search(r, t, wo...);
    got           = it - std::ranges::cbegin(r);
  }
  c.param("got", (double)got);
  c.param("want", (double)want);
  c.require("documented case (linear scan)", got == want);
}

template<typename R, typename Key>
std::string rstr(const R & r, Key key)
{
  std::string s = "r=[";
  bool first    = true;
  for (const auto & e : r) {
    s += (first ? "" : ",") + mc::fmt("%.17Lg", (L)key(e));
    first = false;
  }
  return s + "]";
}

std::vector<std::vector<int>> all_sorted_ranges(int maxlen, int nsym)
{
  std::vector<std::vector<int>> out;
  for (int len = 0; len <= maxlen; ++len) {
    std::vector<int> cur((size_t)len, 0);
    if (len == 0) {
      out.push_back(cur);
      continue;
    }
    // non-decreasing sequences in lexicographic order
    for (;;) {
      out.push_back(cur);
      int i = len - 1;
      while (i >= 0 && cur[size_t(i)] == nsym - 1) --i;
      if (i < 0) break;
      const int v = cur[size_t(i)] + 1;
      for (int j = i; j < len; ++j) cur[size_t(j)] = v;
    }
  }
  return out;
}

constexpr auto ident = [](const auto & x) { return (L)x; };

/// Elem: element type; Q: query type; AsSpan: pass a std::span instead of the vector
template<typename Elem, typename Q, bool AsSpan = false>
void run_short(const char * name, const std::vector<std::vector<int>> & RS, const std::vector<double> & qs)
{
  std::vector<std::vector<Elem>> E;
  for (auto & r : RS) {
    E.emplace_back();
    for (int v : r) E.back().push_back((Elem)v);
  }
  const uint64_t nq = qs.size();
  mc::explore(std::string("C20/search/short/") + name, RS.size() * nq, [&](mc::Case & c) {
    const auto & r = E[c.idx / nq];
    const Q t      = (Q)qs[c.idx % nq];
    c.desc = [&, t] { return rstr(r, ident) + " t=" + mc::hexf((double)t); };
    c.param("len", (double)r.size());
    c.param("t", (double)t);
    if constexpr (AsSpan) {
      const std::span<const Elem> sp(r);
      judge_search(c, sp, t, ident);
    } else {
      judge_search(c, r, t, ident);
    }
  });
}

// ------------------------------------------------------------------ long ranges
enum Shape { UNIFORM = 0, QUADRATIC = 1, GEOMETRIC = 2 };
const char * SHAPE[3] = {"uniform", "quadratic", "geometric"};
const double STRIDES[3] = {1.0, 1e-9, 1e9};

template<typename Elem>
std::vector<Elem> make_long(int len, double stride, double offset, int rep, int shape)
{
  std::vector<Elem> r;
  for (int i = 0; i < len; ++i) {
    const double k = double(i / rep);
    double v       = 0;
    switch (shape) {
    case UNIFORM: v = offset + k * stride; break;
    case QUADRATIC: v = offset + k * k * stride; break;
    default: v = offset + (std::pow(1.25, k) - 1) * stride; break;
    }
    r.push_back((Elem)v);
  }
  // conversion to Elem is monotone, so r is sorted (possibly with more repeats)
  return r;
}

/// neighbours of x in the query type (next representable value / next integer)
template<typename Q>
Q just_below(Q x)
{
  if constexpr (std::is_floating_point_v<Q>) return std::nextafter(x, -std::numeric_limits<Q>::infinity());
  else return x - 1;
}
template<typename Q>
Q just_above(Q x)
{
  if constexpr (std::is_floating_point_v<Q>) return std::nextafter(x, std::numeric_limits<Q>::infinity());
  else return x + 1;
}

template<typename Elem, typename Q>
void run_long(const char * name, const std::vector<int> & strides, const std::vector<int> & shapes)
{
  const int LMAX    = mc::thorough() ? 200 : 64;
  // query slots: 0 = below the front; for element i: 4i+1 just below it, 4i+2 at it, 4i+3 just above it,
  // 4i+4 midway to the next element (or above the back for the last one)
  const uint64_t nQ = 4 * (uint64_t)LMAX + 1, nS = strides.size(), nH = shapes.size();
  static const char * QK[5] = {"query: below front", "query: just below an element", "query: at an element", "query: just above an element",
    "query: between neighbours / above back"};
  mc::explore(std::string("C20/search/long/") + name, (uint64_t)LMAX * nS * 2 * 2 * nH * nQ, [&](mc::Case & c) {
    mc::Radix rx(c.idx);
    const int q = (int)rx.next(nQ), shape = shapes[rx.next(nH)], rep = rx.next(2) ? 3 : 1;
    const double offset = rx.next(2) ? 1.0 : 0.0, stride = STRIDES[strides[rx.next(nS)]];
    const int len = (int)rx.next((uint64_t)LMAX) + 1;
    if (q > 4 * len) {  // query slots beyond this length
      c.trivial();
      c.outcome("unused query slot");
      return;
    }
    const auto r = make_long<Elem>(len, stride, offset, rep, shape);
    Q t;
    int kind;
    if (q == 0) {
      t = (Q)((double)r[0] - stride), kind = 0;
    } else {
      const int i = (q - 1) / 4, k = (q - 1) % 4;
      kind        = k + 1;
      switch (k) {
      case 0: t = just_below<Q>((Q)r[size_t(i)]); break;
      case 1: t = (Q)r[size_t(i)]; break;
      case 2: t = just_above<Q>((Q)r[size_t(i)]); break;
      default:
        t = i + 1 < len ? (Q)(0.5 * ((double)r[size_t(i)] + (double)r[size_t(i + 1)])) : (Q)((double)r[size_t(len - 1)] + stride);
      }
    }
    c.desc = [&, t, shape, stride, offset, rep] {
      return mc::fmt("len=%zu %s stride=%g offset=%g rep=%d ", r.size(), SHAPE[shape], stride, offset, rep) + rstr(r, ident) + " t=" + mc::hexf((double)t) +
             mc::fmt(" (%.20Lg)", (L)t);
    };
    c.param("len", len);
    c.param("stride", stride);
    c.param("t", (double)t);
    c.outcome(SHAPE[shape]);
    c.outcome(QK[kind]);
    judge_search(c, r, t, ident);
  });
}
}  // namespace

MC_SUBCHECK(search_short)
{
  WatchdogScope wd;
  const auto RS = all_sorted_ranges(8, 5);
  mc::selfcheck("enumeration: 1287 sorted ranges of length 0..8 over 5 symbols", RS.size() == 1287);
  {
    bool ok = true;
    for (auto & r : RS) ok = ok && std::is_sorted(r.begin(), r.end());
    auto cp = RS;
    std::sort(cp.begin(), cp.end());
    ok = ok && std::adjacent_find(cp.begin(), cp.end()) == cp.end();
    mc::selfcheck("enumeration: ranges sorted and pairwise distinct", ok);
  }
  std::vector<double> qs, qi;
  for (int i = -2; i <= 10; ++i) qs.push_back(0.5 * i);  // -1, -0.5, ..., 5
  for (int i = -1; i <= 5; ++i) qi.push_back(i);
  mc::selfcheck("13 queries", qs.size() == 13 && qs.front() == -1 && qs.back() == 5);

  run_short<int, double>("int,double-query", RS, qs);
  run_short<int, int>("int,int-query", RS, qi);
  run_short<double, double>("double", RS, qs);
  run_short<double, int>("double,int-query", RS, qi);
  run_short<float, float>("float", RS, qs);
  run_short<float, double>("float,double-query", RS, qs);
  run_short<double, double, true>("double,span", RS, qs);
  run_short<int, double, true>("int,span", RS, qs);

  // ---- custom comparator overload
  const uint64_t nq = qs.size();
  {  // records that are not convertible to double: comparator projects the key; std::weak_ordering as documented
    std::vector<std::vector<Item>> E;
    for (auto & r : RS) {
      E.emplace_back();
      for (int v : r) E.back().push_back(Item{v, "payload"});
    }
    auto wo = [](const Item & a, const double & t) -> std::weak_ordering {
      return a.key < t ? std::weak_ordering::less : (a.key > t ? std::weak_ordering::greater : std::weak_ordering::equivalent);
    };
    auto key = [](const Item & a) { return (L)a.key; };
    mc::explore("C20/search/short/custom-comparator,record", RS.size() * nq, [&](mc::Case & c) {
      const auto & r = E[c.idx / nq];
      const double t = qs[c.idx % nq];
      c.desc = [&, t] { return rstr(r, key) + " t=" + mc::hexf(t); };
      c.param("len", (double)r.size());
      c.param("t", t);
      judge_search(c, r, t, key, wo);
    });
  }
  {  // double elements with an explicit comparator (interpolation path + user comparator)
    std::vector<std::vector<double>> E;
    for (auto & r : RS) E.emplace_back(r.begin(), r.end());
    auto wo = [](const double & a, const double & t) -> std::weak_ordering {
      return a < t ? std::weak_ordering::less : (a > t ? std::weak_ordering::greater : std::weak_ordering::equivalent);
    };
    mc::explore("C20/search/short/custom-comparator,double", RS.size() * nq, [&](mc::Case & c) {
      const auto & r = E[c.idx / nq];
      const double t = qs[c.idx % nq];
      c.desc = [&, t] { return rstr(r, ident) + " t=" + mc::hexf(t); };
      c.param("len", (double)r.size());
      c.param("t", t);
      judge_search(c, r, t, ident, wo);
    });
  }
  {  // comparator on a coarser key than equality (records ordered by key/2): equivalence classes of several
     // distinct elements; record type not convertible to double, so no numeric interpolation is involved
    std::vector<std::vector<Item>> E;
    for (auto & r : RS) {
      E.emplace_back();
      for (int v : r) E.back().push_back(Item{v, "payload"});
    }
    auto wo  = [](const Item & a, const int & t) -> std::weak_ordering { return (a.key / 2) <=> (t / 2); };
    auto key = [](const Item & a) { return (L)(a.key / 2); };
    auto raw = [](const Item & a) { return (L)a.key; };
    mc::explore("C20/search/short/custom-comparator,coarse-key", RS.size() * 6, [&](mc::Case & c) {
      const auto & r = E[c.idx / 6];
      const int t    = int(c.idx % 6);  // 0..5, all non-negative so that t/2 is floor
      c.desc = [&, t] { return rstr(r, raw) + " (records ordered by key/2) t=" + std::to_string(t); };
      c.param("len", (double)r.size());
      c.param("t", t);
      // specification in terms of the comparator's key
      const char * cls          = "";
      const std::ptrdiff_t want = spec(r, (L)(t / 2), key, cls);
      c.outcome(cls);
      std::ptrdiff_t got;
      {
        Beat beat;
        got = binary_interval_search(r, t, wo) - std::ranges::cbegin(r);
      }
      c.require("documented case (linear scan)", got == want);
    });
  }
}

MC_SUBCHECK(search_long)
{
  WatchdogScope wd;
  run_long<double, double>("double", {0, 1, 2}, {UNIFORM, QUADRATIC, GEOMETRIC});
  run_long<float, float>("float", {0, 1, 2}, {UNIFORM, QUADRATIC, GEOMETRIC});
  run_long<float, double>("float,double-query", {0, 1, 2}, {UNIFORM, QUADRATIC, GEOMETRIC});
  run_long<long long, double>("int64,double-query", {0, 2}, {UNIFORM, QUADRATIC});
  run_long<long long, long long>("int64,int64-query", {0, 2}, {UNIFORM, QUADRATIC});
  run_long<int, double>("int32,double-query", {0}, {UNIFORM, QUADRATIC});
}
