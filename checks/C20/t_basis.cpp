// C20 / polynomial bases: polynomial_basis<B,K>, polynomial_cumulative_basis<B,K> (K = 0..10, all eight bases),
// lagrange_basis<K> (K = 0..10, four node sets, two range types).
// E: (K, grid point) per basis; every basis function of the degree is judged in each case.
// O: definitions evaluated in long double (Bernstein closed form, Cox-de Boor recursion on integer knots,
//    three-term recurrences, Lagrange product formula), each cross-checked against a second closed form.
#include "c20.hpp"
using namespace c20;
using PB = smooth::PolynomialBasis;

namespace {
constexpr int KMAX = 10;

struct Info
{
  PB b;
  const char * name;
  double lo, hi;  // evaluation interval ("natural" interval; a finite window for the unbounded ones)
  bool pou;       // non-negative partition of unity on [0,1]
};
const Info INFO[8] = {
  {PB::Monomial, "Monomial", -2, 2, false},
  {PB::Bernstein, "Bernstein", 0, 1, true},
  {PB::Bspline, "Bspline", 0, 1, true},
  {PB::Legendre, "Legendre", -1, 1, false},
  {PB::Chebyshev1st, "Chebyshev1st", -1, 1, false},
  {PB::Chebyshev2nd, "Chebyshev2nd", -1, 1, false},
  {PB::Hermite, "Hermite", -3, 3, false},
  {PB::Laguerre, "Laguerre", 0, 6, false},
};

// ------------------------------------------------------------------ oracle
/// cardinal B-spline N_{i,d} on the integer knot vector, Cox-de Boor recursion from indicator functions
L coxdeboor(int i, int d, L x)
{
  if (d == 0) return (i <= x && x < i + 1) ? 1 : 0;
  return (x - i) / d * coxdeboor(i, d - 1, x) + (i + d + 1 - x) / d * coxdeboor(i + 1, d - 1, x);
}
/// same function from the truncated-power closed form (self-check only)
L cardinal_tp(int K, L x)
{
  L s = 0;
  for (int j = 0; j <= K + 1; ++j) {
    const L y = x - j;
    if (y > 0) s += ((j & 1) ? -1 : 1) * binom(K + 1, j) * ipow(y, K);
  }
  return s / fact(K);
}

/// values b_{0,K}(x) ... b_{K,K}(x) of the mathematically defined basis
void basis_ref(PB b, int K, L x, L * out)
{
  switch (b) {
  case PB::Monomial:
    for (int k = 0; k <= K; ++k) out[k] = ipow(x, k);
    return;
  case PB::Bernstein:
    for (int v = 0; v <= K; ++v) out[v] = binom(K, v) * ipow(x, v) * ipow(1 - x, K - v);
    return;
  case PB::Bspline:
    // the K+1 cardinal B-splines of degree K that are non-zero on the knot span [0,1], left to right;
    // at x = 1 the half-open indicator convention is harmless for K >= 1 (continuity), K = 0 is the constant 1
    for (int v = 0; v <= K; ++v) out[v] = K == 0 ? 1 : coxdeboor(v - K, K, x);
    return;
  case PB::Legendre:
    for (int k = 0; k <= K; ++k) out[k] = k == 0 ? 1 : k == 1 ? x : ((2 * k - 1) * x * out[k - 1] - (k - 1) * out[k - 2]) / k;
    return;
  case PB::Chebyshev1st:
    for (int k = 0; k <= K; ++k) out[k] = k == 0 ? 1 : k == 1 ? x : 2 * x * out[k - 1] - out[k - 2];
    return;
  case PB::Chebyshev2nd:
    for (int k = 0; k <= K; ++k) out[k] = k == 0 ? 1 : k == 1 ? 2 * x : 2 * x * out[k - 1] - out[k - 2];
    return;
  case PB::Hermite:  // physicists' (the documented weight exp(-x^2))
    for (int k = 0; k <= K; ++k) out[k] = k == 0 ? 1 : k == 1 ? 2 * x : 2 * x * out[k - 1] - 2 * (k - 1) * out[k - 2];
    return;
  case PB::Laguerre:
    for (int k = 0; k <= K; ++k) out[k] = k == 0 ? 1 : k == 1 ? 1 - x : ((2 * k - 1 - x) * out[k - 1] - (k - 1) * out[k - 2]) / k;
    return;
  }
}

/// second, closed-form definition (self-check of the oracle)
L basis_closed(PB b, int K, int v, L x)
{
  const L pi = 3.141592653589793238462643383279502884L;
  (void)pi;
  switch (b) {
  case PB::Monomial: return std::pow(x, (L)v);
  case PB::Bernstein: {  // expanded monomial form
    L s = 0;
    for (int k = v; k <= K; ++k) s += binom(K, k) * binom(k, v) * (((k - v) & 1) ? -1 : 1) * ipow(x, k);
    return s;
  }
  case PB::Bspline: return cardinal_tp(K, x + K - v);
  case PB::Legendre: {
    L s = 0;
    for (int j = 0; j <= v; ++j) s += binom(v, j) * binom(v, j) * ipow(x - 1, v - j) * ipow(x + 1, j);
    return s / ipow(2, v);
  }
  case PB::Chebyshev1st: return std::cos(v * std::acos(x));
  case PB::Chebyshev2nd: {
    const L th = std::acos(x);
    return std::fabs(std::sin(th)) < 1e-6L ? (x > 0 ? (L)(v + 1) : ((v & 1) ? -(L)(v + 1) : (L)(v + 1))) : std::sin((v + 1) * th) / std::sin(th);
  }
  case PB::Hermite: {
    L s = 0;
    for (int m = 0; 2 * m <= v; ++m) s += ((m & 1) ? -1 : 1) / (fact(m) * fact(v - 2 * m)) * ipow(2 * x, v - 2 * m);
    return s * fact(v);
  }
  case PB::Laguerre: {
    L s = 0;
    for (int j = 0; j <= v; ++j) s += binom(v, j) * ((j & 1) ? -1 : 1) / fact(j) * ipow(x, j);
    return s;
  }
  }
  return 0;
}

// ------------------------------------------------------------------ library tables
struct Entry
{
  int K = 0;
  std::vector<double> ct, rt;      // polynomial_basis: constant-evaluated / run-time evaluated, row-major (K+1)^2
  std::vector<double> cct, crt;    // polynomial_cumulative_basis
  void (*eval)(double, double *)  = nullptr;  // the library's own evaluation path U(x) * B, all in double
  void (*ceval)(double, double *) = nullptr;  // same for the cumulative matrix
};

template<PB B>
std::vector<Entry> make_table()
{
  std::vector<Entry> t(KMAX + 1);
  for_idx<KMAX + 1>([&](auto kk) {
    constexpr std::size_t K = decltype(kk)::value;
    Entry & e               = t[K];
    e.K                     = (int)K;
    static constexpr auto Mc  = smooth::polynomial_basis<B, K>();
    static constexpr auto Cc  = smooth::polynomial_cumulative_basis<B, K>();
    const auto Mr             = smooth::polynomial_basis<B, K>();
    const auto Cr             = smooth::polynomial_cumulative_basis<B, K>();
    for (std::size_t i = 0; i <= K; ++i)
      for (std::size_t j = 0; j <= K; ++j) {
        e.ct.push_back(Mc[i][j]);
        e.rt.push_back(Mr[i][j]);
        e.cct.push_back(Cc[i][j]);
        e.crt.push_back(Cr[i][j]);
      }
    e.eval = +[](double x, double * out) {
      const auto r = smooth::monomial_derivative<K>(x, 0) * smooth::polynomial_basis<B, K>();
      for (std::size_t i = 0; i <= K; ++i) out[i] = r[0][i];
    };
    e.ceval = +[](double x, double * out) {
      const auto r = smooth::monomial_derivative<K>(x, 0) * smooth::polynomial_cumulative_basis<B, K>();
      for (std::size_t i = 0; i <= K; ++i) out[i] = r[0][i];
    };
  });
  return t;
}

/// [1 x ... x^K] * M in long double from the stored double coefficients; fwd = sum_k |M_kv| |x|^k
void eval_ld(const std::vector<double> & M, int K, L x, L * val, L * fwd)
{
  for (int v = 0; v <= K; ++v) {
    L s = 0, f = 0, p = 1;
    for (int k = 0; k <= K; ++k) {
      s += p * (L)M[size_t(k * (K + 1) + v)];
      f += std::fabs(p * (L)M[size_t(k * (K + 1) + v)]);
      p *= x;
    }
    val[v] = s;
    if (fwd) fwd[v] = f;
  }
}

std::vector<Entry> table_for(PB b)
{
  switch (b) {
  case PB::Monomial: return make_table<PB::Monomial>();
  case PB::Bernstein: return make_table<PB::Bernstein>();
  case PB::Bspline: return make_table<PB::Bspline>();
  case PB::Legendre: return make_table<PB::Legendre>();
  case PB::Chebyshev1st: return make_table<PB::Chebyshev1st>();
  case PB::Chebyshev2nd: return make_table<PB::Chebyshev2nd>();
  case PB::Hermite: return make_table<PB::Hermite>();
  case PB::Laguerre: return make_table<PB::Laguerre>();
  }
  return {};
}

std::vector<double> grid(const Info & in)
{
  // dyadic points, end points included: 33 (quick) / 257 (thorough)
  const int N = mc::thorough() ? 256 : 32;
  std::vector<double> g;
  for (int i = 0; i <= N; ++i) g.push_back(in.lo + (in.hi - in.lo) * i / N);
  return g;
}

/// residual of the defining three-term recurrence on the values v_0..v_K obtained from the library matrix
L recurrence_residual(PB b, int K, L x, const L * v)
{
  L worst = 0;
  for (int k = 1; k < K; ++k) {
    L a = 0, bb = 0, c = 0;  // a*v_{k+1} + bb*v_k + c*v_{k-1} = 0
    switch (b) {
    case PB::Legendre: a = k + 1, bb = -(2 * k + 1) * x, c = k; break;
    case PB::Chebyshev1st:
    case PB::Chebyshev2nd: a = 1, bb = -2 * x, c = 1; break;
    case PB::Hermite: a = 1, bb = -2 * x, c = 2 * k; break;
    case PB::Laguerre: a = k + 1, bb = -(2 * k + 1 - x), c = k; break;
    default: return 0;
    }
    const L r  = a * v[k + 1] + bb * v[k] + c * v[k - 1];
    const L sc = std::max<L>(1, std::fabs(a * v[k + 1]) + std::fabs(bb * v[k]) + std::fabs(c * v[k - 1]));
    worst      = std::max(worst, std::fabs(r) / sc);
  }
  return worst;
}

void oracle_selfchecks()
{
  // two independent definitions of every basis agree on a 17-point grid for all K
  for (const Info & in : INFO) {
    L worst = 0;
    for (int K = 0; K <= KMAX; ++K)
      for (int i = 0; i <= 16; ++i) {
        const L x = in.lo + (L)(in.hi - in.lo) * i / 16;
        L r[KMAX + 1];
        basis_ref(in.b, K, x, r);
        for (int v = 0; v <= K; ++v) {
          if (in.b == PB::Bspline && K == 0) continue;
          L cf = basis_closed(in.b, K, v, x);
          if (in.b == PB::Bspline && x == 1 && K == 0) cf = 1;
          worst = std::max(worst, rel(cf, r[v]));
        }
      }
    mc::selfcheck("basis oracle: recurrence/recursion agrees with closed form", worst < 1e-13L);
  }
  // Bernstein and B-spline oracles are partitions of unity
  for (int K = 0; K <= KMAX; ++K)
    for (int i = 0; i <= 16; ++i) {
      L r[KMAX + 1], s1 = 0, s2 = 0;
      basis_ref(PB::Bernstein, K, (L)i / 16, r);
      for (int v = 0; v <= K; ++v) s1 += r[v];
      basis_ref(PB::Bspline, K, (L)i / 16, r);
      for (int v = 0; v <= K; ++v) s2 += r[v];
      mc::selfcheck("basis oracle: partition of unity", std::fabs(s1 - 1) < 1e-17L && std::fabs(s2 - 1) < 1e-16L);
    }
}

void run_basis(const Info & in)
{
  const auto T        = table_for(in.b);
  const auto G        = grid(in);
  const uint64_t np   = G.size();
  const std::string n = in.name;

  // ---- polynomial_basis
  mc::explore("C20/basis/" + n, (KMAX + 1) * np, [&](mc::Case & c) {
    const int K    = int(c.idx / np);
    const double x = G[c.idx % np];
    const Entry & e = T[size_t(K)];
    c.desc = [&, K, x] { return std::string(in.name) + " K=" + std::to_string(K) + " x=" + mc::hexf(x); };
    c.param("K", K);
    c.param("x", x);
    c.outcome(Kname(K));
    L ref[KMAX + 1], vc[KMAX + 1], vr[KMAX + 1], fwd[KMAX + 1];
    double lib[KMAX + 1];
    basis_ref(in.b, K, x, ref);
    eval_ld(e.ct, K, x, vc, fwd);
    eval_ld(e.rt, K, x, vr, nullptr);
    e.eval(x, lib);
    L ec = 0, er = 0, el = 0, mn = 0, sum = 0;
    for (int v = 0; v <= K; ++v) {
      ec  = std::max(ec, rel(vc[v], ref[v]));
      er  = std::max(er, rel(vr[v], ref[v]));
      el  = std::max(el, std::fabs((L)lib[v] - ref[v]) / std::max<L>({1, std::fabs(ref[v]), fwd[v]}));
      mn  = std::min(mn, vc[v]);
      sum += vc[v];
    }
    c.judge("basis value (constexpr matrix)", (double)ec, TOL);
    c.judge("basis value (run-time matrix)", (double)er, TOL);
    // the library's own double evaluation U(x)*B may cancel: relative to the forward-error scale sum|B_kv||x|^k
    c.judge("monomial_derivative(x,0)*B", (double)el, TOL);
    if (in.pou) {
      c.judge("non-negative on [0,1]", (double)-mn, TOL);
      c.judge("sums to one", (double)std::fabs(sum - 1), TOL);
    }
    if (in.b == PB::Legendre || in.b == PB::Chebyshev1st || in.b == PB::Chebyshev2nd || in.b == PB::Hermite || in.b == PB::Laguerre) {
      if (K < 2) c.outcome("recurrence vacuous (K<2)");
      c.judge("three-term recurrence", (double)recurrence_residual(in.b, K, x, vc), TOL);
    }
  });

  // ---- polynomial_cumulative_basis: b~_v = sum_{j >= v} b_j
  mc::explore("C20/cumulative/" + n, (KMAX + 1) * np, [&](mc::Case & c) {
    const int K    = int(c.idx / np);
    const double x = G[c.idx % np];
    const Entry & e = T[size_t(K)];
    c.desc = [&, K, x] { return std::string(in.name) + " cumulative K=" + std::to_string(K) + " x=" + mc::hexf(x); };
    c.param("K", K);
    c.param("x", x);
    c.outcome(Kname(K));
    L ref[KMAX + 2], vc[KMAX + 1], vr[KMAX + 1], fwd[KMAX + 1];
    double lib[KMAX + 1];
    basis_ref(in.b, K, x, ref);
    for (int v = K - 1; v >= 0; --v) ref[v] += ref[v + 1];
    eval_ld(e.cct, K, x, vc, fwd);
    eval_ld(e.crt, K, x, vr, nullptr);
    e.ceval(x, lib);
    L ec = 0, er = 0, el = 0;
    for (int v = 0; v <= K; ++v) {
      ec = std::max(ec, rel(vc[v], ref[v]));
      er = std::max(er, rel(vr[v], ref[v]));
      el = std::max(el, std::fabs((L)lib[v] - ref[v]) / std::max<L>({1, std::fabs(ref[v]), fwd[v]}));
    }
    c.judge("cumulative value (constexpr matrix)", (double)ec, TOL);
    c.judge("cumulative value (run-time matrix)", (double)er, TOL);
    c.judge("monomial_derivative(x,0)*Bcum", (double)el, TOL);
    if (in.pou) {
      c.judge("first cumulative function is the constant 1", (double)std::fabs(vc[0] - 1), TOL);
      // the coefficient column itself is (1,0,...,0)
      L ecol = std::fabs((L)e.cct[0] - 1);
      for (int k = 1; k <= K; ++k) ecol = std::max(ecol, std::fabs((L)e.cct[size_t(k * (K + 1))]));
      c.judge("first cumulative column is (1,0,..,0)", (double)ecol, TOL);
      // cumulative functions of a non-negative partition of unity stay in [0,1]
      L out = 0;
      for (int v = 0; v <= K; ++v) out = std::max({out, -vc[v], vc[v] - 1});
      c.judge("cumulative functions within [0,1]", (double)out, TOL);
    }
    if (in.b == PB::Bernstein && (x == 0 || x == 1)) {
      c.outcome(x == 0 ? "Bernstein end u=0" : "Bernstein end u=1");
      L ee = 0;
      for (int v = 1; v <= K; ++v) ee = std::max(ee, std::fabs(vc[v] - (x == 0 ? 0 : 1)));
      c.judge("Bernstein cumulative runs from 0 at u=0 to 1 at u=1", (double)ee, TOL);
    }
  });
}

// ------------------------------------------------------------------ normalisations
void run_normalisations()
{
  std::vector<std::vector<Entry>> T;
  for (const Info & in : INFO) T.push_back(table_for(in.b));
  mc::explore("C20/normalisation", 8 * (KMAX + 1), [&](mc::Case & c) {
    const int bi = int(c.idx / (KMAX + 1)), K = int(c.idx % (KMAX + 1));
    const Info & in = INFO[bi];
    const Entry & e = T[size_t(bi)][size_t(K)];
    c.desc = [&, K] { return std::string(in.name) + " K=" + std::to_string(K); };
    c.param("K", K);
    auto M = [&](int k, int v) { return (L)e.ct[size_t(k * (K + 1) + v)]; };
    L at1[KMAX + 1], at0[KMAX + 1], atm1[KMAX + 1];
    eval_ld(e.ct, K, 1, at1, nullptr);
    eval_ld(e.ct, K, 0, at0, nullptr);
    eval_ld(e.ct, K, -1, atm1, nullptr);
    L err = 0, tri = 0;
    // every basis function v has degree <= v except Bernstein/B-spline (degree exactly K): matrix shape
    for (int v = 0; v <= K; ++v)
      for (int k = v + 1; k <= K; ++k)
        if (!in.pou) tri = std::max(tri, std::fabs(M(k, v)));
    for (int v = 0; v <= K; ++v) {
      switch (in.b) {
      case PB::Monomial: err = std::max(err, rel(M(v, v), 1)); break;
      case PB::Legendre: err = std::max({err, rel(at1[v], 1), rel(atm1[v], (v & 1) ? -1 : 1)}); break;           // P_v(+-1) = (+-1)^v
      case PB::Chebyshev1st: err = std::max({err, rel(at1[v], 1), rel(atm1[v], (v & 1) ? -1 : 1)}); break;       // T_v(+-1) = (+-1)^v
      case PB::Chebyshev2nd: err = std::max({err, rel(at1[v], v + 1), rel(atm1[v], (v & 1) ? -(v + 1) : (v + 1))}); break;  // U_v(1) = v+1
      case PB::Hermite: err = std::max(err, rel(M(v, v), ipow(2, v))); break;                                    // leading coefficient 2^v
      case PB::Laguerre: err = std::max({err, rel(at0[v], 1), rel(M(v, v) * fact(v), (v & 1) ? -1 : 1)}); break; // L_v(0)=1, leading (-1)^v/v!
      case PB::Bernstein: err = std::max({err, rel(at0[v], v == 0 ? 1 : 0), rel(at1[v], v == K ? 1 : 0)}); break;
      case PB::Bspline:  // end values of the uniform B-spline segment: b_v(1) = b_{v-1}(0) (C^{K-1} shift), b_0(1) = b_K(0) = 0 for K>=1
        if (K >= 1) err = std::max({err, v >= 1 ? rel(at1[v], at0[v - 1]) : rel(at1[0], 0), v == K ? rel(at0[K], 0) : (L)0});
        break;
      }
    }
    c.judge("normalisation", (double)err, TOL);
    if (!in.pou) c.judge("function v has degree <= v", (double)tri, TOL);
  });
}

// ------------------------------------------------------------------ lagrange_basis
using LagFn = void (*)(const std::vector<double> &, double *);
struct LagTab
{
  LagFn vec[KMAX + 1];  // std::vector<double> nodes
  LagFn arr[KMAX + 1];  // std::array<double, K+1> nodes
};
LagTab make_lag()
{
  LagTab t{};
  for_idx<KMAX + 1>([&](auto kk) {
    constexpr std::size_t K = decltype(kk)::value;
    t.vec[K] = +[](const std::vector<double> & ts, double * out) {
      const auto M = smooth::lagrange_basis<K>(ts);
      for (std::size_t i = 0; i <= K; ++i)
        for (std::size_t j = 0; j <= K; ++j) out[i * (K + 1) + j] = M[i][j];
    };
    t.arr[K] = +[](const std::vector<double> & ts, double * out) {
      std::array<double, K + 1> a;
      for (std::size_t i = 0; i <= K; ++i) a[i] = ts[i];
      const auto M = smooth::lagrange_basis<K>(a);
      for (std::size_t i = 0; i <= K; ++i)
        for (std::size_t j = 0; j <= K; ++j) out[i * (K + 1) + j] = M[i][j];
    };
  });
  return t;
}

const char * NODESET[4] = {"equispaced [0,1]", "Chebyshev-Lobatto [-1,1]", "irregular [-1.3,2.5]", "equispaced [-2,3] reversed"};
std::vector<double> nodes(int set, int K)
{
  const L pi = 3.141592653589793238462643383279502884L;
  static const double irr[KMAX + 1] = {-1.3, -0.9, -0.85, -0.2, 0.0, 0.1, 0.45, 1.0, 1.7, 1.75, 2.5};
  std::vector<double> t;
  for (int i = 0; i <= K; ++i) {
    switch (set) {
    case 0: t.push_back(K == 0 ? 0.0 : (double)i / K); break;
    case 1: t.push_back(K == 0 ? 0.0 : (double)(-std::cos(pi * i / K))); break;
    case 2: t.push_back(irr[i]); break;
    default: t.push_back(K == 0 ? 3.0 : 3.0 - 5.0 * i / K); break;
    }
  }
  return t;
}

// Calibrated tolerance for lagrange_basis (the statement gives none): errors are measured relative to the
// forward-error scale max(1, sum_k |B_ki| |t|^k) of evaluating the returned monomial coefficients.
// observed worst (pinned tree, both tiers: the lagrange space has no tier-dependent alphabet):
//   1.72e-15 (Kronecker), 1.77e-15 (product formula)  ->  max(100 x 1.77e-15, 64 eps) = 1.8e-13, rounded to 2e-13.
// (Unscaled, the worst Kronecker defect is printed as evidence note "lagrange_worst_unscaled_kronecker".)
constexpr double LAG_TOL = 2e-13;

void run_lagrange()
{
  const LagTab tab = make_lag();
  mc::explore("C20/lagrange", (KMAX + 1) * 4 * 2, [&](mc::Case & c) {
    mc::Radix r(c.idx);
    const int kind = (int)r.next(2), set = (int)r.next(4), K = (int)r.next(KMAX + 1);
    const auto ts = nodes(set, K);
    c.desc = [&, K, set, kind] { return std::string("K=") + std::to_string(K) + " nodes(" + NODESET[set] + ")=" + vhex(ts) + (kind ? " std::array" : " std::vector"); };
    c.param("K", K);
    c.param("set", set);
    c.outcome(Kname(K));
    c.outcome(NODESET[set]);
    std::vector<double> M(size_t((K + 1) * (K + 1)));
    (kind ? tab.arr[K] : tab.vec[K])(ts, M.data());
    L val[KMAX + 1], fwd[KMAX + 1];
    // Kronecker property at the nodes
    L ek = 0, ek_abs = 0;
    for (int j = 0; j <= K; ++j) {
      eval_ld(M, K, ts[size_t(j)], val, fwd);
      for (int i = 0; i <= K; ++i) {
        const L d = std::fabs(val[i] - (i == j ? 1 : 0));
        ek        = std::max(ek, d / std::max<L>(1, fwd[i]));
        ek_abs    = std::max(ek_abs, d);
      }
    }
    c.judge("Kronecker p_i(t_j)=delta_ij", (double)ek, LAG_TOL);
    (void)ek_abs;
    // documented product formula at points between (and just outside) the nodes
    auto sorted = ts;
    std::sort(sorted.begin(), sorted.end());
    std::vector<double> pts = {sorted.front() - 0.25, sorted.back() + 0.25};
    for (int i = 0; i < K; ++i) pts.push_back(0.5 * (sorted[size_t(i)] + sorted[size_t(i + 1)]));
    L ep = 0;
    for (double t : pts) {
      eval_ld(M, K, t, val, fwd);
      for (int i = 0; i <= K; ++i) {
        L p = 1;
        for (int j = 0; j <= K; ++j)
          if (j != i) p *= ((L)t - (L)ts[size_t(j)]) / ((L)ts[size_t(i)] - (L)ts[size_t(j)]);
        ep = std::max(ep, std::fabs(val[i] - p) / std::max<L>({1, std::fabs(p), fwd[i]}));
      }
    }
    c.judge("product formula between nodes", (double)ep, LAG_TOL);
  });
}
}  // namespace

MC_SUBCHECK(basis)
{
  oracle_selfchecks();
  for (const Info & in : INFO) run_basis(in);
  run_normalisations();
}

MC_SUBCHECK(lagrange)
{
  run_lagrange();
  if (!mc::replaying()) {  // evidence only: unscaled Kronecker defect (cancellation in the monomial form), not judged
    const LagTab tab = make_lag();
    L worst = 0;
    int wK = 0, wset = 0;
    for (int K = 0; K <= KMAX; ++K)
      for (int set = 0; set < 4; ++set) {
        const auto ts = nodes(set, K);
        std::vector<double> M(size_t((K + 1) * (K + 1)));
        tab.vec[K](ts, M.data());
        L val[KMAX + 1];
        for (int j = 0; j <= K; ++j) {
          eval_ld(M, K, ts[size_t(j)], val, nullptr);
          for (int i = 0; i <= K; ++i) {
            const L d = std::fabs(val[i] - (i == j ? 1 : 0));
            if (d > worst) worst = d, wK = K, wset = set;
          }
        }
      }
    mc::note("lagrange_worst_unscaled_kronecker", mc::fmt("{\"err\":%.3Lg,\"K\":%d,\"nodes\":\"%s\"}", worst, wK, NODESET[wset]));
  }
}
