#include "c05.hpp"
using namespace smooth;
MC_SUBCHECK(so)
{
  c05::run<SO2d>("SO2d");
  c05::run<SO3d>("SO3d");
  c05::run<C1d>("C1d");
}
