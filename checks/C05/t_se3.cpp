#include "c05.hpp"
using namespace smooth;
MC_SUBCHECK(se3)
{
  c05::run<SE3d>("SE3d");
}
