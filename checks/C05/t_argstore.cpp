#include "valsem.hpp"
MC_SUBCHECK(argument_storage) { mcb::argument_storage_all<16>("C05"); }
