// compile probe: d2_fog with dynamic-size arguments and a sparse outer Jacobian
#include "bind.hpp"
#include <smooth/derivatives.hpp>
Eigen::MatrixXd probe(const Eigen::SparseMatrix<double> & Jf, const Eigen::MatrixXd & Hf, const Eigen::MatrixXd & Jg, const Eigen::MatrixXd & Hg)
{
  return smooth::d2_fog(Jf, Hf, Jg, Hg);
}
