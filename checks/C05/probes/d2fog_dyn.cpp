// compile probe: d2_fog with dynamic-size dense arguments (the statement names d2_fog without size restriction)
#include "bind.hpp"
#include <smooth/derivatives.hpp>
Eigen::MatrixXd probe(const Eigen::MatrixXd & Jf, const Eigen::MatrixXd & Hf, const Eigen::MatrixXd & Jg, const Eigen::MatrixXd & Hg)
{
  return smooth::d2_fog(Jf, Hf, Jg, Hg);
}
