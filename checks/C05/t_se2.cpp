#include "c05.hpp"
using namespace smooth;
MC_SUBCHECK(se2)
{
  c05::run<SE2d>("SE2d");
}
