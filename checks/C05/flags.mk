# C05: compile probes (DESIGN 3.6b). A configuration the property names but that does not compile is reported as a
# violation by the harness (with the compiler log as artefact) instead of breaking the build.
FLAGS_C05 := -I$(B)/C05
C05_PROBES := $(wildcard $(ROOT)/checks/C05/probes/*.cpp)
$(B)/C05/probes.hpp: $(C05_PROBES) $(REPO)/include/smooth/derivatives.hpp $(REPO)/include/smooth/detail/derivatives_impl.hpp $(B)/gen/smooth/version.hpp
	@mkdir -p $(B)/C05
	@rm -f $@.tmp; for p in $(C05_PROBES); do n=$$(basename $$p .cpp); \
	  if $(CXX) $(BASE) -MF /dev/null -fsyntax-only $$p > $(B)/C05/probe_$$n.log 2>&1; then echo "#define PROBE_$$n 1" >> $@.tmp; else echo "#define PROBE_$$n 0" >> $@.tmp; fi; done; mv $@.tmp $@
$(B)/C05/t_helpers.o: $(B)/C05/probes.hpp
