// C05 — second-order derivative formulas are the true Hessians (double precision only: the statement gives a
// bound "in double precision" and none for float).
// E: every alphabet tangent with rotation norm <= pi-1e-3.  O: complex-step derivative of phi1(-/+ad_ref a) per
// coordinate, in the documented layout H(j, Dof*i + k) = d J(i,j) / d a_k; chain rule on reference factors for rminus.
#pragma once
#include "bind.hpp"

#include <smooth/derivatives.hpp>

namespace c05 {
using namespace mcb;

template<typename G>
void run(const std::string & tn)
{
  using R = Ref<G>;
  constexpr int D = R::Dof;
  const double T  = 1e-5;  // stated, relative to the largest entry of the exact Hessian
  auto Ts = tangents<R, double>(AlphaOpts::dense().upto(PI - 1e-3));
  mc::explore("C05/exp-hess/" + tn, Ts.size(), [&](mc::Case & c) {
    const auto & t = Ts[c.idx];
    const auto a   = make<G>(t);
    c.desc         = [&] { return "a=" + vstr(a); };
    c.param("rot", t.rot);
    c.param("tm", t.tm);
    c.outcome(t.rot * t.rot < 1e-8 ? "rot^2<1e-8" : (t.rot * t.rot < 1e-3 ? "1e-8<=rot^2<1e-3" : "rot^2>=1e-3"));
    L al[D];
    toL(a, al);
    Mat<L, D, D * D> Hr, Hri, Hl, Hli;
    ref::d2_exp_ref<R>(al, -1, Hr, Hri);
    ref::d2_exp_ref<R>(al, +1, Hl, Hli);
    c.judge("d2r_exp", ref::relerr_big<D, D * D>(G::d2r_exp(a), Hr), T);
    c.judge("d2r_expinv", ref::relerr_big<D, D * D>(G::d2r_expinv(a), Hri), T);
    c.judge("d2l_exp", ref::relerr_big<D, D * D>(G::d2l_exp(a), Hl), T);
    c.judge("d2l_expinv", ref::relerr_big<D, D * D>(G::d2l_expinv(a), Hli), T);
    // rminus Hessians by the chain rule on reference factors
    const auto Jri = ref::inv(ref::dr_exp_ref<R>(al));
    Mat<L, D, D * D> Hrm;
    for (int i = 0; i < D; ++i)
      for (int j = 0; j < D; ++j)
        for (int k = 0; k < D; ++k) {
          L s = 0;
          for (int l = 0; l < D; ++l) s += Hri(j, D * i + l) * Jri(l, k);
          Hrm(j, D * i + k) = s;
        }
    c.judge("d2r_rminus", ref::relerr_big<D, D * D>(smooth::d2r_rminus<G>(a), Hrm), T);
    Mat<L, D, D> Hsq;
    for (int j = 0; j < D; ++j)
      for (int k = 0; k < D; ++k) {
        L s = 0;
        for (int i = 0; i < D; ++i) s += Jri(i, j) * Jri(i, k) + al[i] * Hrm(j, D * i + k);
        Hsq(j, k) = s;
      }
    c.judge("d2r_rminus_squarednorm", ref::relerr_big<D, D>(smooth::d2r_rminus_squarednorm<G>(a), Hsq), T);
  });
}
}  // namespace c05
