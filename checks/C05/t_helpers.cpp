// C05 (generic helpers): d_matrix_product for square factors of equal size and d2_fog, on integer-valued data so that
// the triple-loop reference is exact. Every (size, nvar) / (No, Ny, Nx) configuration up to the bound x static/dynamic
// storage x dense/sparse outer Jacobian x three data sets is enumerated.
#include "bind.hpp"

#include <smooth/derivatives.hpp>

#include "probes.hpp"

using namespace mcb;

static double ival(int i, int j, int set, int salt) { return double(((i * 7 + j * 3 + set * 5 + salt * 11 + i * j) % 7) - 3); }

// ---------------- d_matrix_product
// Storage of the arguments: 0 plain column-major, 1 row-major, 2 views into larger matrices (outer stride != rows),
// 3 dynamically sized matrices (Eigen::MatrixXd):
// "returns the product rule" cannot depend on how the caller stores the factors.
template<int N, int NV, int Var>
static double dmp_case(int set)
{
  constexpr int RM = (Var == 1 && N > 1) ? Eigen::RowMajor : (N == 1 && N * NV > 1 ? Eigen::RowMajor : Eigen::ColMajor);
  constexpr int RMsq = (Var == 1 && N > 1) ? Eigen::RowMajor : Eigen::ColMajor;
  using MA  = std::conditional_t<Var == 3, Eigen::MatrixXd, Eigen::Matrix<double, N, N, RMsq>>;
  using MdA = std::conditional_t<Var == 3, Eigen::MatrixXd, Eigen::Matrix<double, N, N * NV, RM>>;
  MA A(N, N), Bm(N, N);
  MdA dA(N, N * NV), dB(N, N * NV);
  for (int i = 0; i < N; ++i)
    for (int j = 0; j < N; ++j) {
      A(i, j)  = ival(i, j, set, 1);
      Bm(i, j) = ival(i, j, set, 2);
    }
  for (int i = 0; i < N; ++i)
    for (int j = 0; j < N * NV; ++j) {
      dA(i, j) = ival(i, j, set, 3);
      dB(i, j) = ival(i, j, set, 4);
    }
  Eigen::MatrixXd R;
  if constexpr (Var == 2) {
    // the same data seen through blocks of larger (garbage-filled) matrices
    Eigen::Matrix<double, N + 2, N + 1> bigA, bigB;
    Eigen::Matrix<double, N + 3, N * NV + 2> bigdA, bigdB;
    bigA.setConstant(977.);
    bigB.setConstant(-613.);
    bigdA.setConstant(41.);
    bigdB.setConstant(-59.);
    bigA.template block<N, N>(1, 1)        = A;
    bigB.template topLeftCorner<N, N>()    = Bm;
    bigdA.template block<N, N * NV>(2, 1)  = dA;
    bigdB.template topRows<N>().template leftCols<N * NV>() = dB;
    R = smooth::d_matrix_product(bigA.template block<N, N>(1, 1), bigdA.template block<N, N * NV>(2, 1), bigB.template topLeftCorner<N, N>(),
      bigdB.template topRows<N>().template leftCols<N * NV>());
  } else {
    R = smooth::d_matrix_product(A, dA, Bm, dB);
  }
  if (R.rows() != N || R.cols() != N * NV) return INFINITY;
  // reference: d(AB)(i,j)/dk = sum_l dA(i,l)/dk B(l,j) + A(i,l) dB(l,j)/dk with layout X'(j, i*nvar+k) = dX(i,j)/dk
  double err = 0;
  for (int i = 0; i < N; ++i)
    for (int j = 0; j < N; ++j)
      for (int k = 0; k < NV; ++k) {
        double s = 0;
        for (int l = 0; l < N; ++l) s += dA(l, i * NV + k) * Bm(l, j) + A(i, l) * dB(j, l * NV + k);
        err = std::max(err, std::fabs(R(j, i * NV + k) - s));
      }
  return err;
}
template<int N, int NV>
static double dmp_static(int set) { return dmp_case<N, NV, 0>(set); }
template<int N, int NV>
static double dmp_rowmajor(int set) { return dmp_case<N, NV, 1>(set); }
template<int N, int NV>
static double dmp_views(int set) { return dmp_case<N, NV, 2>(set); }
template<int N, int NV>
static double dmp_dynamic(int set) { return dmp_case<N, NV, 3>(set); }

MC_SUBCHECK(d_matrix_product)
{
  using Fn = double (*)(int);
  struct Cfg { int n, nv; Fn f[4]; };
#define CFG(N, NV) {N, NV, {dmp_static<N, NV>, dmp_rowmajor<N, NV>, dmp_views<N, NV>, dmp_dynamic<N, NV>}}
  std::vector<Cfg> cfgs = {CFG(1, 1), CFG(1, 2), CFG(1, 3), CFG(2, 1), CFG(2, 2), CFG(2, 3), CFG(3, 1), CFG(3, 2), CFG(3, 3), CFG(4, 1), CFG(4, 2), CFG(4, 3),
    CFG(5, 2), CFG(6, 6), CFG(3, 6), CFG(6, 1)};
#undef CFG
  const uint64_t nsets = 3;
  static const char * vn[4] = {"column-major", "row-major", "views into larger matrices", "dynamic size (MatrixXd)"};
  mc::explore("C05/d_matrix_product/static", cfgs.size() * nsets * 4, [&](mc::Case & c) {
    mc::Radix r(c.idx);
    const int set   = int(r.next(nsets));
    const int var   = int(r.next(4));
    const auto & cf = cfgs[r.next(cfgs.size())];
    c.desc = [&, set, var] { return mc::fmt("N=%d nvar=%d dataset=%d storage=%s (integer data ival(i,j,set,salt))", cf.n, cf.nv, set, vn[var]); };
    c.judge("d_matrix_product=product rule (exact on integers)", cf.f[var](set), 0.0);
  });
}

// ---------------- d2_fog
template<int No, int Ny, int Nx, bool Dyn, bool Sparse>
static double fog_case(int set)
{
  using MJf = std::conditional_t<Dyn, Eigen::MatrixXd, Eigen::Matrix<double, No, Ny>>;
  using MHf = std::conditional_t<Dyn, Eigen::MatrixXd, Eigen::Matrix<double, Ny, No * Ny>>;
  using MJg = std::conditional_t<Dyn, Eigen::MatrixXd, Eigen::Matrix<double, Ny, Nx>>;
  using MHg = std::conditional_t<Dyn, Eigen::MatrixXd, Eigen::Matrix<double, Nx, Ny * Nx>>;
  MJf Jf(No, Ny);
  MHf Hf(Ny, No * Ny);
  MJg Jg(Ny, Nx);
  MHg Hg(Nx, Ny * Nx);
  for (int i = 0; i < No; ++i)
    for (int j = 0; j < Ny; ++j) Jf(i, j) = ival(i, j, set, 5);
  for (int i = 0; i < Ny; ++i)
    for (int j = 0; j < Nx; ++j) Jg(i, j) = ival(i, j, set, 6);
  // Hessian blocks are symmetric (second derivatives), integer valued
  for (int b = 0; b < No; ++b)
    for (int i = 0; i < Ny; ++i)
      for (int j = i; j < Ny; ++j) Hf(i, b * Ny + j) = Hf(j, b * Ny + i) = ival(i, j, set, 7 + b);
  for (int b = 0; b < Ny; ++b)
    for (int i = 0; i < Nx; ++i)
      for (int j = i; j < Nx; ++j) Hg(i, b * Nx + j) = Hg(j, b * Nx + i) = ival(i, j, set, 13 + b);
  Eigen::MatrixXd R;
  if constexpr (Sparse) {
    Eigen::SparseMatrix<double> Js = Jf.sparseView();
    Js.makeCompressed();
    R = smooth::d2_fog(Js, Hf, Jg, Hg);
  } else {
    R = smooth::d2_fog(Jf, Hf, Jg, Hg);
  }
  if (R.rows() != Nx || R.cols() != No * Nx) return INFINITY;
  double err = 0;
  for (int b = 0; b < No; ++b)
    for (int i = 0; i < Nx; ++i)
      for (int j = 0; j < Nx; ++j) {
        double s = 0;
        for (int p = 0; p < Ny; ++p)
          for (int q = 0; q < Ny; ++q) s += Jg(p, i) * Hf(p, b * Ny + q) * Jg(q, j);
        for (int l = 0; l < Ny; ++l) s += Jf(b, l) * Hg(i, l * Nx + j);
        err = std::max(err, std::fabs(R(i, b * Nx + j) - s));
      }
  return err;
}

template<bool Dyn, bool Sparse>
static void fog_space(const std::string & label)
{
  using Fn = double (*)(int);
  struct Cfg { int no, ny, nx; Fn f; };
  std::vector<Cfg> cfgs;
#define FOG(a, b, c) cfgs.push_back({a, b, c, fog_case<a, b, c, Dyn, Sparse>});
#define FOG3(a, b) FOG(a, b, 1) FOG(a, b, 2) FOG(a, b, 3)
#define FOG9(a) FOG3(a, 1) FOG3(a, 2) FOG3(a, 3)
  FOG9(1) FOG9(2) FOG9(3) FOG(1, 4, 4) FOG(4, 1, 4) FOG(4, 4, 1) FOG(2, 6, 3) FOG(1, 6, 6)
  const uint64_t nsets = 3;
  mc::explore(label, cfgs.size() * nsets, [&](mc::Case & c) {
    const auto & cf = cfgs[c.idx / nsets];
    const int set   = int(c.idx % nsets);
    c.desc = [&, set] { return mc::fmt("No=%d Ny=%d Nx=%d dataset=%d (integer data, symmetric Hessian blocks)", cf.no, cf.ny, cf.nx, set); };
    c.judge("d2_fog=chain rule (exact on integers)", cf.f(set), 0.0);
  });
}

MC_SUBCHECK(d2_fog)
{
  fog_space<false, false>("C05/d2_fog/static-dense");
  fog_space<false, true>("C05/d2_fog/static-sparseJf");
#if PROBE_d2fog_dyn
  fog_space<true, false>("C05/d2_fog/dynamic-dense");
#else
  mc::report_violation("C05/d2_fog/dynamic-dense", "compiles", 1, 0, {}, "d2_fog(MatrixXd, MatrixXd, MatrixXd, MatrixXd) does not compile; see build/C05/probe_d2fog_dyn.log",
    "compile-probe d2fog_dyn");
#endif
#if PROBE_d2fog_dyn_sparse
  fog_space<true, true>("C05/d2_fog/dynamic-sparseJf");
#else
  mc::report_violation("C05/d2_fog/dynamic-sparseJf", "compiles", 1, 0, {}, "d2_fog(SparseMatrix, MatrixXd, MatrixXd, MatrixXd) does not compile; see build/C05/probe_d2fog_dyn_sparse.log",
    "compile-probe d2fog_dyn_sparse");
#endif
}
