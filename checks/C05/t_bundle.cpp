#include "c05.hpp"
using namespace smooth;
template<typename S>
using B1 = Bundle<SO3<S>, Eigen::Matrix<S, 3, 1>>;
template<typename S>
using B2 = Bundle<SE2<S>, C1<S>, Eigen::Matrix<S, 2, 1>>;
template<typename S>
using B3 = Bundle<Bundle<SO2<S>, Eigen::Matrix<S, 1, 1>>, SE3<S>>;
MC_SUBCHECK(bundle)
{
  c05::run<B1<double>>("Bundle<SO3,T3>d");
  c05::run<B2<double>>("Bundle<SE2,C1,T2>d");
  c05::run<B3<double>>("Bundle<Bundle<SO2,T1>,SE3>d");
}
