FLAGS_C14 := -fext-numeric-literals
LIBS_C14 := -lquadmath
