// C14 (a) — fit_spline_1d: the returned Bernstein coefficients satisfy every linear constraint of the
// specification (interpolation, derivative continuity at the knots in real time, boundary derivatives).
//
// Oracle: the constraint rows are rebuilt from the specification only, in long double: the d-th derivative of a
// degree-K Bernstein polynomial at u=0 / u=1 from the forward-difference formula
//     p^(d)(0) = K!/(K-d)! * sum_j (-1)^(d-j) C(d,j) beta_j ,   p^(d)(1) = K!/(K-d)! * sum_j (-1)^(d-j) C(d,j) beta_(K-d+j)
// and p_i(t) = sum beta_nu b_nu(t/dt_i) => d/dt^d = (1/dt_i^d) d/du^d. No smooth/Eigen code is involved in the rows.
//
// Error measure per row ("1e-6 relative", most lenient reading): |a.x - b| / max(|b|, max_j|a_j| * S),
// S = max(|x|_inf, |dx|_inf) — the forward-error scale of a backward-stable solve of the whole system.
#include "c14.hpp"

#include <smooth/spline/fit.hpp>

namespace {
using namespace c14;

struct Row
{
  std::vector<std::pair<int, L>> a;
  L b   = 0;
  int kind = 0;  // 0 p_i(0)=0, 1 p_i(dt)=dx, 2 continuity, 3 left boundary, 4 right boundary
  int d    = 0;
};

L binom(int n, int k)
{
  L r = 1;
  for (int i = 1; i <= k; ++i) r = r * (L)(n - k + i) / (L)i;
  return r;
}
L falling(int K, int d)
{
  L r = 1;
  for (int i = 0; i < d; ++i) r *= (L)(K - i);
  return r;
}
/// coefficients (w.r.t. beta_0..beta_K) of the d-th u-derivative at u=0 (end=0) or u=1 (end=1)
std::vector<L> bern_deriv_row(int K, int d, int end)
{
  std::vector<L> r(size_t(K + 1), 0.L);
  for (int j = 0; j <= d; ++j) {
    const L c = falling(K, d) * (((d - j) % 2) ? -1.L : 1.L) * binom(d, j);
    r[size_t(end ? K - d + j : j)] = c;
  }
  return r;
}

struct SpecDesc
{
  int K, inncnt;
  std::vector<int> ldeg, rdeg;
};

/// unit = 0: boundary derivatives w.r.t. real time t (1/dt^d scaling); unit = 1: w.r.t. the normalised parameter u
std::vector<Row> build_rows(const SpecDesc & sd, const std::vector<double> & dt, const std::vector<double> & dx,
  const std::vector<double> & lv, const std::vector<double> & rv, int unit)
{
  const int N = int(dt.size()), K = sd.K;
  std::vector<Row> rows;
  for (size_t i = 0; i < sd.ldeg.size(); ++i) {
    Row r;
    r.kind = 3;
    r.d    = sd.ldeg[i];
    auto c = bern_deriv_row(K, r.d, 0);
    const L sc = unit ? 1.L : std::pow((L)dt[0], (L)-r.d);
    for (int j = 0; j <= K; ++j)
      if (c[size_t(j)] != 0) r.a.emplace_back(j, c[size_t(j)] * sc);
    r.b = lv[i];
    rows.push_back(r);
  }
  for (int i = 0; i < N; ++i) {
    Row r0;
    r0.kind = 0;
    r0.a.emplace_back(i * (K + 1), 1.L);
    rows.push_back(r0);
    if (sd.inncnt >= 0) {
      Row r1;
      r1.kind = 1;
      r1.a.emplace_back(i * (K + 1) + K, 1.L);
      r1.b = dx[size_t(i)];
      rows.push_back(r1);
    }
  }
  for (int i = 0; i + 1 < N; ++i)
    for (int d = 1; d <= sd.inncnt; ++d) {
      Row r;
      r.kind = 2;
      r.d    = d;
      auto c1 = bern_deriv_row(K, d, 1), c0 = bern_deriv_row(K, d, 0);
      const L s1 = std::pow((L)dt[size_t(i)], (L)-d), s0 = std::pow((L)dt[size_t(i + 1)], (L)-d);
      for (int j = 0; j <= K; ++j)
        if (c1[size_t(j)] != 0) r.a.emplace_back(i * (K + 1) + j, c1[size_t(j)] * s1);
      for (int j = 0; j <= K; ++j)
        if (c0[size_t(j)] != 0) r.a.emplace_back((i + 1) * (K + 1) + j, -c0[size_t(j)] * s0);
      rows.push_back(r);
    }
  for (size_t i = 0; i < sd.rdeg.size(); ++i) {
    Row r;
    r.kind = 4;
    r.d    = sd.rdeg[i];
    auto c = bern_deriv_row(K, r.d, 1);
    const L sc = unit ? 1.L : std::pow((L)dt[size_t(N - 1)], (L)-r.d);
    for (int j = 0; j <= K; ++j)
      if (c[size_t(j)] != 0) r.a.emplace_back((N - 1) * (K + 1) + j, c[size_t(j)] * sc);
    r.b = rv[i];
    rows.push_back(r);
  }
  return rows;
}

template<typename X>
L row_rel(const Row & r, const X & x, L S)
{
  L s = -r.b, amax = 0;
  for (auto & [j, a] : r.a) {
    s += a * (L)x[size_t(j)];
    amax = std::max(amax, std::fabs(a));
  }
  if (s == 0) return 0;
  if (!(s == s)) return NAN;
  const L den = std::max(std::fabs(r.b), amax * S);
  return den > 0 ? std::fabs(s) / den : (L)INFINITY;
}

// ---- oracle self checks
void selfchecks()
{
  selfcheck_patterns();
  // (1) difference formula against term-by-term differentiation of b_{nu,K}(u) = C(K,nu) u^nu (1-u)^(K-nu)
  bool ok = true;
  for (int K = 1; K <= 6; ++K)
    for (int d = 0; d <= std::min(K, 4); ++d)
      for (int end = 0; end < 2; ++end) {
        auto row = bern_deriv_row(K, d, end);
        for (int nu = 0; nu <= K; ++nu) {
          // monomial coefficients of b_nu: C(K,nu) * sum_m C(K-nu,m) (-1)^m u^(nu+m)
          L val = 0;
          for (int m = 0; m <= K - nu; ++m) {
            const int p = nu + m;
            if (p < d) continue;
            const L coef = binom(K, nu) * binom(K - nu, m) * ((m % 2) ? -1.L : 1.L) * falling(p, d);
            if (end == 0) {
              if (p == d) val += coef;
            } else {
              val += coef;
            }
          }
          if (std::fabs(val - row[size_t(nu)]) > 1e-12L * std::max((L)1, std::fabs(val))) ok = false;
        }
      }
  mc::selfcheck("Bernstein end-point derivative formula = differentiated monomial expansion (K<=6, d<=4)", ok);

  // (2) the restriction of one global polynomial q of degree <= K to the knot intervals satisfies every row
  //     (with boundary values q^(d)(t_0), q^(d)(t_N) in real-time units): validates row layout and 1/dt^d scaling
  ok = true;
  L worst = 0;
  const std::vector<SpecDesc> sds = {{1, 0, {}, {}}, {3, 2, {1}, {2}}, {3, 2, {2}, {1}}, {5, 3, {1, 2}, {1, 2}}, {6, 3, {1, 2}, {1, 2}}};
  for (auto & sd : sds)
    for (int p : {2, 5, 12, 20, 23, 29})
      for (int N : {1, 2, 5}) {
        if (sd.K == 1 && N > 1) continue;  // a global line is the only piecewise-linear polynomial: N=1 suffices
        const int K = sd.K;
        auto dt     = intervals(p, N);
        // q(t) = sum_k qc_k t^k, degree K
        std::vector<L> qc(size_t(K + 1));
        for (int k = 0; k <= K; ++k) qc[size_t(k)] = (L)((k * 7 % 5) - 2) / (L)(1 + k) + (k == K ? 0.5L : 0.L);
        auto qder = [&](L t, int d) {
          L v = 0;
          for (int k = d; k <= K; ++k) v += qc[size_t(k)] * falling(k, d) * std::pow(t, (L)(k - d));
          return v;
        };
        std::vector<L> x(size_t((K + 1) * N));
        std::vector<double> dx(static_cast<size_t>(N));
        L t = 0;
        L S = 0;
        for (int i = 0; i < N; ++i) {
          const L h = dt[size_t(i)];
          // monomial coefficients in u of q(t+u h)-q(t): c_j = q^(j)(t) h^j / j!
          std::vector<L> c(size_t(K + 1), 0.L);
          L fact = 1;
          for (int j = 1; j <= K; ++j) {
            fact *= j;
            c[size_t(j)] = qder(t, j) * std::pow(h, (L)j) / fact;
          }
          // monomial -> Bernstein: beta_nu = sum_{j<=nu} C(nu,j)/C(K,j) c_j
          for (int nu = 0; nu <= K; ++nu) {
            L b = 0;
            for (int j = 0; j <= nu; ++j) b += binom(nu, j) / binom(K, j) * c[size_t(j)];
            x[size_t(i * (K + 1) + nu)] = b;
            S = std::max(S, std::fabs(b));
          }
          // rows take dx as double: use the exactly representable part and fold the rest into the row check tolerance
          dx[size_t(i)] = (double)x[size_t(i * (K + 1) + K)];
          t += h;
        }
        std::vector<double> lv, rv;
        for (int d : sd.ldeg) lv.push_back((double)qder(0, d));
        for (int d : sd.rdeg) rv.push_back((double)qder(t, d));
        auto rows = build_rows(sd, dt, dx, lv, rv, 0);
        for (auto & r : rows) {
          L e   = row_rel(r, x, S);
          worst = std::max(worst, e);
          if (!(e < 1e-13L)) ok = false;  // dx / boundary values were rounded to double: 1e-16 relative, amplified by <= K!
        }
      }
  mc::note("fit1d_selfcheck_polynomial_worst", mc::fmt("%.3Lg", worst));
  mc::selfcheck("restriction of a global polynomial satisfies every rebuilt constraint row", ok);
}

// ---- data patterns
constexpr int NDATA = 7;
const char * data_name(int p)
{
  static const char * nm[NDATA] = {"zeros", "ramp", "ramp-t", "alternating", "step", "alphabetA", "alphabetB"};
  return nm[p];
}
std::vector<double> data(int p, const std::vector<double> & dt)
{
  static const double menu[9] = {0.3, -1.7, 2.2, 0.9, -1e-3, 300., 0., 1e-3, -40.};
  const int N  = int(dt.size());
  const int sh = ((mc::seed() % 9) + 9) % 9;
  std::vector<double> dx(static_cast<size_t>(N));
  for (int i = 0; i < N; ++i) {
    double v = 0;
    switch (p) {
    case 0: v = 0; break;
    case 1: v = 1; break;
    case 2: v = 0.7 * dt[size_t(i)]; break;
    case 3: v = i % 2 ? -1 : 1; break;
    case 4: v = i == N / 2 ? 1 : 0; break;
    case 5: v = menu[(i + sh) % 9]; break;
    case 6: v = menu[(5 * i + 2 + sh) % 9] * (i % 2 ? 1e-3 : 1.); break;
    }
    dx[size_t(i)] = v;
  }
  return dx;
}

constexpr int NBV = 3;  // boundary value menus: all zero | all one | mixed signs and sizes
double bval(int menu, int side, int i)
{
  if (menu == 0) return 0;
  if (menu == 1) return 1;
  static const double m[2][3] = {{-2, 0.5, 30}, {0.25, -3, 1e-2}};
  return m[side][i % 3];
}

template<typename SS>
void run_spec(const std::string & name, bool interpolating)
{
  SpecDesc sd;
  sd.K      = SS::Degree;
  sd.inncnt = SS::InnCnt;
  for (auto d : SS::LeftDeg) sd.ldeg.push_back(d);
  for (auto d : SS::RghtDeg) sd.rdeg.push_back(d);
  const bool has_bv = !sd.ldeg.empty() || !sd.rdeg.empty();

  const std::vector<int> Ns = mc::thorough() ? std::vector<int>{1, 2, 3, 4, 5, 7, 10, 20, 39} : std::vector<int>{1, 2, 3, 5, 10, 39};
  const uint64_t nN = Ns.size(), nP = interpolating ? NPAT_ALL : NPAT_MIN;

  mc::explore("C14/fit1d/" + name, nN * nP * NDATA * NBV, [&](mc::Case & c) {
    mc::Radix r(c.idx);
    const int bv = int(r.next(NBV)), dp = int(r.next(NDATA)), p = int(r.next(nP)), N = Ns[r.next(nN)];
    if (!has_bv && bv > 0) c.trivial();
    const auto dt = intervals(p, N);
    const auto dx = data(dp, dt);
    const auto st = dt_stats(dt);
    SS ss;
    std::vector<double> lv, rv;
    for (size_t i = 0; i < sd.ldeg.size(); ++i) {
      lv.push_back(bval(bv, 0, int(i)));
      ss.left_values[i](0) = lv.back();
    }
    for (size_t i = 0; i < sd.rdeg.size(); ++i) {
      rv.push_back(bval(bv, 1, int(i)));
      ss.rght_values[i](0) = rv.back();
    }
    c.desc = [&, p, dp, bv, N] {
      return mc::fmt("spec=%s N=%d intervals=%s %s data=%s %s bv=%d", name.c_str(), N, pat_name(p), vecstr(dt).c_str(), data_name(dp),
        vecstr(dx).c_str(), bv);
    };
    c.param("N", N);
    c.param("dt_min", st.dt_min);
    c.param("dt_max", st.dt_max);
    c.param("ratio", st.ratio);
    c.param("bv", bv);

    const Eigen::VectorXd x = smooth::fit_spline_1d(dt, dx, ss);
    c.require("size=(K+1)N", x.size() == Eigen::Index((sd.K + 1) * N));
    if (x.size() != Eigen::Index((sd.K + 1) * N)) return;

    L S = 0;
    for (Eigen::Index i = 0; i < x.size(); ++i) S = std::max(S, std::fabs((L)x(i)));
    for (double v : dx) S = std::max(S, std::fabs((L)v));
    if (!(S == S)) S = INFINITY;

    std::vector<L> xs(size_t(x.size()));
    for (Eigen::Index i = 0; i < x.size(); ++i) xs[size_t(i)] = (L)x(i);

    const auto rows_t = build_rows(sd, dt, dx, lv, rv, 0);
    const auto rows_u = build_rows(sd, dt, dx, lv, rv, 1);
    L e0 = 0, e1 = 0, e2 = 0, eb0 = 0, ebt = 0, ebu = 0;
    bool any2 = false, anyb = false;
    auto upd  = [](L & m, L e) { m = (e == e) ? std::max(m, e) : (L)NAN; };
    for (size_t k = 0; k < rows_t.size(); ++k) {
      const Row & rt = rows_t[k];
      const L e      = row_rel(rt, xs, S);
      if (rt.kind == 0) upd(e0, e);
      if (rt.kind == 1) upd(e1, e);
      if (rt.kind == 2) {
        upd(e2, e);
        any2 = true;
      }
      if (rt.kind >= 3) {
        anyb = true;
        if (rt.b == 0) {
          upd(eb0, e);  // homogeneous: both unit conventions coincide
        } else {
          upd(ebt, e);
          upd(ebu, row_rel(rows_u[k], xs, S));
        }
      }
    }
    const double TOL = 1e-6;
    c.judge("interp p_i(0)=0", (double)e0, TOL);
    if (sd.inncnt >= 0) c.judge("interp p_i(dt_i)=dx_i", (double)e1, TOL);
    if (any2) c.judge("continuity d^k/dt^k, k<=InnCnt", (double)e2, TOL);
    if (anyb && bv == 0) c.judge("boundary rows (zero values)", (double)eb0, TOL);
    if (anyb && bv != 0) {
      // The documentation does not say whether non-zero boundary values are derivatives w.r.t. time or w.r.t. the
      // normalised segment parameter; either convention is accepted (they coincide for dt = 1). Which one the
      // library follows is recorded as an outcome class.
      const L eb = (ebt == ebt && ebu == ebu) ? std::min(ebt, ebu) : (L)NAN;
      c.judge("boundary rows (non-zero values, d/dt or d/du)", (double)eb, TOL);
      const bool t_ok = ebt <= TOL, u_ok = ebu <= TOL;
      c.outcome(t_ok && u_ok ? "bv-unit:both(dt=1)" : (t_ok ? "bv-unit:d/dt" : (u_ok ? "bv-unit:d/du" : "bv-unit:neither")));
    }
    c.outcome(S == 0 ? "solution:zero" : "solution:nonzero");
  });
}
}  // namespace

MC_SUBCHECK(a_fit1d)
{
  using namespace smooth::spline_specs;
  selfchecks();
  mc::assumption(
    "C14 fit_spline_1d: 'relative' residual of a row = |a.x-b| / max(|b|, |a|_inf * max(|x|_inf,|dx|_inf)); non-zero boundary "
    "values are accepted in either unit convention (d/dt or d/du) because fit.hpp does not define it");
  run_spec<PiecewiseLinear<double>>("PiecewiseLinear", true);
  run_spec<FixedDerCubic<double, 1, 1>>("FixedDerCubic<1,1>", true);
  run_spec<FixedDerCubic<double, 2, 2>>("FixedDerCubic<2,2>", true);
  run_spec<FixedDerCubic<double, 1, 2>>("FixedDerCubic<1,2>", true);
  run_spec<FixedDerCubic<double, 2, 1>>("FixedDerCubic<2,1>", true);
  run_spec<MinDerivative<double, 5, 3, 3>>("MinDerivative<5,3,3>", false);
  run_spec<MinDerivative<double, 6, 3, 3>>("MinDerivative<6,3,3>", false);
  run_spec<MinDerivative<double, 6, 4, 3>>("MinDerivative<6,4,3>", false);
}
