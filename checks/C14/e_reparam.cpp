// C14 (d, second half) — reparameterize_spline returns a non-decreasing map s from [0,T] onto [t_min,t_max] with
// s'(0) at most the requested start speed.
//
// E: 6 source curves x velocity bound vectors {0.1,1,10}^min(Dof,3) x acceleration bound vectors (same menu; quick:
//    uniform levels) x symmetric/asymmetric bounds x start speed {0,0.5,1,inf} x end speed {0,0.5,1,inf} x N {10,100}.
// O: definitions only: s(0)=t_min, s(T)=t_max, s(t_{k+1}) >= s(t_k) on the union of a 1000-point grid and s's own
//    knots (each knot also approached from the left: "onto" needs s continuous, i.e. no jump at a knot),
//    s'(0) <= start speed, everything finite.
#include "c14.hpp"

#include <smooth/spline/dubins.hpp>
#include <smooth/spline/fit.hpp>
#include <smooth/spline/reparameterize.hpp>

#include <atomic>

namespace {
using namespace c14;

void atomic_max(std::atomic<double> & a, double v)
{
  double cur = a.load();
  while (v > cur && !a.compare_exchange_weak(cur, v)) {}
}
// calibration witnesses: worst values over the cases in which the forward pass never hit its velocity floor
std::atomic<double> g_dec{0}, g_jump{0}, g_end{0};

constexpr double LEV[3]   = {0.1, 1, 10};
constexpr double SPEED[4] = {0, 0.5, 1, INFINITY};

template<typename Curve>
void run_curve(const std::string & name, const Curve & curve)
{
  using G          = std::invoke_result_t<Curve, double>;
  constexpr int D  = smooth::Dof<G>;
  using Vec        = Eigen::Matrix<double, D, 1>;
  const uint64_t nV = D >= 3 ? 27 : (D == 2 ? 9 : 3);
  const uint64_t nA = mc::thorough() ? nV : 3;
  const double tmin = curve.t_min(), tmax = curve.t_max(), span = tmax - tmin;

  auto bound = [&](uint64_t code, bool uniform) {
    Vec v;
    for (int j = 0; j < D; ++j) {
      uint64_t cdiv = code;
      for (int k = 0; k < j % 3; ++k) cdiv /= 3;
      v(j) = uniform ? LEV[code % 3] : LEV[cdiv % 3];
    }
    return v;
  };

  // Tolerances (statement gives none): max(100 x worst observed, 64 eps) on the thorough alphabet over the cases in which
  // the forward pass does not run into its velocity floor (witnesses are written to the evidence notes):
  //   decrease across a knot  worst 4.1e-14 -> 5e-12   (segment end s_i + c1 + c2 vs next start s_{i+1}: cancellation in
  //   jump at a knot          worst 4.3e-14 -> 5e-12    the quadratic formula for the segment duration)
  //   s(T) - t_max            worst 5.6e-16 -> 1e-13
  const double TOL_MONO = 5e-12, TOL_JUMP = 5e-12, TOL_END = 1e-13;
  mc::explore("C14/reparameterize/" + name, nV * nA * 2 * 4 * 4 * 2, [&](mc::Case & c) {
    mc::Radix r(c.idx);
    const uint64_t iN = r.next(2), ie = r.next(4), is = r.next(4), asym = r.next(2), ia = r.next(nA), iv = r.next(nV);
    const std::size_t N = iN ? 100 : 10;
    const Vec vmax = bound(iv, false), amax = bound(ia, !mc::thorough());
    const Vec vmin = -(asym ? 0.5 : 1.) * vmax, amin = -(asym ? 2. : 1.) * amax;
    const double sv = SPEED[is], ev = SPEED[ie];
    c.desc = [&, N, sv, ev] {
      return mc::fmt("curve=%s N=%zu start_vel=%g end_vel=%g vel_max=%s vel_min=%s acc_max=%s acc_min=%s", name.c_str(), N, sv, ev,
        vstr(vmax).c_str(), vstr(vmin).c_str(), vstr(amax).c_str(), vstr(amin).c_str());
    };
    c.param("N", double(N));
    c.param("start_vel", sv);
    c.param("end_vel", ev);
    c.param("amax_min", amax.minCoeff());

    const smooth::Spline<2, double> s = smooth::reparameterize_spline(curve, vmin, vmax, amin, amax, sv, ev, N);

    const double T = s.t_max();
    // observable symptoms of the forward pass running into its velocity floor sqrt(1e-8) (region parameters for findings):
    // smallest s' just before a knot, and smallest segment duration
    double min_speed = INFINITY, min_gap = INFINITY, tprev = 0;
    for (double tk : s.m_end_t) {
      Eigen::Matrix<double, 1, 1> d;
      s(std::nextafter(tk, 0.), d);
      min_speed = std::min(min_speed, std::isfinite(d(0)) ? d(0) : 0.);
      min_gap   = std::min(min_gap, tk - tprev);
      tprev     = tk;
    }
    c.param("min_knot_speed", min_speed);
    c.param("min_knot_gap", min_gap);
    const bool floor_hit = !(min_speed > 1.001e-4) || !(min_gap > 0);
    c.outcome(floor_hit ? "velocity floor hit" : "velocity floor not hit");
    c.require("T finite and positive", std::isfinite(T) && T > 0);
    if (!(std::isfinite(T) && T > 0)) return;

    const double sc = std::max({1., std::fabs(tmin), std::fabs(tmax), span});
    // calibrated on the thorough alphabet: s(0) and s(T) are exact (worst 0) -> 64 eps floor
    c.judge("s(0)=t_min", std::fabs(s(0.) - tmin) / sc, 64 * 2.220446049250313e-16);
    const double e_end = std::fabs(s(T) - tmax) / sc;
    c.judge("s(T)=t_max", e_end, TOL_END);

    // evaluation times: 1000-point grid + own knots + left neighbours of the knots
    std::vector<double> tt;
    tt.reserve(1001 + 2 * s.m_end_t.size());
    for (int k = 0; k <= 1000; ++k) tt.push_back(std::min(T, T * k / 1000.));
    for (double tk : s.m_end_t) {
      tt.push_back(tk);
      tt.push_back(std::nextafter(tk, 0.));
    }
    std::sort(tt.begin(), tt.end());
    double prev = s(tt[0]), worst_dec = 0, worst_jump = 0, lo = prev, hi = prev;
    bool fin = std::isfinite(prev);
    for (size_t k = 1; k < tt.size() && fin; ++k) {
      const double v = s(tt[k]);
      fin &= std::isfinite(v);
      worst_dec = std::max(worst_dec, prev - v);
      // a rise over a one-ulp time step can only come from a jump discontinuity
      if (tt[k] == std::nextafter(tt[k - 1], INFINITY)) worst_jump = std::max(worst_jump, v - prev);
      lo   = std::min(lo, v);
      hi   = std::max(hi, v);
      prev = v;
    }
    c.require("s finite on grid and knots", fin);
    if (!fin) return;
    if (!floor_hit) {
      atomic_max(g_dec, worst_dec / sc);
      atomic_max(g_jump, worst_jump / sc);
      atomic_max(g_end, e_end);
    }
    c.judge("s non-decreasing (grid + own knots)", worst_dec / sc, TOL_MONO);
    c.judge("s stays inside [t_min,t_max]", std::max(tmin - lo, hi - tmax) / sc, TOL_MONO);
    // "onto": no jump at a knot (relative to the span)
    c.judge("s continuous at its knots (onto)", worst_jump / sc, TOL_JUMP);

    Eigen::Matrix<double, 1, 1> ds0v;
    s(0., ds0v);
    const double ds0 = ds0v(0);
    c.require("s'(0) finite", std::isfinite(ds0));
    if (std::isfinite(sv)) c.judge("s'(0)<=start_vel", std::max(0., ds0 - sv) / std::max(1., sv), 1e-12);
    c.outcome(ds0 >= sv * (1 - 1e-9) ? "start speed attained" : "start speed reduced");
  });
}
}  // namespace

MC_SUBCHECK(e_reparameterize)
{
  using namespace smooth;
  // 1: Dubins path (SE2d, piecewise constant velocity, K=3 so that it is correct on every tree)
  run_curve("dubins3", dubins_curve<3>(SE2d(SO2d(1.0), Eigen::Vector2d(3., 2.)), 1.));
  // 2: natural cubic through planar zig-zag data
  {
    std::vector<double> ts{0, 1, 2, 3, 4, 5};
    std::vector<Eigen::Vector2d> gs{{0, 0}, {1, 0.5}, {2, -0.5}, {3, 0.7}, {4, -0.2}, {5, 0}};
    run_curve("cubic_R2", fit_spline(ts, gs, spline_specs::FixedDerCubic<Eigen::Vector2d, 2, 2>{}));
  }
  // 3: rotation curve that starts and ends at rest, non-uniform stamps
  {
    std::vector<double> ts{0, 0.5, 2, 2.3, 4};
    std::vector<SO3d> gs{SO3d::Identity()};
    const Eigen::Vector3d inc[4] = {{0.3, -0.1, 0.2}, {-0.5, 0.4, 0.1}, {0.1, 0.1, -0.6}, {0.7, 0, 0.2}};
    for (auto & a : inc) gs.push_back(gs.back() + a);
    run_curve("rest_SO3", fit_spline(ts, gs, spline_specs::FixedDerCubic<SO3d, 1, 1>{}));
  }
  // 4: cubic BSpline on SE2 whose t_min is not 0
  {
    std::vector<SE2d> cp{SE2d::Identity()};
    const Eigen::Vector3d inc[7] = {{0.5, 0, 0.2}, {0.6, 0.1, -0.3}, {0.4, -0.2, 0.5}, {0.7, 0, 0}, {0.5, 0.3, -0.4}, {0.6, 0, 0.1}, {0.3, -0.1, 0.3}};
    for (auto & a : inc) cp.push_back(cp.back() + a);
    run_curve("bspline3_SE2_t0=2.5", BSpline<3, SE2d>(2.5, 0.7, cp));
  }
  // 5: scalar cubic whose velocity changes sign
  {
    std::vector<double> ts{0, 1, 2.5, 3, 4.5};
    std::vector<double> gs{0, 1, 0.2, -0.5, 1.5};
    run_curve("cubic_R1_reversing", fit_spline(ts, gs, spline_specs::FixedDerCubic<double, 2, 2>{}));
  }
  // 6: rigid motion in space
  {
    std::vector<double> ts{0, 0.7, 1.5, 3, 3.4, 5};
    std::vector<SE3d> gs{SE3d::Identity()};
    Eigen::Matrix<double, 6, 1> a;
    const double inc[5][6] = {{0.5, 0.1, 0, 0.1, 0, 0.3}, {0.4, -0.2, 0.3, 0, 0.2, -0.1}, {1, 0, -0.4, -0.3, 0.1, 0.2}, {0.2, 0.2, 0.2, 0, 0, 0.5},
      {0.8, -0.3, 0, 0.2, -0.2, 0}};
    for (auto & row : inc) {
      for (int i = 0; i < 6; ++i) a(i) = row[i];
      gs.push_back(gs.back() + a);
    }
    run_curve("cubic_SE3", fit_spline(ts, gs, spline_specs::FixedDerCubic<SE3d, 2, 2>{}));
  }
  mc::note("reparam_calibration_floor_not_hit",
    mc::fmt("{\"worst_decrease\": %.3g, \"worst_jump\": %.3g, \"worst_end_error\": %.3g}", g_dec.load(), g_jump.load(), g_end.load()));
}
