// C14 (d) — fit_bspline<K>(ts, gs, dt) returns a BSpline covering the data's time span.
//
// Oracle: the time stamps themselves: t_min() <= t_first and t_max() >= t_last ("covering"), allowing a relative
// slack of 1e-12 of max(1, |t|, span) so that a one-ulp difference in how the span is rounded cannot alarm. In
// addition the spline must be evaluable (finite) at the first and last time stamp — a BSpline whose control points are
// NaN, or that lacks the control points needed at t_last, does not cover the span in any useful sense (named separately).
#include "c14.hpp"

#include <smooth/spline/fit.hpp>

#include <sys/mman.h>
#include <sys/wait.h>
#include <unistd.h>

namespace {
using namespace c14;

// ---- local crash containment (the core forks once per run, so a crash inside the library would take the remaining
// sub-checks down): every index is executed exactly once, in one of 16 forked worker processes (index i by worker
// i mod 16) that publish the observations through shared memory; an index whose call kills its process (eigen_assert
// trap -> abort, or any signal) is reported as a violation by the explorer body, which only reads the table.
struct Res
{
  double e_min = 0, e_max = 0, q = 0;
  int finite = 0, status = 0;  // status 1: the call returned
};
/// runs eval(i) for every i in forked processes and returns the results; status stays 0 for an index that killed its process
std::vector<Res> run_contained(uint64_t n, const std::function<Res(uint64_t)> & eval)
{
  std::vector<Res> out(n);
  if (mc::replaying()) return out;  // a replay executes only the recorded case (eval_contained)
  constexpr int W = 16;
  struct Slot
  {
    volatile uint64_t cur;
    volatile int done;
  };
  auto * slots = (Slot *)mmap(nullptr, sizeof(Slot) * W, PROT_READ | PROT_WRITE, MAP_SHARED | MAP_ANONYMOUS, -1, 0);
  auto * res   = (Res *)mmap(nullptr, sizeof(Res) * n, PROT_READ | PROT_WRITE, MAP_SHARED | MAP_ANONYMOUS, -1, 0);
  if (slots == MAP_FAILED || res == MAP_FAILED) mc::harness_error("C14 bspline: mmap failed");
  for (uint64_t i = 0; i < n; ++i) res[i] = Res{};
  fflush(stdout);
  fflush(stderr);
  pid_t pids[W];
  auto spawn = [&](int w, uint64_t from) {
    slots[w].cur  = from;
    slots[w].done = 0;
    pid_t p       = fork();
    if (p < 0) mc::harness_error("C14 bspline: fork failed");
    if (p == 0) {
      if (!freopen("/dev/null", "w", stderr)) {}
      for (uint64_t i = from; i < n; i += W) {
        slots[w].cur = i;
        Res r        = eval(i);
        r.status     = 1;
        res[i]       = r;
      }
      slots[w].done = 1;
      _exit(0);
    }
    pids[w] = p;
  };
  for (int w = 0; w < W; ++w) spawn(w, uint64_t(w));
  for (int w = 0; w < W; ++w) {
    for (;;) {
      int st = 0;
      waitpid(pids[w], &st, 0);
      if (slots[w].done) break;
      const uint64_t bad = slots[w].cur;
      if (bad + W >= n) break;
      spawn(w, bad + W);
    }
  }
  for (uint64_t i = 0; i < n; ++i) out[i] = res[i];
  munmap(slots, sizeof(Slot) * W);
  munmap(res, sizeof(Res) * n);
  return out;
}

/// single case, contained (replay mode: runs in the main thread, so forking is safe)
Res eval_contained(const std::function<Res(uint64_t)> & eval, uint64_t idx)
{
  auto * res = (Res *)mmap(nullptr, sizeof(Res), PROT_READ | PROT_WRITE, MAP_SHARED | MAP_ANONYMOUS, -1, 0);
  if (res == MAP_FAILED) mc::harness_error("C14 bspline: mmap failed");
  *res = Res{};
  fflush(stdout);
  fflush(stderr);
  pid_t p = fork();
  if (p < 0) mc::harness_error("C14 bspline: fork failed");
  if (p == 0) {
    Res r    = eval(idx);
    r.status = 1;
    *res     = r;
    _exit(0);
  }
  int st = 0;
  waitpid(p, &st, 0);
  Res out = *res;
  munmap(res, sizeof(Res));
  return out;
}

template<typename G>
std::vector<G> bs_data(int pattern, int npts)
{
  using R = Ref<G>;
  constexpr int D = R::Dof;
  std::vector<G> gs;
  G g;
  {
    Eigen::Matrix<double, D, 1> a0;
    for (int i = 0; i < D; ++i) a0(i) = 0.3 * ((i * 5 % 7) - 3) / 3.0;
    g = smooth::exp<G>(a0);
  }
  gs.push_back(g);
  for (int i = 0; i + 1 < npts; ++i) {
    Eigen::Matrix<double, D, 1> a;
    for (int k = 0; k < D; ++k) {
      const double base = 0.25 * (((i + 2 * k) * 3 % 5) - 2) / 2.0;  // in [-0.25, 0.25]
      a(k) = pattern == 0 ? 0. : (pattern == 1 ? 0.1 * (k + 1) / D : (i % 2 ? -1 : 1) * base * 4);
    }
    g = smooth::rplus(g, a);
    gs.push_back(g);
  }
  return gs;
}

/// knot distance menu, relative to the data (span / dt is kept <= ~250 so that the least-squares problem stays small)
constexpr int NDT = 7;
double knot_dt(int m, const std::vector<double> & dt)
{
  double span = 0;
  for (double x : dt) span += x;
  const auto st = dt_stats(dt);
  switch (m) {
  case 0: return span;                                   // (t1-t0)/dt = 1 exactly (up to the accumulated rounding of the stamps)
  case 1: return span / 3;
  case 2: return span / 10.5;
  case 3: return 2 * span;                               // one knot interval longer than the data
  case 4: return st.dt_max;                              // largest sampling interval
  case 5: return span / st.dt_min <= 250 ? st.dt_min : span / 250;  // smallest sampling interval when affordable
  default: return span / double(dt.size());              // mean sampling interval: (t1-t0)/dt is an integer up to rounding
  }
}

template<int K, typename G>
void run(const std::string & gname)
{
  const std::vector<int> Np = mc::thorough() ? std::vector<int>{2, 3, 5, 10, 20, 40} : std::vector<int>{2, 3, 10, 40};
  const std::vector<double> T0 = {0., 5.5, -3.25};
  const uint64_t nN = Np.size(), nP = NPAT_ALL, nT = T0.size(), nD = mc::thorough() ? 3 : 2;

  struct In
  {
    std::vector<double> dt, ts;
    std::vector<G> gs;
    double kd;
    int dp, m, p, npts;
  };
  auto decode = [&](uint64_t idx) {
    mc::Radix r(idx);
    In in;
    in.dp   = int(r.next(nD));
    in.m    = int(r.next(NDT));
    const int ti = int(r.next(nT));
    in.p    = int(r.next(nP));
    in.npts = Np[r.next(nN)];
    in.dt   = intervals(in.p, in.npts - 1);
    in.ts   = stamps(in.dt, T0[size_t(ti)]);
    in.gs   = bs_data<G>(in.dp + (nD == 2 ? 1 : 0), in.npts);
    in.kd   = knot_dt(in.m, in.dt);
    return in;
  };
  const uint64_t total = nN * nP * nT * NDT * nD;
  auto eval = [&](uint64_t idx) {
    const In in   = decode(idx);
    const auto bs = smooth::fit_bspline<K>(in.ts, in.gs, in.kd);
    Res r;
    const double span = in.ts.back() - in.ts.front();
    const double sc   = std::max({1., std::fabs(in.ts.front()), std::fabs(in.ts.back()), span});
    r.e_min = std::max(0., bs.t_min() - in.ts.front()) / sc;
    r.e_max = std::max(0., in.ts.back() - bs.t_max()) / sc;
    r.q     = (in.ts.back() - bs.t_min()) / bs.dt();
    auto finite = [&](double t) {
      const G g = bs(t);
      bool ok   = true;
      const auto M = matL(g);
      for (auto & x : M.d) ok &= std::isfinite((double)x);
      return ok;
    };
    r.finite = finite(in.ts.front()) && finite(in.ts.back());
    r.status = 1;
    return r;
  };
  const auto table = run_contained(total, eval);

  mc::explore(mc::fmt("C14/fit_bspline/K%d/%s", K, gname.c_str()), total, [&](mc::Case & c) {
    const In in = decode(c.idx);
    const double span = in.ts.back() - in.ts.front();
    c.desc = [&] {
      return mc::fmt("K=%d G=%s points=%d t0=%a intervals=%s %s knot_dt(menu %d)=%a data=%d", K, gname.c_str(), in.npts, in.ts[0],
        pat_name(in.p), vecstr(in.dt).c_str(), in.m, in.kd, in.dp);
    };
    c.param("N", in.npts - 1);
    c.param("knot_dt", in.kd);
    c.param("span_over_dt", span / in.kd);
    c.param("q_frac", std::fabs(span / in.kd - std::round(span / in.kd)));  // distance of (t_last-t_first)/dt to an integer
    const Res r = mc::replaying() ? eval_contained(eval, c.idx) : table[c.idx];
    // an index whose call killed its worker process is a violation
    c.require("no crash inside fit_bspline (eigen_assert/signal)", r.status == 1);
    if (r.status != 1) {
      c.outcome("crashed");
      return;
    }
    c.judge("t_min()<=t_first", r.e_min, 1e-12);
    c.judge("t_max()>=t_last", r.e_max, 1e-12);
    c.require("finite at t_first and t_last", r.finite != 0);
    c.outcome(r.q == std::floor(r.q) ? "span/dt integer" : "span/dt fractional");
  });
}
}  // namespace

MC_SUBCHECK(d_fit_bspline)
{
  run<1, double>("double");
  run<3, double>("double");
  run<5, double>("double");
  run<1, smooth::SO3d>("SO3d");
  run<3, smooth::SO3d>("SO3d");
  run<5, smooth::SO3d>("SO3d");
  run<3, smooth::SE2d>("SE2d");
}
