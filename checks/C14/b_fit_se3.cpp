#include "fitgroup.hpp"
MC_SUBCHECK(b_fit_spline_se3) { c14::fitgroup_all<smooth::SE3d>("SE3d"); }
