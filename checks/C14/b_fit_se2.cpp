#include "fitgroup.hpp"
MC_SUBCHECK(b_fit_spline_se2) { c14::fitgroup_all<smooth::SE2d>("SE2d"); }
