// C14 (b) — fit_spline on Lie groups: c(t_i - t_0) = g_i from both sides, continuous body velocity for
// degree >= 3, rest at both ends when the specification asks for zero boundary velocity.
//
// Oracle: the data themselves (documented matrix form of the stored coefficients, long double). The curve is observed
// only through its public evaluator c(t, vel). Because Spline::t_min() is documented to be 0, "at its time stamp" is
// read as t_i - t_0 (DESIGN C14).
//
// Error measures (forward-error scale, brief "false-alarm discipline"): evaluating at a time stamp that is only known
// to one ulp moves the value by |velocity| * ulp(t); the measures therefore divide by
//   value:    max(1,|M(g_i)|) + tau_i * W                  W  = max_j |dx_j|_inf / dt_j  (velocity scale)
//   velocity: W * (1 + tau_i / dt_min)   (continuity at knots);   W   (rest at the ends, evaluated at exactly 0 / t_max)
// with dx_j = g_{j+1} (-) g_j. The tolerances below are calibrated against these measures.
#pragma once
#include "c14.hpp"

#include <smooth/spline/fit.hpp>

namespace c14 {

template<typename G>
using TanV = Eigen::Matrix<double, smooth::Dof<G>, 1>;

template<typename G>
struct GroupData
{
  std::vector<TanV<G>> menu;   // increment menu (alphabet tangents, rotation part <= 2 < pi)
  std::vector<TanV<G>> alpha;  // full reduced alphabet for the "alphabet" pattern
  G g0;
};

template<typename G>
GroupData<G> make_group_data()
{
  using R = Ref<G>;
  GroupData<G> d;
  auto T = tangents<R>(AlphaOpts::reduced().upto(2.0));
  auto conv = [](const Tan<R> & t) {
    TanV<G> a;
    for (int i = 0; i < R::Dof; ++i) a(i) = t.a[size_t(i)];
    return a;
  };
  for (auto & t : T) d.alpha.push_back(conv(t));
  // menu: (moderate rotation, unit translation), (largest rotation, largest translation), (tiny rotation), first non-zero
  auto pick = [&](auto pred) {
    for (auto & t : T)
      if (pred(t)) {
        d.menu.push_back(conv(t));
        return;
      }
  };
  if constexpr (R::NRot > 0) {
    pick([](const Tan<R> & t) { return t.rot == 0.3 && (R::Dof == R::NRot || t.tm == 1); });
    pick([](const Tan<R> & t) { return t.rot == 2 && (R::Dof == R::NRot || t.tm == 1e3); });
    pick([](const Tan<R> & t) { return t.rot > 0 && t.rot < 2e-4 && t.tm == 0; });
  } else {
    pick([](const Tan<R> & t) { return t.tm == 1; });
    pick([](const Tan<R> & t) { return t.tm == 1e3; });
    TanV<G> a;
    for (int i = 0; i < R::Dof; ++i) a(i) = 1e-3 * (i % 2 ? -1 : 1);
    d.menu.push_back(a);
  }
  if (d.menu.size() != 3) mc::harness_error("C14 fitgroup: increment menu incomplete");
  // generic start element
  TanV<G> a0;
  for (int i = 0; i < R::Dof; ++i) a0(i) = 0.4 * ((i * 5 % 7) - 3) / 3.0;
  d.g0 = smooth::exp<G>(a0);
  return d;
}

/// group data patterns: 0 zeros | 1..3 ramp(menu m) | 4..6 alternating(menu m) | 7..9 step(menu m) | 10 alphabet walk
constexpr int NGDATA = 11;
inline const char * gdata_name(int p)
{
  static const char * nm[NGDATA] = {"zeros", "ramp0", "ramp1", "ramp2", "alt0", "alt1", "alt2", "step0", "step1", "step2", "alphabet"};
  return nm[p];
}
template<typename G>
std::vector<G> group_data(const GroupData<G> & d, int p, int npts)
{
  std::vector<G> gs{d.g0};
  const int sh = ((mc::seed() % 7) + 7) % 7;
  for (int i = 0; i + 1 < npts; ++i) {
    TanV<G> a = TanV<G>::Zero();
    if (p >= 1 && p <= 3) a = d.menu[size_t(p - 1)];
    if (p >= 4 && p <= 6) a = (i % 2 ? -1. : 1.) * d.menu[size_t(p - 4)];
    if (p >= 7 && p <= 9) a = (i == (npts - 1) / 2) ? d.menu[size_t(p - 7)] : TanV<G>::Zero();
    if (p == 10) a = d.alpha[size_t((i * 5 + sh) % int(d.alpha.size()))];
    gs.push_back(smooth::rplus(gs.back(), a));
  }
  return gs;
}

template<typename G, typename SS>
void fitgroup_spec(const std::string & gname, const std::string & sname, bool interpolating, const GroupData<G> & gd)
{
  constexpr int K = SS::Degree;
  using R        = Ref<G>;
  constexpr int Dim = R::Dim;
  bool rest_l = false, rest_r = false;  // zero boundary *velocity* requested (default-constructed spec: all values zero)
  for (auto d : SS::LeftDeg) rest_l |= (d == 1);
  for (auto d : SS::RghtDeg) rest_r |= (d == 1);

  const std::vector<int> Np = mc::thorough() ? std::vector<int>{2, 3, 4, 5, 6, 8, 11, 21, 40} : std::vector<int>{2, 3, 6, 11, 40};
  const std::vector<double> T0 = {0., 5.5, -3.25};
  const uint64_t nN = Np.size(), nP = interpolating ? NPAT_ALL : NPAT_MIN, nT = mc::thorough() ? 3 : 2;

  // Tolerances (the statement gives none): max(100 x worst observed, 64 eps), calibrated on the thorough alphabet on the
  // pinned tree + fit_impl.hpp SparseLU hunk (the tree on which this check first runs clean), per specification class:
  //                       interpolating specs (SparseLU, square system)    derivative-minimising specs (KKT system)
  //   value at stamps     worst 1.8e-15 -> 2e-13                           worst 1.5e-12 (MinDerivative<6,4,3>, SE3d) -> 2e-10
  //   velocity continuity worst 2.6e-15 -> 3e-13                           worst 1.0e-11 (MinDerivative<5,3,3>, SE2d) -> 2e-9
  //   rest at the ends    worst 1.2e-15 -> 2e-13                           worst 1.6e-9  (MinDerivative<6,4,3>, R^2)  -> 2e-7
  // (mutants move these measures to 1e-3 .. 1e2, see report)
  // With non-zero boundary requests (variants 1..3 below) the KKT solve of the derivative-minimising specs loses accuracy
  // (worst observed on the thorough alphabet: value 2.4e-7, velocity continuity 4.9e-8, rest 1.6e-9): there the statement's
  // own figure for these specs, 1e-6 relative, is the tolerance. The interpolating specs keep the tolerances above.
  const double TOL_VAL0 = interpolating ? 2e-13 : 2e-10, TOL_VEL0 = interpolating ? 3e-13 : 2e-9, TOL_REST0 = interpolating ? 2e-13 : 2e-7;

  // boundary-value variants of the specification: 0 = default (all requested boundary derivatives zero), 1 = non-zero on the
  // left only, 2 = non-zero on the right only, 3 = different non-zero values on both sides. "Ends at rest when zero end
  // velocity is asked for" must hold whatever is asked for at the other end.
  constexpr bool has_bv = SS::LeftDeg.size() + SS::RghtDeg.size() > 0;
  const uint64_t nBV = has_bv ? 4 : 1;

  mc::explore("C14/fit_spline/" + gname + "/" + sname, nN * nP * nT * NGDATA * nBV, [&](mc::Case & c) {
    mc::Radix r(c.idx);
    const int dp = int(r.next(NGDATA)), ti = int(r.next(nT)), p = int(r.next(nP)), npts = Np[r.next(nN)];
    const int bv = int(r.next(nBV));
    const bool loose = !interpolating && bv != 0;
    const double TOL_VAL = loose ? 1e-6 : TOL_VAL0, TOL_VEL = loose ? 1e-6 : TOL_VEL0, TOL_REST = loose ? 1e-6 : TOL_REST0;
    const auto dt = intervals(p, npts - 1);
    const auto ts = stamps(dt, T0[size_t(ti)]);
    const auto gs = group_data<G>(gd, dp, npts);
    const auto st = dt_stats(dt);
    c.desc = [&, p, dp, npts] {
      static const char * bvn[4] = {"zero", "left non-zero", "right non-zero", "both non-zero, different"};
      return mc::fmt("G=%s spec=%s points=%d t0=%a intervals=%s %s data=%s boundary values: %s", gname.c_str(), sname.c_str(), npts, ts[0], pat_name(p),
        vecstr(dt).c_str(), gdata_name(dp), bvn[bv]);
    };
    c.param("boundary_variant", bv);
    c.param("N", npts - 1);
    c.param("dt_min", st.dt_min);
    c.param("dt_max", st.dt_max);
    c.param("ratio", st.ratio);

    // scales
    double W = 0;
    for (int j = 0; j + 1 < npts; ++j) {
      const TanV<G> dx = smooth::rminus(gs[size_t(j + 1)], gs[size_t(j)]);
      W = std::max(W, dx.template lpNorm<Eigen::Infinity>() / dt[size_t(j)]);
    }

    SS ss{};
    // Requested boundary derivatives. The specification's values constrain derivatives of the segment polynomial with
    // respect to its normalised time u in [0,1] (fit_spline_1d's rows U0tB / U1tB carry no 1/dt^d factor), so a value v
    // asks for a real-time d-th derivative of v / dt^d. Only requests of ZERO velocity are judged at the ends
    // (the statement's clause); non-zero requests are the environment in which the zero request at the other end must
    // still be honoured.
    // Non-zero requests are of the size of the adjacent segment's own displacement (0.1 where the data do not move).
    auto disp = [&](int j) {
      const double n = smooth::rminus(gs[size_t(j + 1)], gs[size_t(j)]).template lpNorm<Eigen::Infinity>();
      return n > 0 ? n : 0.1;
    };
    const double dxL = disp(0), dxR = disp(npts - 2);
    bool zeroL = false, zeroR = false;  // zero boundary velocity requested on the left / right
    double Vreq = 0;                    // velocity scale induced by the requested boundary derivatives
    if constexpr (has_bv) {
      for (size_t i = 0; i < SS::LeftDeg.size(); ++i) {
        const int d = SS::LeftDeg[i];
        if (bv & 1)
          for (int k = 0; k < ss.left_values[i].size(); ++k) ss.left_values[i](k) = 0.3 * ((k % 3) + 1) * dxL * (d % 2 ? 1 : -1);
        if (d == 1) zeroL = ss.left_values[i].isZero(0);
        Vreq = std::max(Vreq, ss.left_values[i].template lpNorm<Eigen::Infinity>() / dt.front());  // velocity scale it induces
      }
      for (size_t i = 0; i < SS::RghtDeg.size(); ++i) {
        const int d = SS::RghtDeg[i];
        if (bv & 2)
          for (int k = 0; k < ss.rght_values[i].size(); ++k) ss.rght_values[i](k) = -0.2 * ((k % 2) + 2) * dxR * (d % 2 ? 1 : -1);
        if (d == 1) zeroR = ss.rght_values[i].isZero(0);
        Vreq = std::max(Vreq, ss.rght_values[i].template lpNorm<Eigen::Infinity>() / dt.back());
      }
    }
    W = std::max(W, Vreq);
    const double Vg = W;
    const auto curve = smooth::fit_spline(ts, gs, ss);

    double e_right = 0, e_left = 0, e_at = 0, e_vel = 0;
    auto valerr = [&](double tau, int i) {
      const auto M  = matL(gs[size_t(i)]);
      const G got   = curve(tau);
      const auto Mg = matL(got);
      const L e     = (Mg - M).maxabs();
      const L sc    = std::max((L)1, M.maxabs()) + (L)std::fabs(tau) * W;
      return (double)(e / sc);
    };
    for (int i = 0; i < npts; ++i) {
      const double tau = ts[size_t(i)] - ts[0];
      const double tl = std::nextafter(tau, -INFINITY), tr = std::nextafter(tau, INFINITY);
      e_at = std::max(e_at, valerr(tau, i));
      if (i > 0) e_left = std::max(e_left, valerr(tl, i));
      if (i + 1 < npts) e_right = std::max(e_right, valerr(tr, i));
      if (!(e_at == e_at) || !(e_left == e_left) || !(e_right == e_right)) {
        e_at = NAN;
        break;
      }
      if (K >= 3 && i > 0 && i + 1 < npts) {
        TanV<G> vl, vr;
        curve(tl, vl);
        curve(tr, vr);
        const double dv = (vl - vr).template lpNorm<Eigen::Infinity>();
        const double sc = Vg * (1 + std::fabs(tau) / st.dt_min);
        const double e  = dv == 0 ? 0. : dv / sc;
        e_vel = (e == e) ? std::max(e_vel, e) : NAN;
      }
    }
    c.judge("c(t_i-t_0)=g_i", e_at, TOL_VAL);
    c.judge("c((t_i-t_0)^-)=g_i (left limit)", e_left, TOL_VAL);
    c.judge("c((t_i-t_0)^+)=g_i (right limit)", e_right, TOL_VAL);
    if (K >= 3 && npts > 2) c.judge("body velocity continuous at knots", e_vel, TOL_VEL);
    if (rest_l || rest_r) {
      const double span = curve.t_max();
      TanV<G> v0, v1;
      curve(0., v0);
      curve(span, v1);
      auto rel = [&](const TanV<G> & v) {
        const double n = v.template lpNorm<Eigen::Infinity>();
        return n == 0 ? 0. : n / Vg;
      };
      if (rest_l && zeroL) c.judge("at rest at t=0", rel(v0), TOL_REST);
      if (rest_r && zeroR) c.judge("at rest at t=t_max", rel(v1), TOL_REST);
    }
    c.outcome(W == 0 ? "data:constant" : "data:moving");
    (void)Dim;
  });
}

template<typename G>
void fitgroup_all(const std::string & gname)
{
  using namespace smooth::spline_specs;
  const auto gd = make_group_data<G>();
  fitgroup_spec<G, PiecewiseLinear<G>>(gname, "PiecewiseLinear", true, gd);
  fitgroup_spec<G, FixedDerCubic<G, 1, 1>>(gname, "FixedDerCubic<1,1>", true, gd);
  fitgroup_spec<G, FixedDerCubic<G, 2, 2>>(gname, "FixedDerCubic<2,2>", true, gd);
  fitgroup_spec<G, FixedDerCubic<G, 1, 2>>(gname, "FixedDerCubic<1,2>", true, gd);
  fitgroup_spec<G, MinDerivative<G, 5, 3, 3>>(gname, "MinDerivative<5,3,3>", false, gd);
  fitgroup_spec<G, MinDerivative<G, 6, 3, 3>>(gname, "MinDerivative<6,3,3>", false, gd);
  fitgroup_spec<G, MinDerivative<G, 6, 4, 3>>(gname, "MinDerivative<6,4,3>", false, gd);
}

}  // namespace c14
