// C14 (c) — dubins_curve<K>(target, R): unit-speed path of curvature <= 1/R from the identity to the target whose
// length is the minimum over the six Dubins words.
//
// Oracle: the six words LSL, LSR, RSL, RSR, LRL, RLR re-derived from tangent-circle geometry in __float128, working
// from the stored coefficients (x, y, sin, cos) of the actual target object. R.. words are obtained as the L.. words
// of the mirrored target (x,-y,-theta). Both CCC solutions (middle circle on either side) are candidates; every
// candidate is a genuine path of its word, so the minimum over the candidates is the minimum over the six words.
// The reference is *tolerant at ties*: an arc within DELTA of a full turn counts as (almost) zero, tangency /
// feasibility thresholds are relaxed by DELTA, i.e. the reference length is the length of the shortest six-word path that
// ends within ~1e-12 R of the target. Self-check: every minimising candidate is integrated forward in closed form
// and must end at the target.
#include "c14.hpp"

#include <quadmath.h>
#include <smooth/spline/dubins.hpp>

#include <atomic>

namespace {
using namespace c14;
using Q = __float128;

void atomic_max(std::atomic<double> & a, double v)
{
  double cur = a.load();
  while (v > cur && !a.compare_exchange_weak(cur, v)) {}
}
// calibration witnesses over the cases without a zero-duration segment
std::atomic<double> g_speed{0}, g_curv{0}, g_pose{0};

const Q PIq    = M_PIq;
const Q TWOPIq = 2 * M_PIq;
const Q DELTA  = 1e-12Q;

/// reduce to [0, 2pi), then map (2pi - DELTA, 2pi) to (-DELTA, 0): a full turn that is only due to rounding is no turn
Q arc(Q x)
{
  x = fmodq(x, TWOPIq);
  if (x < 0) x += TWOPIq;
  if (x > TWOPIq - DELTA) x -= TWOPIq;
  return x;
}

struct Tgt
{
  Q x, y, s, c, th;
};
struct Cand
{
  Q len = HUGE_VALQ;
  int word = -1;       // 0 LSL 1 LSR 2 LRL+ 3 LRL-  (+4 for the mirrored = R.. words)
  Q seg[3] = {0, 0, 0};  // arc angles (rad) for C segments, length for S
};

Cand lsl(const Tgt & t, Q R)
{
  Cand r;
  r.word = 0;
  const Q cx = t.x - R * t.s, cy = t.y + R * t.c - R;  // goal-left centre minus start-left centre (0,R)
  const Q d  = hypotq(cx, cy);
  if (d <= DELTA * R) {
    r.seg[0] = arc(t.th);
    r.len    = R * r.seg[0];
    return r;
  }
  const Q phi = atan2q(cy, cx);
  r.seg[0] = arc(phi);
  r.seg[1] = d;
  r.seg[2] = arc(t.th - phi);
  r.len    = d + R * (r.seg[0] + r.seg[2]);
  return r;
}
Cand lsr(const Tgt & t, Q R)
{
  Cand r;
  r.word = 1;
  const Q cx = t.x + R * t.s, cy = t.y - R * t.c - R;  // goal-right centre minus start-left centre
  const Q d  = hypotq(cx, cy);
  if (d < 2 * R * (1 - DELTA)) return r;
  const Q phi = atan2q(cy, cx);
  Q q         = 2 * R / d;
  if (q > 1) q = 1;
  const Q psi = phi + asinq(q);
  Q s2        = d * d - 4 * R * R;
  if (s2 < 0) s2 = 0;
  r.seg[0] = arc(psi);
  r.seg[1] = sqrtq(s2);
  r.seg[2] = arc(psi - t.th);
  r.len    = r.seg[1] + R * (r.seg[0] + r.seg[2]);
  return r;
}
Cand lrl(const Tgt & t, Q R, int side)
{
  Cand r;
  r.word = side > 0 ? 2 : 3;
  const Q c3x = t.x - R * t.s, c3y = t.y + R * t.c;  // goal-left centre; start-left centre is (0,R)
  const Q dx = c3x, dy = c3y - R;
  const Q d  = hypotq(dx, dy);
  if (d > 4 * R * (1 + DELTA)) return r;
  const Q phi = d <= DELTA * R ? 0 : atan2q(dy, dx);
  Q q         = d / (4 * R);
  if (q > 1) q = 1;
  const Q gam = acosq(q);
  const Q a12 = phi + side * gam;  // direction C1 -> C2
  const Q c2x = 2 * R * cosq(a12), c2y = R + 2 * R * sinq(a12);
  const Q psi = atan2q(c3y - c2y, c3x - c2x);  // direction C2 -> C3
  // position angles: start point w.r.t. C1 is -pi/2; T1 w.r.t. C1 is a12, w.r.t. C2 is a12+pi; T2 w.r.t. C2 is psi,
  // w.r.t. C3 is psi+pi; goal point w.r.t. C3 is theta-pi/2
  r.seg[0] = arc(a12 + PIq / 2);
  r.seg[1] = arc(a12 + PIq - psi);  // clockwise on the middle circle
  r.seg[2] = arc(t.th - PIq / 2 - psi - PIq);
  r.len    = R * (r.seg[0] + r.seg[1] + r.seg[2]);
  return r;
}

/// closed-form forward integration of a word from the identity: returns end pose (x, y, heading)
void forward(const Cand & c, Q R, bool mirrored, Q & x, Q & y, Q & th)
{
  // segment types for the un-mirrored (L-first) words: +1 left, 0 straight, -1 right
  static const int types[4][3] = {{1, 0, 1}, {1, 0, -1}, {1, -1, 1}, {1, -1, 1}};
  x = y = th = 0;
  for (int i = 0; i < 3; ++i) {
    const int ty = types[c.word][i];
    if (ty == 0) {
      x += c.seg[i] * cosq(th);
      y += c.seg[i] * sinq(th);
    } else {
      const Q a = c.seg[i] * ty;  // signed heading change
      // centre is at (x,y) + ty*R*(-sin th, cos th)
      const Q cx = x - ty * R * sinq(th), cy = y + ty * R * cosq(th);
      th += a;
      x = cx + ty * R * sinq(th);
      y = cy - ty * R * cosq(th);
    }
  }
  if (mirrored) {
    y  = -y;
    th = -th;
  }
}

struct RefResult
{
  Q len;
  int word;      // 0..7
  double miss;   // forward-integration end-pose error of the minimiser (self check)
  double dcen_gap;
  double min_arc;  // smallest |arc angle| over the C segments of all candidates tied for the minimum
};

RefResult reference(double x, double y, double s, double c, double Rd)
{
  const Q R = Rd;
  Q n       = hypotq((Q)s, (Q)c);
  Tgt t{(Q)x, (Q)y, (Q)s / n, (Q)c / n, 0};
  t.th = atan2q(t.s, t.c);
  Tgt m{t.x, -t.y, -t.s, t.c, -t.th};
  RefResult r;
  r.len  = HUGE_VALQ;
  r.word = -1;
  Cand best;
  bool best_m = false;
  Cand all[8];
  for (int mir = 0; mir < 2; ++mir) {
    const Tgt & u = mir ? m : t;
    Cand cs[4]    = {lsl(u, R), lsr(u, R), lrl(u, R, +1), lrl(u, R, -1)};
    for (int k = 0; k < 4; ++k) {
      all[4 * mir + k] = cs[k];
      if (cs[k].len < r.len) {
        r.len  = cs[k].len;
        r.word = cs[k].word + 4 * mir;
        best   = cs[k];
        best_m = mir;
      }
    }
  }
  // smallest turning-arc angle among the (near-)minimal candidates: a path whose arc is within rounding of zero
  Q marc = 10;
  for (auto & k : all) {
    if (!(k.len <= r.len + 1e-9Q * (1 + r.len))) continue;
    const bool ccc = (k.word >= 2);
    for (int i = 0; i < 3; ++i) {
      if (i == 1 && !ccc) continue;
      marc = fabsq(k.seg[i]) < marc ? fabsq(k.seg[i]) : marc;
    }
  }
  r.min_arc = (double)marc;
  Q fx, fy, fth;
  forward(best, R, best_m, fx, fy, fth);
  const Q sc = R > hypotq(t.x, t.y) ? R : hypotq(t.x, t.y);
  Q dth      = fmodq(fth - t.th, TWOPIq);
  if (dth > PIq) dth -= TWOPIq;
  if (dth < -PIq) dth += TWOPIq;
  r.miss = (double)(hypotq(fx - t.x, fy - t.y) / sc + fabsq(dth));
  // centre distances (in units of R) of the four start/goal circle pairs: gap to the degenerate values 0, 2, 4
  Q gap = 10;
  for (int a = -1; a <= 1; a += 2)
    for (int b = -1; b <= 1; b += 2) {
      const Q gx = t.x - b * R * t.s, gy = t.y + b * R * t.c;
      const Q d  = hypotq(gx, gy - a * R) / R;
      for (Q v : {(Q)0, (Q)2, (Q)4}) gap = fabsq(d - v) < gap ? fabsq(d - v) : gap;
    }
  r.dcen_gap = (double)gap;
  return r;
}

const char * word_name(int w)
{
  static const char * nm[8] = {"LSL", "LSR", "LRL+", "LRL-", "RSR", "RSL", "RLR+", "RLR-"};
  return w >= 0 && w < 8 ? nm[w] : "none";
}

// ---- the grid (DESIGN C14)
struct Grid
{
  std::vector<double> rho, ang, Rs;
};
Grid grid()
{
  Grid g;
  g.rho = {0, 1e-9, 0.5, 1, 2 - 1e-9, 2, 2 + 1e-9, 3, 4 - 1e-9, 4, 4 + 1e-9, 10};
  const std::vector<double> pert = mc::thorough() ? std::vector<double>{0, 1e-9, -1e-9} : std::vector<double>{0, 1e-9};
  for (int k = 0; k < 16; ++k)
    for (double p : pert) g.ang.push_back((k <= 8 ? k : k - 16) * (PI / 8) + p);  // (-pi, pi]
  g.Rs = {1, 0.1, 3};
  return g;
}

void selfchecks()
{
  // hand-derivable lengths
  auto L0 = [](double x, double y, double th, double R) { return (double)reference(x, y, std::sin(th), std::cos(th), R).len; };
  bool ok = true;
  ok &= std::fabs(L0(0, 0, 0, 1)) < 1e-12;                            // already there
  ok &= std::fabs(L0(5, 0, 0, 1) - 5) < 1e-12;                        // straight ahead
  ok &= std::fabs(L0(0, 2, PI, 1) - PI) < 1e-12;                      // left half circle
  ok &= std::fabs(L0(0, -6, PI, 3) - 3 * PI) < 1e-12;                 // right half circle, R = 3
  ok &= std::fabs(L0(1, 1, PI / 2, 1) - PI / 2) < 1e-12;              // left quarter turn
  ok &= std::fabs(L0(4, 2, 0, 1) - (std::sqrt(12.) + PI / 3)) < 1e-12;  // LSR: centres (0,1),(4,1): d=4, s=sqrt(12), arcs pi/6 each
  ok &= std::fabs(L0(0.3, -0.1, 2.0, 1) - L0(0.3, 0.1, -2.0, 1)) < 1e-12;  // mirror symmetry
  mc::selfcheck("dubins reference: hand-derived lengths and mirror symmetry", ok);
}

template<int K>
void run_K(const Grid & g)
{
  const uint64_t nr = g.rho.size(), na = g.ang.size(), nR = g.Rs.size();
  // Calibration (thorough grid, pinned tree + ConstantVelocity T/K hunk): see report / comments at the judges.
  mc::explore(mc::fmt("C14/dubins/K%d", K), nr * na * na * nR, [&](mc::Case & c) {
    mc::Radix r(c.idx);
    const uint64_t ih = r.next(na), ib = r.next(na), ir = r.next(nr), iR = r.next(nR);
    const double R = g.Rs[iR], rho = g.rho[ir] * R, bear = g.ang[ib], head = g.ang[ih];
    if (g.rho[ir] == 0 && ib > 0) c.trivial();
    const smooth::SE2d target(smooth::SO2d(head), Eigen::Vector2d(rho * std::cos(bear), rho * std::sin(bear)));
    const double tx = target.r2().x(), ty = target.r2().y(), tsn = target.so2().coeffs()(0), tcs = target.so2().coeffs()(1);
    c.desc = [&, R] {
      return mc::fmt("K=%d R=%a rho/R=%.17g bearing=%.17g heading=%.17g target(x,y,sin,cos)=(%a,%a,%a,%a)", K, R, rho / R, bear, head, tx,
        ty, tsn, tcs);
    };
    const RefResult ref = reference(tx, ty, tsn, tcs, R);
    c.param("dcen_gap", ref.dcen_gap);
    c.param("min_arc", ref.min_arc);
    c.param("rho_over_R", g.rho[ir]);
    c.param("R", R);
    // oracle self check, per case: the minimising candidate really ends at the target
    if (!(ref.miss < 1e-10)) mc::harness_error("dubins reference: minimiser does not reach the target: " + c.desc());
    c.outcome(word_name(ref.word));

    const auto curve = smooth::dubins_curve<K>(target, R);
    const double len = curve.t_max();
    const double lref = (double)ref.len;
    // smallest segment duration of the returned spline (0: a segment shorter than ulp(t) survived as a zero-duration segment)
    double gap = INFINITY, tprev = 0;
    for (double tk : curve.m_end_t) {
      gap   = std::min(gap, tk - tprev);
      tprev = tk;
    }
    c.param("min_knot_gap", curve.m_end_t.empty() ? 1. : gap);

    // length = minimum over the six words (statement; tolerance 1e-9 (1+len) from DESIGN, ties allowed)
    c.judge("length<=min over six words", (len - lref) / (1 + lref), 1e-9);
    c.judge("length>=min over six words", (lref - len) / (1 + lref), 1e-9);

    // end pose = target. measure: max-abs difference of the documented matrices / max(1, |target entries|)
    const auto Mt = matL(target);
    auto poserr   = [&](const smooth::SE2d & p) { return (double)((matL(p) - Mt).maxabs() / std::max((L)1, Mt.maxabs())); };
    // calibrated: worst observed 8.4e-15 on the thorough grid (cases without zero-duration segment) -> 100 x = 8.4e-13 -> 1e-12
    const double e_pose = poserr(curve.end());
    if (!(gap <= 0)) atomic_max(g_pose, e_pose);
    c.judge("end()=target", e_pose, 1e-12);
    c.judge("c(t_max)=target", poserr(curve(len)), 1e-12);

    if (len > 0) {
      // evaluation times: 13 equidistant points, every knot and its two neighbours
      std::vector<double> tt;
      for (int j = 0; j <= 12; ++j) tt.push_back(std::min(len, len * j / 12.));
      for (double tk : curve.m_end_t) {
        tt.push_back(tk);
        tt.push_back(std::nextafter(tk, 0.));
        if (tk < len) tt.push_back(std::nextafter(tk, INFINITY));
      }
      // The spline stores cumulative knot times, so the duration T_seg of a segment is only known to ulp(t): body
      // velocity carries a relative error ~ eps * t_max / T_seg. Speed error is measured relative to that forward-error
      // scale (1 + t_max / T_seg); curvature = omega / speed is a ratio of two equally scaled numbers and needs none.
      auto segdur = [&](double t) {
        const auto & kt = curve.m_end_t;
        size_t i        = 0;
        while (i + 1 < kt.size() && !(t < kt[i])) ++i;
        return kt[i] - (i ? kt[i - 1] : 0.);
      };
      double e_speed = 0, e_curv = 0;
      for (double t : tt) {
        Eigen::Vector3d v;
        curve(t, v);
        const double sp = std::hypot(v(0), v(1));
        const double es = std::fabs(sp - 1) / (1 + len / segdur(t)), ec = std::fabs(v(2)) * R / sp - 1;
        e_speed = (es == es) ? std::max(e_speed, es) : NAN;
        e_curv  = (ec == ec) ? std::max(e_curv, ec) : NAN;
        if (!(e_speed == e_speed) || !(e_curv == e_curv)) break;
      }
      if (gap > 0) {
        atomic_max(g_speed, e_speed);
        atomic_max(g_curv, e_curv);
      }
      // calibrated (thorough grid, cases without a zero-duration segment; witnesses in the evidence notes):
      // speed (scaled) worst 7.2e-16, curvature excess worst 1.1e-15 -> max(100 x worst, 64 eps) = 1.1e-13 -> 2e-13
      c.judge("unit speed at evaluation times", e_speed, 2e-13);
      c.judge("|curvature|<=1/R at evaluation times", e_curv, 2e-13);
    } else {
      c.outcome("zero-length path");
    }
  });
}
}  // namespace

MC_SUBCHECK(c_dubins)
{
  selfchecks();
  const Grid g = grid();
  mc::assumption(
    "C14 dubins: the reference minimum is tolerant at ties: arcs within 1e-12 rad of a full turn count as zero and the tangency "
    "thresholds d=2R, 4R are relaxed by 1e-12 (shortest six-word path ending within ~1e-12 R of the target)");
  run_K<1>(g);
  run_K<2>(g);
  run_K<3>(g);
  run_K<5>(g);
  mc::note("dubins_calibration_no_zero_duration_segment",
    mc::fmt("{\"worst_speed_error_scaled\": %.3g, \"worst_curvature_excess\": %.3g, \"worst_end_pose\": %.3g}", g_speed.load(),
      g_curv.load(), g_pose.load()));
}
