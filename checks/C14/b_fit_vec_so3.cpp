#include "fitgroup.hpp"
MC_SUBCHECK(b_fit_spline_vec_so3)
{
  c14::fitgroup_all<Eigen::Vector2d>("Vector2d");
  c14::fitgroup_all<smooth::SO3d>("SO3d");
}
