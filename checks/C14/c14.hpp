// C14 — curve construction meets its specification. Shared pieces: time-stamp patterns, data patterns,
// long-double matrix views of library objects.
//
// Reading of the quantifier (properties.jsonl): 2..40 data points (=> 1..39 intervals), sampling intervals in
// [1e-2, 1e2], neighbouring intervals differ by a factor <= 1e3 for the interpolating specifications and <= 10
// for the derivative-minimising ones. Every interval pattern below stays inside those premises.
#pragma once
#include "bind.hpp"

#include <string>
#include <vector>

namespace c14 {
using namespace mcb;

// ------------------------------------------------------------------ interval patterns
inline const double P10[5] = {1e-2, 1e-1, 1., 10., 100.};

/// patterns [0, NPAT_MIN): neighbouring ratio <= 10 (all specs); [NPAT_MIN, NPAT_ALL): ratio <= 1e3 (interpolating specs only)
constexpr int NPAT_MIN = 21;
constexpr int NPAT_ALL = 30;

inline const char * pat_name(int p)
{
  static const char * nm[NPAT_ALL] = {"uni1e-2", "uni0.1", "uni1", "uni10", "uni100", "geoUp10", "geoDown10", "tri10up", "tri10down",
    "geoUp2", "alt.01/.1", "alt.1/.01", "alt.1/1", "alt1/.1", "alt1/10", "alt10/1", "alt10/100", "alt100/10", "alt1/2", "alt.3/.1",
    "irregular10", "geoUp1e3", "geoDown1e3", "alt.01/10", "alt10/.01", "alt.1/100", "alt100/.1", "alt.01/1", "tri100", "irregular1e3"};
  return nm[p];
}

/// n intervals of pattern p
inline std::vector<double> intervals(int p, int n)
{
  std::vector<double> d(static_cast<size_t>(n));
  auto tri = [](int i, int start, int step) {
    // exponent index walking 0..4 back and forth with the given step (1 or 2), starting at `start`, first going up unless at top
    int period = (4 / step) * 2;
    int k      = i % period;
    int up     = (start == 0);
    int pos    = k <= period / 2 ? k : period - k;
    int e      = up ? pos * step : 4 - pos * step;
    return P10[e];
  };
  for (int i = 0; i < n; ++i) {
    double v = 1;
    switch (p) {
    case 0: case 1: case 2: case 3: case 4: v = P10[p]; break;
    case 5: v = P10[std::min(i, 4)]; break;
    case 6: v = P10[std::max(4 - i, 0)]; break;
    case 7: v = tri(i, 0, 1); break;
    case 8: v = tri(i, 4, 1); break;
    case 9: v = std::min(100., 0.05 * std::ldexp(1., std::min(i, 20))); break;
    case 10: v = i % 2 ? 0.1 : 0.01; break;
    case 11: v = i % 2 ? 0.01 : 0.1; break;
    case 12: v = i % 2 ? 1. : 0.1; break;
    case 13: v = i % 2 ? 0.1 : 1.; break;
    case 14: v = i % 2 ? 10. : 1.; break;
    case 15: v = i % 2 ? 1. : 10.; break;
    case 16: v = i % 2 ? 100. : 10.; break;
    case 17: v = i % 2 ? 10. : 100.; break;
    case 18: v = i % 2 ? 2. : 1.; break;
    case 19: v = i % 2 ? 0.1 : 0.3; break;
    case 20: {
      static const double m[7] = {0.5, 1.3, 0.2, 2, 0.7, 7, 0.9};
      v = m[i % 7];
      break;
    }
    case 21: v = i == 0 ? 0.01 : (i == 1 ? 10. : 100.); break;
    case 22: v = i == 0 ? 100. : (i == 1 ? 0.1 : 0.01); break;
    case 23: v = i % 2 ? 10. : 0.01; break;
    case 24: v = i % 2 ? 0.01 : 10.; break;
    case 25: v = i % 2 ? 100. : 0.1; break;
    case 26: v = i % 2 ? 0.1 : 100.; break;
    case 27: v = i % 2 ? 1. : 0.01; break;
    case 28: v = tri(i, 0, 2); break;
    case 29: {
      static const double m[6] = {0.01, 5, 0.02, 20, 100, 0.1};
      v = m[i % 6];
      break;
    }
    default: break;
    }
    d[static_cast<size_t>(i)] = v;
  }
  return d;
}

struct DtStats
{
  double dt_min = INFINITY, dt_max = 0, ratio = 1;
};
inline DtStats dt_stats(const std::vector<double> & d)
{
  DtStats s;
  for (size_t i = 0; i < d.size(); ++i) {
    s.dt_min = std::min(s.dt_min, d[i]);
    s.dt_max = std::max(s.dt_max, d[i]);
    if (i) s.ratio = std::max(s.ratio, std::max(d[i] / d[i - 1], d[i - 1] / d[i]));
  }
  return s;
}

/// harness self-check: every pattern respects the premises of the statement
inline void selfcheck_patterns()
{
  bool ok = true;
  for (int p = 0; p < NPAT_ALL; ++p)
    for (int n : {1, 2, 3, 5, 10, 39}) {
      auto d = intervals(p, n);
      auto s = dt_stats(d);
      const double lim = p < NPAT_MIN ? 10. : 1e3;
      if (!(s.dt_min >= 1e-2 && s.dt_max <= 1e2 && s.ratio <= lim * (1 + 1e-12))) ok = false;
    }
  mc::selfcheck("interval patterns inside the premises (1e-2..1e2, ratio<=10 | 1e3)", ok);
}

/// time stamps t_0 .. t_n from intervals (accumulated in double as a user would)
inline std::vector<double> stamps(const std::vector<double> & d, double t0)
{
  std::vector<double> t{t0};
  for (double x : d) t.push_back(t.back() + x);
  return t;
}

inline std::string vecstr(const std::vector<double> & v, size_t maxn = 12)
{
  std::string s = "[";
  for (size_t i = 0; i < v.size() && i < maxn; ++i) s += (i ? "," : "") + mc::fmt("%a", v[i]);
  if (v.size() > maxn) s += ",...";
  return s + "]";
}

// ------------------------------------------------------------------ library object -> long double matrix
template<typename G>
auto matL(const G & g)
{
  using R = Ref<G>;
  std::array<L, size_t(R::Rep)> c;
  if constexpr (std::is_arithmetic_v<G>) {
    c[0] = (L)g;
  } else if constexpr (requires { g.coeffs(); }) {
    for (int i = 0; i < R::Rep; ++i) c[size_t(i)] = (L)g.coeffs()(i);
  } else {
    for (int i = 0; i < R::Rep; ++i) c[size_t(i)] = (L)g(i);
  }
  return R::template matrix<L>(c.data());
}

}  // namespace c14

namespace mcb {
template<>
struct RefOf<double>
{
  using type = ref::Tn<1>;
};
}  // namespace mcb
