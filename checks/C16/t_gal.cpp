#include "c16.hpp"
using namespace smooth;
MC_SUBCHECK(galilei)
{
  const int d = mc::thorough() ? 7 : 5;
  {
    c16::Harness<Galileid> h("Galileid");
    h.addview("r3_v()", 0, 3, [](const auto & x) { return x.r3_v().eval(); });
    h.addview("r3_p()", 3, 3, [](const auto & x) { return x.r3_p().eval(); });
    h.addview("r1_t()", 6, 1, [](const auto & x) { return x.r1_t().eval(); });
    h.addview("so3()", 7, 4, [](const auto & x) { return x.so3().coeffs().eval(); });
    h.add("m.r3_v() = value#1.r3_v()", 0, 3, [](auto & x, const auto & p) { x.r3_v() = p.g[1].r3_v(); });
    h.add("m.r3_v() *= 2", 0, 3, [](auto & x, const auto &) { x.r3_v() *= 2; });
    h.add("m.r3_p() = value#2.r3_p()", 3, 3, [](auto & x, const auto & p) { x.r3_p() = p.g[2].r3_p(); });
    h.add("m.r3_p().setZero()", 3, 3, [](auto & x, const auto &) { x.r3_p().setZero(); });
    h.add("m.r1_t() = value#1.r1_t()", 6, 1, [](auto & x, const auto & p) { x.r1_t() = p.g[1].r1_t(); });
    h.add("m.r1_t() *= 3", 6, 1, [](auto & x, const auto &) { x.r1_t() *= 3; });
    h.add("m.so3() = value#2.so3()", 7, 4, [](auto & x, const auto & p) { x.so3() = p.g[2].so3(); });
    h.add("m.so3() *= value#1.so3()", 7, 4, [](auto & x, const auto & p) { x.so3() *= p.g[1].so3(); });
    h.run(d);
  }
  {
    using G = SE_K_3<double, 2>;
    c16::Harness<G> h("SE_2_3d");
    h.addview("r3<0>()", 0, 3, [](const auto & x) { return x.template r3<0>().eval(); });
    h.addview("r3<1>()", 3, 3, [](const auto & x) { return x.template r3<1>().eval(); });
    h.addview("r3(0)", 0, 3, [](const auto & x) { return x.r3(0).eval(); });
    h.addview("r3(1)", 3, 3, [](const auto & x) { return x.r3(1).eval(); });
    h.addview("so3()", 6, 4, [](const auto & x) { return x.so3().coeffs().eval(); });
    h.add("m.r3<0>() = value#1.r3<0>()", 0, 3, [](auto & x, const auto & p) { x.template r3<0>() = p.g[1].template r3<0>(); });
    h.add("m.r3<1>() = value#2.r3<1>()", 3, 3, [](auto & x, const auto & p) { x.template r3<1>() = p.g[2].template r3<1>(); });
    h.add("m.r3(1) *= 2", 3, 3, [](auto & x, const auto &) { x.r3(1) *= 2; });
    h.add("m.r3(0).setZero()", 0, 3, [](auto & x, const auto &) { x.r3(0).setZero(); });
    h.add("m.so3() = value#2.so3()", 6, 4, [](auto & x, const auto & p) { x.so3() = p.g[2].so3(); });
    h.add("m.so3() *= value#1.so3()", 6, 4, [](auto & x, const auto & p) { x.so3() *= p.g[1].so3(); });
    h.run(d);
  }
  {
    using G = SE_K_3<double, 3>;
    c16::Harness<G> h("SE_3_3d");
    h.addview("r3<0>()", 0, 3, [](const auto & x) { return x.template r3<0>().eval(); });
    h.addview("r3<1>()", 3, 3, [](const auto & x) { return x.template r3<1>().eval(); });
    h.addview("r3<2>()", 6, 3, [](const auto & x) { return x.template r3<2>().eval(); });
    h.addview("r3(0)", 0, 3, [](const auto & x) { return x.r3(0).eval(); });
    h.addview("r3(1)", 3, 3, [](const auto & x) { return x.r3(1).eval(); });
    h.addview("r3(2)", 6, 3, [](const auto & x) { return x.r3(2).eval(); });
    h.addview("so3()", 9, 4, [](const auto & x) { return x.so3().coeffs().eval(); });
    h.add("m.r3<0>() = value#1.r3<0>()", 0, 3, [](auto & x, const auto & p) { x.template r3<0>() = p.g[1].template r3<0>(); });
    h.add("m.r3<1>() *= 2", 3, 3, [](auto & x, const auto &) { x.template r3<1>() *= 2; });
    h.add("m.r3<2>() = value#2.r3<2>()", 6, 3, [](auto & x, const auto & p) { x.template r3<2>() = p.g[2].template r3<2>(); });
    h.add("m.r3(2).setZero()", 6, 3, [](auto & x, const auto &) { x.r3(2).setZero(); });
    h.add("m.r3(1) = value#1.r3(1)", 3, 3, [](auto & x, const auto & p) { x.r3(1) = p.g[1].r3(1); });
    h.add("m.so3() = value#2.so3()", 9, 4, [](auto & x, const auto & p) { x.so3() = p.g[2].so3(); });
    h.add("m.so3() *= value#1.so3()", 9, 4, [](auto & x, const auto & p) { x.so3() *= p.g[1].so3(); });
    h.run(d > 3 ? d - 1 : d);
  }
}
