// generic code that writes through a view only if the view says it is writable
#include <smooth/bundle.hpp>
#include <smooth/galilei.hpp>
#include <smooth/se2.hpp>
#include <smooth/se3.hpp>
#include <smooth/se_k_3.hpp>
#include <smooth/so2.hpp>
#include <smooth/so3.hpp>
#include <smooth/c1.hpp>
using namespace smooth;
template<typename V, typename G>
void store_if_writable(V & v, const G & g)
{
  if constexpr (std::is_assignable_v<V &, const G &>) v = g;
  if constexpr (requires { v *= g; }) v *= g;
  if constexpr (requires { v.setIdentity(); } && V::is_mutable) v.setIdentity();
}
template<typename G>
void both(const double * cb, double * mb, const G & g)
{
  Map<const G> c(cb);
  Map<G> m(mb);
  store_if_writable(c, g);
  store_if_writable(m, g);
}
void f(const double * cb, double * mb)
{
  both(cb, mb, SO2d{});
  both(cb, mb, SO3d{});
  both(cb, mb, SE2d{});
  both(cb, mb, SE3d{});
  both(cb, mb, C1d{});
  both(cb, mb, Galileid{});
  both(cb, mb, SE_K_3<double, 2>{});
  both(cb, mb, Bundle<SO3d, Eigen::Vector3d, SE2d>{});
  both(cb, mb, Bundle<Bundle<SO2d, Eigen::Matrix<double, 1, 1>>, SE3d>{});
}
