// part<i>() of a const view held in a NON-const variable is still a read-only view
#include <smooth/bundle.hpp>
#include <smooth/se2.hpp>
#include <smooth/so3.hpp>
using namespace smooth;
using G = Bundle<SO3d, Eigen::Vector3d, SE2d>;
double f(const double * buf)
{
  Map<const G> cm(buf);
  auto a = cm.part<0>();
  auto b = cm.part<1>();
  auto c = cm.part<2>();
  static_assert(!decltype(a)::is_mutable && !decltype(c)::is_mutable);
  return a.coeffs()(0) + b(1) + c.so2().coeffs()(0) + c.r2()(1);
}
