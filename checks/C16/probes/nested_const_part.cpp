// reading a nested part of a const Bundle value (the intermediate is a temporary const view)
#include <smooth/bundle.hpp>
#include <smooth/se3.hpp>
#include <smooth/so2.hpp>
using namespace smooth;
using Inner = Bundle<SO2d, Eigen::Matrix<double, 1, 1>>;
using G     = Bundle<Inner, SE3d>;
double f(const G & g) { return g.part<0>().part<0>().coeffs()(0) + g.part<0>().part<1>()(0) + g.part<1>().so3().coeffs()(3); }
