# C16: compile probes. Read-only uses of const views that the property's "const views behave like const values" clause
# relies on; one that stops compiling is reported as a violation by the harness (compiler log kept as artefact) instead
# of breaking the build.
FLAGS_C16 := -I$(B)/C16
C16_PROBES := $(wildcard $(ROOT)/checks/C16/probes/*.cpp)
$(B)/C16/probes.hpp: $(C16_PROBES) $(wildcard $(REPO)/include/smooth/*.hpp) $(wildcard $(REPO)/include/smooth/detail/*.hpp) $(B)/gen/smooth/version.hpp
	@mkdir -p $(B)/C16
	@rm -f $@.tmp; for p in $(C16_PROBES); do n=$$(basename $$p .cpp); \
	  if $(CXX) $(BASE) -MF /dev/null -fsyntax-only $$p > $(B)/C16/probe_$$n.log 2>&1; then echo "#define PROBE_$$n 1" >> $@.tmp; else echo "#define PROBE_$$n 0" >> $@.tmp; fi; done; mv $@.tmp $@
$(B)/C16/t_probes.o: $(B)/C16/probes.hpp
