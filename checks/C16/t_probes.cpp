// C16 — compile probes (see flags.mk): read-only uses of const views must keep compiling.
#include "mc.hpp"
#include "probes.hpp"
MC_SUBCHECK(compile_probes)
{
  static const struct
  {
    const char * name;
    int ok;
  } P[] = {{"nested_const_part", PROBE_nested_const_part}, {"const_map_object_part", PROBE_const_map_object_part}, {"dispatch_on_assignability", PROBE_dispatch_on_assignability}};
  mc::explore("C16/compile-probes", 3, [&](mc::Case & c) {
    c.desc = [&] { return std::string("checks/C16/probes/") + P[c.idx].name + ".cpp (compiler log: build/C16/probe_" + P[c.idx].name + ".log)"; };
    c.require("read-only use of a const view compiles", P[c.idx].ok == 1);
  });
}
