// C16 — "cast<S>() converts each coefficient to S without reordering" for a scalar wider than double: groups over long double
// (value, Map and const-Map storage), coefficients that are not representable in double. Every (type, storage, target scalar,
// coefficient pattern) combination is enumerated.
#include "mc.hpp"

#include <smooth/bundle.hpp>
#include <smooth/se2.hpp>
#include <smooth/se3.hpp>
#include <smooth/so3.hpp>

#include <cstring>

namespace {
using LD = long double;

template<typename G, typename T>
bool cast_ok(const LD * src, const G & g)
{
  // g views / holds the coefficients src[0..RepSize)
  const auto c = g.template cast<T>();
  for (int i = 0; i < G::RepSize; ++i) {
    const T want = static_cast<T>(src[i]);
    const T got  = c.coeffs()(i);
    if (std::memcmp(&want, &got, sizeof(T) == 16 ? 10 : sizeof(T)) != 0) return false;  // x87 long double: 10 value bytes
  }
  return true;
}

template<typename G>
void run(const std::string & tn)
{
  constexpr int N = G::RepSize;
  // coefficient patterns: k/7-like values plus a 2^-60 relative perturbation (lost when passing through double)
  const int NP = 4;
  mc::explore("C16/cast-long-double/" + tn, uint64_t(NP) * 3 * 3, [&](mc::Case & c) {
    mc::Radix r(c.idx);
    const int target = int(r.next(3)), storage = int(r.next(3)), pat = int(r.next(NP));
    static const char * tgt[3] = {"long double", "double", "float"};
    static const char * sto[3] = {"value", "Map", "Map<const>"};
    c.desc = [&, target, storage, pat] { return mc::fmt("%s storage=%s cast<%s>() pattern %d", tn.c_str(), sto[storage], tgt[target], pat); };
    alignas(32) LD buf[N + 2];
    for (int i = 0; i < N; ++i) {
      const LD base = (LD)(((i * 5 + pat * 3) % 7) - 3) / 7.0L + (pat == 3 ? 1.0L : 0.0L);
      buf[i + 1]    = base * (1.0L + ((i + pat) % 2 ? 1 : -1) * 0x1p-60L) + (pat == 2 ? 0x1p-70L : 0.0L);
    }
    const LD * src = buf + 1;
    G v;
    for (int i = 0; i < N; ++i) v.coeffs()(i) = src[i];
    const smooth::Map<G> m(buf + 1);
    const smooth::Map<const G> cm(buf + 1);
    bool ok = false;
    auto go = [&](const auto & g) {
      switch (target) {
      case 0: return cast_ok<std::decay_t<decltype(g)>, LD>(src, g);
      case 1: return cast_ok<std::decay_t<decltype(g)>, double>(src, g);
      default: return cast_ok<std::decay_t<decltype(g)>, float>(src, g);
      }
    };
    ok = storage == 0 ? go(v) : (storage == 1 ? go(m) : go(cm));
    c.require("cast<S>() converts each coefficient to S (static_cast), in place order", ok);
  });
}
}  // namespace

MC_SUBCHECK(cast_long_double)
{
  using namespace smooth;
  run<SO3<LD>>("SO3<long double>");
  run<SE2<LD>>("SE2<long double>");
  run<SE3<LD>>("SE3<long double>");
  run<Bundle<SO3<LD>, Eigen::Matrix<LD, 3, 1>, SE2<LD>>>("Bundle<SO3,T3,SE2><long double>");
}
