#include "c16.hpp"
using namespace smooth;
MC_SUBCHECK(so)
{
  const int d = mc::thorough() ? 7 : 5;
  c16::Harness<SO2d>("SO2d").run(d);
  c16::Harness<SO3d>("SO3d").run(d);
  c16::Harness<SO3f>("SO3f").run(d);
  c16::Harness<C1d>("C1d").run(d);
}
