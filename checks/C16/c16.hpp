// C16 — Map views are interchangeable with values and write only their own memory.
// Explicit-state BFS over sequences of mutating calls made through Map views of a caller-owned buffer
// [guard | region | guard] (vector-aligned and scalar-aligned-only placement). After every call:
//   * region == the same call applied to a value object holding the same coefficients (<= 4 ulp per coefficient),
//   * every scalar outside the call's documented write range (sub-part views: only their own sub-range) is bitwise unchanged,
// and in every reached state every non-mutating operation gives the same result (<= 4 ulp) on value, Map and const Map,
// const views leave the buffer bitwise untouched, cross-storage construction/assignment copies verbatim, cast<S>() converts
// coefficient-wise without reordering.
#pragma once
#include <regex>
#include "bind.hpp"

#include <functional>
#include <unordered_set>

namespace c16 {
/// read-only part of a value or view (always through the const overload)
template<int I, typename X>
auto rpart(const X & x)
{
  return x.template part<I>();
}
using namespace mcb;

template<typename S>
double ulps(S a, S b)
{
  if (a == b) return 0;
  if (!std::isfinite((double)a) || !std::isfinite((double)b)) return (std::isnan((double)a) && std::isnan((double)b)) ? 0 : INFINITY;
  const S sc = std::max(std::fabs(a), std::fabs(b));
  return (double)(std::fabs(a - b) / (std::numeric_limits<S>::epsilon() * std::max(sc, std::numeric_limits<S>::min())));
}
template<typename A, typename B>
double max_ulps(const A & a, const B & b)
{
  double m = 0;
  if (a.rows() != b.rows() || a.cols() != b.cols()) return INFINITY;
  for (Eigen::Index j = 0; j < a.cols(); ++j)
    for (Eigen::Index i = 0; i < a.rows(); ++i) m = std::max(m, ulps<typename A::Scalar>(a(i, j), b(i, j)));
  return m;
}

template<typename G>
struct Harness
{
  using S   = typename G::Scalar;
  using MG  = smooth::Map<G>;
  using CMG = smooth::Map<const G>;
  static constexpr int N  = G::RepSize;
  static constexpr int GD = 8;  // guard scalars on each side
  using Tan = Eigen::Matrix<S, G::Dof, 1>;

  struct Operands
  {
    std::vector<G> g;
    std::vector<Tan> a;
  };
  struct Op
  {
    std::string name;
    int off, len;  // write range inside the region
    std::function<void(MG &, S * buf, const Operands &)> on_map;
    std::function<void(G &, const Operands &)> on_val;
    /// >= 0: the operation is a plain assignment "m<acc> = value#k<acc>" of the same sub-part of operand k: afterwards the write
    /// range holds the operand's coefficients of that range verbatim (an expectation that does not go through the library:
    /// the Map-vs-value comparison alone cannot see an accessor that silently writes nowhere in both runs)
    int assign_from = -1;
  };
  std::vector<Op> ops;
  Operands od;
  std::string tn;
  /// read-only sub-part views: in every reached state the accessor, called on a const value, on a Map and on a const Map, must
  /// show exactly the scalars [off, off+len) of the viewed coefficients (an expectation that does not go through the library:
  /// comparing value against Map is blind to an accessor that is wrong in the same way on both)
  struct View
  {
    std::string name;
    std::function<bool(const G &, const MG &, const CMG &, const S * reg)> ok;
  };
  std::vector<View> views;
  template<typename F>
  void addview(const std::string & name, int off, int len, F f)
  {
    views.push_back({"read-only view " + name + " shows exactly its own sub-range (const value, Map, const Map)", [f, off, len](const G & v, const MG & m, const CMG & cm, const S * reg) {
      auto chk = [&](const auto & x) {
        const auto w = f(x);  // plain Eigen vector (callers use .eval())
        if (w.size() != len) return false;
        for (int i = 0; i < len; ++i) {
          const S e = w(i);
          if (memcmp(&e, &reg[off + i], sizeof(S)) != 0) return false;
        }
        return true;
      };
      return chk(v) && chk(m) && chk(cm);
    }});
  }

  /// register an operation given as ONE generic lambda applied to both a Map view and a value
  template<typename F>
  void add(const std::string & name, int off, int len, F f)
  {
    ops.push_back({name, off, len, [f](MG & m, S *, const Operands & o) { f(m, o); }, [f](G & v, const Operands & o) { f(v, o); }});
    static const std::regex pure(R"(^m(\S*) = value#(\d)(\S*)$)");
    std::smatch mt;
    if (std::regex_match(name, mt, pure) && mt[1].str() == mt[3].str()) ops.back().assign_from = std::stoi(mt[2].str());
  }

  explicit Harness(const std::string & name) : tn(name)
  {
    using R = Ref<G>;
    // operand menu: identity, generic, half-turn-ish, small
    AlphaOpts o = AlphaOpts::tiny();
    o.thetas    = {0, 0.7, 3.1};
    auto E      = elements<R, S>(o);
    for (size_t i = 0; i < E.size() && od.g.size() < 4; i += std::max<size_t>(1, E.size() / 4)) od.g.push_back(make<G>(E[i]));
    while (od.g.size() < 4) od.g.push_back(make<G>(E.back()));
    auto T = tangents<R, S>(o);
    od.a.push_back(make<G>(T[T.size() / 2]));
    od.a.push_back(make<G>(T.back()));
    // whole-object mutators
    for (int k = 0; k < 4; ++k) {
      add(mc::fmt("m = value#%d", k), 0, N, [k](auto & x, const Operands & p) { x = p.g[size_t(k)]; });
      add(mc::fmt("m *= value#%d", k), 0, N, [k](auto & x, const Operands & p) { x *= p.g[size_t(k)]; });
      add(mc::fmt("m.coeffs() = value#%d.coeffs()", k), 0, N, [k](auto & x, const Operands & p) { x.coeffs() = p.g[size_t(k)].coeffs(); });
    }
    for (int k = 0; k < 2; ++k) add(mc::fmt("m += tangent#%d", k), 0, N, [k](auto & x, const Operands & p) { x += p.a[size_t(k)]; });
    add("m.setIdentity()", 0, N, [](auto & x, const Operands &) { x.setIdentity(); });
    add("m = m.inverse()", 0, N, [](auto & x, const Operands &) { x = x.inverse(); });
    add("m = m * m", 0, N, [](auto & x, const Operands &) { x = x * x; });
    add("m *= m (self)", 0, N, [](auto & x, const Operands &) { x *= x; });
    add("m = exp(log(m))", 0, N, [](auto & x, const Operands &) { x = G::exp(x.log()); });
    // the object returned by a mutating operator is the object itself: a chained second operation lands in the same storage,
    // for a view as for a value (chained on both sides, and chained on one side against two statements on the other)
    add("(m += tangent#0) += tangent#1", 0, N, [](auto & x, const Operands & p) { (x += p.a[0]) += p.a[1]; });
    add("(m *= value#1) *= value#2", 0, N, [](auto & x, const Operands & p) { (x *= p.g[1]) *= p.g[2]; });
    add("(m = value#1) *= value#3", 0, N, [](auto & x, const Operands & p) { (x = p.g[1]) *= p.g[3]; });
    add("(m += tangent#1) *= value#2", 0, N, [](auto & x, const Operands & p) { (x += p.a[1]) *= p.g[2]; });
    ops.push_back({"(m += tangent#0) += tangent#1 on the view; two statements on the value", 0, N,
      [](MG & m, S *, const Operands & p) { (m += p.a[0]) += p.a[1]; },
      [](G & v, const Operands & p) {
        v += p.a[0];
        v += p.a[1];
      }});
    ops.push_back({"two statements on the view; (v += tangent#0) += tangent#1 on the value", 0, N,
      [](MG & m, S *, const Operands & p) {
        m += p.a[0];
        m += p.a[1];
      },
      [](G & v, const Operands & p) { (v += p.a[0]) += p.a[1]; }});
    ops.push_back({"two statements on the view; (v *= value#1) *= value#2 on the value", 0, N,
      [](MG & m, S *, const Operands & p) {
        m *= p.g[1];
        m *= p.g[2];
      },
      [](G & v, const Operands & p) { (v *= p.g[1]) *= p.g[2]; }});
    // assignment from other storage kinds holding operand #1 / from an alias of the same memory
    ops.push_back({"m = Map(other buffer holding value#1)", 0, N,
      [](MG & m, S *, const Operands & p) {
        alignas(32) S tmp[N + 1];
        for (int i = 0; i < N; ++i) tmp[i + 1] = p.g[1].coeffs()(i);
        MG src(tmp + 1);
        m = src;
      },
      [](G & v, const Operands & p) { v = p.g[1]; }});
    ops.push_back({"m = Map<const>(other buffer holding value#2)", 0, N,
      [](MG & m, S *, const Operands & p) {
        alignas(32) S tmp[N + 1];
        for (int i = 0; i < N; ++i) tmp[i + 1] = p.g[2].coeffs()(i);
        CMG src(tmp + 1);
        m = src;
      },
      [](G & v, const Operands & p) { v = p.g[2]; }});
    ops.push_back({"m = alias Map of the same memory", 0, N,
      [](MG & m, S * buf, const Operands &) {
        MG alias(buf);
        m = alias;
      },
      [](G & v, const Operands &) {
        const G c = v;
        v         = c;
      }});
    ops.push_back({"m *= alias Map<const> of the same memory", 0, N,
      [](MG & m, S * buf, const Operands &) {
        CMG alias(buf);
        m *= alias;
      },
      [](G & v, const Operands &) {
        const G c = v;
        v *= c;
      }});
  }

  struct Buf
  {
    alignas(32) S raw[2 * GD + N + 8];
    int shift = 0;
    S * region() { return raw + GD + shift; }
    static S guard_value(int i) { return S(-7777.25) - S(i); }
    void fill_guards()
    {
      for (int i = 0; i < 2 * GD + N + 8; ++i) raw[i] = guard_value(i);
    }
  };

  using Key = std::array<S, size_t(N)>;
  static uint64_t hash(const Key & k)
  {
    uint64_t h = 1469598103934665603ull;
    for (auto v : k) {
      uint64_t b = 0;
      memcpy(&b, &v, sizeof(S));
      h = (h ^ b) * 1099511628211ull;
      h ^= h >> 31;
    }
    return h;
  }

  /// applies op to the state (through a Map view over a guarded buffer and on a value copy) and judges it
  Key step(mc::Case * c, const Key & st, const Op & op, int shift) const
  {
    Buf b;
    b.shift = shift;
    b.fill_guards();
    S * reg = b.region();
    for (int i = 0; i < N; ++i) reg[i] = st[size_t(i)];
    Buf before = b;
    G v;
    for (int i = 0; i < N; ++i) v.coeffs()(i) = st[size_t(i)];
    {
      MG m(reg);
      op.on_map(m, reg, od);
    }
    op.on_val(v, od);
    Key out;
    for (int i = 0; i < N; ++i) out[size_t(i)] = reg[i];
    if (c) {
      double mu = 0;
      for (int i = 0; i < N; ++i) mu = std::max(mu, ulps<S>(reg[i], v.coeffs()(i)));
      c->judge("Map result = value result (ulp)", mu, 4.0);
      // bytes outside the documented write range
      bool clean = true;
      const int lo = GD + shift + op.off, hi = lo + op.len;
      for (int i = 0; i < 2 * GD + N + 8; ++i)
        if ((i < lo || i >= hi) && memcmp(&b.raw[i], &before.raw[i], sizeof(S)) != 0) clean = false;
      c->require("nothing outside the write range changed", clean);
      if (op.assign_from >= 0) {
        bool stored = true;
        const G & src = od.g[size_t(op.assign_from)];
        for (int i = 0; i < N; ++i) {
          const S want = (i >= op.off && i < op.off + op.len) ? S(src.coeffs()(i)) : st[size_t(i)];
          if (memcmp(&want, &reg[i], sizeof(S)) != 0 || memcmp(&want, &v.coeffs()(i), sizeof(S)) != 0) stored = false;
        }
        c->require("assignment stored the source's coefficients verbatim (view and value)", stored);
      }
    }
    return out;
  }

  /// in a reached state: every non-mutating operation on value vs Map vs const Map; const views do not write; copies verbatim
  void observe(mc::Case & c, const Key & st, int shift) const
  {
    Buf b;
    b.shift = shift;
    b.fill_guards();
    S * reg = b.region();
    for (int i = 0; i < N; ++i) reg[i] = st[size_t(i)];
    const Buf before = b;
    G v;
    for (int i = 0; i < N; ++i) v.coeffs()(i) = st[size_t(i)];
    const MG m(reg);
    const CMG cm(reg);
    double mu = 0;
    auto cmp  = [&](const auto & x, const auto & y, const auto & z) { mu = std::max({mu, max_ulps(x, y), max_ulps(x, z)}); };
    cmp(v.log(), m.log(), cm.log());
    cmp(v.inverse().coeffs(), m.inverse().coeffs(), cm.inverse().coeffs());
    cmp(v.Ad(), m.Ad(), cm.Ad());
    cmp(v.matrix(), m.matrix(), cm.matrix());
    for (const auto & g : od.g) {
      cmp((v * g).coeffs(), (m * g).coeffs(), (cm * g).coeffs());
      cmp((g * v).coeffs(), (g * m).coeffs(), (g * cm).coeffs());
      cmp((v * v).coeffs(), (m * cm).coeffs(), (cm * m).coeffs());
    }
    for (const auto & a : od.a) cmp((v + a).coeffs(), (m + a).coeffs(), (cm + a).coeffs());
    c.judge("const ops: value = Map = const Map (ulp)", mu, 4.0);
    for (const auto & vw : views) c.require(vw.name.c_str(), vw.ok(v, m, cm, reg));
    c.require("const operations do not write", memcmp(b.raw, before.raw, sizeof b.raw) == 0);
    // cross-storage construction / assignment copies verbatim
    bool verb = true;
    {
      const G g1(m), g2(cm);
      G g3, g4;
      g3 = m;
      g4 = cm;
      alignas(32) S t2[N + 2];
      MG m2(t2 + 1);
      m2 = cm;
      const G g5(m2);
      const G * all5[5] = {&g1, &g2, &g3, &g4, &g5};
      for (const G * g : all5)
        if (memcmp(g->data(), reg, sizeof(S) * N) != 0) verb = false;
    }
    c.require("construction/assignment across storage copies verbatim", verb);
    // sources that are temporaries / moved-from views over caller-owned memory: read, never written
    {
      bool verb2 = true;
      // destinations hold something else beforehand (an exchange of equal contents would be invisible)
      G other = od.g[0];
      for (const auto & g : od.g)
        if (memcmp(g.data(), reg, sizeof(S) * N) != 0) other = g;
      G g5 = other;
      g5   = MG(reg);
      const G g6 = G(MG(reg));
      MG mm(reg);
      G g7 = other;
      g7   = std::move(mm);
      alignas(32) S t3[N + 2];
      for (int i = 0; i < N; ++i) t3[i + 1] = other.coeffs()(i);
      MG m3(t3 + 1);
      m3   = MG(reg);
      G g8 = other;
      g8   = CMG(reg);
      const G * all[5] = {&g5, &g6, &g7, &g8, nullptr};
      for (int k = 0; k < 4; ++k)
        if (memcmp(all[k]->data(), reg, sizeof(S) * N) != 0) verb2 = false;
      if (memcmp(t3 + 1, reg, sizeof(S) * N) != 0) verb2 = false;
      c.require("assignment / construction from a temporary or moved-from view copies verbatim", verb2);
      c.require("a view that is the source of an assignment is not written (temporary, moved-from)", memcmp(b.raw, before.raw, sizeof b.raw) == 0);
    }
    // cast converts each coefficient without reordering
    {
      using O = std::conditional_t<std::is_same_v<S, double>, float, double>;
      const auto cv = v.template cast<O>(), cmv = m.template cast<O>(), ccv = cm.template cast<O>();
      bool ok = true;
      for (int i = 0; i < N; ++i) {
        const O e = static_cast<O>(reg[i]);
        if (memcmp(&e, &cv.coeffs()(i), sizeof(O)) || memcmp(&e, &cmv.coeffs()(i), sizeof(O)) || memcmp(&e, &ccv.coeffs()(i), sizeof(O))) ok = false;
      }
      const auto same = m.template cast<S>();
      if (memcmp(same.data(), reg, sizeof(S) * N) != 0) ok = false;
      c.require("cast<S>() converts coefficient-wise in place order", ok);
    }
  }

  void run(int depth)
  {
    // type-level part of "const views never write": a const view must not offer any mutating operation (judged at run
    // time so that a change of the library's traits is reported as a violation of this property, not as a build error)
    mc::explore("C16/types/" + tn, 6, [&](mc::Case & c) {
      static const char * what[6] = {"Map<G> is mutable", "Map<const G> is not mutable", "Map<const G> is not assignable from a value",
        "Map<const G> does not offer *=", "Map<const G> does not offer += tangent", "Map<const G>::coeffs() is read-only"};
      c.desc = [&] { return std::string(what[c.idx]); };
      constexpr bool r[6] = {MG::is_mutable, !CMG::is_mutable, !std::is_assignable_v<CMG &, const G &>,
        !requires(CMG & x, const G & g) { x *= g; }, !requires(CMG & x, const typename G::Tangent & a) { x += a; },
        std::is_const_v<std::remove_reference_t<decltype(std::declval<CMG &>().coeffs())>> || !std::is_lvalue_reference_v<decltype(std::declval<CMG &>().coeffs())>
          || std::is_const_v<std::remove_pointer_t<decltype(std::declval<CMG &>().data())>>};
      c.require(what[c.idx], r[c.idx]);
    });
    const uint64_t nops = ops.size();
    for (int shift : {0, 1}) {
      std::vector<Key> frontier;
      std::unordered_set<uint64_t> seen;
      for (const auto & g : od.g) {
        Key k;
        for (int i = 0; i < N; ++i) k[size_t(i)] = g.coeffs()(i);
        if (seen.insert(hash(k)).second) frontier.push_back(k);
      }
      std::vector<std::vector<std::pair<uint32_t, uint16_t>>> prov(1);
      for (uint32_t i = 0; i < frontier.size(); ++i) prov[0].push_back({i, 0});
      uint64_t total = frontier.size();
      for (int d = 1; d <= depth; ++d) {
        const std::string lo = mc::fmt("C16/observe/%s/%s/depth%d", tn.c_str(), shift ? "scalar-aligned" : "vector-aligned", d - 1);
        auto history = [&](int level, uint32_t idx) {
          std::vector<std::string> names;
          uint32_t p = idx;
          for (int l = level; l >= 1; --l) {
            names.push_back(ops[prov[size_t(l)][p].second].name);
            p = prov[size_t(l)][p].first;
          }
          std::string s = mc::fmt("start=value#%u; ", p);
          for (size_t k = names.size(); k-- > 0;) s += names[k] + "; ";
          return s;
        };
        auto obs = [&](mc::Case & c) {
          c.desc = [&] { return "state after: " + history(d - 1, uint32_t(c.idx)); };
          observe(c, frontier[c.idx], shift);
        };
        if (!(mc::replaying() && mc::replay_label() != lo)) mc::explore(lo, frontier.size(), obs);
        const std::string label = mc::fmt("C16/mutate/%s/%s/depth%d", tn.c_str(), shift ? "scalar-aligned" : "vector-aligned", d);
        const uint64_t n = uint64_t(frontier.size()) * nops;
        std::vector<uint64_t> hs(n);
        auto body = [&](mc::Case & c) {
          const auto & op = ops[c.idx % nops];
          c.desc = [&] { return history(d - 1, uint32_t(c.idx / nops)) + "THEN " + op.name; };
          const Key k = step(&c, frontier[c.idx / nops], op, shift);
          hs[c.idx]   = hash(k);
        };
        if (mc::replaying() && mc::replay_label() != label) {
          for (uint64_t i = 0; i < n; ++i) hs[i] = hash(step(nullptr, frontier[i / nops], ops[i % nops], shift));
        } else {
          mc::explore(label, n, body);
        }
        if (d == depth) break;
        std::vector<Key> next;
        std::vector<std::pair<uint32_t, uint16_t>> pv;
        for (uint64_t i = 0; i < n; ++i) {
          if (!seen.insert(hs[i]).second) continue;
          next.push_back(step(nullptr, frontier[i / nops], ops[i % nops], shift));
          pv.push_back({uint32_t(i / nops), uint16_t(i % nops)});
        }
        frontier.swap(next);
        prov.push_back(pv);
        total += frontier.size();
      }
      mc::note(mc::fmt("bfs %s %s", tn.c_str(), shift ? "scalar-aligned" : "vector-aligned"),
        mc::fmt("{\"depth\": %d, \"operations_per_state\": %llu, \"distinct_states_expanded\": %llu}", depth, (unsigned long long)nops, (unsigned long long)total));
    }
  }
};

}  // namespace c16
