#include "c16.hpp"
using namespace smooth;
template<typename G>
static void se2_parts(c16::Harness<G> & h)
{
  h.addview("r2()", 0, 2, [](const auto & x) { return x.r2().eval(); });
  h.addview("so2()", 2, 2, [](const auto & x) { return x.so2().coeffs().eval(); });
  h.add("m.r2() = value#1.r2()", 0, 2, [](auto & x, const auto & p) { x.r2() = p.g[1].r2(); });
  h.add("m.r2() *= 2", 0, 2, [](auto & x, const auto &) { x.r2() *= 2; });
  h.add("m.r2().setZero()", 0, 2, [](auto & x, const auto &) { x.r2().setZero(); });
  h.add("m.so2() = value#2.so2()", 2, 2, [](auto & x, const auto & p) { x.so2() = p.g[2].so2(); });
  h.add("m.so2() *= value#1.so2()", 2, 2, [](auto & x, const auto & p) { x.so2() *= p.g[1].so2(); });
  h.add("m.so2().setIdentity()", 2, 2, [](auto & x, const auto &) { x.so2().setIdentity(); });
}
template<typename G>
static void se3_parts(c16::Harness<G> & h)
{
  h.addview("r3()", 0, 3, [](const auto & x) { return x.r3().eval(); });
  h.addview("so3()", 3, 4, [](const auto & x) { return x.so3().coeffs().eval(); });
  h.add("m.r3() = value#1.r3()", 0, 3, [](auto & x, const auto & p) { x.r3() = p.g[1].r3(); });
  h.add("m.r3() *= 2", 0, 3, [](auto & x, const auto &) { x.r3() *= 2; });
  h.add("m.r3().setZero()", 0, 3, [](auto & x, const auto &) { x.r3().setZero(); });
  h.add("m.so3() = value#2.so3()", 3, 4, [](auto & x, const auto & p) { x.so3() = p.g[2].so3(); });
  h.add("m.so3() *= value#1.so3()", 3, 4, [](auto & x, const auto & p) { x.so3() *= p.g[1].so3(); });
  h.add("m.so3().setIdentity()", 3, 4, [](auto & x, const auto &) { x.so3().setIdentity(); });
  h.add("m.so3() = m.so3().inverse()", 3, 4, [](auto & x, const auto &) { x.so3() = x.so3().inverse(); });
}
MC_SUBCHECK(se)
{
  const int d = mc::thorough() ? 7 : 5;
  {
    c16::Harness<SE2d> h("SE2d");
    se2_parts(h);
    h.run(d);
  }
  {
    c16::Harness<SE2f> h("SE2f");
    se2_parts(h);
    h.run(d);
  }
  {
    c16::Harness<SE3d> h("SE3d");
    se3_parts(h);
    h.run(d);
  }
}
