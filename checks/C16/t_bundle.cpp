#include "c16.hpp"
using namespace smooth;
MC_SUBCHECK(bundle)
{
  const int d = mc::thorough() ? 7 : 5;
  {
    using G = Bundle<SO3d, Eigen::Vector3d, SE2d>;
    c16::Harness<G> h("Bundle<SO3,T3,SE2>d");
    h.addview("part<0>()", 0, 4, [](const auto & x) { return x.template part<0>().coeffs().eval(); });
    h.addview("part<1>()", 4, 3, [](const auto & x) { return x.template part<1>().eval(); });
    h.addview("part<2>()", 7, 4, [](const auto & x) { return x.template part<2>().coeffs().eval(); });
    h.addview("part<2>().so2()", 9, 2, [](const auto & x) { return x.template part<2>().so2().coeffs().eval(); });
    h.addview("part<2>().r2()", 7, 2, [](const auto & x) { return x.template part<2>().r2().eval(); });
    h.add("m.part<0>() = value#1.part<0>()", 0, 4, [](auto & x, const auto & p) { x.template part<0>() = p.g[1].template part<0>(); });
    h.add("m.part<0>() *= value#2.part<0>()", 0, 4, [](auto & x, const auto & p) { x.template part<0>() *= p.g[2].template part<0>(); });
    h.add("m.part<1>() = value#1.part<1>()", 4, 3, [](auto & x, const auto & p) { x.template part<1>() = p.g[1].template part<1>(); });
    h.add("m.part<1>() *= 2", 4, 3, [](auto & x, const auto &) { x.template part<1>() *= 2; });
    h.add("m.part<2>() = value#2.part<2>()", 7, 4, [](auto & x, const auto & p) { x.template part<2>() = p.g[2].template part<2>(); });
    h.add("m.part<2>().so2() *= value#1.part<2>().so2()", 9, 2, [](auto & x, const auto & p) { x.template part<2>().so2() *= p.g[1].template part<2>().so2(); });
    h.add("m.part<2>().r2() *= 2", 7, 2, [](auto & x, const auto &) { x.template part<2>().r2() *= 2; });
    h.run(d);
  }
  {
    using G = Bundle<Bundle<SO2d, Eigen::Matrix<double, 1, 1>>, SE3d>;
    c16::Harness<G> h("Bundle<Bundle<SO2,T1>,SE3>d");
    h.addview("part<0>()", 0, 3, [](const auto & x) { return x.template part<0>().coeffs().eval(); });
    h.addview("part<0>().part<0>()", 0, 2, [](const auto & x) { return x.template part<0>().template part<0>().coeffs().eval(); });
    h.addview("part<0>().part<1>()", 2, 1, [](const auto & x) { return x.template part<0>().template part<1>().eval(); });
    h.addview("part<1>()", 3, 7, [](const auto & x) { return x.template part<1>().coeffs().eval(); });
    h.addview("part<1>().so3()", 6, 4, [](const auto & x) { return x.template part<1>().so3().coeffs().eval(); });
    h.addview("part<1>().r3()", 3, 3, [](const auto & x) { return x.template part<1>().r3().eval(); });
    h.add("m.part<0>() = value#1.part<0>()", 0, 3, [](auto & x, const auto & p) { x.template part<0>() = p.g[1].template part<0>(); });
    h.add("m.part<0>().part<0>() *= value#2.part<0>().part<0>()", 0, 2, [](auto & x, const auto & p) { x.template part<0>().template part<0>() *= c16::rpart<0>(c16::rpart<0>(p.g[2])); });
    h.add("m.part<0>().part<1>() *= 2", 2, 1, [](auto & x, const auto &) { x.template part<0>().template part<1>() *= 2; });
    h.add("m.part<1>() *= value#1.part<1>()", 3, 7, [](auto & x, const auto & p) { x.template part<1>() *= p.g[1].template part<1>(); });
    h.add("m.part<1>().so3() = value#2.part<1>().so3()", 6, 4, [](auto & x, const auto & p) { x.template part<1>().so3() = p.g[2].template part<1>().so3(); });
    h.run(d);
  }
}
