// C17 — Eigen-isometry and Euler-angle conversions round-trip to the same transformation.
#include "c17.hpp"
using namespace smooth;
using namespace c17;

// ------------------------------------------------------------------ SE3 <-> Eigen::Isometry3
template<typename S>
static void iso3_checks(const std::string & tn)
{
  using G  = SE3<S>;
  using Tr = Eigen::Transform<S, 3, Eigen::Isometry>;
  // Observed worst (thorough): 6.3e-16 (double) / 3.4e-7 (float), relative to max(1, largest entry).
  const double T = is_f<S> ? 1e-4 : 1e-12;
  const auto E   = elements<ref::SE3, S>(AlphaOpts::full().upto(2 * PI + 1e-3));
  mc::explore("C17/isometry/SE3" + tn, E.size(), [&](mc::Case & c) {
    const G g = make<G>(E[c.idx]);
    c.desc    = [&] { return "g=" + vstr(g.coeffs()); };
    c.param("rot", E[c.idx].rot);
    c.param("tm", E[c.idx].tm);
    c.param("pigap", (double)ref::SE3::pi_gap<L>(coeffsL(g).data()));
    const auto M = refmat(g);
    const Tr t3  = g.isometry();
    c.judge("isometry().matrix() = matrix(g)", ref::relerr1<4, 4>(t3.matrix(), M), T);
    const G g2(t3);
    c.judge("SE3(g.isometry()) = g", ref::relerr1(refmat(g2), M), T);
    c.judge("SE3(isometry) unit quaternion", unit_defect(g2.coeffs(), 3, 4), tolU<S>());
    c.require("SE3(isometry) has qw >= 0", g2.coeffs()(6) >= 0);
    // an isometry assembled from the reference matrix itself (entries rounded to the scalar type)
    Tr t;
    t.setIdentity();
    for (int i = 0; i < 3; ++i) {
      for (int j = 0; j < 3; ++j) t.linear()(i, j) = (S)M(i, j);
      t.translation()(i) = (S)M(i, 3);
    }
    const G g3(t);
    c.judge("SE3(T) = T", ref::relerr1(refmat(g3), M), T);
    c.require("SE3(T) has qw >= 0", g3.coeffs()(6) >= 0);
  });
}

// ------------------------------------------------------------------ SE2 <-> Eigen::Isometry2
template<typename S>
static void iso2_checks(const std::string & tn)
{
  using G  = SE2<S>;
  using Tr = Eigen::Transform<S, 2, Eigen::Isometry>;
  // Observed worst: 2.2e-16 (double) / 8.9e-8 (float).
  const double T = is_f<S> ? 1e-4 : 1e-12;
  auto E         = se2_elems<S>(angles_full<S>(), true);
  for (auto & t : tangents<ref::SE2, S>(AlphaOpts::full().upto(2 * PI + 1e-3))) E.push_back({G::exp(make<G>(t)), t.rot, t.tm});
  mc::explore("C17/isometry/SE2" + tn, E.size(), [&](mc::Case & c) {
    const auto & e = E[c.idx];
    c.desc         = [&] { return "g=" + vstr(e.g.coeffs()); };
    c.param("qz", (double)e.g.coeffs()(2));
    c.param("qw", (double)e.g.coeffs()(3));
    c.param("tm", e.tm);
    const auto M = refmat(e.g);
    const Tr t2  = e.g.isometry();
    c.judge("isometry().matrix() = matrix(g)", ref::relerr1<3, 3>(t2.matrix(), M), T);
    const G g2(t2);
    c.judge("SE2(g.isometry()) = g", ref::relerr1(refmat(g2), M), T);
    Tr t;
    t.setIdentity();
    for (int i = 0; i < 2; ++i) {
      for (int j = 0; j < 2; ++j) t.linear()(i, j) = (S)M(i, j);
      t.translation()(i) = (S)M(i, 2);
    }
    const G g3(t);
    c.judge("SE2(T) = T", ref::relerr1(refmat(g3), M), T);
  });
}

// ------------------------------------------------------------------ Euler angles
/// distance (radians) of the rotation matrix from the gimbal-lock set of the convention (i1,i2,i3)
static L gimbal_distance(const Mat<L, 3> & R, int i1, int i3)
{
  if (i1 != i3) {
    // Tait-Bryan: |R(i1,i3)| = |sin(middle angle)|, lock at middle = +-pi/2
    const L s = std::min((L)1, std::fabs(R(i1, i3)));
    return std::acos(s);
  }
  // proper Euler: R(i1,i1) = cos(middle angle), lock at middle = 0 or pi
  const L b = std::acos(std::max((L)-1, std::min((L)1, R(i1, i1))));
  return std::min(b, PIL - b);
}

template<typename S>
static void euler_checks(const std::string & tn)
{
  using G = SO3<S>;
  // Premise: at least 1e-3 rad away from gimbal lock. Error measure: max-abs entry difference of the rotation matrices.
  // Observed worst on the thorough alphabet: 1.6e-15 (double) / 7.9e-7 (float)  ->  100 x worst rounded up.
  const double T        = is_f<S> ? 1e-4 : 1e-12;
  const int conv[3][3]  = {{2, 1, 0}, {0, 1, 2}, {2, 1, 2}};
  const char * cname[3] = {"ZYX", "XYZ", "ZYZ"};
  // outer angles: every stratum once; middle angle: the whole planar alphabet over [-pi, pi] plus points right at the premise boundary
  std::vector<double> outer = angles_reduced<S>();
  std::vector<double> mid;
  for (double t : angles_full<S>())
    if (std::fabs(t) <= PI + 1e-3) mid.push_back(t);
  for (double b : {PI / 2, -PI / 2, 0., PI})
    for (double d : {1.0001e-3, -1.0001e-3, 1.1e-3, -1.1e-3, 2e-3, -2e-3}) push_unique<S>(mid, b + d);
  if (!mc::thorough()) {
    // quick: thin the outer alphabet (multiples of pi/2 with +-1e-5, generic), keep the whole middle alphabet
    std::vector<double> o;
    for (double t : outer) {
      const double k = t / (PI / 2);
      if (std::fabs(k - std::nearbyint(k)) < 1e-4 || std::fabs(std::fabs(t) - 0.3) < 1e-6 || std::fabs(std::fabs(t) - 2) < 1e-6) o.push_back(t);
    }
    outer = o;
  }
  const auto AX = elements<ref::SO3, S>(AlphaOpts::full().upto(2 * PI + 1e-3));

  for (int k = 0; k < 3; ++k) {
    const int i1 = conv[k][0], i2 = conv[k][1], i3 = conv[k][2];
    std::vector<G> Gs;
    std::vector<double> dist;
    auto consider = [&](const G & g) {
      const L d = gimbal_distance(refmat(g), i1, i3);
      if (d >= 1e-3L) {
        Gs.push_back(g);
        dist.push_back((double)d);
      }
    };
    // (i) elements assembled from an Euler triple (quaternion in long double, through the normalising constructor)
    for (double a : outer)
      for (double b : mid)
        for (double cc : outer) {
          const auto Rr = ref::mul(ref::mul(rot_axis(i1, (L)a), rot_axis(i2, (L)b)), rot_axis(i3, (L)cc));
          L q[4];
          ref::quat_from_R(Rr, q);
          consider(G(Eigen::Quaternion<S>((S)q[3], (S)q[0], (S)q[1], (S)q[2])));
        }
    // (ii) the axis-angle element alphabet
    for (auto & e : AX) consider(make<G>(e));

    mc::explore(std::string("C17/euler/") + cname[k] + "/" + tn, Gs.size(), [&](mc::Case & c) {
      const G & g = Gs[c.idx];
      c.desc      = [&] { return "g=" + vstr(g.coeffs()) + mc::fmt(" gimbal distance %.6g", dist[c.idx]); };
      c.param("gimbal", dist[c.idx]);
      c.outcome(dist[c.idx] < 1e-2 ? "gimbal distance < 1e-2" : "gimbal distance >= 1e-2");
      const auto M = refmat(g);
      const Eigen::Matrix<S, 3, 1> ea = (i1 == 2 && i2 == 1 && i3 == 0) ? g.eulerAngles() : g.eulerAngles(i1, i2, i3);
      const auto Rr = ref::mul(ref::mul(rot_axis(i1, (L)ea(0)), rot_axis(i2, (L)ea(1))), rot_axis(i3, (L)ea(2)));
      c.judge("Rot_i1(a1) Rot_i2(a2) Rot_i3(a3) = matrix(g)", ref::relerr1(Rr, M), T);
      auto rot = [](int ax, S t) { return ax == 0 ? G::rot_x(t) : (ax == 1 ? G::rot_y(t) : G::rot_z(t)); };
      const G back = rot(i1, ea(0)) * rot(i2, ea(1)) * rot(i3, ea(2));
      c.judge("rot_i1(a1)*rot_i2(a2)*rot_i3(a3) = g", ref::relerr1(refmat(back), M), T);
      c.require("SO3 from Euler angles has qw >= 0", back.coeffs()(3) >= 0);
    });
  }
}

MC_SUBCHECK(isometry)
{
  iso3_checks<double>("d");
  iso3_checks<float>("f");
  iso2_checks<double>("d");
  iso2_checks<float>("f");
}
MC_SUBCHECK(euler)
{
  selfchecks();
  {
    // gimbal_distance on constructed cases
    const auto A = ref::mul(ref::mul(rot_axis(2, 0.7L), rot_axis(1, PIL / 2 - 0.01L)), rot_axis(0, -1.1L));
    const auto B = ref::mul(ref::mul(rot_axis(2, 0.7L), rot_axis(1, 0.02L)), rot_axis(2, -1.1L));
    mc::selfcheck("gimbal_distance", std::fabs(gimbal_distance(A, 2, 0) - 0.01L) < 1e-15 && std::fabs(gimbal_distance(B, 2, 2) - 0.02L) < 1e-15);
  }
  euler_checks<double>("SO3d");
  euler_checks<float>("SO3f");
}
