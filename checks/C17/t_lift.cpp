// C17 — lift_so3 / lift_se3 are injective homomorphisms inverted by project_so2 / project_se2.
// Oracle: the documented embedding "rotation about the z axis" at matrix level, on stored coefficients:
//   M(lift_so3 x) = diag(M(x), 1),  M(lift_se3 x) = [[R2, 0, t], [0, 1, 0], [0, 0, 1]].
// Homomorphism on all ordered pairs (library composition on both sides, and against the long double product),
// project(lift(x)) = x for every element and every way of producing it, injectivity on all pairs.
#include "c17.hpp"
using namespace smooth;
using namespace c17;

// Tolerance T = 1e-12 (double) / 1e-4 (float), relative to max(1, largest entry) resp. the forward-error scale |M1||M2|
// for products = max(100 x worst observed, 64 eps) rounded up. Observed worst on the thorough alphabet (double / float):
// lift 4.5e-16 / 1.7e-7, project(lift) 3.9e-16 / 1.8e-7, homomorphism 1.3e-15 / 6.1e-7, injectivity 7.3e-16 / 3.1e-7.
template<typename S>
constexpr double tolL()
{
  return is_f<S> ? 1e-4 : 1e-12;
}

template<typename S>
static void so2_checks(const std::string & tn)
{
  const double T = tolL<S>();
  const auto E   = so2_elems<S>(angles_full<S>(), true);
  mc::explore("C17/lift_so3/unary/" + tn, E.size(), [&](mc::Case & c) {
    const auto & e = E[c.idx];
    c.desc         = [&] { return so2_desc(e); };
    c.param("qz", (double)e.g.coeffs()(0));
    c.param("qw", (double)e.g.coeffs()(1));
    const auto M2 = refmat(e.g);
    const SO3<S> l = e.g.lift_so3();
    c.outcome(e.g.coeffs()(0) < 0 ? "yaw<0" : "yaw>=0");
    c.judge("lift_so3(x) = Rz(x)", ref::relerr1(refmat(l), embed_so2(M2)), T);
    c.judge("lift_so3(x) unit quaternion", unit_defect(l.coeffs(), 0, 4), tolU<S>());
    c.require("lift_so3(x) has qw >= 0", l.coeffs()(3) >= 0);
    const SO2<S> p = l.project_so2();
    c.judge("project_so2(lift_so3(x)) = x", ref::relerr1(refmat(p), M2), T);
    c.judge("project_so2(lift_so3(x)) unit", unit_defect(p.coeffs(), 0, 2), tolU<S>());
  });

  const auto P = so2_elems<S>(angles_full<S>(), false);
  std::vector<SO3<S>> Ls;
  std::vector<Mat<L, 2>> M2s;
  std::vector<Mat<L, 3>> M3s;
  for (auto & e : P) {
    Ls.push_back(e.g.lift_so3());
    M2s.push_back(refmat(e.g));
    M3s.push_back(refmat(Ls.back()));
  }
  const uint64_t n = P.size();
  mc::explore("C17/lift_so3/pairs/" + tn, n * n, [&](mc::Case & c) {
    const uint64_t i = c.idx / n, j = c.idx % n;
    c.desc = [&, i, j] { return "x: " + so2_desc(P[i]) + "  y: " + so2_desc(P[j]); };
    const SO2<S> xy = P[i].g * P[j].g;
    const SO3<S> a  = xy.lift_so3();
    const SO3<S> b  = Ls[i] * Ls[j];
    c.judge("lift_so3(x*y) = lift_so3(x)*lift_so3(y)", ref::relerr1(refmat(a), refmat(b)), T);
    c.judge("lift_so3(x*y) = Rz(M(x)M(y))", ref::relerr1(refmat(a), embed_so2(ref::mul(M2s[i], M2s[j]))), T);
    const double d2 = (double)(M2s[i] - M2s[j]).maxabs(), d3 = (double)(M3s[i] - M3s[j]).maxabs();
    c.outcome(d2 == 0 ? "x=y" : "x!=y");
    c.judge("injective: |lift x - lift y| >= |x - y|", std::max(0.0, d2 - d3), T);
  });
}

template<typename S>
static void se2_checks(const std::string & tn)
{
  const double T = tolL<S>();
  // elements given by coefficients and elements produced by SE2::exp
  auto E = se2_elems<S>(angles_full<S>(), mc::thorough());
  {
    for (auto & t : tangents<ref::SE2, S>(AlphaOpts::full().upto(2 * PI + 1e-3))) E.push_back({SE2<S>::exp(make<SE2<S>>(t)), t.rot, t.tm});
  }
  mc::explore("C17/lift_se3/unary/" + tn, E.size(), [&](mc::Case & c) {
    const auto & e = E[c.idx];
    c.desc         = [&] { return "SE2 " + vstr(e.g.coeffs()); };
    c.param("qz", (double)e.g.coeffs()(2));
    c.param("qw", (double)e.g.coeffs()(3));
    c.param("tm", e.tm);
    const auto M3  = refmat(e.g);
    const SE3<S> l = e.g.lift_se3();
    c.judge("lift_se3(x) = embedding", ref::relerr1(refmat(l), embed_se2(M3)), T);
    c.judge("lift_se3(x) unit quaternion", unit_defect(l.coeffs(), 3, 4), tolU<S>());
    c.require("lift_se3(x) has qw >= 0", l.coeffs()(6) >= 0);
    const SE2<S> p = l.project_se2();
    c.judge("project_se2(lift_se3(x)) = x", ref::relerr1(refmat(p), M3), T);
    c.judge("project_se2(lift_se3(x)) unit", unit_defect(p.coeffs(), 2, 2), tolU<S>());
  });

  const auto P = se2_elems<S>(mc::thorough() ? angles_full<S>() : angles_reduced<S>(), mc::thorough());
  std::vector<SE3<S>> Ls;
  std::vector<Mat<L, 3>> M3s, A3s;
  std::vector<Mat<L, 4>> M4s;
  for (auto & e : P) {
    Ls.push_back(e.g.lift_se3());
    M3s.push_back(refmat(e.g));
    A3s.push_back(ref::cabs(M3s.back()));
    M4s.push_back(refmat(Ls.back()));
  }
  const uint64_t n = P.size();
  mc::explore("C17/lift_se3/pairs/" + tn, n * n, [&](mc::Case & c) {
    const uint64_t i = c.idx / n, j = c.idx % n;
    c.desc = [&, i, j] { return "x=" + vstr(P[i].g.coeffs()) + " y=" + vstr(P[j].g.coeffs()); };
    c.param("tm", std::max(P[i].tm, P[j].tm));
    const SE2<S> xy = P[i].g * P[j].g;
    const SE3<S> a  = xy.lift_se3();
    const SE3<S> b  = Ls[i] * Ls[j];
    const L sc      = ref::mul(A3s[i], A3s[j]).maxabs();  // products may cancel: forward-error scale |M1||M2|
    c.judge("lift_se3(x*y) = lift_se3(x)*lift_se3(y)", ref::relerr_scaled(refmat(a), refmat(b), sc), T);
    c.judge("lift_se3(x*y) = embedding(M(x)M(y))", ref::relerr_scaled(refmat(a), embed_se2(ref::mul(M3s[i], M3s[j])), sc), T);
    const double d3 = (double)(M3s[i] - M3s[j]).maxabs(), d4 = (double)(M4s[i] - M4s[j]).maxabs();
    c.outcome(d3 == 0 ? "x=y" : "x!=y");
    c.judge("injective: |lift x - lift y| >= |x - y|", std::max(0.0, d3 - d4) / std::max(1.0, d3), T);
  });
}

MC_SUBCHECK(lift_so3)
{
  so2_checks<double>("d");
  so2_checks<float>("f");
}
MC_SUBCHECK(lift_se3)
{
  se2_checks<double>("d");
  se2_checks<float>("f");
}
