// C17 — relations and conversions between groups hold for all elements.
// Shared pieces: planar-angle alphabet (DESIGN 3.2), SO2 / SE2 element alphabets incl. signed-zero coefficient
// pairs, reference rotations in long double, error measures.
// Oracles are the documented matrix forms evaluated on the *stored* coefficients (mcb::Ref<G>::matrix), closed
// forms / expm in long double, and plain range predicates. Relations between two library paths are only used where
// the statement itself is such a relation ("SE_K_3<1> coincides with SE3", "lift is a homomorphism").
#pragma once
#include "bind.hpp"

#include <complex>
#include <limits>

#include <Eigen/Geometry>

namespace c17 {
using namespace mcb;

static const L PIL = 3.14159265358979323846264338327950288L;

template<typename S>
constexpr bool is_f = std::is_same_v<S, float>;

/// tolerance of matrix-level agreement: max-abs difference / max(1, max-abs reference entry)
/// (the bound of C01 for the same kind of quantity; observed worst values are listed next to each use)
template<typename S>
constexpr double tolM()
{
  return is_f<S> ? 1e-5 : 1e-12;
}
template<typename S>
constexpr double epsS()
{
  return (double)std::numeric_limits<S>::epsilon();
}
/// "is normalised": | |q| - 1 | resp. relative error of a norm. Observed worst on the thorough alphabet 2.0e-16 (double),
/// 9.0e-8 (float)  ->  max(100 x worst, 64 eps) = 128 eps rounded up to a power of two
template<typename S>
constexpr double tolU()
{
  return 128 * epsS<S>();
}

// ------------------------------------------------------------------ planar angle alphabet
template<typename S>
void push_unique(std::vector<double> & v, double x)
{
  const double r = (double)(S)x;
  for (double y : v)
    if (std::memcmp(&y, &r, sizeof(double)) == 0) return;
  v.push_back(r);
}

/// multiples of pi/8 over [-2pi, 2pi], each +- {0, 1 ulp, 1e-9, 1e-5, 1e-3}, plus +-(Theta ∩ [0, 2pi]);
/// extended: also +-(2pi+1e-3), +-10, +-50 (for relations that are claimed for every real angle)
template<typename S>
std::vector<double> angles_full(bool extended = false)
{
  std::vector<double> v;
  for (int k = -16; k <= 16; ++k) {
    const S b = (S)(k * PIL / 8);
    push_unique<S>(v, (double)b);
    push_unique<S>(v, (double)std::nextafter(b, (S)100));
    push_unique<S>(v, (double)std::nextafter(b, (S)-100));
    for (double d : {1e-9, 1e-5, 1e-3}) {
      push_unique<S>(v, (double)(S)((L)b + d));
      push_unique<S>(v, (double)(S)((L)b - d));
    }
  }
  for (double t : thetas_full()) {
    if (t > 2 * PI && !extended) continue;
    push_unique<S>(v, t);
    push_unique<S>(v, -t);
  }
  return v;
}
/// every stratum once (multiples of pi/4 over [-pi,pi] with +- {0, 1 ulp, 1e-5}, small / generic angles)
template<typename S>
std::vector<double> angles_reduced()
{
  std::vector<double> v;
  for (int k = -4; k <= 4; ++k) {
    const S b = (S)(k * PIL / 4);
    push_unique<S>(v, (double)b);
    push_unique<S>(v, (double)std::nextafter(b, (S)100));
    push_unique<S>(v, (double)std::nextafter(b, (S)-100));
    push_unique<S>(v, (double)(S)((L)b + 1e-5));
    push_unique<S>(v, (double)(S)((L)b - 1e-5));
  }
  for (double t : {1e-9, 9.9e-5, 1.0001e-4, 0.3, 2., PI - 1e-3, 4., 2 * PI - 1e-3, 2 * PI}) {
    push_unique<S>(v, t);
    push_unique<S>(v, -t);
  }
  return v;
}
/// coefficient pairs (qz, qw) with signed zeros, written directly into storage
inline std::vector<std::array<double, 2>> signed_zero_pairs()
{
  return {{+0., +1.}, {-0., +1.}, {+0., -1.}, {-0., -1.}, {+1., +0.}, {+1., -0.}, {-1., +0.}, {-1., -0.}};
}

// ------------------------------------------------------------------ SO2 / SE2 element alphabets
enum Kind { kCoeffs = 0, kCtorAngle, kExp, kCtorPair, kCtorComplex, kSignedZero, kSignedZeroCtor, kNKinds };
inline const char * kind_name(int k)
{
  static const char * n[] = {"coeffs=(sinl,cosl)", "SO2(angle)", "SO2::exp", "SO2(qz,qw)", "SO2(complex)", "coeffs=signed-zero pair",
    "SO2(qz,qw) signed-zero pair"};
  return n[k];
}
template<typename S>
struct E2
{
  smooth::SO2<S> g;
  double t;  ///< generating angle (NaN for coefficient pairs)
  int kind;
};
template<typename S>
std::vector<E2<S>> so2_elems(const std::vector<double> & angles, bool allkinds)
{
  using G = smooth::SO2<S>;
  std::vector<E2<S>> v;
  for (double t : angles) {
    const S sn = (S)std::sin((L)t), cs = (S)std::cos((L)t);
    {
      G g;
      g.coeffs() << sn, cs;
      v.push_back({g, t, kCoeffs});
    }
    if (!allkinds) continue;
    v.push_back({G((S)t), t, kCtorAngle});
    v.push_back({G::exp(Eigen::Matrix<S, 1, 1>((S)t)), t, kExp});
    v.push_back({G(sn, cs), t, kCtorPair});
    v.push_back({G(std::complex<S>(cs, sn)), t, kCtorComplex});
  }
  for (auto & p : signed_zero_pairs()) {
    G g;
    g.coeffs() << (S)p[0], (S)p[1];
    v.push_back({g, std::nan(""), kSignedZero});
    if (allkinds) v.push_back({G((S)p[0], (S)p[1]), std::nan(""), kSignedZeroCtor});
  }
  return v;
}
template<typename S>
std::string so2_desc(const E2<S> & e)
{
  return std::string("SO2 ") + vstr(e.g.coeffs()) + " via " + kind_name(e.kind) + (e.t == e.t ? mc::fmt(" t=%a ~ %.17g", e.t, e.t) : std::string());
}

template<typename S>
struct E3
{
  smooth::SE2<S> g;
  double t;
  double tm;
};
/// SE2 elements: every SO2 element (direct coefficients + signed-zero pairs) x translations
template<typename S>
std::vector<E3<S>> se2_elems(const std::vector<double> & angles, bool more_dirs)
{
  std::vector<E3<S>> v;
  std::vector<std::array<double, 2>> dirs = {{1, 0}, {-0.6, 0.8}};
  if (more_dirs) dirs.push_back({0, -1});
  for (auto & e : so2_elems<S>(angles, false)) {
    v.push_back({smooth::SE2<S>(e.g, Eigen::Matrix<S, 2, 1>(S(0), S(0))), e.t, 0});
    for (double m : {1e-3, 1., 1e3})
      for (auto & d : dirs) v.push_back({smooth::SE2<S>(e.g, Eigen::Matrix<S, 2, 1>((S)(m * d[0]), (S)(m * d[1]))), e.t, m});
  }
  return v;
}

// ------------------------------------------------------------------ reference helpers
/// stored coefficients -> documented matrix
template<typename G>
auto refmat(const G & g)
{
  using R = Ref<G>;
  return R::template matrix<L>(coeffsL(g).data());
}
/// z-axis embedding of a planar rotation / planar rigid motion
inline Mat<L, 3> embed_so2(const Mat<L, 2> & m)
{
  Mat<L, 3> r = Mat<L, 3>::Id();
  for (int i = 0; i < 2; ++i)
    for (int j = 0; j < 2; ++j) r(i, j) = m(i, j);
  return r;
}
inline Mat<L, 4> embed_se2(const Mat<L, 3> & m)
{
  Mat<L, 4> r = Mat<L, 4>::Id();
  for (int i = 0; i < 2; ++i) {
    for (int j = 0; j < 2; ++j) r(i, j) = m(i, j);
    r(i, 3) = m(i, 2);
  }
  return r;
}
/// rotation by t about coordinate axis i (closed form, long double)
inline Mat<L, 3> rot_axis(int i, L t)
{
  Mat<L, 3> r = Mat<L, 3>::Id();
  const int j = (i + 1) % 3, k = (i + 2) % 3;
  const L c = std::cos(t), s = std::sin(t);
  r(j, j) = c;
  r(k, k) = c;
  r(k, j) = s;
  r(j, k) = -s;
  return r;
}
/// rotation matrix of a not necessarily unit quaternion (x,y,z,w): R(q/|q|)
inline Mat<L, 3> rot_of_quat(const L * q)
{
  const L n = std::sqrt(q[0] * q[0] + q[1] * q[1] + q[2] * q[2] + q[3] * q[3]);
  L u[4]    = {q[0] / n, q[1] / n, q[2] / n, q[3] / n};
  return ref::quatR(u);
}
/// entry-wise comparison of two library results (Eigen objects of equal shape): max|a-b| / max(1, max|b|)
template<typename A, typename B>
double reldiff(const A & a, const B & b)
{
  L e = 0, m = 1;
  for (Eigen::Index i = 0; i < b.rows(); ++i)
    for (Eigen::Index j = 0; j < b.cols(); ++j) {
      const L d = std::fabs((L)a(i, j) - (L)b(i, j));
      if (!(d == d)) return INFINITY;
      e = std::max(e, d);
      m = std::max(m, std::fabs((L)b(i, j)));
    }
  return (double)(e / m);
}
/// ... / largest entry of b
template<typename A, typename B>
double reldiff_big(const A & a, const B & b)
{
  L e = 0, m = 0;
  for (Eigen::Index i = 0; i < b.rows(); ++i)
    for (Eigen::Index j = 0; j < b.cols(); ++j) {
      const L d = std::fabs((L)a(i, j) - (L)b(i, j));
      if (!(d == d)) return INFINITY;
      e = std::max(e, d);
      m = std::max(m, std::fabs((L)b(i, j)));
    }
  if (m == 0) return e == 0 ? 0.0 : INFINITY;
  return (double)(e / m);
}
/// | |q| - 1 | of the last four / two coefficients
template<typename V>
double unit_defect(const V & c, int off, int n)
{
  L s = 0;
  for (int i = 0; i < n; ++i) s += (L)c(off + i) * (L)c(off + i);
  return (double)std::fabs(std::sqrt(s) - 1);
}
/// distance to the nearest multiple of 2 pi
inline double mod2pi_dist(L d)
{
  const L k = std::nearbyint(d / (2 * PIL));
  return (double)std::fabs(d - 2 * PIL * k);
}
/// oracle self-checks shared by the sub-checks that use rot_axis / expm
inline void selfchecks()
{
  bool ok = true;
  for (int i = 0; i < 3; ++i)
    for (L t : {0.0L, 1e-9L, 0.3L, -2.0L, 3.14159L, 6.5L, -50.0L}) {
      L a[3] = {0, 0, 0};
      a[i]   = t;
      ok     = ok && ref::relerr1(rot_axis(i, t), ref::exp_ref<ref::SO3>(a)) < 1e-17;
    }
  mc::selfcheck("rot_axis closed form = expm(hat(t e_i))", ok);
  L q[4] = {0.36L * 7, -0.48L * 7, 0.8L * 7 * 0.6L, 0.8L * 7};
  auto Rq = rot_of_quat(q);
  mc::selfcheck("rot_of_quat orthonormal", ref::relerr1(ref::mul(Rq, Rq.T()), Mat<L, 3>::Id()) < 1e-18);
  L qc[4];
  ref::quat_from_R(Rq, qc);
  mc::selfcheck("quat_from_R inverts quatR", ref::relerr1(ref::quatR(qc), Rq) < 1e-18 && qc[3] >= 0);
}

}  // namespace c17
