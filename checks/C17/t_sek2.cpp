// C17 — SE_K_3<S,2> is the zero-time subgroup of Galilei<S>.
// Embedding (from the two documentation blocks): SE_2_3 coefficients [p1, p2, q] -> Galilei [v=p1, p=p2, t=0, q];
// tangents [v1, v2, w] -> [b=v1, t=v2, s=0, w]; with t = 0 both documented 5x5 matrices are literally the same.
// Closure: inverse / product / exp (and log, Ad, ad, exp-Jacobians restricted to the sub-algebra) of zero-time
// arguments stay zero-time (time coefficient exactly 0: it is only ever 0+0, -0 or a copy) and agree with SE_2_3.
#include "c17.hpp"
using namespace smooth;
using namespace c17;

static const int SUB[9] = {0, 1, 2, 3, 4, 5, 7, 8, 9};  // Galilei tangent indices of the zero-time sub-algebra

template<typename S>
static Galilei<S> embed(const SE_K_3<S, 2> & h)
{
  Galilei<S> g;
  g.coeffs().template segment<3>(0) = h.coeffs().template segment<3>(0);  // v = p1
  g.coeffs().template segment<3>(3) = h.coeffs().template segment<3>(3);  // p = p2
  g.coeffs()(6)                     = S(0);                               // t
  g.coeffs().template tail<4>()     = h.coeffs().template tail<4>();      // q
  return g;
}
template<typename S>
static Eigen::Matrix<S, 10, 1> embed_tangent(const Eigen::Matrix<S, 9, 1> & a)
{
  Eigen::Matrix<S, 10, 1> r;
  r.setZero();
  for (int i = 0; i < 9; ++i) r(SUB[i]) = a(i);
  return r;
}
template<typename M>
static auto restrict_mat(const M & A)
{
  Eigen::Matrix<typename M::Scalar, 9, 9> r;
  for (int i = 0; i < 9; ++i)
    for (int j = 0; j < 9; ++j) r(i, j) = A(SUB[i], SUB[j]);
  return r;
}
template<typename V>
static auto restrict_vec(const V & a)
{
  Eigen::Matrix<typename V::Scalar, 9, 1> r;
  for (int i = 0; i < 9; ++i) r(i) = a(SUB[i]);
  return r;
}
/// largest |A(6, j)|, j in the sub-algebra, relative to max(1, largest entry of A): a linear map that preserves the
/// sub-algebra has zeros there (structural zeros in the present code: observed 0; judged with the matrix tolerance)
template<typename M>
static double time_row(const M & A)
{
  double m = 0;
  for (int j = 0; j < 9; ++j) {
    const double x = std::fabs((double)A(6, SUB[j]));
    if (!(x == x)) return INFINITY;
    m = std::max(m, x);
  }
  return m / std::max(1.0, (double)A.cwiseAbs().maxCoeff());
}

template<typename S>
static void run(const std::string & tn)
{
  using G  = Galilei<S>;
  using H  = SE_K_3<S, 2>;
  using RH = ref::SEK3<2>;
  // Two different implementations (Galilei: S1/S2/Q/R closed forms; SE_K_3: Ad * dr_exp): tolerances calibrated as
  // max(100 x worst observed on the thorough alphabet, 64 eps), rounded up; observed worst (double / float):
  const double T    = tolM<S>();                 // inverse, product, Ad, ad, hat: 0 / 0 (same expressions)
  const double Texp = is_f<S> ? 1e-4 : 1e-12;    // exp 1.3e-15 / 5.0e-7 (forward-error scale), log 3.1e-16 / 9.5e-8
  const double Tjac = is_f<S> ? 1e-4 : 1e-12;    // Jacobians, relative to the largest entry: 3.8e-16 / 1.6e-7
  const double band = is_f<S> ? 1e-2 : 1e-5;     // C02's band around pi, where log is ill-conditioned

  const auto E = elements<RH, S>(AlphaOpts::full().upto(2 * PI + 1e-3));
  mc::explore("C17/sek2-galilei/unary/" + tn, E.size(), [&](mc::Case & c) {
    const H h = make<H>(E[c.idx]);
    const G g = embed(h);
    c.desc    = [&] { return "h=" + vstr(h.coeffs()); };
    c.param("rot", E[c.idx].rot);
    c.param("tm", E[c.idx].tm);
    const double gap = (double)RH::template pi_gap<L>(coeffsL(h).data());
    c.param("pigap", gap);
    c.judge("embedding: same matrix", ref::relerr1(refmat(g), refmat(h)), 0.0);
    const G gi = g.inverse();
    c.judge("time(inverse)=0", std::fabs((double)gi.coeffs()(6)), 0.0);
    c.judge("inverse", ref::relerr1(refmat(gi), refmat(h.inverse())), T);
    const auto lg = g.log();
    c.judge("time(log)=0", std::fabs((double)lg(6)), 0.0);
    if (gap > band) {
      c.outcome("log outside pi band");
      c.judge("log", reldiff(restrict_vec(lg), h.log()), Texp);
    } else {
      c.outcome("log inside pi band (not compared)");
    }
    const auto AG = g.Ad();
    c.judge("Ad restricted", reldiff_big(restrict_mat(AG), h.Ad()), T);
    c.judge("Ad keeps sub-algebra", time_row(AG), T);
  });

  const auto Ts = tangents<RH, S>(AlphaOpts::full());
  mc::explore("C17/sek2-galilei/tangent/" + tn, Ts.size(), [&](mc::Case & c) {
    const auto & t = Ts[c.idx];
    const Eigen::Matrix<S, 9, 1> a  = make<H>(t);
    const Eigen::Matrix<S, 10, 1> A = embed_tangent<S>(a);
    c.desc                          = [&] { return "a=" + vstr(a); };
    c.param("rot", t.rot);
    c.param("tm", t.tm);
    c.outcome(t.rot < PI - 1e-3 ? "rot<pi-1e-3" : "rot>=pi-1e-3");
    const G g = G::exp(A);
    const H h = H::exp(a);
    c.judge("time(exp)=0", std::fabs((double)g.coeffs()(6)), 0.0);
    // translation parts are V(w) v with |V| <= 1: they cancel for |w| near 2 pi, forward-error scale max(1, |a|_max)
    L amax = 1;
    for (int i = 0; i < 9; ++i) amax = std::max(amax, std::fabs((L)a(i)));
    c.judge("exp", ref::relerr_scaled(refmat(g), refmat(h), std::max(amax, refmat(h).maxabs())), Texp);
    c.judge("hat", reldiff(G::hat(A), H::hat(a)), T);
    const auto adG = G::ad(A);
    c.judge("ad restricted", reldiff(restrict_mat(adG), H::ad(a)), T);
    c.judge("ad keeps sub-algebra", time_row(adG), T);
    const auto JG = G::dr_exp(A);
    c.judge("dr_exp restricted", reldiff_big(restrict_mat(JG), H::dr_exp(a)), Tjac);
    c.judge("dr_exp keeps sub-algebra", time_row(JG), Tjac);
    c.judge("dl_exp restricted", reldiff_big(restrict_mat(G::dl_exp(A)), H::dl_exp(a)), Tjac);
    if (t.rot <= PI - 1e-3) {
      const auto KG = G::dr_expinv(A);
      c.judge("dr_expinv restricted", reldiff_big(restrict_mat(KG), H::dr_expinv(a)), Tjac);
      c.judge("dr_expinv keeps sub-algebra", time_row(KG), Tjac);
      c.judge("dl_expinv restricted", reldiff_big(restrict_mat(G::dl_expinv(A)), H::dl_expinv(a)), Tjac);
    }
  });

  std::vector<G> Gs;
  std::vector<H> Hs;
  std::vector<Mat<L, 5>> As;
  const auto Ep = elements<RH, S>(AlphaOpts::full().upto(PI + 1e-3));
  for (auto & e : Ep) {
    Hs.push_back(make<H>(e));
    Gs.push_back(embed(Hs.back()));
    As.push_back(ref::cabs(refmat(Hs.back())));
  }
  const uint64_t n = Ep.size();
  mc::explore("C17/sek2-galilei/compose/" + tn, n * n, [&](mc::Case & c) {
    const uint64_t i = c.idx / n, j = c.idx % n;
    c.desc = [&, i, j] { return "h1=" + vstr(Hs[i].coeffs()) + " h2=" + vstr(Hs[j].coeffs()); };
    c.param("rot", std::max(Ep[i].rot, Ep[j].rot));
    c.param("tm", std::max(Ep[i].tm, Ep[j].tm));
    const G p = Gs[i] * Gs[j];
    const H q = Hs[i] * Hs[j];
    c.judge("time(g1*g2)=0", std::fabs((double)p.coeffs()(6)), 0.0);
    const L sc = ref::mul(As[i], As[j]).maxabs();
    c.judge("g1*g2", ref::relerr_scaled(refmat(p), refmat(q), sc), T);
  });
}

MC_SUBCHECK(sek2_galilei_d) { run<double>("d"); }
MC_SUBCHECK(sek2_galilei_f) { run<float>("f"); }
