// C17 — SE_K_3<S,1> coincides with SE3<S> operation for operation.
// The coefficient / tangent layouts are documented as [p, q] / [v, w] for both, so the re-layout is the identity map
// (relayout() below is the single place that encodes it). Every operation of C01–C04 is executed on both types for
// every alphabet element / tangent / ordered pair and the results are compared: group-valued results through the
// documented matrix of the stored coefficients (q and -q are the same element), vector/matrix-valued results entry-wise.
#include "c17.hpp"
using namespace smooth;
using namespace c17;

template<typename S>
static SE_K_3<S, 1> relayout(const SE3<S> & g)
{
  SE_K_3<S, 1> h;
  h.coeffs().template head<3>() = g.coeffs().template head<3>();  // p
  h.coeffs().template tail<4>() = g.coeffs().template tail<4>();  // q
  return h;
}

template<typename S>
static void run(const std::string & tn)
{
  using G = SE3<S>;
  using H = SE_K_3<S, 1>;
  using R = ref::SEK3<1>;
  static_assert(std::is_same_v<Ref<G>, R> && std::is_same_v<Ref<H>, R>);
  // bound: relative 1e-12 (double) / 1e-5 (float). Observed worst over the thorough alphabet: 0 for every judgement
  // (the two implementations evaluate the same expressions), so this is also >= max(100 x worst, 64 eps).
  const double T = tolM<S>();

  // ---- elements: inverse, log, Ad, matrix
  const auto E = elements<R, S>(AlphaOpts::full().upto(2 * PI + 1e-3));
  mc::explore("C17/sek1-se3/unary/" + tn, E.size(), [&](mc::Case & c) {
    const G g = make<G>(E[c.idx]);
    const H h = relayout(g);
    c.desc    = [&] { return "g=" + vstr(g.coeffs()); };
    c.param("rot", E[c.idx].rot);
    c.param("tm", E[c.idx].tm);
    c.judge("matrix()", reldiff(h.matrix(), g.matrix()), T);
    c.judge("inverse", ref::relerr1(refmat(h.inverse()), refmat(g.inverse())), T);
    c.judge("log", reldiff(h.log(), g.log()), T);
    c.judge("Ad", reldiff(h.Ad(), g.Ad()), T);
    G gi = G::Identity();
    H hi = H::Identity();
    c.judge("Identity", ref::relerr1(refmat(hi), refmat(gi)), 0.0);
  });

  // ---- tangents: exp, hat, vee, ad, dr_exp, dl_exp, (dr_expinv, dl_expinv up to pi - 1e-3)
  const auto Ts = tangents<R, S>(AlphaOpts::full());
  mc::explore("C17/sek1-se3/tangent/" + tn, Ts.size(), [&](mc::Case & c) {
    const auto & t = Ts[c.idx];
    const auto a   = make<G>(t);
    c.desc         = [&] { return "a=" + vstr(a); };
    c.param("rot", t.rot);
    c.param("tm", t.tm);
    c.outcome(t.rot < PI - 1e-3 ? "rot<pi-1e-3" : "rot>=pi-1e-3");
    const G g = G::exp(a);
    const H h = H::exp(a);
    // translation part is V(w) v with |V| <= 1: it cancels for |w| near 2 pi, forward-error scale max(1, |a|_max)
    L amax = 1;
    for (int i = 0; i < 6; ++i) amax = std::max(amax, std::fabs((L)a(i)));
    c.judge("exp", ref::relerr_scaled(refmat(h), refmat(g), std::max(amax, refmat(g).maxabs())), T);
    c.judge("log(exp)", reldiff(h.log(), g.log()), T);
    c.judge("hat", reldiff(H::hat(a), G::hat(a)), T);
    c.judge("vee(hat)", reldiff(H::vee(H::hat(a)), G::vee(G::hat(a))), T);
    c.judge("ad", reldiff(H::ad(a), G::ad(a)), T);
    c.judge("dr_exp", reldiff_big(H::dr_exp(a), G::dr_exp(a)), T);
    c.judge("dl_exp", reldiff_big(H::dl_exp(a), G::dl_exp(a)), T);
    if (t.rot <= PI - 1e-3) {
      // the inverse Jacobians are only meaningful away from the singularities of dr_exp (C04: up to pi - 1e-3)
      c.judge("dr_expinv", reldiff_big(H::dr_expinv(a), G::dr_expinv(a)), T);
      c.judge("dl_expinv", reldiff_big(H::dl_expinv(a), G::dl_expinv(a)), T);
    }
  });

  // ---- all ordered pairs: composition, *=
  std::vector<G> Gs;
  std::vector<H> Hs;
  std::vector<Mat<L, 4>> As;
  const auto Ep = elements<R, S>(AlphaOpts::full().upto(PI + 1e-3));
  for (auto & e : Ep) {
    Gs.push_back(make<G>(e));
    Hs.push_back(relayout(Gs.back()));
    As.push_back(ref::cabs(refmat(Gs.back())));
  }
  const uint64_t n = Ep.size();
  mc::explore("C17/sek1-se3/compose/" + tn, n * n, [&](mc::Case & c) {
    const uint64_t i = c.idx / n, j = c.idx % n;
    c.desc = [&, i, j] { return "g1=" + vstr(Gs[i].coeffs()) + " g2=" + vstr(Gs[j].coeffs()); };
    c.param("rot", std::max(Ep[i].rot, Ep[j].rot));
    c.param("tm", std::max(Ep[i].tm, Ep[j].tm));
    if (i == j) c.outcome("g*g");
    const G p   = Gs[i] * Gs[j];
    const H q   = Hs[i] * Hs[j];
    const auto Mp = refmat(p);
    // the product may cancel: both are roundings of the same exact product, scale |M1||M2| (as in C01)
    const L sc = ref::mul(As[i], As[j]).maxabs();
    c.judge("g1*g2", ref::relerr_scaled(refmat(q), Mp, sc), T);
    G p2 = Gs[i];
    p2 *= Gs[j];
    H q2 = Hs[i];
    q2 *= Hs[j];
    c.judge("g1*=g2", ref::relerr_scaled(refmat(q2), refmat(p2), sc), T);
  });
}

MC_SUBCHECK(sek1_se3_d) { run<double>("d"); }
MC_SUBCHECK(sek1_se3_f) { run<float>("f"); }
