// C17 — C1 = scaling() * so2();  rot_x / rot_y / rot_z(t) = exp(t e_i);  quaternion and complex-number conversions.
#include "c17.hpp"
using namespace smooth;
using namespace c17;

// ------------------------------------------------------------------ C1 = scaling() * so2()
template<typename S>
static void c1_checks(const std::string & tn)
{
  using G = C1<S>;
  // relative to the largest entry of M(c) (= |c| up to sqrt 2). Observed worst (thorough): 7.8e-17 (double) / 4.2e-8 (float); scaling() 1.9e-16 / 7.5e-8.
  const double T = is_f<S> ? 1e-4 : 1e-12;
  struct Item
  {
    G g;
    double s, t;
    int kind;
  };
  static const char * kn[] = {"coeffs", "C1(scaling,angle)", "C1::exp", "C1(complex)", "signed-zero coeffs"};
  std::vector<Item> E;
  const std::vector<double> exps = {0, 1e-3, -1e-3, 1, -1, 4.6, -4.6};
  for (double s : exps) {
    const L sc = std::exp((L)s);
    for (double t : angles_full<S>()) {
      const S ci = (S)(sc * std::sin((L)t)), cr = (S)(sc * std::cos((L)t));
      G g;
      g.coeffs() << ci, cr;
      E.push_back({g, s, t, 0});
      E.push_back({G((S)sc, (S)t), s, t, 1});
      E.push_back({G::exp(Eigen::Matrix<S, 2, 1>((S)s, (S)t)), s, t, 2});
      E.push_back({G(std::complex<S>(cr, ci)), s, t, 3});
    }
    for (auto & p : signed_zero_pairs()) {
      G g;
      g.coeffs() << (S)(p[0] * (double)(S)sc), (S)(p[1] * (double)(S)sc);
      E.push_back({g, s, std::nan(""), 4});
    }
  }
  mc::explore("C17/c1/" + tn, E.size(), [&](mc::Case & c) {
    const auto & e = E[c.idx];
    c.desc         = [&] { return "C1 " + vstr(e.g.coeffs()) + " via " + kn[e.kind] + mc::fmt(" s=%.3g t=%a", e.s, e.t); };
    c.param("logscale", e.s);
    if (e.t == e.t) c.param("t", e.t);
    c.outcome(kn[e.kind]);
    const auto M   = refmat(e.g);
    const L mag    = std::hypot((L)e.g.coeffs()(0), (L)e.g.coeffs()(1));
    const S sc     = e.g.scaling();
    const SO2<S> r = e.g.so2();
    c.require("scaling() > 0", sc > 0);
    c.judge("scaling() = |c|", (double)(std::fabs((L)sc - mag) / mag), tolU<S>());
    c.judge("so2() unit", unit_defect(r.coeffs(), 0, 2), tolU<S>());
    c.judge("matrix(c) = scaling() * matrix(so2())", ref::relerr_big(refmat(r) * (L)sc, M), T);
    // complex accessor / constructor round trip
    const std::complex<S> z = e.g.c1();
    const G back(z);
    c.judge("C1(c.c1()) = c", ref::relerr_big(refmat(back), M), 4 * epsS<S>());
    Mat<L, 2> Mz;
    Mz(0, 0) = Mz(1, 1) = (L)z.real();
    Mz(1, 0)            = (L)z.imag();
    Mz(0, 1)            = -(L)z.imag();
    c.judge("c1() is the complex number of matrix(c)", ref::relerr_big(Mz, M), 4 * epsS<S>());
  });
}

// ------------------------------------------------------------------ rot_x / rot_y / rot_z
template<typename S>
static void rot_checks(const std::string & tn)
{
  using G = SO3<S>;
  // Observed worst: vs expm 2.1e-16 / 1.1e-7, vs SO3::exp 4.4e-16 / 2.4e-7 (double / float).
  const double T = is_f<S> ? 1e-4 : 1e-12;
  const auto A   = angles_full<S>(true);
  mc::explore("C17/rot_xyz/" + tn, A.size() * 3, [&](mc::Case & c) {
    const int ax   = int(c.idx % 3);
    const double t = A[c.idx / 3];
    c.desc         = [&, ax, t] { return mc::fmt("rot_%c(t) t=%a ~ %.17g", "xyz"[ax], t, t); };
    c.param("t", t);
    c.outcome(std::fabs(t) <= PI ? "|t|<=pi" : (std::fabs(t) <= 2 * PI ? "pi<|t|<=2pi" : "|t|>2pi"));
    const G g = ax == 0 ? G::rot_x((S)t) : (ax == 1 ? G::rot_y((S)t) : G::rot_z((S)t));
    L a[3]    = {0, 0, 0};
    a[ax]     = (L)(S)t;
    const auto M = refmat(g);
    c.judge("rot_i(t) = expm(t hat(e_i))", ref::relerr1(M, ref::exp_ref<ref::SO3>(a)), T);
    c.judge("rot_i(t) = closed-form rotation", ref::relerr1(M, rot_axis(ax, a[ax])), T);
    Eigen::Matrix<S, 3, 1> v = Eigen::Matrix<S, 3, 1>::Zero();
    v(ax)                    = (S)t;
    c.judge("rot_i(t) = SO3::exp(t e_i)", ref::relerr1(M, refmat(G::exp(v))), T);
    c.judge("rot_i(t) unit quaternion", unit_defect(g.coeffs(), 0, 4), tolU<S>());
    c.require("rot_i(t) has qw >= 0", g.coeffs()(3) >= 0);
  });
}

// ------------------------------------------------------------------ quaternions
/// input norms: far from unit, exactly unit, and 1 +- 2^-k for every k down to one ulp of S (a constructor that skips
/// or approximates the normalisation for "almost unit" inputs shows up on this ladder)
template<typename S>
static std::vector<double> norm_ladder()
{
  std::vector<double> s{0.1, 1, 7};
  const int digits = std::numeric_limits<S>::digits - 1;
  for (int k = 1; k <= digits; ++k) {
    s.push_back(1.0 + std::ldexp(1.0, -k));
    s.push_back(1.0 - std::ldexp(1.0, -k));
  }
  return s;
}
template<typename S>
static void quat_checks(const std::string & tn)
{
  using G = SO3<S>;
  // Observed worst (thorough): 8.5e-16 (double) / 3.4e-7 (float).
  const double T = is_f<S> ? 1e-4 : 1e-12;
  struct Q
  {
    std::array<L, 4> q;  // unit, long double
    double rot;
  };
  std::vector<Q> B;
  for (auto & e : elements<ref::SO3, S>(AlphaOpts::full().upto(2 * PI + 1e-3))) B.push_back({{e.c[0], e.c[1], e.c[2], e.c[3]}, e.rot});
  // rotations by exactly pi: w = +0 / -0 inputs, and w tiny of either sign
  for (L w : {0.0L, -0.0L, 1e-20L, -1e-20L, 1e-300L, -1e-300L})
    for (auto & d : std::vector<std::array<L, 3>>{{1, 0, 0}, {0, 1, 0}, {0, 0, -1}, {0.6L, 0.8L, 0}, {0.36L, -0.48L, 0.8L}})
      B.push_back({{d[0], d[1], d[2], w}, PI});
  const auto scales = norm_ladder<S>();
  mc::explore("C17/quaternion/" + tn, B.size() * 2 * scales.size(), [&](mc::Case & c) {
    mc::Radix r(c.idx);
    const int sg    = r.next(2) ? -1 : 1;
    const double sc = scales[r.next(scales.size())];
    const auto & b  = B[r.next(B.size())];
    S qi[4];
    for (int i = 0; i < 4; ++i) qi[i] = (S)(sg * sc * b.q[size_t(i)]);
    c.desc = [&] { return mc::fmt("Quaternion(w=%a, x=%a, y=%a, z=%a) scale %.3g sign %d", (double)qi[3], (double)qi[0], (double)qi[1], (double)qi[2], sc, sg); };
    c.param("rot", b.rot);
    c.param("scale", sc);
    c.outcome(std::signbit(qi[3]) ? (qi[3] == 0 ? "w=-0" : "w<0") : (qi[3] == 0 ? "w=+0" : "w>0"));
    const Eigen::Quaternion<S> qe(qi[3], qi[0], qi[1], qi[2]);
    const G g(qe);
    L ql[4] = {(L)qi[0], (L)qi[1], (L)qi[2], (L)qi[3]};
    const auto Rr = rot_of_quat(ql);
    c.judge("SO3(q) rotates like q/|q|", ref::relerr1(refmat(g), Rr), T);
    c.judge("SO3(q) unit quaternion", unit_defect(g.coeffs(), 0, 4), tolU<S>());
    c.require("SO3(q) has qw >= 0", g.coeffs()(3) >= 0);
    // back through quat()
    const Eigen::Quaternion<S> qb = g.quat();
    c.judge("quat() returns the stored coefficients", reldiff(qb.coeffs(), g.coeffs()), 0.0);
    const G g2(qb);
    c.judge("SO3(g.quat()) = g", ref::relerr1(refmat(g2), refmat(g)), T);
    c.require("SO3(g.quat()) has qw >= 0", g2.coeffs()(3) >= 0);
  });
}

// ------------------------------------------------------------------ complex numbers
template<typename S>
static void complex_checks(const std::string & tn)
{
  using G = SO2<S>;
  // Observed worst: 2.2e-16 (double) / 1.2e-7 (float); accessors exact.
  const double T = is_f<S> ? 1e-4 : 1e-12;
  struct Z
  {
    L re, im;
    double t;
  };
  std::vector<Z> B;
  for (double t : angles_full<S>()) B.push_back({std::cos((L)t), std::sin((L)t), t});
  for (auto & p : signed_zero_pairs()) B.push_back({(L)p[1], (L)p[0], std::nan("")});
  const auto scales = norm_ladder<S>();
  mc::explore("C17/complex/" + tn, B.size() * scales.size(), [&](mc::Case & c) {
    const auto & b  = B[c.idx / scales.size()];
    const double sc = scales[c.idx % scales.size()];
    const S re = (S)(sc * b.re), im = (S)(sc * b.im);
    c.desc = [&] { return mc::fmt("complex(re=%a, im=%a) scale %.3g", (double)re, (double)im, sc); };
    c.param("scale", sc);
    if (b.t == b.t) c.param("t", b.t);
    const L n = std::hypot((L)re, (L)im);
    Mat<L, 2> Mr;
    Mr(0, 0) = Mr(1, 1) = (L)re / n;
    Mr(1, 0)            = (L)im / n;
    Mr(0, 1)            = -(L)im / n;
    const G g(std::complex<S>(re, im));
    c.judge("SO2(z) rotates like z/|z|", ref::relerr1(refmat(g), Mr), T);
    c.judge("SO2(z) unit", unit_defect(g.coeffs(), 0, 2), tolU<S>());
    const G h(im, re);
    c.judge("SO2(qz,qw) rotates like (qw + i qz)/|.|", ref::relerr1(refmat(h), Mr), T);
    c.judge("SO2(qz,qw) unit", unit_defect(h.coeffs(), 0, 2), tolU<S>());
    // back through u1() / unit_complex()
    const std::complex<S> u = g.u1();
    Mat<L, 2> Mu;
    Mu(0, 0) = Mu(1, 1) = (L)u.real();
    Mu(1, 0)            = (L)u.imag();
    Mu(0, 1)            = -(L)u.imag();
    c.judge("u1() is the complex number of matrix(g)", ref::relerr1(Mu, refmat(g)), 4 * epsS<S>());
    const auto uc = g.unit_complex();
    c.judge("unit_complex() = u1()", std::max(std::fabs((double)uc(0) - (double)u.real()), std::fabs((double)uc(1) - (double)u.imag())), 4 * epsS<S>());
    c.judge("SO2(g.u1()) = g", ref::relerr1(refmat(G(u)), refmat(g)), T);
  });
}

MC_SUBCHECK(c1_factors)
{
  c1_checks<double>("C1d");
  c1_checks<float>("C1f");
}
MC_SUBCHECK(rot_xyz)
{
  selfchecks();
  rot_checks<double>("SO3d");
  rot_checks<float>("SO3f");
}
MC_SUBCHECK(quaternion)
{
  selfchecks();
  quat_checks<double>("SO3d");
  quat_checks<float>("SO3f");
}
MC_SUBCHECK(complex_number)
{
  complex_checks<double>("SO2d");
  complex_checks<float>("SO2f");
}
