// C17 — SO2::angle(), angle_cw(), angle_ccw(): congruent modulo 2 pi and inside [-pi,pi], [-2pi,0], [0,2pi]
// at every planar-angle alphabet entry, for every way of producing the element, incl. the signed-zero pairs.
#include "c17.hpp"
using namespace smooth;
using namespace c17;

template<typename S>
static void angle_checks(const std::string & tn)
{
  const auto E = so2_elems<S>(angles_full<S>(), true);
  // Range bounds are the stated ones rounded to the scalar type (M_PI is what the library itself can return at best);
  // slack 4 eps * 2pi for harmless rounding of "atan2 -+ pi" (observed worst excess on the repaired tree: 0).
  const double PIS   = (double)(S)M_PI;
  const double slack = 4 * epsS<S>() * 2 * PI;
  // Congruence: atan2 (<= 1 ulp of pi), the rounded constant pi (float: 0.73 eps) and one subtraction (<= 1/2 ulp of 2 pi).
  // Observed worst 8.0e-16 (double), 4.6e-7 (float)  ->  max(100 x worst, 64 eps) rounded up.
  const double ctol = is_f<S> ? 5e-5 : 1e-13;
  auto rng          = [](double v, double lo, double hi) { return v != v ? (double)NAN : std::max({0.0, lo - v, v - hi}); };

  mc::explore("C17/angles/" + tn, E.size(), [&](mc::Case & c) {
    const auto & e = E[c.idx];
    c.desc         = [&] { return so2_desc(e); };
    const S qz = e.g.coeffs()(0), qw = e.g.coeffs()(1);
    c.param("qz", (double)qz);
    c.param("qw", (double)qw);
    if (e.t == e.t) c.param("t", e.t);
    // SO2(qz,qw) on a signed-zero pair stores exactly that pair again: explored (shows the pair is reachable through
    // a public constructor) but not a new input
    if (e.kind == kSignedZeroCtor) c.trivial();
    c.outcome(qz > 0 ? "qz>0" : qz < 0 ? "qz<0" : (std::signbit(qz) ? (qw < 0 ? "qz=-0,qw<0" : "qz=-0,qw>0") : (qw < 0 ? "qz=+0,qw<0" : "qz=+0,qw>0")));

    const L ref    = std::atan2((L)qz, (L)qw);
    const double a = (double)e.g.angle(), cw = (double)e.g.angle_cw(), ccw = (double)e.g.angle_ccw();
    c.judge("angle() in [-pi,pi]", rng(a, -PIS, PIS), slack);
    c.judge("angle_cw() in [-2pi,0]", rng(cw, -2 * PIS, 0), slack);
    c.judge("angle_ccw() in [0,2pi]", rng(ccw, 0, 2 * PIS), slack);
    c.judge("angle() = atan2(qz,qw) mod 2pi", mod2pi_dist((L)a - ref), ctol);
    c.judge("angle_cw() = atan2(qz,qw) mod 2pi", mod2pi_dist((L)cw - ref), ctol);
    c.judge("angle_ccw() = atan2(qz,qw) mod 2pi", mod2pi_dist((L)ccw - ref), ctol);
    c.judge("angle() = angle_cw() mod 2pi", mod2pi_dist((L)a - (L)cw), ctol);
    c.judge("angle_cw() = angle_ccw() mod 2pi", mod2pi_dist((L)cw - (L)ccw), ctol);
    c.judge("angle_ccw() = angle() mod 2pi", mod2pi_dist((L)ccw - (L)a), ctol);
  });

  // the same accessors on the SO2 part of an SE2 (Map<const SO2>): same class template, other storage
  const auto E3s = se2_elems<S>(angles_reduced<S>(), false);
  mc::explore("C17/angles-map/" + tn, E3s.size(), [&](mc::Case & c) {
    const auto & e = E3s[c.idx];
    c.desc         = [&] { return "SE2 " + vstr(e.g.coeffs()); };
    const S qz = e.g.coeffs()(2), qw = e.g.coeffs()(3);
    c.param("qz", (double)qz);
    c.param("qw", (double)qw);
    c.param("tm", e.tm);
    const L ref    = std::atan2((L)qz, (L)qw);
    const auto m   = e.g.so2();
    const double a = (double)m.angle(), cw = (double)m.angle_cw(), ccw = (double)m.angle_ccw();
    c.judge("angle() in [-pi,pi]", rng(a, -PIS, PIS), slack);
    c.judge("angle_cw() in [-2pi,0]", rng(cw, -2 * PIS, 0), slack);
    c.judge("angle_ccw() in [0,2pi]", rng(ccw, 0, 2 * PIS), slack);
    c.judge("angle() = atan2(qz,qw) mod 2pi", mod2pi_dist((L)a - ref), ctol);
    c.judge("angle_cw() = atan2(qz,qw) mod 2pi", mod2pi_dist((L)cw - ref), ctol);
    c.judge("angle_ccw() = atan2(qz,qw) mod 2pi", mod2pi_dist((L)ccw - ref), ctol);
  });
}

MC_SUBCHECK(angles)
{
  mc::selfcheck("mod2pi_dist", mod2pi_dist(2 * PIL) < 1e-18 && mod2pi_dist(-4 * PIL + 1e-3L) > 0.99e-3 && mod2pi_dist(PIL) > 3.14);
  angle_checks<double>("SO2d");
  angle_checks<float>("SO2f");
}
