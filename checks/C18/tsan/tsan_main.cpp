// C18 — separate, free-running pass under the real ThreadSanitizer runtime (not deciding; keeps unsynchronised accesses
// visible that a cooperative scheduler's hand-offs would hide, and covers uninstrumented libc/libm/libstdc++ code).
// The same harness bodies as the schedule explorer, NT threads per body, ITER iterations, compared with a sequential run.
#include <cstdio>
#include <cstdlib>
#include <cstring>
#include <thread>
#include <vector>

#include "../sched.hpp"

namespace c18 {
std::vector<Body> & bodies()
{
  static std::vector<Body> * b = new std::vector<Body>();
  return *b;
}
}  // namespace c18

int main(int argc, char ** argv)
{
  const int NT   = argc > 1 ? atoi(argv[1]) : 8;
  const int ITER = argc > 2 ? atoi(argv[2]) : 20;
  int bad = 0;
  long runs = 0;
  for (auto & b : c18::bodies()) {
    // first-use: the very first calls happen concurrently (fresh process => fresh function-local statics for body #1;
    // later bodies share already initialised Eigen statics, their own statics are still fresh)
    void * shared = b.make();
    std::vector<std::vector<double>> res(static_cast<size_t>(NT));
    std::vector<std::thread> th;
    for (int t = 0; t < NT; t++)
      th.emplace_back([&, t] {
        for (int it = 0; it < ITER; it++) {
          std::vector<double> out;
          b.op(shared, t % 3, out);
          if (it == 0) res[size_t(t)] = out;
          else if (out.size() != res[size_t(t)].size() || memcmp(out.data(), res[size_t(t)].data(), out.size() * 8) != 0) __atomic_fetch_add(&bad, 1, __ATOMIC_RELAXED);
        }
      });
    for (auto & t : th) t.join();
    for (int t = 0; t < NT; t++) {
      std::vector<double> ref;
      b.op(shared, t % 3, ref);
      if (ref.size() != res[size_t(t)].size() || memcmp(ref.data(), res[size_t(t)].data(), ref.size() * 8) != 0) {
        bad++;
        printf("RESULT-MISMATCH body=%s thread=%d\n", b.name, t);
      }
      runs += ITER;
    }
    printf("BODY %s threads=%d iterations=%d\n", b.name, NT, ITER);
  }
  printf("TSAN-FREERUN runs=%ld mismatches=%d\n", runs, bad);
  return bad ? 3 : 0;
}
