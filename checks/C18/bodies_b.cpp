// C18 harness bodies, part B: spline / bspline evaluation and sparse derivative routines into thread-private outputs.
#include "bind.hpp"

#include <smooth/lie_sparse.hpp>
#include <smooth/spline/bspline.hpp>
#include <smooth/spline/spline.hpp>

#include "sched.hpp"

using namespace smooth;

template<typename V>
static void put(std::vector<double> & out, const V & v)
{
  for (Eigen::Index j = 0; j < v.cols(); ++j)
    for (Eigen::Index i = 0; i < v.rows(); ++i) out.push_back(double(v(i, j)));
}

namespace {
struct SplShared
{
  Spline<3, SE3d> sp;
  Spline<3, SE3d> glued;  // several cropped pieces glued together (segments with non-trivial crop offsets)
  Spline<3, Eigen::Vector2d> spv;
  BSpline<3, SO3d> bs3;
  BSpline<5, SE2d> bs5;
};
void * spl_make()
{
  auto * s = new SplShared;
  Eigen::Matrix<double, 6, 1> v;
  v << 1, -0.5, 0.3, 0.2, 0.4, -0.3;
  s->sp = Spline<3, SE3d>::ConstantVelocity(v, 2.);
  s->sp += Spline<3, SE3d>::ConstantVelocity(-0.7 * v, 1.);
  s->sp += Spline<3, SE3d>::FixedCubic(SE3d::exp(0.4 * v), 0.1 * v, -0.2 * v, 1.5);
  {
    const auto a = Spline<3, SE3d>::FixedCubic(SE3d::exp(0.6 * v), 0.3 * v, -0.1 * v, 2.0);
    const auto b = Spline<3, SE3d>::FixedCubic(SE3d::exp(-0.4 * v), -0.2 * v, 0.25 * v, 1.0);
    s->glued = a.crop(0.4, 1.7);
    s->glued += b.crop(0.2, 0.9);
    s->glued += a.crop(1.1, 1.9);
    s->glued += b.crop(0.05, 0.5);
  }
  s->spv = Spline<3, Eigen::Vector2d>::ConstantVelocity(Eigen::Vector2d(1, -2), 1.);
  s->spv += Spline<3, Eigen::Vector2d>::FixedCubic(Eigen::Vector2d(0.5, 2), Eigen::Vector2d(1, 1), Eigen::Vector2d(-1, 0.5), 2.);
  std::vector<SO3d> c3;
  for (int i = 0; i < 8; i++) c3.push_back(SO3d::exp(Eigen::Vector3d(0.1 * i, 0.2, -0.1 * i)));
  s->bs3 = BSpline<3, SO3d>(0., 1., c3);
  std::vector<SE2d> c5;
  for (int i = 0; i < 9; i++) c5.push_back(SE2d::exp(Eigen::Vector3d(0.3 * i, -0.2 * i, 0.1 * i)));
  s->bs5 = BSpline<5, SE2d>(-1., 0.5, c5);
  return s;
}
void spl_op(const void * p, int t, std::vector<double> & out)
{
  const auto * s = static_cast<const SplShared *>(p);
  for (double tt : {0.3 + 0.9 * t, 2.0, 2.6 + 0.4 * t, 9.0}) {
    Eigen::Matrix<double, 6, 1> vel, acc;
    auto g = s->sp(tt, vel, acc);
    put(out, g.coeffs());
    put(out, vel);
    put(out, acc);
  }
  // evaluations in different cropped segments of the shared glued spline, in thread-dependent order
  for (int k = 0; k < 8; ++k) {
    const double tt = s->glued.t_max() * (((k * 3 + t * 5) % 8) + 0.5) / 8.0;
    Eigen::Matrix<double, 6, 1> vel, acc;
    auto g = s->glued(tt, vel, acc);
    put(out, g.coeffs());
    put(out, vel);
    put(out, acc);
  }
  put(out, s->sp.end().coeffs());
  put(out, s->sp.start().coeffs());
  out.push_back(s->sp.t_max());
  {
    auto c = s->sp.crop(0.5 + 0.3 * t, 3.2);
    put(out, c(0.7).coeffs());
    out.push_back(c.t_max());
  }
  put(out, s->spv.arclength(0.4 + t));
  put(out, s->spv.arclength(2.9));
  for (double tt : {0.2 + 1.1 * t, 3.0, 4.9, 7.5}) {
    Eigen::Vector3d vel, acc;
    auto g = s->bs3(tt, vel, acc);
    put(out, g.coeffs());
    put(out, vel);
    put(out, acc);
  }
  for (double tt : {-0.9 + 0.6 * t, 0.25, 1.0}) {
    Eigen::Vector3d vel;
    auto g = s->bs5(tt, vel);
    put(out, g.coeffs());
    put(out, vel);
  }
  out.push_back(s->bs3.t_max());
  out.push_back(s->bs5.t_min());
}
c18::BodyReg reg_spl({"spline_evaluation", 2, spl_make, spl_op});

// ------------------------------------------------------------------ sparse derivative routines
using Bdl = Bundle<SE2d, SO3d, Eigen::Vector2d>;
struct SpShared
{
  std::vector<Eigen::Matrix<double, 6, 1>> a6;
  std::vector<Eigen::Matrix<double, 8, 1>> a8;
};
void * sp_make()
{
  auto * s = new SpShared;
  for (int i = 0; i < 3; ++i) {
    s->a6.push_back((Eigen::Matrix<double, 6, 1>() << 0.3 * i, -1, 2 - i, 0.1 + 0.2 * i, -0.2, 0.3).finished());
    s->a8.push_back((Eigen::Matrix<double, 8, 1>() << 1, -0.5 * i, 0.4, 0.2, -0.3, 0.1 * i, 2, -1).finished());
  }
  return s;
}
void sp_op(const void * p, int t, std::vector<double> & out)
{
  const auto * s = static_cast<const SpShared *>(p);
  const auto & a = s->a6[size_t(t) % 3];
  const auto & b = s->a8[size_t(t + 1) % 3];
  {
    Eigen::SparseMatrix<double> m = d_exp_sparse_pattern<SE3d>;
    dr_exp_sparse<SE3d>(m, a);
    put(out, Eigen::MatrixXd(m));
    dr_expinv_sparse<SE3d>(m, a);
    put(out, Eigen::MatrixXd(m));
    Eigen::SparseMatrix<double> ad = ad_sparse_pattern<SE3d>;
    ad_sparse<SE3d>(ad, a);
    put(out, Eigen::MatrixXd(ad));
    Eigen::SparseMatrix<double> h = d2_exp_sparse_pattern<SE3d>;
    d2r_exp_sparse<SE3d>(h, a);
    put(out, Eigen::MatrixXd(h));
    d2r_expinv_sparse<SE3d>(h, a);
    put(out, Eigen::MatrixXd(h));
  }
  {
    Eigen::SparseMatrix<double> m = d_exp_sparse_pattern<Bdl>;
    dr_exp_sparse<Bdl>(m, b);
    put(out, Eigen::MatrixXd(m));
    Eigen::SparseMatrix<double> h = d2_exp_sparse_pattern<Bdl>;
    d2r_exp_sparse<Bdl>(h, b);
    put(out, Eigen::MatrixXd(h));
    for (const auto & gen : generators_sparse<Bdl>) out.push_back(gen.sum());
  }
}
c18::BodyReg reg_sp({"sparse_derivatives", 2, sp_make, sp_op});
}  // namespace
