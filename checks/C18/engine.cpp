// C18 — concurrency engine (DESIGN section 5). UNINSTRUMENTED translation unit.
//
// * The harness bodies (bodies_*.cpp) and all smooth / Eigen code they pull in are compiled with g++ -fsanitize=thread
//   (code generation only) and linked WITHOUT libtsan against the __tsan_* entry points defined here: every memory access
//   of instrumented code calls into this file with its address.
// * malloc & co. are interposed: inside the concurrent phase each controlled thread allocates from its own bump arena, so
//   "thread-private heap" is an address-range test. memcpy/memmove/memset are interposed and report ranges.
//   __cxa_guard_acquire/release/abort are interposed and modelled as a scheduler-aware lock with a happens-before edge.
// * Controlled threads are real pthreads serialised by semaphore hand-off; exactly one runs. Scheduling points: every
//   access to a granule (8 bytes) in the conflict-candidate set C (written by some thread and touched by another in any
//   execution so far), every guard operation, thread end. Exploration: CHESS-style DFS over choice prefixes with a
//   preemption bound; C grows monotonically and exploration restarts until a fixpoint.
// * Every execution runs in a forked child (fresh function-local statics => "first use" variants for free, fresh shared
//   objects, crash containment) and reports through a shared page.
// * Oracles: (a) each thread's result bytes equal the sequential reference in every explored execution, (b) no conflict
//   pair unordered by guard release->acquire (vector clocks), (c) no deadlock.
#include <algorithm>
#include <cstdarg>
#include <cstdint>
#include <cstdio>
#include <cstdlib>
#include <cstring>
#include <dlfcn.h>
#include <execinfo.h>
#include <map>
#include <pthread.h>
#include <semaphore.h>
#include <set>
#include <signal.h>
#include <string>
#include <sys/mman.h>
#include <sys/wait.h>
#include <unistd.h>
#include <vector>

#include "mc.hpp"
#include "sched.hpp"

namespace c18 {
std::vector<Body> & bodies()
{
  static std::vector<Body> * b = new std::vector<Body>();
  return *b;
}
}  // namespace c18

using c18::Body;

// =============================================================================================== low-level state
static const int MAXT          = 4;
static const size_t ARENA      = size_t(512) << 20;
static const size_t STACKSZ    = size_t(64) << 20;
static volatile bool g_active  = false;  // concurrent phase running
static __thread int tl_tid     = -1;     // controlled thread id (-1: not controlled)
static __thread int tl_inshim  = 0;
static char * g_arena[MAXT];
static size_t g_apos[MAXT];
static char * g_stack[MAXT];
static int g_nt = 0;

extern "C" {
void * __libc_malloc(size_t);
void __libc_free(void *);
void * __libc_realloc(void *, size_t);
void * __libc_calloc(size_t, size_t);
void * __libc_memalign(size_t, size_t);
}

static inline int arena_of(const void * p)
{
  for (int i = 0; i < MAXT; i++)
    if (g_arena[i] && (const char *)p >= g_arena[i] && (const char *)p < g_arena[i] + ARENA) return i;
  return -1;
}
static void die(const char * fmt, ...)
{
  char buf[512];
  va_list ap;
  va_start(ap, fmt);
  int n = vsnprintf(buf, sizeof buf, fmt, ap);
  va_end(ap);
  (void)!write(2, buf, size_t(n));
  (void)!write(2, "\n", 1);
  _exit(3);
}
static void * amalloc(size_t al, size_t n)
{
  const int t = tl_tid;
  if (al < 16) al = 16;
  size_t p = (g_apos[t] + 16 + al - 1) & ~(al - 1);
  *(size_t *)(g_arena[t] + p - 8) = n;
  g_apos[t] = p + n;
  if (g_apos[t] > ARENA) die("C18 engine: arena of thread %d full", t);
  return g_arena[t] + p;
}
static inline bool use_arena() { return g_active && tl_tid >= 0; }

extern "C" void * malloc(size_t n) { return use_arena() ? amalloc(16, n) : __libc_malloc(n); }
extern "C" void free(void * p)
{
  if (!p || arena_of(p) >= 0) return;
  __libc_free(p);
}
extern "C" void * calloc(size_t a, size_t b)
{
  if (use_arena()) {
    void * p = amalloc(16, a * b);
    __builtin_memset(p, 0, a * b);
    return p;
  }
  return __libc_calloc(a, b);
}
extern "C" void * realloc(void * p, size_t n)
{
  if (p && arena_of(p) >= 0) {
    size_t o = *(size_t *)((char *)p - 8);
    void * q = use_arena() ? amalloc(16, n) : __libc_malloc(n);
    __builtin_memcpy(q, p, o < n ? o : n);
    return q;
  }
  if (use_arena()) {
    void * q = amalloc(16, n);
    if (p) die("C18 engine: realloc of a non-arena block inside the concurrent phase");
    return q;
  }
  return __libc_realloc(p, n);
}
extern "C" int posix_memalign(void ** r, size_t al, size_t n)
{
  if (use_arena()) {
    *r = amalloc(al, n);
    return 0;
  }
  *r = __libc_memalign(al, n);
  return *r ? 0 : 12;
}
extern "C" void * aligned_alloc(size_t al, size_t n)
{
  void * r = nullptr;
  posix_memalign(&r, al, n);
  return r;
}
extern "C" void * memalign(size_t al, size_t n) { return aligned_alloc(al, n); }

// =============================================================================================== execution report
struct ChoiceRec
{
  uint8_t nen, chosen, run_en, tid;
};
struct RaceRec
{
  uintptr_t addr;
  int8_t t1, t2, w1, w2;
  int nbt;
  void * bt[10];
  char sym[600];
};
struct AccRec
{
  uintptr_t g;
  uint8_t r, w, wfree;
};
static const int MAXC    = 200000;
static const int MAXRES  = 8192;
static const int MAXRACE = 16;
static const int MAXACC  = 1 << 17;
struct Report
{
  int status;  // 0 complete, 1 deadlock, 2 bad prefix, 3 overflow
  int nchoices;
  ChoiceRec rec[MAXC];
  int nres[MAXT];
  double res[MAXT][MAXRES];
  int nraces;
  RaceRec races[MAXRACE];
  int nacc;
  AccRec acc[MAXACC];
  uint8_t escaped[MAXT];
  uint64_t shared_reads, shared_writes, points, guard_ops;
  char note[256];
};
static Report * R = nullptr;

// =============================================================================================== per-execution tables
struct Gran
{
  uintptr_t g;  // granule number + 1 (0 = empty)
  uint8_t rmask, wmask, wfree;  // wfree: writers outside guarded static initialisation
  int8_t lastw;
  uint32_t wclk;
  uint32_t rclk[MAXT];
};
static const size_t GT = size_t(1) << 17;
static Gran g_tab[GT];
static size_t g_tab_used = 0;
static Gran * gran(uintptr_t g)
{
  size_t h = (g * 0x9E3779B97F4A7C15ull) >> 47;  // 17 bits
  for (;;) {
    Gran & e = g_tab[h & (GT - 1)];
    if (e.g == g + 1) return &e;
    if (e.g == 0) {
      if (++g_tab_used > GT / 2) die("C18 engine: granule table full");
      e.g     = g + 1;
      e.lastw = -1;
      return &e;
    }
    ++h;
  }
}
// conflict-candidate set C (from the explorer), open addressing
static const size_t CT = size_t(1) << 16;
static uintptr_t g_cset[CT];
static size_t g_cset_n = 0;
static bool g_arena_escaped[MAXT];
static int g_every_kth_read = 0;  // validation mode: scheduling point at every k-th shared read
static uint64_t g_read_ctr[MAXT];
static inline bool in_cset(uintptr_t g)
{
  if (!g_cset_n) return false;
  size_t h = (g * 0x9E3779B97F4A7C15ull) >> 48;
  for (;;) {
    uintptr_t e = g_cset[h & (CT - 1)];
    if (e == g + 1) return true;
    if (e == 0) return false;
    ++h;
  }
}
static void cset_add(uintptr_t g)
{
  size_t h = (g * 0x9E3779B97F4A7C15ull) >> 48;
  for (;;) {
    uintptr_t & e = g_cset[h & (CT - 1)];
    if (e == g + 1) return;
    if (e == 0) {
      e = g + 1;
      if (++g_cset_n > CT / 2) die("C18 engine: conflict set full");
      return;
    }
    ++h;
  }
}

// =============================================================================================== scheduler
enum { NOTSTARTED = 0, RUNNABLE = 1, BLOCKED = 2, FINISHED = 3 };
static sem_t g_sem[MAXT], g_done;
static volatile int g_state[MAXT];
static volatile uintptr_t g_blocked_on[MAXT];
static uint32_t g_vc[MAXT][MAXT];
static int g_in_guard_init[MAXT];  // depth of guarded static initialisation the thread is executing
static const uint8_t * g_prefix = nullptr;
static int g_plen = 0;
static int g_step = 0;

static void finish_exec(int status)
{
  if (R->status == 0) R->status = status;
  g_active = false;
  sem_post(&g_done);
}

/// scheduling point reached by thread `self` (-1: the main thread starting the phase)
static void choose(int self)
{
  int E[MAXT], n = 0;
  const bool self_en = self >= 0 && g_state[self] == RUNNABLE;
  if (self_en) E[n++] = self;
  for (int t = 0; t < g_nt; t++)
    if (t != self && g_state[t] == RUNNABLE) E[n++] = t;
  if (n == 0) {
    bool allfin = true;
    for (int t = 0; t < g_nt; t++)
      if (g_state[t] != FINISHED) allfin = false;
    finish_exec(allfin ? 0 : 1);
    if (self >= 0 && g_state[self] != FINISHED) {
      for (;;) pause();  // deadlocked thread: parked until the child exits
    }
    return;
  }
  int c = 0;
  if (n > 1) {  // only real choices are recorded / consumed
    c = g_step < g_plen ? g_prefix[g_step] : 0;
    if (c >= n) {
      snprintf(R->note, sizeof R->note, "prefix choice %d out of range (%d enabled) at step %d", c, n, g_step);
      finish_exec(2);
      for (;;) pause();
    }
    if (R->nchoices >= MAXC) {
      finish_exec(3);
      for (;;) pause();
    }
    R->rec[R->nchoices++] = ChoiceRec{uint8_t(n), uint8_t(c), uint8_t(self_en ? 1 : 0), uint8_t(E[c])};
    g_step++;
  }
  const int next = E[c];
  if (next == self) return;
  sem_post(&g_sem[next]);
  if (self >= 0 && g_state[self] != FINISHED) sem_wait(&g_sem[self]);
}

// ---- guards (function-local statics): a scheduler-aware lock with a release->acquire happens-before edge
struct GuardInfo
{
  int state = 0;  // 0 uninitialised, 1 in progress, 2 done
  int owner = -1;
  uint32_t vc[MAXT] = {0, 0, 0, 0};
};
static const int MAXG = 256;
static uintptr_t g_guard_addr[MAXG];
static GuardInfo g_guard[MAXG];
static int g_nguards = 0;
static GuardInfo * guard_info(uintptr_t a, bool create)
{
  for (int i = 0; i < g_nguards; i++)
    if (g_guard_addr[i] == a) return &g_guard[i];
  if (!create) return nullptr;
  if (g_nguards >= MAXG) die("C18 engine: too many guards");
  g_guard_addr[g_nguards] = a;
  g_guard[g_nguards]      = GuardInfo{};
  return &g_guard[g_nguards++];
}
static int (*real_guard_acquire)(long long *) = nullptr;
static void (*real_guard_release)(long long *) = nullptr;
static void (*real_guard_abort)(long long *)   = nullptr;
__attribute__((constructor)) static void init_real_guards()
{
  real_guard_acquire = (int (*)(long long *))dlsym(RTLD_NEXT, "__cxa_guard_acquire");
  real_guard_release = (void (*)(long long *))dlsym(RTLD_NEXT, "__cxa_guard_release");
  real_guard_abort   = (void (*)(long long *))dlsym(RTLD_NEXT, "__cxa_guard_abort");
}
static inline void vc_join(uint32_t * dst, const uint32_t * src)
{
  for (int i = 0; i < MAXT; i++)
    if (src[i] > dst[i]) dst[i] = src[i];
}
extern "C" int __cxa_guard_acquire(long long * g)
{
  if (!(g_active && tl_tid >= 0)) {
    if (real_guard_acquire) return real_guard_acquire(g);
    return *(volatile char *)g == 0;
  }
  const int t = tl_tid;
  tl_inshim++;
  R->guard_ops++;
  choose(t);
  int ret = 0;
  for (;;) {
    GuardInfo * gi = guard_info((uintptr_t)g, true);
    if (*(volatile char *)g != 0 && gi->state == 0) gi->state = 2;  // initialised before the concurrent phase
    if (gi->state == 2) {
      vc_join(g_vc[t], gi->vc);
      ret = 0;
      break;
    }
    if (gi->state == 0) {
      gi->state = 1;
      gi->owner = t;
      ret       = 1;
      g_in_guard_init[t]++;
      break;
    }
    if (gi->owner == t) die("C18 engine: recursive static initialisation");
    g_state[t]      = BLOCKED;
    g_blocked_on[t] = (uintptr_t)g;
    choose(t);  // cannot pick t; resumes when made runnable again and scheduled
  }
  tl_inshim--;
  return ret;
}
extern "C" void __cxa_guard_release(long long * g)
{
  if (!(g_active && tl_tid >= 0)) {
    if (real_guard_release) return real_guard_release(g);
    *(volatile char *)g = 1;
    return;
  }
  const int t = tl_tid;
  tl_inshim++;
  R->guard_ops++;
  GuardInfo * gi = guard_info((uintptr_t)g, true);
  gi->state = 2;
  if (g_in_guard_init[t] > 0) g_in_guard_init[t]--;
  memcpy(gi->vc, g_vc[t], sizeof gi->vc);
  g_vc[t][t]++;
  __atomic_store_n((char *)g, 1, __ATOMIC_RELEASE);
  for (int u = 0; u < g_nt; u++)
    if (g_state[u] == BLOCKED && g_blocked_on[u] == (uintptr_t)g) g_state[u] = RUNNABLE;
  choose(t);
  tl_inshim--;
}
extern "C" void __cxa_guard_abort(long long * g)
{
  if (!(g_active && tl_tid >= 0)) {
    if (real_guard_abort) real_guard_abort(g);
    return;
  }
  GuardInfo * gi = guard_info((uintptr_t)g, true);
  gi->state = 0;
  gi->owner = -1;
  if (g_in_guard_init[tl_tid] > 0) g_in_guard_init[tl_tid]--;
  for (int u = 0; u < g_nt; u++)
    if (g_state[u] == BLOCKED && g_blocked_on[u] == (uintptr_t)g) g_state[u] = RUNNABLE;
}

// ---- memory accesses
static void record_race(uintptr_t addr, int t1, bool w1, int t2, bool w2)
{
  for (int i = 0; i < R->nraces; i++)
    if ((R->races[i].addr >> 3) == (addr >> 3)) return;
  if (R->nraces >= MAXRACE) return;
  RaceRec & r = R->races[R->nraces++];
  r.addr = addr;
  r.t1   = int8_t(t1);
  r.w1   = w1;
  r.t2   = int8_t(t2);
  r.w2   = w2;
  r.nbt  = backtrace(r.bt, 10);
  r.sym[0] = 0;
}
static void slow_access(int t, uintptr_t a, size_t sz, bool w)
{
  tl_inshim++;
  const uintptr_t g0 = a >> 3, g1 = (a + (sz ? sz - 1 : 0)) >> 3;
  // scheduling point BEFORE the access when it touches a conflict candidate
  bool point = false;
  for (uintptr_t g = g0; g <= g1 && !point; g++)
    if (in_cset(g)) point = true;
  if (!w && g_every_kth_read > 0 && (++g_read_ctr[t] % uint64_t(g_every_kth_read)) == 0) point = true;
  if (point) {
    R->points++;
    choose(t);
  }
  if (w) R->shared_writes++; else R->shared_reads++;
  const int ar = arena_of((void *)a);
  if (ar >= 0 && ar != t) R->escaped[ar] = 1;
  for (uintptr_t g = g0; g <= g1; g++) {
    Gran * e = gran(g);
    // race check (vector clocks over guard edges only)
    if (e->lastw >= 0 && e->lastw != t && g_vc[t][e->lastw] < e->wclk) record_race(g << 3, e->lastw, true, t, w);
    if (w) {
      for (int u = 0; u < g_nt; u++)
        if (u != t && (e->rmask & (1 << u)) && g_vc[t][u] < e->rclk[u]) record_race(g << 3, u, false, t, true);
      e->lastw = int8_t(t);
      e->wclk  = g_vc[t][t];
      e->wmask |= uint8_t(1 << t);
      if (!g_in_guard_init[t]) e->wfree |= uint8_t(1 << t);
    } else {
      e->rclk[t] = g_vc[t][t];
      e->rmask |= uint8_t(1 << t);
    }
  }
  tl_inshim--;
}
static inline void access(const void * p, size_t sz, bool w)
{
  if (!g_active) return;
  const int t = tl_tid;
  if (t < 0 || tl_inshim) return;
  const uintptr_t a = (uintptr_t)p;
  if (a - (uintptr_t)g_stack[t] < STACKSZ) return;                               // own stack
  if (a - (uintptr_t)g_arena[t] < ARENA && !g_arena_escaped[t]) return;          // own heap, never seen by others
  slow_access(t, a, sz, w);
}
extern "C" {
void __tsan_init() {}
void __tsan_func_entry(void *) {}
void __tsan_func_exit() {}
void __tsan_read1(void * p) { access(p, 1, 0); }
void __tsan_read2(void * p) { access(p, 2, 0); }
void __tsan_read4(void * p) { access(p, 4, 0); }
void __tsan_read8(void * p) { access(p, 8, 0); }
void __tsan_read16(void * p) { access(p, 16, 0); }
void __tsan_write1(void * p) { access(p, 1, 1); }
void __tsan_write2(void * p) { access(p, 2, 1); }
void __tsan_write4(void * p) { access(p, 4, 1); }
void __tsan_write8(void * p) { access(p, 8, 1); }
void __tsan_write16(void * p) { access(p, 16, 1); }
void __tsan_unaligned_read2(void * p) { access(p, 2, 0); }
void __tsan_unaligned_read4(void * p) { access(p, 4, 0); }
void __tsan_unaligned_read8(void * p) { access(p, 8, 0); }
void __tsan_unaligned_read16(void * p) { access(p, 16, 0); }
void __tsan_unaligned_write2(void * p) { access(p, 2, 1); }
void __tsan_unaligned_write4(void * p) { access(p, 4, 1); }
void __tsan_unaligned_write8(void * p) { access(p, 8, 1); }
void __tsan_unaligned_write16(void * p) { access(p, 16, 1); }
void __tsan_read_range(void * p, long n) { access(p, size_t(n), 0); }
void __tsan_write_range(void * p, long n) { access(p, size_t(n), 1); }
void __tsan_vptr_update(void ** p, void *) { access(p, 8, 1); }
void __tsan_vptr_read(void ** p) { access(p, 8, 0); }
// atomics are synchronisation, not data accesses. A load that observes an initialised guard byte is an acquire.
unsigned char __tsan_atomic8_load(const volatile unsigned char * p, int)
{
  unsigned char v = __atomic_load_n(p, __ATOMIC_ACQUIRE);
  if (g_active && tl_tid >= 0 && v) {
    GuardInfo * gi = guard_info((uintptr_t)p, false);
    if (gi && gi->state == 2) vc_join(g_vc[tl_tid], gi->vc);
  }
  return v;
}
void __tsan_atomic8_store(volatile unsigned char * p, unsigned char v, int) { __atomic_store_n(p, v, __ATOMIC_SEQ_CST); }
unsigned __tsan_atomic32_load(const volatile unsigned * p, int) { return __atomic_load_n(p, __ATOMIC_SEQ_CST); }
void __tsan_atomic32_store(volatile unsigned * p, unsigned v, int) { __atomic_store_n(p, v, __ATOMIC_SEQ_CST); }
unsigned __tsan_atomic32_fetch_add(volatile unsigned * p, unsigned v, int) { return __atomic_fetch_add(p, v, __ATOMIC_SEQ_CST); }
unsigned __tsan_atomic32_fetch_sub(volatile unsigned * p, unsigned v, int) { return __atomic_fetch_sub(p, v, __ATOMIC_SEQ_CST); }
unsigned long __tsan_atomic64_load(const volatile unsigned long * p, int) { return __atomic_load_n(p, __ATOMIC_SEQ_CST); }
void __tsan_atomic64_store(volatile unsigned long * p, unsigned long v, int) { __atomic_store_n(p, v, __ATOMIC_SEQ_CST); }
unsigned long __tsan_atomic64_fetch_add(volatile unsigned long * p, unsigned long v, int) { return __atomic_fetch_add(p, v, __ATOMIC_SEQ_CST); }
int __tsan_atomic32_compare_exchange_strong(volatile unsigned * p, unsigned * e, unsigned d, int, int)
{
  return __atomic_compare_exchange_n(p, e, d, false, __ATOMIC_SEQ_CST, __ATOMIC_SEQ_CST);
}
void __tsan_atomic_thread_fence(int) { __atomic_thread_fence(__ATOMIC_SEQ_CST); }
void __tsan_atomic_signal_fence(int) {}

// libc memory functions: report the ranges, then copy with string instructions (no recursion into libc/builtins)
void * memcpy(void * d, const void * s, size_t n)
{
  access(s, n, 0);
  access(d, n, 1);
  void * r = d;
  __asm__ volatile("rep movsb" : "+D"(d), "+S"(s), "+c"(n) : : "memory");
  return r;
}
void * memmove(void * d, const void * s, size_t n)
{
  access(s, n, 0);
  access(d, n, 1);
  void * r = d;
  if ((uintptr_t)d <= (uintptr_t)s || (uintptr_t)d >= (uintptr_t)s + n) {
    __asm__ volatile("rep movsb" : "+D"(d), "+S"(s), "+c"(n) : : "memory");
  } else {
    char * dd       = (char *)d + n - 1;
    const char * ss = (const char *)s + n - 1;
    __asm__ volatile("std; rep movsb; cld" : "+D"(dd), "+S"(ss), "+c"(n) : : "memory");
  }
  return r;
}
void * memset(void * d, int c, size_t n)
{
  access(d, n, 1);
  void * r = d;
  __asm__ volatile("rep stosb" : "+D"(d), "+c"(n) : "a"(c) : "memory");
  return r;
}
}

// =============================================================================================== one execution (in a forked child)
struct ThreadArg
{
  const Body * body;
  const void * shared;
  int t;
};
static void * thread_main(void * p)
{
  ThreadArg * a = (ThreadArg *)p;
  tl_tid        = a->t;
  sem_wait(&g_sem[a->t]);
  {
    std::vector<double> out;
    a->body->op(a->shared, a->t, out);
    tl_inshim++;
    int n = int(std::min<size_t>(out.size(), MAXRES));
    R->nres[a->t] = int(out.size());
    for (int i = 0; i < n; i++) R->res[a->t][i] = out[size_t(i)];
    tl_inshim--;
  }
  tl_inshim++;
  g_state[a->t] = FINISHED;
  choose(a->t);
  tl_inshim--;
  return nullptr;
}

/// mode 0: sequential reference only (results of op(t) run one after another on the main thread)
/// mode 1: controlled concurrent execution; warm: run every op once sequentially first (statics initialised)
static void child_exec(const Body & b, int mode, bool warm, const std::vector<uint8_t> & prefix)
{
  void * shared = b.make();
  if (mode == 0 || warm) {
    for (int t = 0; t < b.nthreads; t++) {
      std::vector<double> out;
      b.op(shared, t, out);
      if (mode == 0) {
        R->nres[t] = int(out.size());
        for (size_t i = 0; i < out.size() && i < size_t(MAXRES); i++) R->res[t][i] = out[i];
      }
    }
    if (mode == 0) return;
  }
  g_nt     = b.nthreads;
  g_prefix = prefix.data();
  g_plen   = int(prefix.size());
  g_step   = 0;
  sem_init(&g_done, 0, 0);
  static ThreadArg args[MAXT];
  pthread_t th[MAXT];
  for (int t = 0; t < g_nt; t++) {
    sem_init(&g_sem[t], 0, 0);
    g_state[t] = RUNNABLE;
    for (int u = 0; u < MAXT; u++) g_vc[t][u] = 0;
    g_vc[t][t]         = 1;
    g_in_guard_init[t] = 0;
    args[t]    = ThreadArg{&b, shared, t};
    pthread_attr_t at;
    pthread_attr_init(&at);
    pthread_attr_setstack(&at, g_stack[t], STACKSZ);
    if (pthread_create(&th[t], &at, thread_main, &args[t]) != 0) die("C18 engine: pthread_create failed");
  }
  g_active = true;
  choose(-1);
  sem_wait(&g_done);
  g_active = false;
  // access summary: written granules only
  for (size_t i = 0; i < GT; i++) {
    const Gran & e = g_tab[i];
    if (e.g && e.wmask) {
      if (R->nacc >= MAXACC) {
        R->status = 3;
        break;
      }
      R->acc[R->nacc++] = AccRec{e.g - 1, e.rmask, e.wmask, e.wfree};
    }
  }
  for (int i = 0; i < R->nraces; i++) {
    RaceRec & r = R->races[i];
    char ** s   = backtrace_symbols(r.bt, r.nbt);
    std::string acc;
    for (int k = 1; k < r.nbt && s; k++) {
      std::string f = s[k];
      acc += (k > 1 ? " <- " : "") + f;
    }
    snprintf(r.sym, sizeof r.sym, "%s", acc.c_str());
  }
}

// =============================================================================================== explorer (parent)
/// source locations of the frames of a race record (addr2line on the executable; frames 0..2 are engine hooks)
static std::string symbolize(const RaceRec & r)
{
  std::string offs;
  {
    std::string sy = r.sym;  // "exe(+0xOFF) [abs] <- ..."
    size_t p = 0;
    int n = 0;
    while ((p = sy.find("(+0x", p)) != std::string::npos && n < 8) {
      size_t e = sy.find(')', p);
      const unsigned long off = strtoul(sy.substr(p + 2, e - p - 2).c_str(), nullptr, 16);
      offs += mc::fmt(" 0x%lx", off - 1);  // return address - 1: the call site
      p = e;
      n++;
    }
  }
  if (getenv("C18_DEBUG_SYM")) fprintf(stderr, "RAWSYM %s\nOFFS %s\n", r.sym, offs.c_str());
  if (offs.empty()) return r.sym;
  char exe[1024];
  ssize_t k = readlink("/proc/self/exe", exe, sizeof exe - 1);
  exe[k > 0 ? k : 0] = 0;
  std::string cmd = std::string("addr2line -f -C -i -e ") + exe + offs + " 2>/dev/null";
  FILE * f = popen(cmd.c_str(), "r");
  if (!f) return r.sym;
  std::string all, out, line, fn;
  char buf[4096];
  size_t got;
  while ((got = fread(buf, 1, sizeof buf, f)) > 0) all.append(buf, got);
  int ln = 0, shown = 0;
  size_t pos = 0;
  while (pos < all.size()) {
    size_t e = all.find('\n', pos);
    if (e == std::string::npos) e = all.size();
    line = all.substr(pos, e - pos);
    pos  = e + 1;
    if (ln % 2 == 0) {
      if (line.size() > 110) line = line.substr(0, 110) + "...";
      fn = line;
    } else if ((line.find("/smooth/") != std::string::npos || line.find("/checks/C18/bodies") != std::string::npos) && shown < 4) {
      const size_t sl = line.find("/smooth/") != std::string::npos ? line.find("/smooth/") + 1 : line.rfind('/') + 1;
      out += (shown ? " <- " : "") + fn + " (" + line.substr(sl) + ")";
      shown++;
    }
    ln++;
  }
  pclose(f);
  return out.empty() ? std::string(r.sym) : out;
}

struct Explorer
{
  const Body * body;
  bool warm;
  int bound;
  int kth_read = 0;
  std::set<uintptr_t> C;                                  // conflict candidates (granules)
  struct Seen
  {
    uint8_t r = 0, w = 0, wfree = 0;
  };
  std::map<uintptr_t, Seen> seen;  // granule -> thread masks over all executions
  bool escaped[MAXT] = {false, false, false, false};
  std::vector<std::vector<double>> ref;                   // sequential reference results per thread
  uint64_t executions = 0, choice_points = 0, max_points = 0, shared_reads = 0, shared_writes = 0, guard_ops = 0;
  uint64_t wrong_results = 0, racy_execs = 0, deadlocks = 0;
  std::set<std::string> outcomes;
  std::vector<std::string> samples;
  bool capped = false;
  uint64_t max_execs;
  bool grew = false;
  std::string label;

  int run(int mode, const std::vector<uint8_t> & prefix, int timeout_s = 60)
  {
    R->status = R->nchoices = R->nraces = R->nacc = 0;
    memset(R->nres, 0, sizeof R->nres);
    memset(R->escaped, 0, sizeof R->escaped);
    R->shared_reads = R->shared_writes = R->points = R->guard_ops = 0;
    R->note[0] = 0;
    fflush(stdout);
    fflush(stderr);
    pid_t pid = fork();
    if (pid == 0) {
      alarm(unsigned(timeout_s));
      memset(g_cset, 0, sizeof g_cset);
      g_cset_n = 0;
      for (auto g : C) cset_add(g);
      for (int t = 0; t < MAXT; t++) g_arena_escaped[t] = escaped[t];
      g_every_kth_read = kth_read;
      child_exec(*body, mode, warm, prefix);
      _exit(0);
    }
    int st = 0;
    waitpid(pid, &st, 0);
    if (WIFSIGNALED(st)) return 100 + WTERMSIG(st);
    if (WEXITSTATUS(st) != 0) return 200 + WEXITSTATUS(st);
    return R->status;
  }

  std::string schedule_string(const std::vector<uint8_t> & choices) const
  {
    std::string s;
    for (auto c : choices) s += char('0' + c);
    return s;
  }
  std::string replay_body(const std::vector<uint8_t> & choices) const
  {
    std::string s = std::string("body=") + body->name + " warm=" + (warm ? "1" : "0") + " kth=" + std::to_string(kth_read) + " escaped=";
    for (int t = 0; t < MAXT; t++) s += escaped[t] ? '1' : '0';
    s += " choices=" + schedule_string(choices) + " C=";
    for (auto g : C) s += mc::fmt("%lx,", (unsigned long)g);
    return s;
  }

  /// judge the execution described by *R; returns false when exploration must restart (C grew)
  void judge(const std::vector<uint8_t> & choices, int rc)
  {
    executions++;
    choice_points += uint64_t(R->nchoices);
    max_points = std::max<uint64_t>(max_points, uint64_t(R->nchoices));
    shared_reads += R->shared_reads;
    shared_writes += R->shared_writes;
    guard_ops += R->guard_ops;
    const std::string sched = schedule_string(choices);
    if (samples.size() < 3 || (executions & (executions - 1)) == 0)
      if (samples.size() < 12) samples.push_back(mc::fmt("%s execution #%llu schedule(choice indices)=[%s] threads-at-choices=", label.c_str(), (unsigned long long)executions, sched.c_str()) + [&] {
          std::string s;
          for (int i = 0; i < R->nchoices && i < 60; i++) s += char('0' + R->rec[i].tid);
          return s;
        }());
    if (rc >= 100) {
      mc::report_violation(label, "execution completes", 1, 0, {}, mc::fmt("child terminated abnormally (code %d) under schedule [%s]", rc, sched.c_str()), replay_body(choices));
      return;
    }
    if (rc == 2) mc::harness_error(std::string("scheduler replay divergence: ") + R->note);
    if (rc == 3) {
      capped = true;
      return;
    }
    // merge access summaries -> conflict candidates
    for (int i = 0; i < R->nacc; i++) {
      auto & e = seen[R->acc[i].g];
      e.r |= R->acc[i].r;
      e.w |= R->acc[i].w;
      e.wfree |= R->acc[i].wfree;
      const uint8_t all = e.r | e.w;
      // conflict candidate: written outside guarded once-only initialisation by some thread and touched by two threads.
      // (writes inside a guarded static initialiser happen once and are ordered before every later access by the guard;
      //  who initialises is still explored through the scheduling points at the guard operations)
      if (e.wfree && (all & (all - 1)) && !C.count(R->acc[i].g)) {
        C.insert(R->acc[i].g);
        grew = true;
      }
    }
    for (int t = 0; t < MAXT; t++)
      if (R->escaped[t] && !escaped[t]) {
        escaped[t] = true;
        grew       = true;
      }
    if (rc == 1) {
      deadlocks++;
      mc::report_violation(label, "no deadlock", 1, 0, {}, "all unfinished threads blocked on static-initialisation guards under schedule [" + sched + "]", replay_body(choices));
    }
    // (a) results equal the sequential reference
    bool same = true;
    std::string outcome;
    for (int t = 0; t < body->nthreads; t++) {
      if (R->nres[t] != int(ref[size_t(t)].size())) same = false;
      for (int i = 0; i < R->nres[t] && i < MAXRES && same; i++)
        if (memcmp(&R->res[t][i], &ref[size_t(t)][size_t(i)], sizeof(double)) != 0) same = false;
      uint64_t h = 1469598103934665603ull;
      for (int i = 0; i < R->nres[t] && i < MAXRES; i++) {
        uint64_t b;
        memcpy(&b, &R->res[t][i], 8);
        h = (h ^ b) * 1099511628211ull;
      }
      outcome += mc::fmt("%016llx.", (unsigned long long)h);
    }
    outcomes.insert(outcome);
    if (!same && rc == 0) {
      wrong_results++;
      std::string d = "thread results differ from the sequential run under schedule [" + sched + "]:";
      for (int t = 0; t < body->nthreads; t++)
        for (int i = 0; i < R->nres[t] && i < MAXRES && i < int(ref[size_t(t)].size()); i++)
          if (memcmp(&R->res[t][i], &ref[size_t(t)][size_t(i)], 8) != 0) {
            d += mc::fmt(" thread %d result[%d]=%.17g expected %.17g;", t, i, R->res[t][i], ref[size_t(t)][size_t(i)]);
            break;
          }
      if (wrong_results <= 3) mc::report_violation(label, "results equal sequential run", 1, 0, {}, d, replay_body(choices));
    }
    // (b) no conflict pair (reported for the first three racy executions; all are counted)
    if (R->nraces) {
      racy_execs++;
      if (racy_execs <= 3) {
        const RaceRec & r = R->races[0];
        mc::report_violation(label, "no data race", 1, 0, {},
          mc::fmt("unordered conflicting accesses to %p (+%d more granules): thread %d %s vs thread %d %s at %s; schedule [%s]", (void *)r.addr, R->nraces - 1,
            r.t1, r.w1 ? "write" : "read", r.t2, r.w2 ? "write" : "read", symbolize(r).c_str(), sched.c_str()),
          replay_body(choices));
      }
    }
  }

  void dfs(const std::vector<uint8_t> & prefix)
  {
    if (grew || capped) return;
    if (executions >= max_execs || mc::time_left() <= 0) {
      capped = true;
      return;
    }
    int rc = run(1, prefix);
    if (rc == 100 + SIGALRM) rc = run(1, prefix, 600);  // re-run a timed-out deterministic schedule alone with a longer limit
    std::vector<ChoiceRec> rec(R->rec, R->rec + R->nchoices);
    std::vector<uint8_t> choices;
    for (auto & r : rec) choices.push_back(r.chosen);
    judge(choices, rc);
    if (grew || rc != 0) return;
    int pre = 0;
    std::vector<int> prebefore(rec.size());
    for (size_t i = 0; i < rec.size(); i++) {
      prebefore[i] = pre;
      if (rec[i].run_en && rec[i].chosen != 0) pre++;
    }
    for (size_t i = prefix.size(); i < rec.size(); i++) {
      const int cost = prebefore[i] + (rec[i].run_en ? 1 : 0);
      if (cost > bound) continue;
      for (int alt = 1; alt < rec[i].nen; alt++) {
        std::vector<uint8_t> p(choices.begin(), choices.begin() + long(i));
        p.push_back(uint8_t(alt));
        dfs(p);
        if (grew || capped) return;
      }
    }
  }

  void explore_all()
  {
    // sequential reference
    int rc = run(0, {});
    if (rc != 0) {
      mc::report_violation(label, "sequential reference run completes", 1, 0, {}, mc::fmt("reference child failed with code %d", rc), replay_body({}));
      return;
    }
    ref.clear();
    for (int t = 0; t < body->nthreads; t++) {
      if (R->nres[t] > MAXRES) mc::harness_error("result vector too long");
      ref.emplace_back(R->res[t], R->res[t] + R->nres[t]);
    }
    // determinism of the reference (replay twice)
    rc = run(0, {});
    for (int t = 0; t < body->nthreads; t++)
      if (rc != 0 || R->nres[t] != int(ref[size_t(t)].size()) || memcmp(R->res[t], ref[size_t(t)].data(), size_t(R->nres[t]) * 8) != 0)
        mc::harness_error(std::string("sequential reference of body ") + body->name + " is not deterministic");
    int rounds = 0;
    do {
      grew = false;
      const uint64_t e0 = executions;
      // counters describe the final (fixpoint) round only
      executions = choice_points = max_points = shared_reads = shared_writes = guard_ops = 0;
      (void)e0;
      outcomes.clear();
      dfs({});
      rounds++;
    } while (grew && !capped && rounds < 50);
  }
};

static void run_body(const Body & b, bool warm, int bound, int kth, uint64_t max_execs)
{
  Explorer ex;
  ex.body      = &b;
  ex.warm      = warm;
  ex.bound     = bound;
  ex.kth_read  = kth;
  ex.max_execs = max_execs;
  ex.label     = std::string("C18/sched/") + b.name + (warm ? "/warm" : "/first-use") + (kth ? mc::fmt("/every-%d-read", kth) : std::string("")) + mc::fmt("/T%d-p%d", b.nthreads, bound);
  ex.explore_all();
  const bool unbounded = ex.C.empty() && !ex.capped;
  std::string extra = mc::fmt(
    "\"engine\": \"preemption-bounded schedule DFS\", \"threads\": %d, \"preemption_bound\": %d, \"executions\": %llu, \"choice_points\": %llu, "
    "\"max_choice_points_per_execution\": %llu, \"conflict_candidate_granules\": %zu, \"shared_reads\": %llu, \"shared_writes\": %llu, \"guard_ops\": %llu, "
    "\"distinct_outcomes\": %zu, \"wrong_result_executions\": %llu, \"racy_executions\": %llu, \"deadlocks\": %llu, \"capped\": %s, "
    "\"result\": \"%s\"",
    b.nthreads, bound, (unsigned long long)ex.executions, (unsigned long long)ex.choice_points, (unsigned long long)ex.max_points, ex.C.size(),
    (unsigned long long)ex.shared_reads, (unsigned long long)ex.shared_writes, (unsigned long long)ex.guard_ops, ex.outcomes.size(),
    (unsigned long long)ex.wrong_results, (unsigned long long)ex.racy_execs, (unsigned long long)ex.deadlocks, ex.capped ? "true" : "false",
    unbounded ? "no thread writes memory another thread touches (outside guarded initialisation): all interleavings are equivalent to the sequential run "
                "(holds for any preemption bound)"
              : "conflicting accesses exist: explored every schedule within the preemption bound");
  mc::report_space(ex.label, std::max<uint64_t>(1, ex.executions), std::max<uint64_t>(1, ex.choice_points + ex.executions), ex.executions, ex.samples, !ex.capped, extra);
}

// replay of one recorded schedule (plain run of exactly that execution)
static void replay_one()
{
  const std::string & s = mc::replay_body();
  auto field = [&](const char * k) {
    auto p = s.find(std::string(k) + "=");
    if (p == std::string::npos) return std::string();
    p += strlen(k) + 1;
    auto e = s.find(' ', p);
    return s.substr(p, e == std::string::npos ? std::string::npos : e - p);
  };
  const std::string bn = field("body");
  for (auto & b : c18::bodies())
    if (bn == b.name) {
      Explorer ex;
      ex.body      = &b;
      ex.warm      = field("warm") == "1";
      ex.kth_read  = atoi(field("kth").c_str());
      ex.bound     = 99;
      ex.max_execs = 10;
      ex.label     = mc::replay_label();
      std::string es = field("escaped");
      for (size_t t = 0; t < es.size() && t < size_t(MAXT); t++) ex.escaped[t] = es[t] == '1';
      std::string cs = field("C");
      size_t p = 0;
      while (p < cs.size()) {
        auto e = cs.find(',', p);
        if (e == std::string::npos) break;
        ex.C.insert(strtoul(cs.substr(p, e - p).c_str(), nullptr, 16));
        p = e + 1;
      }
      std::vector<uint8_t> choices;
      for (char c : field("choices")) choices.push_back(uint8_t(c - '0'));
      int rc = ex.run(0, {});
      for (int t = 0; t < b.nthreads; t++) ex.ref.emplace_back(R->res[t], R->res[t] + R->nres[t]);
      for (int rep = 0; rep < 2; rep++) {
        rc = ex.run(1, choices);
        printf("  replay #%d: rc=%d choices=%d races=%d\n", rep, rc, R->nchoices, R->nraces);
        std::vector<uint8_t> ch;
        for (int i = 0; i < R->nchoices; i++) ch.push_back(R->rec[i].chosen);
        ex.judge(ch, rc);
      }
    }
}

static void setup_memory()
{
  if (R) return;
  R = (Report *)mmap(nullptr, sizeof(Report), PROT_READ | PROT_WRITE, MAP_SHARED | MAP_ANONYMOUS, -1, 0);
  for (int i = 0; i < MAXT; i++) {
    g_arena[i] = (char *)mmap(nullptr, ARENA, PROT_READ | PROT_WRITE, MAP_PRIVATE | MAP_ANONYMOUS | MAP_NORESERVE, -1, 0);
    g_stack[i] = (char *)mmap(nullptr, STACKSZ, PROT_READ | PROT_WRITE, MAP_PRIVATE | MAP_ANONYMOUS | MAP_NORESERVE, -1, 0);
  }
  void * bt[4];
  backtrace(bt, 4);  // loads libgcc now, not inside a hook
}

MC_SUBCHECK(a_sched)
{
  setup_memory();
  if (mc::replaying()) {
    if (mc::replay_label().rfind("C18/sched/", 0) == 0) replay_one();
    return;
  }
  const bool th = mc::thorough();
  for (auto & b : c18::bodies()) {
    Body b2 = b;
    // 2 threads, preemption bound 3 (quick) / 4 (thorough); warm and first-use variants
    b2.nthreads = 2;
    run_body(b2, true, th ? 4 : 3, 0, th ? 400000 : 20000);
    run_body(b2, false, th ? 4 : 3, 0, th ? 400000 : 20000);
    if (!th) {
      // quick: also 3 threads, bound 2, and 4 threads, bound 2 (warm)
      b2.nthreads = 3;
      run_body(b2, true, 2, 0, 20000);
      run_body(b2, false, 2, 0, 20000);
      b2.nthreads = 4;
      run_body(b2, true, 2, 0, 20000);
    }
    if (th) {
      // 3 threads, bound 3; 4 threads, bound 2
      b2.nthreads = 3;
      run_body(b2, true, 3, 0, 400000);
      run_body(b2, false, 3, 0, 400000);
      b2.nthreads = 4;
      run_body(b2, true, 2, 0, 400000);
      run_body(b2, false, 2, 0, 400000);
      // empirical validation of the reduction argument: scheduling points at every 97th / 7th shared read, bound 1
      b2.nthreads = 2;
      run_body(b2, true, 1, 97, 100000);
    }
  }
}

// ------------------------------------------------------------------ separate free-running pass under real ThreadSanitizer
MC_SUBCHECK(b_tsan_freerun)
{
  if (mc::replaying()) {
    if (mc::replay_label() != "C18/tsan-freerun") return;
  }
  char exe[1024];
  ssize_t k = readlink("/proc/self/exe", exe, sizeof exe - 1);
  exe[k > 0 ? k : 0] = 0;
  std::string dir = exe;
  dir = dir.substr(0, dir.find_last_of('/'));
  const int nt = 8, iter = mc::thorough() ? 200 : 12;
  std::string cmd = "TSAN_OPTIONS='halt_on_error=0 exitcode=66 report_signal_unsafe=0 history_size=2' " + dir + "/tsan_run " + std::to_string(nt) + " " +
                    std::to_string(iter) + " 2>&1";
  FILE * f = popen(cmd.c_str(), "r");
  if (!f) mc::harness_error("cannot start tsan_run");
  std::string all;
  char buf[4096];
  size_t got;
  while ((got = fread(buf, 1, sizeof buf, f)) > 0) all.append(buf, got);
  const int st = pclose(f);
  const bool race = all.find("WARNING: ThreadSanitizer") != std::string::npos;
  const bool mism = all.find("RESULT-MISMATCH") != std::string::npos;
  const bool finished = all.find("TSAN-FREERUN runs=") != std::string::npos;
  uint64_t nb = 0;
  for (size_t p = 0; (p = all.find("BODY ", p)) != std::string::npos; p++) nb++;
  std::vector<std::string> samples;
  {
    size_t p = 0;
    while ((p = all.find("BODY ", p)) != std::string::npos) {
      samples.push_back("C18/tsan-freerun " + all.substr(p, all.find('\n', p) - p));
      p++;
    }
    if (samples.empty()) samples.push_back("C18/tsan-freerun (no body completed)");
  }
  if (race) {
    const size_t p = all.find("WARNING: ThreadSanitizer");
    mc::report_violation("C18/tsan-freerun", "no ThreadSanitizer report", 1, 0, {}, all.substr(p, 1800), "tsan_run " + std::to_string(nt) + " " + std::to_string(iter));
  }
  if (mism) mc::report_violation("C18/tsan-freerun", "results equal sequential run", 1, 0, {}, all.substr(all.find("RESULT-MISMATCH"), 300), "tsan_run");
  if (!finished && !race) mc::report_violation("C18/tsan-freerun", "free run completes", 1, 0, {}, mc::fmt("tsan_run exit status %d: ", st) + all.substr(0, 600), "tsan_run");
  mc::report_space("C18/tsan-freerun", std::max<uint64_t>(1, nb), std::max<uint64_t>(1, nb * uint64_t(nt) * uint64_t(iter)), 0, samples, true,
    mc::fmt("\"engine\": \"free-running real ThreadSanitizer (monitor, not the deciding enumeration)\", \"threads\": %d, \"iterations\": %d, \"tsan_reports\": %s", nt, iter, race ? "true" : "false"));
}
