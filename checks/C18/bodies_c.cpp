// C18 harness bodies, part C: independent diff::dr / minimize / fit calls sharing const inputs.
#include "bind.hpp"

#include <smooth/diff.hpp>
#include <smooth/optim.hpp>
#include <smooth/manifolds/any.hpp>
#include <smooth/spline/dubins.hpp>
#include <smooth/spline/fit.hpp>
#include <smooth/spline/reparameterize.hpp>

#include "sched.hpp"

using namespace smooth;

template<typename V>
static void put(std::vector<double> & out, const V & v)
{
  for (Eigen::Index j = 0; j < v.cols(); ++j)
    for (Eigen::Index i = 0; i < v.rows(); ++i) out.push_back(double(v(i, j)));
}

namespace {
struct SolShared
{
  std::vector<double> ts;
  std::vector<SO3d> gs;
  std::vector<SE2d> hs;
  SE3d x0;
  Eigen::Vector3d v0;
  std::vector<Eigen::Vector3d> landmarks;
  SO3d target;
  Eigen::VectorXd dynv;  // dynamically sized const arguments of diff::dr (shared)
};
void * sol_make()
{
  auto * s = new SolShared;
  s->ts    = {0, 1, 2.5, 3, 4};
  for (double t : s->ts) {
    s->gs.push_back(SO3d::exp(Eigen::Vector3d(0.3 * t, 0.1, -0.2 * t)));
    s->hs.push_back(SE2d::exp(Eigen::Vector3d(t, -0.5 * t, 0.2 * t)));
  }
  s->x0 = SE3d::exp((Eigen::Matrix<double, 6, 1>() << 0.3, -1, 2, 0.4, -0.8, 1.1).finished());
  s->v0 = Eigen::Vector3d(1, -0.3, 0.5);
  s->landmarks = {Eigen::Vector3d(1, 0, 0), Eigen::Vector3d(0, 1, 0), Eigen::Vector3d(0, 0, 1), Eigen::Vector3d(1, 1, -1)};
  s->target = SO3d::exp(Eigen::Vector3d(0.4, -0.3, 0.2));
  s->dynv   = (Eigen::VectorXd(4) << 0.5, -1.5, 2, 0.25).finished();
  return s;
}
void sol_op(const void * p, int t, std::vector<double> & out)
{
  const auto * s = static_cast<const SolShared *>(p);
  {
    const auto f = [](const SE3d & x, const Eigen::Vector3d & y) -> Eigen::Vector3d { return x * y; };
    const auto [v, J] = diff::dr<1, diff::Type::Numerical>(f, wrt(s->x0, s->v0));
    put(out, v);
    put(out, J);
    if (t == 0) {
      const auto [v2, J2, H2] = diff::dr<2, diff::Type::Numerical>(f, wrt(s->x0, s->v0));
      put(out, H2);
    }
  }
  {
    // numerical differentiation with respect to shared const arguments of dynamic size (Eigen::VectorXd, std::vector<SO3d>)
    const auto f = [](const Eigen::VectorXd & y, const std::vector<SO3d> & gs) -> Eigen::Vector3d {
      Eigen::Vector3d r = y.head<3>() * y(3);
      for (const auto & g : gs) r += g.log();
      return r;
    };
    const auto [v, J] = diff::dr<1, diff::Type::Numerical>(f, wrt(s->dynv, s->gs));
    put(out, v);
    put(out, J);
  }
  {
    // rotation alignment, private optimisation variable and private options
    SO3d x = SO3d::exp(Eigen::Vector3d(0.1 * (t + 1), 0, 0));
    const auto f = [&](const SO3d & y) -> Eigen::VectorXd {
      Eigen::VectorXd r(3 * Eigen::Index(s->landmarks.size()));
      for (size_t i = 0; i < s->landmarks.size(); ++i) r.segment<3>(3 * Eigen::Index(i)) = y * s->landmarks[i] - s->target * s->landmarks[i];
      return r;
    };
    MinimizeOptions opts;
    opts.max_iter = 20;
    const auto res = minimize(f, wrt(x), opts);
    put(out, x.coeffs());
    out.push_back(double(res.iter));
    out.push_back(double(static_cast<int>(res.status)));
  }
  {
    // residuals whose Gauss-Newton steps overshoot (s atan(k x), Rosenbrock): trial steps are rejected and the trust region
    // shrinks, so the back-off path of the strategy runs while other threads solve their own problems with their own options
    Eigen::Vector2d x(3.0 + t, -2.0);
    const auto f = [](const Eigen::Vector2d & y) -> Eigen::Vector2d {
      return Eigen::Vector2d(std::atan(4 * y(0)), std::atan(2 * y(1)) + 0.1 * y(0));
    };
    MinimizeOptions opts;
    opts.max_iter = 30;
    const auto res = minimize(f, wrt(x), opts);
    put(out, x);
    out.push_back(double(res.iter));
    out.push_back(double(static_cast<int>(res.status)));
    Eigen::Vector2d z(-1.2 - 0.3 * t, 1.0);
    const auto rosen = [](const Eigen::Vector2d & y) -> Eigen::Vector2d { return Eigen::Vector2d(10 * (y(1) - y(0) * y(0)), 1 - y(0)); };
    MinimizeOptions opts2;
    opts2.max_iter = 40;
    const auto res2 = minimize(rosen, wrt(z), opts2);
    put(out, z);
    out.push_back(double(res2.iter));
    out.push_back(double(static_cast<int>(res2.status)));
  }
  {
    auto c = fit_spline_cubic(s->ts, s->gs);
    Eigen::Vector3d vel;
    put(out, c(1.7 + 0.4 * t, vel).coeffs());
    put(out, vel);
    auto b = fit_bspline<3>(s->ts, s->hs, 1.0);
    put(out, b(1.2 + t).coeffs());
    out.push_back(b.t_max());
  }
}
c18::BodyReg reg_sol({"independent_solvers", 2, sol_make, sol_op});

// ------------------------------------------------------------------ curve construction from shared const inputs
struct CurveShared
{
  std::vector<double> ts;
  std::vector<SE2d> hs;
  std::vector<Eigen::Vector2d> vs;
  Spline<3, Eigen::Vector2d> path;
  SE2d target;
  std::unique_ptr<AnyManifold> any;
};
void * curve_make()
{
  auto * s = new CurveShared;
  s->ts    = {0, 0.5, 1.5, 2, 3.5};
  for (double t : s->ts) {
    s->hs.push_back(SE2d::exp(Eigen::Vector3d(t, -0.5 * t, 0.2 * t)));
    s->vs.push_back(Eigen::Vector2d(std::sin(t), 0.3 * t * t));
  }
  s->path   = fit_spline_cubic(s->ts, s->vs);
  s->target = SE2d(SO2d(1.1), Eigen::Vector2d(3, -2));
  s->any    = std::make_unique<AnyManifold>(SE2d::exp(Eigen::Vector3d(0.3, 0.2, -0.4)));
  return s;
}
void curve_op(const void * p, int t, std::vector<double> & out)
{
  const auto * s = static_cast<const CurveShared *>(p);
  {
    const auto d = dubins_curve<3>(s->target, 0.8 + 0.2 * t);
    Eigen::Vector3d vel;
    put(out, d(0.4 * d.t_max(), vel).coeffs());
    put(out, vel);
    out.push_back(d.t_max());
  }
  {
    const auto c = fit_spline(s->ts, s->hs, spline_specs::FixedDerCubic<SE2d, 2>{});
    put(out, c(1.1 + 0.3 * t).coeffs());
    const auto l = fit_spline(s->ts, s->vs, spline_specs::PiecewiseLinear<Eigen::Vector2d>{});
    put(out, l(0.7 + t));
  }
  {
    const Eigen::Vector2d vmax(1, 1), amax(0.5 + 0.1 * t, 1);
    const auto r = reparameterize_spline(s->path, -vmax, vmax, -amax, amax, 0., 0.);
    Eigen::Matrix<double, 1, 1> ds;
    out.push_back(r(0.3 * r.t_max(), ds));
    out.push_back(ds(0));
    out.push_back(r.t_max());
  }
  {
    AnyManifold a = *s->any;  // copy of a shared type-erased object
    Eigen::VectorXd d(3);
    d << 0.1 * (t + 1), -0.2, 0.05;
    const AnyManifold b = rplus(a, d);
    put(out, b.get<SE2d>().coeffs());
    put(out, rminus(b, *s->any));
    // writing through a thread-private copy leaves the shared object alone
    a.get<SE2d>() = a.get<SE2d>() * SE2d(SO2d(0.1 * (t + 1)), Eigen::Vector2d(t, 1));
    put(out, a.get<SE2d>().coeffs());
    put(out, s->any->get<SE2d>().coeffs());
    put(out, rminus(a, *s->any));
  }
}
c18::BodyReg reg_curve({"curve_construction", 2, curve_make, curve_op});
}  // namespace
