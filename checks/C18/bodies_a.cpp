// C18 harness bodies, part A: group / tangent functions and manifold operations on shared const objects.
// Compiled with -fsanitize=thread code generation (every memory access calls the engine).
#include "bind.hpp"

#include <memory>
#include <variant>

#include <smooth/manifolds.hpp>
#include <smooth/manifolds/any.hpp>
#include <smooth/manifolds/submanifold.hpp>
#include <smooth/derivatives.hpp>

#include "sched.hpp"

using namespace smooth;

template<typename V>
static void put(std::vector<double> & out, const V & v)
{
  for (Eigen::Index j = 0; j < v.cols(); ++j)
    for (Eigen::Index i = 0; i < v.rows(); ++i) out.push_back(double(v(i, j)));
}

// ------------------------------------------------------------------ group and tangent functions
namespace {
using Bdl = Bundle<SO3d, Eigen::Vector2d, SE2d>;
struct GroupShared
{
  std::vector<SO3d> so3;
  std::vector<SE3d> se3;
  std::vector<SE2d> se2;
  std::vector<Galileid> gal;
  std::vector<Bdl> bdl;
  std::vector<Eigen::Matrix<double, 6, 1>> a6;
  std::vector<Eigen::Matrix<double, 10, 1>> a10;
  std::vector<Eigen::Vector3d> a3;
  double mapbuf[7];  // SE3 coefficients in caller-owned memory, read through Map views by every thread
};
void * group_make()
{
  auto * s = new GroupShared;
  for (int i = 0; i < 3; ++i) {
    Eigen::Vector3d w(0.1 + 0.3 * i, -0.2 * i, 0.05 + 0.1 * i);
    Eigen::Matrix<double, 6, 1> a;
    a << 0.3 * i, -1, 2 - i, w;
    Eigen::Matrix<double, 10, 1> b;
    b << 1, 0.5 * i, -1, 0.2, 2, -0.3 * i, 0.7, w;
    s->a3.push_back(w);
    s->a6.push_back(a);
    s->a10.push_back(b);
    s->so3.push_back(SO3d::exp(w));
    s->se3.push_back(SE3d::exp(a));
    s->se2.push_back(SE2d::exp(Eigen::Vector3d(1 - i, 0.5, 0.4 * i - 0.3)));
    s->gal.push_back(Galileid::exp(b));
    Bdl x;
    x.part<0>() = s->so3.back();
    x.part<1>() = Eigen::Vector2d(i, -1);
    x.part<2>() = s->se2.back();
    s->bdl.push_back(x);
  }
  for (int k = 0; k < 7; ++k) s->mapbuf[k] = s->se3[1].coeffs()(k);
  // small-angle tangent: the Taylor branches
  s->a3.push_back(Eigen::Vector3d(1e-6, -2e-6, 1e-6));
  s->a6.push_back((Eigen::Matrix<double, 6, 1>() << 1, 2, 3, 1e-6, -2e-6, 1e-6).finished());
  return s;
}
void group_op(const void * p, int t, std::vector<double> & out)
{
  const auto * s = static_cast<const GroupShared *>(p);
  const size_t i = size_t(t) % 3, j = size_t(t + 1) % 3;
  {
    // the free-function interface on views over shared memory (mutable and const view types; the threads only read)
    const Map<SE3d> m(const_cast<double *>(s->mapbuf));
    const Map<const SE3d> cm(s->mapbuf);
    put(out, smooth::composition(m, s->se3[i]).coeffs());
    put(out, smooth::composition(m, s->se3[i], s->se3[j]).coeffs());
    put(out, smooth::composition(m, s->se3[j], cm, s->se3[i]).coeffs());
    put(out, smooth::composition(cm, s->se3[i]).coeffs());
    put(out, smooth::inverse(m).coeffs());
    put(out, smooth::log(cm));
    put(out, smooth::Ad(m));
    put(out, smooth::rplus(m, s->a6[j]).coeffs());
    put(out, cm - s->se3[j]);
    put(out, (m * cm).coeffs());
  }
  put(out, (s->so3[i] * s->so3[j]).coeffs());
  put(out, s->so3[i].inverse().coeffs());
  put(out, s->so3[j].log());
  put(out, SO3d::exp(s->a3[size_t(t) % 4]).coeffs());
  put(out, SO3d::dr_exp(s->a3[size_t(t) % 4]));
  put(out, SO3d::d2r_exp(s->a3[i]));
  put(out, (s->se3[i] * s->se3[j]).coeffs());
  put(out, s->se3[i].inverse().coeffs());
  put(out, s->se3[j].log());
  put(out, s->se3[i].Ad());
  put(out, SE3d::exp(s->a6[size_t(t) % 4]).coeffs());
  put(out, SE3d::dr_exp(s->a6[size_t(t) % 4]));
  put(out, SE3d::dr_expinv(s->a6[j]));
  put(out, SE3d::d2r_exp(s->a6[i]));
  put(out, SE3d::d2r_expinv(s->a6[j]));
  put(out, SE3d::ad(s->a6[i]));
  put(out, s->se3[i] * s->a3[j]);
  put(out, s->se3[i].matrix());
  put(out, (s->se2[i] * s->se2[j]).coeffs());
  put(out, s->se2[i].log());
  put(out, SE2d::d2r_exp(s->se2[j].log()));
  put(out, (s->gal[i] * s->gal[j]).coeffs());
  put(out, s->gal[i].log());
  put(out, Galileid::exp(s->a10[j]).coeffs());
  put(out, Galileid::dr_exp(s->a10[i]));
  put(out, s->gal[j].Ad());
  put(out, (s->bdl[i] * s->bdl[j]).coeffs());
  put(out, s->bdl[i].log());
  put(out, Bdl::dr_exp(s->bdl[j].log()));
  // complete the const API on every family (each call is a potential site of hidden static / scratch state)
  put(out, Bdl::d2r_exp(s->bdl[i].log()));
  put(out, Bdl::d2r_expinv(s->bdl[j].log()));
  put(out, Bdl::d2l_exp(s->bdl[j].log()));
  put(out, Bdl::dr_expinv(s->bdl[i].log()));
  put(out, Bdl::dl_exp(s->bdl[i].log()));
  put(out, Bdl::ad(s->bdl[j].log()));
  put(out, Bdl::hat(s->bdl[i].log()));
  put(out, s->bdl[i].Ad());
  put(out, s->bdl[j].inverse().coeffs());
  put(out, s->bdl[i].matrix());
  put(out, Bdl::exp(s->bdl[j].log()).coeffs());
  put(out, s->bdl[i].template cast<float>().coeffs().template cast<double>());
  put(out, SO3d::dr_expinv(s->a3[size_t(t) % 4]));
  put(out, SO3d::dl_exp(s->a3[i]));
  put(out, SO3d::dl_expinv(s->a3[j]));
  put(out, SO3d::d2r_expinv(s->a3[i]));
  put(out, SO3d::d2l_exp(s->a3[j]));
  put(out, SO3d::d2l_expinv(s->a3[i]));
  put(out, SO3d::ad(s->a3[j]));
  put(out, SO3d::hat(s->a3[i]));
  put(out, SO3d::lie_bracket(s->a3[i], s->a3[j]));
  put(out, s->so3[i].Ad());
  put(out, s->so3[i].matrix());
  put(out, s->so3[i] * s->a3[j]);
  put(out, s->so3[i].dr_action(s->a3[j]));
  put(out, s->so3[i].eulerAngles());
  put(out, s->so3[j].project_so2().coeffs());
  put(out, s->so3[i].template cast<float>().coeffs().template cast<double>());
  put(out, SE3d::dl_exp(s->a6[i]));
  put(out, SE3d::dl_expinv(s->a6[j]));
  put(out, SE3d::d2l_exp(s->a6[j]));
  put(out, SE3d::hat(s->a6[i]));
  put(out, SE3d::lie_bracket(s->a6[i], s->a6[j]));
  put(out, s->se3[i].dr_action(s->a3[j]));
  put(out, s->se3[j].project_se2().coeffs());
  put(out, s->se3[i].isometry().matrix());
  put(out, (s->se2[i].inverse()).coeffs());
  put(out, s->se2[i].Ad());
  put(out, s->se2[i].matrix());
  put(out, SE2d::exp(s->se2[j].log()).coeffs());
  put(out, SE2d::dr_exp(s->se2[j].log()));
  put(out, SE2d::dr_expinv(s->se2[i].log()));
  put(out, SE2d::d2r_expinv(s->se2[j].log()));
  put(out, s->se2[i].lift_se3().coeffs());
  put(out, s->se2[i] * Eigen::Vector2d(0.3, -1));
  put(out, s->gal[i].inverse().coeffs());
  put(out, s->gal[i].matrix());
  put(out, Galileid::dr_expinv(s->a10[j]));
  put(out, Galileid::dl_exp(s->a10[j]));
  put(out, Galileid::ad(s->a10[i]));
  put(out, Galileid::hat(s->a10[i]));
  put(out, s->gal[i] * Eigen::Vector4d(0.3, -1, 0.5, 2));
  put(out, s->gal[j].dr_action(Eigen::Vector4d(0.3, -1, 0.5, 2)));
  put(out, lminus(s->se3[i], s->se3[j]));
  put(out, lplus(s->se3[i], s->a6[j]).coeffs());
  put(out, rminus(s->se3[i], s->se3[j]));
  put(out, rplus(s->se3[i], s->a6[j]).coeffs());
  put(out, dr_rminus<SE3d>(s->a6[i]));
  put(out, d2r_rminus_squarednorm<SE3d>(s->a6[j]));
}
c18::BodyReg reg_group({"group_functions", 2, group_make, group_op});

// ------------------------------------------------------------------ manifold models
using Var = std::variant<SO3d, SE2d, Eigen::Vector2d, double>;
struct ManShared
{
  std::vector<SE3d> vec, vec2;
  Var var_a, var_b;
  std::unique_ptr<SubManifold<SO3d>> sub_so3, sub_so3_b;
  std::unique_ptr<SubManifold<Eigen::VectorXd>> sub_vec, sub_vec_b;
  std::unique_ptr<AnyManifold> any_a, any_b;
  Eigen::VectorXd d12, d2, d3, d6, dsub;
};
void * man_make()
{
  auto * s = new ManShared;
  for (int i = 0; i < 2; ++i) {
    Eigen::Matrix<double, 6, 1> a;
    a << 0.3 * i, -1, 2 - i, 0.2, -0.1 * i, 0.3;
    s->vec.push_back(SE3d::exp(a));
    s->vec2.push_back(SE3d::exp(-0.5 * a));
  }
  s->var_a = SE2d::exp(Eigen::Vector3d(1, 2, 0.3));
  s->var_b = SE2d::exp(Eigen::Vector3d(-1, 0.5, 1.3));
  Eigen::VectorXi fix1(1);
  fix1 << 1;
  const SO3d r0 = SO3d::exp(Eigen::Vector3d(0.1, 0.2, 0.3));
  s->sub_so3    = std::make_unique<SubManifold<SO3d>>(r0, r0, fix1);
  s->sub_so3_b  = std::make_unique<SubManifold<SO3d>>(s->sub_so3->rplus(Eigen::Vector2d(0.3, -0.2)));
  Eigen::VectorXi fix2(2);
  fix2 << 0, 3;
  Eigen::VectorXd v0(5);
  v0 << 1, 2, 3, 4, 5;
  s->sub_vec   = std::make_unique<SubManifold<Eigen::VectorXd>>(v0, v0, fix2);
  s->sub_vec_b = std::make_unique<SubManifold<Eigen::VectorXd>>(s->sub_vec->rplus(Eigen::Vector3d(0.5, -1, 2)));
  s->any_a     = std::make_unique<AnyManifold>(SE3d::exp(Eigen::Matrix<double, 6, 1>::Constant(0.3)));
  s->any_b     = std::make_unique<AnyManifold>(SE3d::exp(Eigen::Matrix<double, 6, 1>::Constant(-0.1)));
  s->d12       = Eigen::VectorXd::LinSpaced(12, -0.3, 0.4);
  s->d6        = Eigen::VectorXd::LinSpaced(6, 0.1, 0.6);
  s->d3        = Eigen::Vector3d(0.2, -0.1, 0.4);
  s->d2        = Eigen::Vector2d(0.25, -0.35);
  return s;
}
void man_op(const void * p, int t, std::vector<double> & out)
{
  const auto * s  = static_cast<const ManShared *>(p);
  const double sc = 1.0 + 0.5 * t;
  {
    auto v2 = rplus(s->vec, (sc * s->d12).eval());
    for (auto & g : v2) put(out, g.coeffs());
    put(out, rminus(s->vec2, s->vec));
    out.push_back(double(dof(s->vec)));
  }
  {
    auto v = rplus(s->var_a, (sc * s->d3).eval());
    put(out, std::get<SE2d>(v).coeffs());
    put(out, rminus(s->var_b, s->var_a));
    out.push_back(double(dof(s->var_a)));
  }
  {
    auto x = rplus(*s->sub_so3, (sc * s->d2).eval());
    put(out, x.m().coeffs());
    put(out, rminus(*s->sub_so3_b, *s->sub_so3));
    out.push_back(double(dof(*s->sub_so3)));
    auto y = rplus(*s->sub_vec, (sc * s->d3).eval());
    put(out, y.m());
    put(out, rminus(*s->sub_vec_b, *s->sub_vec));
  }
  {
    auto a = rplus(*s->any_a, (sc * s->d6).eval());
    put(out, a.get<SE3d>().coeffs());
    put(out, rminus(*s->any_b, *s->any_a));
    out.push_back(double(dof(*s->any_a)));
  }
}
c18::BodyReg reg_man({"manifold_models", 2, man_make, man_op});
}  // namespace
