// Interface between the instrumented harness bodies (compiled with -fsanitize=thread code generation) and the
// uninstrumented scheduler / explorer (engine.cpp).
#pragma once
#include <vector>

namespace c18 {

struct Body
{
  const char * name;
  int nthreads;
  /// builds the shared const objects (main thread, before the concurrent phase)
  void * (*make)();
  /// the non-mutating operation of thread t on the shared objects; appends its observable results to out
  void (*op)(const void * shared, int t, std::vector<double> & out);
};

/// registry filled by the bodies translation units
std::vector<Body> & bodies();
struct BodyReg
{
  BodyReg(const Body & b) { bodies().push_back(b); }
};

}  // namespace c18
