# C18: bodies are compiled with ThreadSanitizer *code generation* only and linked against the engine's own __tsan_* entry
# points (no libtsan); the engine itself is uninstrumented. A second binary (tsan_run) is the same bodies under the real
# ThreadSanitizer runtime, free-running.
LIBS_C18 := -ldl -rdynamic
$(B)/C18/bodies_a.o $(B)/C18/bodies_b.o $(B)/C18/bodies_c.o: FLAGS_C18 := -g -fsanitize=thread -fno-builtin-memcpy -fno-builtin-memset -fno-builtin-memmove

C18_TSAN_OBJS := $(B)/C18/tsan/bodies_a.o $(B)/C18/tsan/bodies_b.o $(B)/C18/tsan/bodies_c.o $(B)/C18/tsan/tsan_main.o
$(B)/C18/tsan/bodies_%.o: $(ROOT)/checks/C18/bodies_%.cpp $(B)/gen/smooth/version.hpp $(ROOT)/Makefile $(ROOT)/checks/C18/flags.mk
	@mkdir -p $(dir $@)
	$(CXX) $(BASE) -g1 -fsanitize=thread -c $< -o $@
$(B)/C18/tsan/tsan_main.o: $(ROOT)/checks/C18/tsan/tsan_main.cpp $(ROOT)/checks/C18/sched.hpp
	@mkdir -p $(dir $@)
	$(CXX) -std=c++20 -O2 -g1 -fsanitize=thread -pthread -c $< -o $@
$(B)/C18/tsan_run: $(C18_TSAN_OBJS) $(B)/mc.o
	$(CXX) -fsanitize=thread -pthread $^ -o $@
$(B)/C18/run: | $(B)/C18/tsan_run
-include $(wildcard $(B)/C18/tsan/*.d)

NOFILL_C18 := 1
