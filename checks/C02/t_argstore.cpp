#include "valsem.hpp"
MC_SUBCHECK(argument_storage) { mcb::argument_storage_all<2>("C02"); }
