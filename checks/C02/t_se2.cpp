#include "c02.hpp"
using namespace smooth;
MC_SUBCHECK(se2)
{
  c02::run<SE2d>("SE2d");
  c02::run<SE2f>("SE2f");
}
