#include "c02.hpp"
using namespace smooth;
MC_SUBCHECK(galilei)
{
  c02::run<Galileid>("Galileid");
  c02::run<Galileif>("Galileif");
}
