#include "c02.hpp"
using namespace smooth;
MC_SUBCHECK(se3)
{
  c02::run<SE3d>("SE3d");
  c02::run<SE3f>("SE3f");
}
