// C02 — exp is the matrix exponential; log is its principal inverse.
// E: every tangent of the full alphabet (rotation norm 0..50, both sides of the Taylor switch, around pi),
//    every element of the element alphabet and every library-produced exp(a).  O: expm of the documented hat matrix.
#pragma once
#include "bind.hpp"

namespace c02 {
using namespace mcb;

template<typename G>
void run(const std::string & tn)
{
  using S = typename G::Scalar;
  using R = Ref<G>;
  constexpr int D = R::Dof, Dim = R::Dim;
  constexpr bool F  = std::is_same_v<S, float>;
  const double T    = F ? 1e-3 : 1e-9;   // stated
  const double Tpi  = F ? 1e-2 : 1e-7;   // stated, inside the band around pi
  const double band = F ? 1e-2 : 1e-5;
  const double epsS = std::numeric_limits<S>::epsilon();

  auto Ts = tangents<R, S>(AlphaOpts::dense());
  mc::explore("C02/exp/" + tn, Ts.size(), [&](mc::Case & c) {
    const auto & t = Ts[c.idx];
    const auto a   = make<G>(t);
    c.desc         = [&] { return "a=" + vstr(a) + mc::fmt(" rot=%.17g", t.rot); };
    c.param("rot", t.rot);
    c.param("tm", t.tm);
    c.outcome(t.rot * t.rot < 1e-8 ? "rot^2<eps2" : (t.rot < PI ? "eps2<=rot^2,rot<pi" : "rot>=pi"));
    L al[D];
    toL(a, al);
    const auto Eref = ref::exp_ref<R>(al);
    const G g       = G::exp(a);
    const auto cg   = coeffsL(g);
    const auto Mg   = R::template matrix<L>(cg.data());
    c.judge("exp=expm(hat)", ref::relerr1(Mg, Eref), T);
    // log of the library-produced element
    const double gap = (double)R::template pi_gap<L>(cg.data());
    const bool inband = gap <= band;
    c.param("pigap", gap);
    const auto lg = g.log();
    L ll[D];
    toL(lg, ll);
    if constexpr (R::NRot != 0) {
      // rotation part(s) of log have norm <= pi
      double worst = 0;
      if constexpr (R::NRot > 0) {
        L n2 = 0;
        for (int i = 0; i < R::NRot; ++i) n2 += ll[R::RotOff + i] * ll[R::RotOff + i];
        worst = (double)(std::sqrt(n2) / 3.14159265358979323846264338327950288L);
      }
      if constexpr (R::NRot > 0) c.judge("|rot(log g)|<=pi", worst, 1 + 4 * epsS);
    }
    c.judge(inband ? "exp(log g)=g [pi band]" : "exp(log g)=g", ref::relerr1(ref::exp_ref<R>(ll), Mg), inband ? Tpi : T);
    if (t.rot < PI) {
      L e = 0, m = 1;
      for (int i = 0; i < D; ++i) {
        L d = std::fabs(ll[i] - al[i]);
        if (!(d == d)) d = INFINITY;
        e = std::max(e, d);
        m = std::max(m, std::fabs(al[i]));
      }
      c.judge(inband ? "log(exp a)=a [pi band]" : "log(exp a)=a", (double)(e / m), inband ? Tpi : T);
      // "relative accuracy, uniformly in a, for rotation angles that are arbitrarily small": for tangents that are small as
      // a whole the error is measured relative to |a| itself (a tiny tangent must not be flushed to zero), above the floor
      // of 4 ulp of 1 that the stored coefficients can resolve (C1: a log-scaling of 0 comes back as 1.1e-16)
      L na = 0;
      for (int i = 0; i < D; ++i) na = std::max(na, std::fabs(al[i]));
      if (na > 0 && na < 1 && !inband) c.judge("log(exp a)=a relative to |a|, |a|<1", (double)(std::max((L)0, e - 4 * (L)epsS) / na), T);
    }
  });

  // elements given by coefficients (not produced by the library's exp)
  auto Es = elements<R, S>(AlphaOpts::dense().upto(2 * PI + 1e-3));
  mc::explore("C02/log/" + tn, Es.size(), [&](mc::Case & c) {
    const G g = make<G>(Es[c.idx]);
    c.desc    = [&] { return "g=" + vstr(g.coeffs()); };
    const auto cg   = coeffsL(g);
    const double gap = (double)R::template pi_gap<L>(cg.data());
    const bool inband = gap <= band;
    c.param("rot", PI - gap);
    c.param("pigap", gap);
    c.param("tm", Es[c.idx].tm);
    const auto Mg = R::template matrix<L>(cg.data());
    const auto lg = g.log();
    L ll[D];
    toL(lg, ll);
    if constexpr (R::NRot > 0) {
      L n2 = 0;
      for (int i = 0; i < R::NRot; ++i) n2 += ll[R::RotOff + i] * ll[R::RotOff + i];
      c.judge("|rot(log g)|<=pi", (double)(std::sqrt(n2) / 3.14159265358979323846264338327950288L), 1 + 4 * epsS);
    }
    c.judge(inband ? "exp(log g)=g [pi band]" : "exp(log g)=g", ref::relerr1(ref::exp_ref<R>(ll), Mg), inband ? Tpi : T);
    // and through the library's own exp
    const G g2 = G::exp(lg);
    c.judge(inband ? "G::exp(log g)=g [pi band]" : "G::exp(log g)=g",
      ref::relerr1(R::template matrix<L>(coeffsL(g2).data()), Mg), inband ? Tpi : T);
  });
}
}  // namespace c02
