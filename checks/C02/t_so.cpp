#include "c02.hpp"
using namespace smooth;
MC_SUBCHECK(so)
{
  c02::run<SO2d>("SO2d");
  c02::run<SO2f>("SO2f");
  c02::run<SO3d>("SO3d");
  c02::run<SO3f>("SO3f");
  c02::run<C1d>("C1d");
  c02::run<C1f>("C1f");
}
