#include "c02.hpp"
using namespace smooth;
MC_SUBCHECK(se_k_3)
{
  c02::run<SE_K_3<double, 1>>("SE_1_3d");
  c02::run<SE_K_3<double, 2>>("SE_2_3d");
  c02::run<SE_K_3<float, 2>>("SE_2_3f");
  c02::run<SE_K_3<double, 3>>("SE_3_3d");
}
