#include "valsem.hpp"
MC_SUBCHECK(value_semantics) { mcb::value_semantics_all<2>("C02"); }
