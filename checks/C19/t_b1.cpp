#include "c19.hpp"
using namespace smooth;
MC_SUBCHECK(bundle_so3_t2) { c19::all<Bundle<SO3d, Eigen::Vector2d>>("Bundle<SO3,T2>d"); }
