#include "c19.hpp"
using namespace smooth;
// LeakSanitizer is not wanted in the forked sub-check children (only used when flags.mk enables ASan)
extern "C" const char * __asan_default_options() { return "detect_leaks=0:abort_on_error=1"; }
MC_SUBCHECK(so2) { c19::all<SO2d>("SO2d"); }
MC_SUBCHECK(so3) { c19::all<SO3d>("SO3d"); }
MC_SUBCHECK(c1) { c19::all<C1d>("C1d"); }
