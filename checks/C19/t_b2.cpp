#include "c19.hpp"
using namespace smooth;
MC_SUBCHECK(bundle_se2_se3) { c19::all<Bundle<SE2d, SE3d>>("Bundle<SE2,SE3>d"); }
