#include "c19.hpp"
using namespace smooth;
MC_SUBCHECK(se3) { c19::all<SE3d>("SE3d"); }
