# C19 writes through coeffRef into caller-owned sparse storage: build with AddressSanitizer so that a write past the
# value/index arrays aborts the forked sub-check (reported as a violation of the current case).
FLAGS_C19 := -fsanitize=address -fno-omit-frame-pointer
LIBS_C19  := -fsanitize=address

NOFILL_C19 := 1
