#include "c19.hpp"
using namespace smooth;
MC_SUBCHECK(se2) { c19::all<SE2d>("SE2d"); }
