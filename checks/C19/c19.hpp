// C19 — sparse Lie-group derivative routines equal the dense ones.
//
// E: group G x tangent a (full alphabet of bind.hpp + zero + single-axis + three generic all-nonzero
//    tangents) x block offset i0 in {0,1,Dof,7} x host size {exact,+3,+10} x host prefill pattern
//    {published pattern shifted to the block, pattern + full diagonal, fully dense}, every stored entry of
//    the host holding a distinct sentinel value, x the five routines.  Hessian hosts (n rows) additionally come
//    with n^2, n(i0+Dof) (the documented minimum) and n^2+5 columns: the block stride is the row count.
// O: (differential, as stated) every pattern entry of the designated block == dense routine, value-exact;
//    every stored entry outside the block bitwise untouched; rows/cols/nonZeros/outer/inner arrays
//    unchanged; isCompressed().  Stored entries inside the block but outside the published pattern (only
//    present with the two wider prefills) must be either bitwise untouched (the i0-routines write pattern
//    entries only) or equal to the dense value (ad_sparse zeroes the whole matrix first).
//    Patterns: the dense result is identically zero outside the published pattern for every alphabet
//    tangent; independently, every entry whose long-double reference value (ref.hpp: ad from the documented
//    hat/vee, phi1(-ad), complex step) is non-zero at a generic tangent is in the published pattern;
//    generators_sparse[k] == ad_ref(e_k) exactly.
//
// Notes on what is (not) demanded:
//  * "exactly" is read as value equality (+0 == -0): ad_sparse computes 0 + a_k * (+-1) which yields +0
//    where dense ad stores -a_k = -0 for a_k = 0.  Signed-zero differences are counted as an outcome class.
//  * ad_sparse has no i0 parameter and computes `sp += a_k * generator_k` (sizes must agree), so its host
//    is always Dof x Dof at offset 0; the designated block is the whole matrix.
//  * Hessian block layout in an n x n^2 host (n = host rows): dense entry (r, Dof*b + c) lives at
//    (i0 + r, n*(i0 + b) + i0 + c), i.e. the Hessian layout H(j, n*i + k) of the larger variable.
#pragma once
#include "bind.hpp"

#include <smooth/lie_sparse.hpp>

namespace c19 {
using namespace mcb;
using Sp = Eigen::SparseMatrix<double>;

enum Kind { K_AD = 0, K_DEXP = 1, K_D2EXP = 2 };
enum Routine { R_AD = 0, R_DEXP = 1, R_DEXPINV = 2, R_D2EXP = 3, R_D2EXPINV = 4 };
inline const char * rname(int r)
{
  static const char * n[] = {"ad_sparse", "dr_exp_sparse", "dr_expinv_sparse", "d2r_exp_sparse", "d2r_expinv_sparse"};
  return n[r];
}
constexpr int kind_of(int r) { return r == R_AD ? K_AD : (r <= R_DEXPINV ? K_DEXP : K_D2EXP); }

inline double sentinel(Eigen::Index p) { return -(1048576.0 + 3.0 * double(p) + 0.25); }
inline uint64_t bits(double x)
{
  uint64_t u;
  std::memcpy(&u, &x, 8);
  return u;
}

template<typename G, int K>
const Sp & published_pattern()
{
  if constexpr (K == K_AD)
    return smooth::ad_sparse_pattern<G>;
  else if constexpr (K == K_DEXP)
    return smooth::d_exp_sparse_pattern<G>;
  else
    return smooth::d2_exp_sparse_pattern<G>;
}

/// column-major mask of the *stored* entries of a sparse matrix (values are irrelevant)
inline std::vector<char> stored_mask(const Sp & p)
{
  std::vector<char> m(size_t(p.rows() * p.cols()), 0);
  for (Eigen::Index j = 0; j < p.outerSize(); ++j)
    for (Sp::InnerIterator it(p, j); it; ++it) m[size_t(it.row() + it.col() * p.rows())] = 1;
  return m;
}

// ------------------------------------------------------------------ tangent set
template<typename G>
struct TanSet
{
  static constexpr int D = int(smooth::Dof<G>);
  using Tg               = Eigen::Matrix<double, D, 1>;
  std::vector<Tg> T;
  std::vector<double> rot;
  size_t n_alpha = 0, first_generic = 0;

  void add(const Tg & a, double r)
  {
    for (auto & b : T)
      if (std::memcmp(a.data(), b.data(), sizeof(double) * size_t(D)) == 0) return;
    T.push_back(a);
    rot.push_back(r);
  }
  static Tg generic(int j)
  {
    static const double pr[] = {2, 3, 5, 7, 11, 13, 17, 19, 23, 29, 31, 37, 41, 43};
    Tg g;
    for (int i = 0; i < D; ++i) {
      if (j == 0)
        g(i) = std::sqrt(pr[i]) * 0.23 * (i % 2 ? -1 : 1);
      else if (j == 1)
        g(i) = (std::cbrt(pr[i + 1]) - 2.05) * 0.9;
      else
        g(i) = std::log(pr[i] + 0.5) * 0.31 * (i % 3 == 1 ? -1 : 1);
    }
    return g;
  }
  TanSet()
  {
    static_assert(D <= 12);
    using R = Ref<G>;
    auto ts = tangents<R>(AlphaOpts::full());
    for (auto & t : ts) add(make<G>(t), t.rot);
    n_alpha = T.size();
    add(Tg::Zero(), 0);
    for (int k = 0; k < D; ++k)
      for (double m : {1.0, -0.7, 1e-5, 3.5}) add(Tg(m * Tg::Unit(k)), std::fabs(m));
    first_generic = T.size();
    for (int j = 0; j < 3; ++j) {
      Tg g = generic(j);
      add(g, g.norm());
    }
  }
};

// ------------------------------------------------------------------ hosts
struct Host
{
  Sp sp;                  // compressed, every stored value = sentinel(position)
  std::vector<int> code;  // per stored entry: -1 outside the block, else col-major index into the dense result
  std::vector<char> inpat;
  int i0 = 0, extra = 0, prefill = 0;
  int colvar = 0;    // Hessian hosts only: 0: n x n^2, 1: n x n(i0+Dof) (documented minimum), 2: n x (n^2+5)
  bool dup   = false;  // duplicate of another menu entry (i0 menu collision / coinciding column variants)
  std::string cls;
};

/// D: Dof, K: kind, mask: stored entries of the published pattern (D x DC col-major)
inline Host make_host(int D, int K, const std::vector<char> & mask, int i0, int extra, int prefill, int colvar = 0)
{
  const int DC            = K == K_D2EXP ? D * D : D;
  const Eigen::Index n    = K == K_AD ? D : i0 + D + extra;
  const Eigen::Index rows = n;
  const Eigen::Index cols = K != K_D2EXP ? n : (colvar == 0 ? n * n : (colvar == 1 ? n * (i0 + D) : n * n + 5));
  std::vector<int> blockidx(size_t(rows * cols), -1);
  std::vector<char> present(size_t(rows * cols), 0);
  size_t nblock = 0;
  for (int c = 0; c < DC; ++c)
    for (int r = 0; r < D; ++r) {
      Eigen::Index row = i0 + r, col;
      if (K == K_D2EXP)
        col = n * (i0 + c / D) + i0 + (c % D);
      else
        col = i0 + c;
      if (row >= rows || col >= cols) mc::harness_error("C19: block position outside host");
      int & b = blockidx[size_t(row + col * rows)];
      if (b != -1) mc::harness_error("C19: block positions not injective");
      b = r + c * D;
      ++nblock;
      if (mask[size_t(r + c * D)]) present[size_t(row + col * rows)] = 1;
    }
  if (nblock != size_t(D) * size_t(DC)) mc::harness_error("C19: block size");
  if (prefill >= 1) {
    for (Eigen::Index i = 0; i < rows; ++i) {
      present[size_t(i + i * rows)] = 1;                                                    // main diagonal
      if (K == K_D2EXP && n * i + i < cols) present[size_t(i + (n * i + i) * rows)] = 1;  // d2 x_i / dx_i dx_i
    }
  }
  if (prefill == 2) std::fill(present.begin(), present.end(), 1);
  std::vector<Eigen::Triplet<double>> tr;
  for (Eigen::Index j = 0; j < cols; ++j)
    for (Eigen::Index i = 0; i < rows; ++i)
      if (present[size_t(i + j * rows)]) tr.emplace_back(i, j, 1.0);
  Host H;
  H.sp.resize(rows, cols);
  H.sp.setFromTriplets(tr.begin(), tr.end());
  H.sp.makeCompressed();
  if (!H.sp.isCompressed() || size_t(H.sp.nonZeros()) != tr.size()) mc::harness_error("C19: host construction");
  H.code.resize(tr.size());
  H.inpat.resize(tr.size());
  for (Eigen::Index j = 0; j < cols; ++j)
    for (Eigen::Index p = H.sp.outerIndexPtr()[j]; p < H.sp.outerIndexPtr()[j + 1]; ++p) {
      const Eigen::Index i = H.sp.innerIndexPtr()[p];
      H.sp.valuePtr()[p]   = sentinel(p);
      const int b          = blockidx[size_t(i + j * rows)];
      H.code[size_t(p)]    = b;
      H.inpat[size_t(p)]   = b >= 0 && mask[size_t(b)];
    }
  H.i0      = i0;
  H.extra   = extra;
  H.prefill = prefill;
  H.colvar  = colvar;
  return H;
}

template<typename G, int RT>
auto dense_result(const Eigen::Matrix<double, int(smooth::Dof<G>), 1> & a)
{
  if constexpr (RT == R_AD)
    return smooth::TangentMap<G>(smooth::ad<G>(a));
  else if constexpr (RT == R_DEXP)
    return smooth::TangentMap<G>(smooth::dr_exp<G>(a));
  else if constexpr (RT == R_DEXPINV)
    return smooth::TangentMap<G>(smooth::dr_expinv<G>(a));
  else if constexpr (RT == R_D2EXP)
    return smooth::Hessian<G>(smooth::d2r_exp<G>(a));
  else
    return smooth::Hessian<G>(smooth::d2r_expinv<G>(a));
}

template<typename G, int RT>
void call_sparse(Sp & sp, const Eigen::Matrix<double, int(smooth::Dof<G>), 1> & a, Eigen::Index i0, bool default_arg)
{
  if constexpr (RT == R_AD) {
    smooth::ad_sparse<G>(sp, a);
  } else if constexpr (RT == R_DEXP) {
    if (default_arg)
      smooth::dr_exp_sparse<G>(sp, a);
    else
      smooth::dr_exp_sparse<G>(sp, a, i0);
  } else if constexpr (RT == R_DEXPINV) {
    if (default_arg)
      smooth::dr_expinv_sparse<G>(sp, a);
    else
      smooth::dr_expinv_sparse<G>(sp, a, i0);
  } else if constexpr (RT == R_D2EXP) {
    if (default_arg)
      smooth::d2r_exp_sparse<G>(sp, a);
    else
      smooth::d2r_exp_sparse<G>(sp, a, i0);
  } else {
    if (default_arg)
      smooth::d2r_expinv_sparse<G>(sp, a);
    else
      smooth::d2r_expinv_sparse<G>(sp, a, i0);
  }
}

// ------------------------------------------------------------------ routine x host x tangent
template<typename G, int RT>
void routine_checks(const std::string & gname, const TanSet<G> & TS)
{
  constexpr int D  = int(smooth::Dof<G>);
  constexpr int K  = kind_of(RT);
  constexpr int DC = K == K_D2EXP ? D * D : D;
  const Sp & pat   = published_pattern<G, K>();
  if (pat.rows() != D || pat.cols() != DC) return;  // reported as a violation by C19/pattern-objects
  const auto mask = stored_mask(pat);

  std::vector<Host> hosts;
  const int offs[4] = {0, 1, D, 7};
  const int ext[3]  = {0, 3, 10};
  for (int oi = 0; oi < (K == K_AD ? 1 : 4); ++oi)
    for (int ei = 0; ei < (K == K_AD ? 1 : 3); ++ei)
      for (int pf = 0; pf < 3; ++pf)
       for (int cv = 0; cv < (K == K_D2EXP ? 3 : 1); ++cv) {
        static const char * on[] = {"i0=0", "i0=1", "i0=Dof", "i0=7"};
        static const char * en[] = {"exact", "+3", "+10"};
        static const char * pn[] = {"pattern", "pattern+diag", "dense"};
        static const char * cn[] = {"", ",cols=n^2", ",cols=n(i0+Dof)", ",cols=n^2+5"};
        Host H = make_host(D, K, mask, offs[oi], ext[ei], pf, cv);
        H.cls  = std::string("host:") + on[oi] + "," + en[ei] + "," + pn[pf] + cn[K == K_D2EXP ? cv + 1 : 0];
        for (int q = 0; q < oi; ++q)
          if (offs[q] == offs[oi]) H.dup = true;
        if (cv == 1 && ext[ei] == 0) H.dup = true;  // n(i0+Dof) == n^2
        // the documented size preconditions of the routine hold for every host
        bool pre = H.sp.isCompressed() && H.sp.rows() >= H.i0 + D;
        if (K == K_DEXP) pre = pre && H.sp.cols() >= H.i0 + D;
        if (K == K_D2EXP) pre = pre && H.sp.cols() >= H.sp.rows() * (H.i0 + D);
        if (K == K_AD) pre = pre && H.sp.rows() == D && H.sp.cols() == D;
        mc::selfcheck("host satisfies the routine's preconditions", pre);
        hosts.push_back(std::move(H));
      }
  {
    // host (i0=0, exact, pattern) is structurally the published pattern itself ("copy the pattern" usage)
    const Host & H0 = hosts[0];  // (i0=0, exact, pattern, n x n^2)
    bool same       = H0.sp.rows() == pat.rows() && H0.sp.cols() == pat.cols() && H0.sp.nonZeros() == pat.nonZeros();
    if (pat.isCompressed()) {  // (an uncompressed published pattern is reported by C19/pattern-objects)
      same = same && std::memcmp(H0.sp.outerIndexPtr(), pat.outerIndexPtr(), sizeof(int) * size_t(pat.cols() + 1)) == 0;
      same = same && std::memcmp(H0.sp.innerIndexPtr(), pat.innerIndexPtr(), sizeof(int) * size_t(pat.nonZeros())) == 0;
    }
    mc::selfcheck("exact host at offset 0 has the index arrays of the published pattern", same);
  }
  const uint64_t nh = hosts.size(), nt = TS.T.size();
  mc::explore("C19/" + std::string(rname(RT)) + "/" + gname, nh * nt, [&](mc::Case & c) {
    mc::Radix rx(c.idx);
    const uint64_t hi = rx.next(nh), ti = rx.next(nt);
    const Host & H    = hosts[hi];
    const auto & a    = TS.T[ti];
    c.desc            = [&] {
      return "a=" + vstr(a) + mc::fmt(" i0=%d host=%ldx%ld (Dof%+d) prefill=%d nnz=%ld", H.i0, (long)H.sp.rows(), (long)H.sp.cols(), H.extra,
                                     H.prefill, (long)H.sp.nonZeros());
    };
    c.param("rot", TS.rot[ti]);
    c.param("i0", H.i0);
    c.param("extra", H.extra);
    c.param("prefill", H.prefill);
    c.param("colvar", H.colvar);
    c.outcome(H.cls.c_str());
    if (H.dup) c.trivial();

    Sp sp = H.sp;
    // the default-argument form is exercised on the "copy the pattern" host
    call_sparse<G, RT>(sp, a, H.i0, H.i0 == 0 && H.extra == 0 && H.prefill == 0);
    const auto Dn = dense_result<G, RT>(a);
    static_assert(std::decay_t<decltype(Dn)>::RowsAtCompileTime == D && std::decay_t<decltype(Dn)>::ColsAtCompileTime == DC);
    const double * dd = Dn.data();  // column-major

    const bool compressed = sp.isCompressed();
    bool same = sp.rows() == H.sp.rows() && sp.cols() == H.sp.cols() && sp.nonZeros() == H.sp.nonZeros();
    same      = same && std::memcmp(sp.outerIndexPtr(), H.sp.outerIndexPtr(), sizeof(int) * size_t(H.sp.cols() + 1)) == 0;
    if (same && compressed) same = std::memcmp(sp.innerIndexPtr(), H.sp.innerIndexPtr(), sizeof(int) * size_t(H.sp.nonZeros())) == 0;
    c.require("isCompressed", compressed);
    c.require("structure-unchanged", same);
    if (!(same && compressed)) return;

    double eb     = 0;
    long bad_out = 0, bad_np = 0, n_out = 0, n_pat = 0;
    bool sz = false, np_untouched = false, np_dense = false;
    const double * v = sp.valuePtr();
    const Eigen::Index nnz = sp.nonZeros();
    for (Eigen::Index p = 0; p < nnz; ++p) {
      const int code = H.code[size_t(p)];
      if (code < 0) {
        ++n_out;
        if (bits(v[p]) != bits(sentinel(p))) ++bad_out;
      } else {
        const double d = dd[code];
        const bool eq  = v[p] == d || (std::isnan(v[p]) && std::isnan(d));
        if (H.inpat[size_t(p)]) {
          ++n_pat;
          if (!eq) {
            const double e = std::fabs(v[p] - d);
            eb             = std::max(eb, std::isnan(e) ? INFINITY : e);
          } else if (bits(v[p]) != bits(d)) {
            sz = true;
          }
        } else {
          if (bits(v[p]) == bits(sentinel(p)))
            np_untouched = true;
          else if (eq)
            np_dense = true;
          else
            ++bad_np;
        }
      }
    }
    c.judge("block==dense", eb, 0.0);
    c.require("outside-block-untouched", bad_out == 0);
    c.require("nonpattern-in-block untouched-or-dense", bad_np == 0);
    if (sz) c.outcome("signed-zero differs from dense (value-equal)");
    if (np_untouched) c.outcome("non-pattern block entries left untouched");
    if (np_dense) c.outcome("non-pattern block entries set to dense value");
    if (n_out > 0) c.outcome("stored entries outside block present");
    if (n_pat == 0) c.outcome("empty pattern (nothing to write)");
  });
}

// ------------------------------------------------------------------ patterns
template<int D, int DC, typename M>
double max_outside(const M & m, const std::vector<char> & mask)
{
  double e = 0;
  for (int c = 0; c < DC; ++c)
    for (int r = 0; r < D; ++r)
      if (!mask[size_t(r + c * D)]) {
        const double x = std::fabs((double)m(r, c));
        e              = std::max(e, std::isnan(x) ? INFINITY : x);
      }
  return e;
}

/// Hess = false: groups without second-order derivatives (Galilei, SE_K_3): the d2 clauses are vacuous, the rest is judged
template<typename G, bool Hess = true>
void pattern_checks(const std::string & gname, const TanSet<G> & TS)
{
  constexpr int D = int(smooth::Dof<G>);
  using R         = Ref<G>;
  static_assert(R::Dof == D);
  const Sp & p_ad = smooth::ad_sparse_pattern<G>;
  const Sp & p_d1 = smooth::d_exp_sparse_pattern<G>;
  const Sp empty_d2(D, D * D);
  const Sp & p_d2 = [&]() -> const Sp & {
    if constexpr (Hess)
      return smooth::d2_exp_sparse_pattern<G>;
    else
      return empty_d2;
  }();
  const auto m_ad = stored_mask(p_ad), m_d1 = stored_mask(p_d1), m_d2 = stored_mask(p_d2);

  // structural facts about the published objects (documented: "pre-allocated ... and compressed")
  mc::explore("C19/pattern-objects/" + gname, 1, [&](mc::Case & c) {
    c.desc = [&] { return mc::fmt("nnz ad=%ld d_exp=%ld d2_exp=%ld", (long)p_ad.nonZeros(), (long)p_d1.nonZeros(), (long)p_d2.nonZeros()); };
    c.require("ad_sparse_pattern compressed DofxDof", p_ad.isCompressed() && p_ad.rows() == D && p_ad.cols() == D);
    c.require("d_exp_sparse_pattern compressed DofxDof", p_d1.isCompressed() && p_d1.rows() == D && p_d1.cols() == D);
    if constexpr (Hess) c.require("d2_exp_sparse_pattern compressed DofxDof^2", p_d2.isCompressed() && p_d2.rows() == D && p_d2.cols() == D * D);
  });

  // generators_sparse[k] == ad(e_k) of the documented algebra, exactly; stored entries within ad_sparse_pattern
  mc::explore("C19/generators/" + gname, uint64_t(D), [&](mc::Case & c) {
    const int k    = int(c.idx);
    c.desc         = [k] { return mc::fmt("generator k=%d", k); };
    const Sp & gk  = smooth::generators_sparse<G>[size_t(k)];
    L e[D]         = {};
    e[k]           = 1;
    const auto ref = ref::ad_ref<R, L>(e);
    c.require("generator compressed DofxDof", gk.isCompressed() && gk.rows() == D && gk.cols() == D);
    if (gk.rows() != D || gk.cols() != D) return;
    double err = 0, outside = 0;
    for (int i = 0; i < D; ++i)
      for (int j = 0; j < D; ++j) {
        err = std::max(err, (double)std::fabs((L)gk.coeff(i, j) - ref(i, j)));
        if (ref(i, j) != 0 && !m_ad[size_t(i + j * D)]) outside = std::max(outside, (double)std::fabs(ref(i, j)));
      }
    bool stored_in = true;
    for (Eigen::Index j = 0; j < gk.outerSize(); ++j)
      for (Sp::InnerIterator it(gk, j); it; ++it) stored_in = stored_in && m_ad[size_t(it.row() + it.col() * D)];
    c.judge("generators_sparse[k]==ad_ref(e_k)", err, 0.0);
    c.judge("ad_ref(e_k) nonzeros in ad_sparse_pattern", outside, 0.0);
    c.require("generator entries in ad_sparse_pattern", stored_in);
  });

  // dense results identically zero outside the published pattern, whole tangent set
  mc::explore("C19/pattern-dense/" + gname, TS.T.size(), [&](mc::Case & c) {
    const auto & a = TS.T[c.idx];
    c.desc         = [&] { return "a=" + vstr(a); };
    c.param("rot", TS.rot[c.idx]);
    c.judge("ad zero outside ad_sparse_pattern", max_outside<D, D>(dense_result<G, R_AD>(a), m_ad), 0.0);
    c.judge("dr_exp zero outside d_exp_sparse_pattern", max_outside<D, D>(dense_result<G, R_DEXP>(a), m_d1), 0.0);
    c.judge("dr_expinv zero outside d_exp_sparse_pattern", max_outside<D, D>(dense_result<G, R_DEXPINV>(a), m_d1), 0.0);
    if constexpr (Hess) {
      c.judge("d2r_exp zero outside d2_exp_sparse_pattern", max_outside<D, D * D>(dense_result<G, R_D2EXP>(a), m_d2), 0.0);
      c.judge("d2r_expinv zero outside d2_exp_sparse_pattern", max_outside<D, D * D>(dense_result<G, R_D2EXPINV>(a), m_d2), 0.0);
    }
  });

  // independent: long-double reference at the generic tangents; a reference entry above 1e-9 is analytically
  // non-zero (identically-zero entries come out below 1e-17), so it has to be in the pattern
  const uint64_t ng = TS.T.size() - TS.first_generic;
  std::vector<std::array<int, 6>> tight(ng);  // per generic tangent: nonzero reference entries inside each pattern
  mc::explore("C19/pattern-ref/" + gname, ng, [&](mc::Case & c) {
    const auto & a = TS.T[TS.first_generic + c.idx];
    c.desc         = [&] { return "a=" + vstr(a); };
    L al[D];
    toL(a, al);
    const auto rad = ref::ad_ref<R, L>(al);
    const auto J   = ref::dr_exp_ref<R>(al);
    const auto Ji  = ref::inv(J);
    Mat<L, D, D * D> H, Hi;
    if constexpr (Hess) ref::d2_exp_ref<R>(al, -1, H, Hi);
    const double thr = 1e-9;
    c.judge("ref ad nonzeros in ad_sparse_pattern", max_outside<D, D>(rad, m_ad), thr);
    c.judge("ref dr_exp nonzeros in d_exp_sparse_pattern", max_outside<D, D>(J, m_d1), thr);
    c.judge("ref dr_expinv nonzeros in d_exp_sparse_pattern", max_outside<D, D>(Ji, m_d1), thr);
    if constexpr (Hess) {
      c.judge("ref d2r_exp nonzeros in d2_exp_sparse_pattern", max_outside<D, D * D>(H, m_d2), thr);
      c.judge("ref d2r_expinv nonzeros in d2_exp_sparse_pattern", max_outside<D, D * D>(Hi, m_d2), thr);
    }
    auto cnt = [&](const auto & m, int cols, const std::vector<char> & mask) {
      int n = 0;
      for (int cc = 0; cc < cols; ++cc)
        for (int r = 0; r < D; ++r)
          if (mask[size_t(r + cc * D)] && std::fabs((double)m(r, cc)) > thr) ++n;
      return n;
    };
    tight[c.idx] = {cnt(rad, D, m_ad), cnt(J, D, m_d1), cnt(Ji, D, m_d1), cnt(H, D * D, m_d2), cnt(Hi, D * D, m_d2), 0};
  });
  if (ng > 0)
    mc::note("pattern_fill/" + gname,
      mc::fmt("{\"ad\":[%d,%ld],\"dr_exp\":[%d,%ld],\"dr_expinv\":[%d,%ld],\"d2r_exp\":[%d,%ld],\"d2r_expinv\":[%d,%ld],\"meaning\":\"[reference-nonzero "
              "entries at generic tangent 0, published pattern nnz]\"}",
        tight[0][0], (long)p_ad.nonZeros(), tight[0][1], (long)p_d1.nonZeros(), tight[0][2], (long)p_d1.nonZeros(), tight[0][3],
        (long)p_d2.nonZeros(), tight[0][4], (long)p_d2.nonZeros()));
}

template<typename G, bool Hess = true>
void all(const std::string & gname)
{
  const TanSet<G> TS;
  mc::note("tangents/" + gname, mc::fmt("{\"alphabet\":%zu,\"total_with_zero_axis_generic\":%zu}", TS.n_alpha, TS.T.size()));
  pattern_checks<G, Hess>(gname, TS);
  routine_checks<G, R_AD>(gname, TS);
  routine_checks<G, R_DEXP>(gname, TS);
  routine_checks<G, R_DEXPINV>(gname, TS);
  if constexpr (Hess) {
    routine_checks<G, R_D2EXP>(gname, TS);
    routine_checks<G, R_D2EXPINV>(gname, TS);
  }
}

}  // namespace c19
