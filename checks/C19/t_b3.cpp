#include "c19.hpp"
using namespace smooth;
using T1 = Eigen::Matrix<double, 1, 1>;
MC_SUBCHECK(bundle_nested) { c19::all<Bundle<Bundle<SE2d, T1>, SO3d>>("Bundle<Bundle<SE2,T1>,SO3>d"); }
