#include "c19.hpp"
using namespace smooth;
// groups without second-order derivatives: ad / dr_exp / dr_expinv sparse routines and their published patterns
MC_SUBCHECK(galilei) { c19::all<Galileid, false>("Galileid"); }
MC_SUBCHECK(se_2_3) { c19::all<SE_K_3<double, 2>, false>("SE_2_3d"); }
MC_SUBCHECK(bundle_galilei) { c19::all<Bundle<SO2d, Galileid>, false>("Bundle<SO2,Galilei>d"); }
