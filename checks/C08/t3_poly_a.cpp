#include "c08.hpp"
using namespace c08;
MC_SUBCHECK(t3_poly_a)
{
  c08::run<Poly<2>, V3, V3, V3>();
}
