// C08 — tangent-space differentiation returns the true derivatives.
//
// E: a family of functions with closed-form right-derivatives and Hessians (group product, triple product, log,
//    s*log, action, s*action, rminus, exp(a)*g, exp(a)*g*v, v.log(g), dot / scale scalar products, integer-coefficient
//    polynomial maps R^n -> R^m) on the argument types {SO3d, SE2d, SE3d, Bundle<SO3d,Vector3d>, Vector3d, VectorXd,
//    double, std::vector<SE2d>}. The members that are instantiated are listed in the t*.cpp files (26 (function,
//    argument-type tuple) spaces with 1, 2 and 3 arguments; the list is bounded by the compile-time budget of the
//    check: < 90 s per translation unit, < 4 min for the whole check). For every member the space is
//        evaluation points (full product of small per-argument alphabets, restricted by the premises of the statement)
//      x const/non-const mask of the references in wrt(...) (all 2^n)
//      x index form (plain call + every non-empty ascending index_sequence: 2^n)
//      x variant (K in {0,1,2} x {Numerical, Default on a plain functor, Analytic, Default on a functor with
//        jacobian()/hessian()}; see Space::add_cfg for the three combinations that are left out).
// O: closed forms evaluated in long double on the *reference* algebra of mc/ref.hpp (Ad_ref, ad_ref, dr_exp_ref = phi1,
//    complex-step d2_exp_ref, documented group matrices), from the stored coefficients of the actual argument objects.
//    The closed forms are validated at the start of every space by central differences (oracle self-check).
//    Index subset = columns of the full call; K = 0 = f(x) bitwise; Analytic / Default-with-derivatives = the functor's
//    own matrices bitwise; arguments after the call within 1e-15 x largest coefficient (bitwise for const&).
// Non-template parts (alphabets, premises, judgements, tolerances) are in c08_common.cpp.
#pragma once
#include "bind.hpp"

#include <thread>
#include <tuple>
#include <utility>

#include <smooth/diff.hpp>
#include <smooth/manifolds.hpp>

namespace c08 {
using namespace mcb;
namespace sm = smooth;
using DT     = sm::diff::Type;

using S3 = sm::SO3d;
using E2 = sm::SE2d;
using E3 = sm::SE3d;
using BU = sm::Bundle<sm::SO3d, Eigen::Vector3d>;
using V2 = Eigen::Vector2d;
using V3 = Eigen::Vector3d;
using VX = Eigen::VectorXd;
using WV = std::vector<sm::SE2d>;
using D1 = double;

constexpr double EPS = 2.220446049250313e-16;

// ------------------------------------------------------------------ type descriptions
template<class T>
struct TI;
#define C08_TI(T, NM, NATIVE, VEC)                   \
  template<>                                          \
  struct TI<T>                                        \
  {                                                   \
    static constexpr const char * name = NM;          \
    static constexpr bool native       = NATIVE;      \
    static constexpr bool vec          = VEC;         \
  };
C08_TI(S3, "SO3d", true, false)
C08_TI(E2, "SE2d", true, false)
C08_TI(E3, "SE3d", true, false)
C08_TI(BU, "BundleSO3dV3d", true, false)
C08_TI(VX, "VectorXd", false, true)
template<int N>
struct TI<Eigen::Matrix<double, N, 1>>
{
  static constexpr const char * name = N == 1 ? "Vector1d" : (N == 2 ? "Vector2d" : (N == 3 ? "Vector3d" : (N == 6 ? "Vector6d" : "VectorNd")));
  static constexpr bool native       = false;
  static constexpr bool vec          = true;
};
C08_TI(D1, "double", false, false)
C08_TI(WV, "vector<SE2d>", false, false)
#undef C08_TI

/// stored coefficients, flattened
template<class T>
std::vector<double> flat(const T & x)
{
  std::vector<double> r;
  if constexpr (std::is_same_v<T, double>) {
    r.push_back(x);
  } else if constexpr (std::is_same_v<T, WV>) {
    for (auto & g : x)
      for (int i = 0; i < 4; ++i) r.push_back(g.coeffs()(i));
  } else if constexpr (TI<T>::native) {
    for (int i = 0; i < T::RepSize; ++i) r.push_back(x.coeffs()(i));
  } else {
    for (Eigen::Index i = 0; i < x.size(); ++i) r.push_back(x(i));
  }
  return r;
}
/// number of tangent dimensions
template<class T>
int tdim(const T & x)
{
  if constexpr (std::is_same_v<T, double>) {
    return 1;
  } else if constexpr (std::is_same_v<T, WV>) {
    return 3 * int(x.size());
  } else if constexpr (TI<T>::native) {
    return T::Dof;
  } else {
    return int(x.size());
  }
}
template<class T>
std::string tstr(const T & x)
{
  auto f        = flat(x);
  std::string s = std::string(TI<T>::name) + "[";
  for (size_t i = 0; i < f.size(); ++i) s += (i ? "," : "") + mc::fmt("%a", f[i]);
  s += "]~[";
  for (size_t i = 0; i < f.size(); ++i) s += (i ? "," : "") + mc::fmt("%.6g", f[i]);
  return s + "]";
}
inline bool same_bits(const std::vector<double> & a, const std::vector<double> & b)
{
  return a.size() == b.size() && (a.empty() || std::memcmp(a.data(), b.data(), a.size() * sizeof(double)) == 0);
}

// ------------------------------------------------------------------ dynamic long double matrices
struct DM
{
  int r = 0, c = 0;
  std::vector<L> d;
  DM() = default;
  DM(int r_, int c_) : r(r_), c(c_), d(size_t(r_) * size_t(c_), (L)0) {}
  L & operator()(int i, int j) { return d[size_t(i) * size_t(c) + size_t(j)]; }
  const L & operator()(int i, int j) const { return d[size_t(i) * size_t(c) + size_t(j)]; }
  L maxabs() const
  {
    L m = 0;
    for (auto & x : d) {
      if (!(x == x)) return INFINITY;
      m = std::max(m, std::fabs(x));
    }
    return m;
  }
  static DM Id(int n)
  {
    DM m(n, n);
    for (int i = 0; i < n; ++i) m(i, i) = 1;
    return m;
  }
};
inline DM operator*(const DM & a, const DM & b)
{
  DM r(a.r, b.c);
  for (int i = 0; i < a.r; ++i)
    for (int k = 0; k < a.c; ++k) {
      const L x = a(i, k);
      if (x == 0) continue;
      for (int j = 0; j < b.c; ++j) r(i, j) += x * b(k, j);
    }
  return r;
}
inline DM operator-(const DM & a)
{
  DM r = a;
  for (auto & x : r.d) x = -x;
  return r;
}
template<int N, int M>
DM dm(const Mat<L, N, M> & m)
{
  DM r(N, M);
  for (int i = 0; i < N; ++i)
    for (int j = 0; j < M; ++j) r(i, j) = m(i, j);
  return r;
}
/// any Eigen matrix / scalar -> DM (exact conversion)
template<class E>
DM dm_of(const E & e)
{
  if constexpr (std::is_arithmetic_v<E>) {
    DM r(1, 1);
    r(0, 0) = (L)e;
    return r;
  } else {
    DM r(int(e.rows()), int(e.cols()));
    for (int i = 0; i < r.r; ++i)
      for (int j = 0; j < r.c; ++j) r(i, j) = (L)e(i, j);
    return r;
  }
}
/// Hessians are stored in the documented stacked layout H(c0, i * nx + c1) = d/dx_c1 [ J(i, c0) ]
struct Hes
{
  int nx = 0, ny = 0;
  DM m;
  Hes() = default;
  Hes(int nx_, int ny_) : nx(nx_), ny(ny_), m(nx_, ny_ * nx_) {}
  L & operator()(int c0, int i, int c1) { return m(c0, i * nx + c1); }
  const L & operator()(int c0, int i, int c1) const { return m(c0, i * nx + c1); }
};

// ------------------------------------------------------------------ reference description of Lie-group typed arguments
/// everything the closed forms need of exp at a tangent a: Jacobians (right / left), their inverses and the
/// Hessians of all four in the layout X(j, D*i + k) = d J(i,j) / d a_k
struct ExpD
{
  DM Jr, Jri, Jl, Jli, Hr, Hri, Hl, Hli;
};
inline L tget(const DM & H, int D, int j, int i, int k) { return H(j, D * i + k); }

template<class G>
struct LGref
{
  using R                    = Ref<G>;
  static constexpr int Dc    = R::Dof;
  static constexpr int Dim   = R::Dim;
  static constexpr bool flat_ = false;
  static int D(const G &) { return Dc; }
  static std::array<L, size_t(R::Rep)> co(const G & g)
  {
    std::array<L, size_t(R::Rep)> c;
    for (int i = 0; i < R::Rep; ++i) c[size_t(i)] = (L)g.coeffs()(i);
    return c;
  }
  static Mat<L, Dim> M(const G & g) { return R::template matrix<L>(co(g).data()); }
  static Mat<L, Dim> hatk(int k)
  {
    L e[Dc] = {};
    e[k]    = 1;
    return R::template hat<L>(e);
  }
  static DM Adinv(const G & g) { return dm(ref::inv(ref::Ad_ref<R, L>(co(g).data()))); }
  static DM adk(const G &, int k)
  {
    L e[Dc] = {};
    e[k]    = 1;
    return dm(ref::ad_ref<R, L>(e));
  }
  /// principal logarithm of a group matrix: Newton refinement in long double of a double-precision hint, accepted only
  /// if expm(hat(a)) reproduces M (so the hint is never trusted). false: rotation angle within 0.1 of pi (outside the
  /// "rotations away from pi" premise)
  static bool log_of(const Mat<L, Dim> & Mg, const double * hint, std::vector<L> & a)
  {
    L c[R::Rep];
    R::from_matrix(Mg, c);
    if (R::template pi_gap<L>(c) < 0.1L) return false;
    L av[Dc];
    for (int i = 0; i < Dc; ++i) av[i] = hint[i];
    for (int it = 0; it < 3; ++it) {
      L na[Dc];
      for (int i = 0; i < Dc; ++i) na[i] = -av[i];
      auto E = ref::mul(ref::expm(R::template hat<L>(na)), Mg);
      if ((E - Mat<L, Dim>::Id()).maxabs() > 1e-3L) mc::harness_error("C08 reference log: hint too far from the logarithm");
      L dl[Dc];
      R::template vee<L>(ref::logm_near_identity(E), dl);
      auto Jri = ref::inv(ref::dr_exp_ref<R>(av));
      for (int i = 0; i < Dc; ++i)
        for (int j = 0; j < Dc; ++j) av[i] += Jri(i, j) * dl[j];
    }
    const L res = (ref::expm(R::template hat<L>(av)) - Mg).maxabs();
    if (!(res <= 1e-13L * std::max((L)1, Mg.maxabs()))) mc::harness_error("C08 reference log: residual too large");
    a.assign(av, av + Dc);
    return true;
  }
  static bool logv(const G & g, std::vector<L> & a)
  {
    const Eigen::Matrix<double, Dc, 1> h = sm::log(g);
    return log_of(M(g), h.data(), a);
  }
  /// log(g2^-1 g1)
  static bool rml(const G & g1, const G & g2, std::vector<L> & a)
  {
    const Eigen::Matrix<double, Dc, 1> h = sm::rminus(g1, g2);
    return log_of(ref::mul(ref::inv(M(g2)), M(g1)), h.data(), a);
  }
  static ExpD expd(const G &, const std::vector<L> & a, bool left)
  {
    ExpD e;
    Mat<L, Dc, Dc * Dc> H, Hi;
    e.Jr  = dm(ref::dr_exp_ref<R>(a.data()));
    e.Jri = dm(ref::inv(ref::dr_exp_ref<R>(a.data())));
    ref::d2_exp_ref<R>(a.data(), -1, H, Hi);
    e.Hr  = dm(H);
    e.Hri = dm(Hi);
    if (left) {
      e.Jl  = dm(ref::dl_exp_ref<R>(a.data()));
      e.Jli = dm(ref::inv(ref::dl_exp_ref<R>(a.data())));
      ref::d2_exp_ref<R>(a.data(), +1, H, Hi);
      e.Hl  = dm(H);
      e.Hli = dm(Hi);
    }
    return e;
  }
};
/// R^n and scalars: translation groups (Ad = I, ad = 0, exp = id)
template<class T>
struct LGflat
{
  static constexpr bool flat_ = true;
  static int D(const T & x) { return tdim(x); }
  static DM Adinv(const T & x) { return DM::Id(D(x)); }
  static DM adk(const T & x, int) { return DM(D(x), D(x)); }
  static bool logv(const T & x, std::vector<L> & a)
  {
    auto f = flat(x);
    a.assign(f.begin(), f.end());
    return true;
  }
  template<class T2>
  static bool rml(const T & x1, const T2 & x2, std::vector<L> & a)
  {
    auto f1 = flat(x1), f2 = flat(x2);
    a.resize(f1.size());
    for (size_t i = 0; i < f1.size(); ++i) a[i] = (L)f1[i] - (L)f2[i];
    return true;
  }
  static ExpD expd(const T & x, const std::vector<L> &, bool)
  {
    const int n = D(x);
    ExpD e;
    e.Jr = e.Jri = e.Jl = e.Jli = DM::Id(n);
    e.Hr = e.Hri = e.Hl = e.Hli = DM(n, n * n);
    return e;
  }
};
template<class T>
struct LG : std::conditional_t<TI<T>::native, LGref<T>, LGflat<T>>
{
};

/// tangent offsets of an argument tuple
struct Lay
{
  int n = 0, nx = 0;
  int off[3] = {0, 0, 0}, d[3] = {0, 0, 0};
};
template<class... A>
Lay layout(const std::tuple<A...> & t)
{
  Lay l;
  std::apply(
    [&](const auto &... a) {
      ((l.d[l.n] = tdim(a), l.off[l.n] = l.nx, l.nx += l.d[l.n], ++l.n), ...);
    },
    t);
  return l;
}

// ------------------------------------------------------------------ the function family
// Every member: name, operator() (the function handed to diff::dr), vx(i) (size of a VectorXd in position i),
// ref(args..., J, H) (closed-form right-derivative and Hessian; false = point outside the domain premises).

inline void put(DM & J, int r0, int c0, const DM & b)
{
  for (int i = 0; i < b.r; ++i)
    for (int j = 0; j < b.c; ++j) J(r0 + i, c0 + j) = b(i, j);
}

/// g1 * g2:  J = [Ad(g2^-1), I];  d/d(g2,k) Ad((g2 exp e_k)^-1) = -ad(e_k) Ad(g2^-1)
struct Mul
{
  static constexpr const char * name = "mul";
  template<class...>
  static int vx(int)
  {
    return 3;
  }
  template<class A0, class A1>
  __attribute__((noinline)) auto operator()(const A0 & a, const A1 & b) const
  {
    return sm::composition(a, b);
  }
  template<class A0, class A1>
  static bool ref(DM & J, Hes & H, const A0 &, const A1 & g2)
  {
    const int D = LG<A1>::D(g2);
    J           = DM(D, 2 * D);
    H           = Hes(2 * D, D);
    const DM A  = LG<A1>::Adinv(g2);
    put(J, 0, 0, A);
    put(J, 0, D, DM::Id(D));
    for (int k = 0; k < D; ++k) {
      const DM X = -(LG<A1>::adk(g2, k) * A);
      for (int i = 0; i < D; ++i)
        for (int j = 0; j < D; ++j) H(j, i, D + k) = X(i, j);
    }
    return true;
  }
};

/// g1 * g2 * g3 with the three column blocks at tangent offsets p1, p2, p3 (shared with WChain)
template<class G>
void mul3_ref(const G & g2, const G & g3, int p1, int p2, int p3, DM & J, Hes & H)
{
  const int D = LG<G>::D(g2);
  J           = DM(D, 3 * D);
  H           = Hes(3 * D, D);
  const DM A2 = LG<G>::Adinv(g2), A3 = LG<G>::Adinv(g3), A32 = A3 * A2;
  put(J, 0, p1, A32);
  put(J, 0, p2, A3);
  put(J, 0, p3, DM::Id(D));
  for (int k = 0; k < D; ++k) {
    const DM nad = -LG<G>::adk(g2, k);
    const DM X12 = A3 * (nad * A2);  // d J1 / d(g2,k)
    const DM X13 = nad * A32;        // d J1 / d(g3,k)
    const DM X23 = nad * A3;         // d J2 / d(g3,k)
    for (int i = 0; i < D; ++i)
      for (int j = 0; j < D; ++j) {
        H(p1 + j, i, p2 + k) = X12(i, j);
        H(p1 + j, i, p3 + k) = X13(i, j);
        H(p2 + j, i, p3 + k) = X23(i, j);
      }
  }
}
struct Mul3
{
  static constexpr const char * name = "mul3";
  template<class...>
  static int vx(int)
  {
    return 3;
  }
  template<class G>
  __attribute__((noinline)) auto operator()(const G & a, const G & b, const G & c) const
  {
    return sm::composition(a, b, c);
  }
  template<class G>
  static bool ref(DM & J, Hes & H, const G &, const G & g2, const G & g3)
  {
    const int D = LG<G>::D(g2);
    mul3_ref(g2, g3, 0, D, 2 * D, J, H);
    return true;
  }
};
/// X[0] * g * X[1] for X = std::vector<SE2d> of length 2: columns [X0 | X1 | g]
struct WChain
{
  static constexpr const char * name = "wchain";
  template<class...>
  static int vx(int)
  {
    return 3;
  }
  __attribute__((noinline)) auto operator()(const WV & x, const E2 & g) const { return sm::composition(x[0], g, x[1]); }
  static bool ref(DM & J, Hes & H, const WV & x, const E2 & g)
  {
    mul3_ref(g, x[1], 0, 6, 3, J, H);
    return true;
  }
};

/// log(g):  J = dr_expinv(a),  H(j,i,k) = sum_l d_l Jri(i,j) Jri(l,k)
struct Log
{
  static constexpr const char * name = "log";
  template<class...>
  static int vx(int)
  {
    return 3;
  }
  template<class G>
  __attribute__((noinline)) auto operator()(const G & g) const
  {
    return sm::log(g);
  }
  template<class G>
  static bool ref(DM & J, Hes & H, const G & g)
  {
    std::vector<L> a;
    if (!LG<G>::logv(g, a)) return false;
    const int D  = LG<G>::D(g);
    const ExpD e = LG<G>::expd(g, a, false);
    J            = e.Jri;
    H            = Hes(D, D);
    for (int j = 0; j < D; ++j)
      for (int i = 0; i < D; ++i)
        for (int k = 0; k < D; ++k) {
          L s = 0;
          for (int l = 0; l < D; ++l) s += tget(e.Hri, D, j, i, l) * e.Jri(l, k);
          H(j, i, k) = s;
        }
    return true;
  }
};

/// rminus blocks for one pair: a = log(g2^-1 g1), rows r0.., columns of g1 at c1.., of g2 at c2..
template<class G1, class G2>
bool rminus_blocks(const G1 & g1, const G2 & g2, int r0, int c1, int c2, DM & J, Hes & H)
{
  std::vector<L> a;
  if (!LG<G1>::rml(g1, g2, a)) return false;
  const int D  = LG<G1>::D(g1);
  const ExpD e = LG<G1>::expd(g1, a, true);
  for (int i = 0; i < D; ++i)
    for (int j = 0; j < D; ++j) {
      J(r0 + i, c1 + j) = e.Jri(i, j);
      J(r0 + i, c2 + j) = -e.Jli(i, j);
    }
  for (int j = 0; j < D; ++j)
    for (int i = 0; i < D; ++i)
      for (int k = 0; k < D; ++k) {
        L s11 = 0, s12 = 0, s21 = 0, s22 = 0;
        for (int l = 0; l < D; ++l) {
          s11 += tget(e.Hri, D, j, i, l) * e.Jri(l, k);
          s12 -= tget(e.Hri, D, j, i, l) * e.Jli(l, k);
          s21 -= tget(e.Hli, D, j, i, l) * e.Jri(l, k);
          s22 += tget(e.Hli, D, j, i, l) * e.Jli(l, k);
        }
        H(c1 + j, r0 + i, c1 + k) = s11;
        H(c1 + j, r0 + i, c2 + k) = s12;
        H(c2 + j, r0 + i, c1 + k) = s21;
        H(c2 + j, r0 + i, c2 + k) = s22;
      }
  return true;
}
struct Rminus
{
  static constexpr const char * name = "rminus";
  template<class...>
  static int vx(int)
  {
    return 3;
  }
  template<class A0, class A1>
  __attribute__((noinline)) auto operator()(const A0 & a, const A1 & b) const
  {
    return sm::rminus(a, b);
  }
  template<class A0, class A1>
  static bool ref(DM & J, Hes & H, const A0 & g1, const A1 & g2)
  {
    const int D = tdim(g1);
    J           = DM(D, 2 * D);
    H           = Hes(2 * D, D);
    if constexpr (std::is_same_v<A0, WV>) {
      for (size_t e = 0; e < g1.size(); ++e)
        if (!rminus_blocks(g1[e], g2[e], 3 * int(e), 3 * int(e), D + 3 * int(e), J, H)) return false;
      return true;
    } else {
      return rminus_blocks(g1, g2, 0, 0, D, J, H);
    }
  }
};

/// group action g * v (v.head<NP>): J_g[:,i] = M hat(e_i) v~,  J_v = R
template<class G>
constexpr int np_of()
{
  return std::is_same_v<G, E2> ? 2 : 3;
}
template<class G>
Mat<L, LGref<G>::Dim, 1> homog(const std::vector<double> & v)
{
  constexpr int Dim = LGref<G>::Dim, NP = np_of<G>();
  Mat<L, Dim, 1> h;
  for (int i = 0; i < Dim; ++i) h(i, 0) = i < NP ? (L)v[size_t(i)] : (L)1;
  return h;
}
struct Act
{
  static constexpr const char * name = "act";
  template<class...>
  static int vx(int)
  {
    return 3;
  }
  template<class G, class V>
  __attribute__((noinline)) auto operator()(const G & g, const V & v) const
  {
    constexpr int NP = np_of<G>();
    return Eigen::Matrix<double, NP, 1>(g * v.template head<NP>());
  }
  template<class G, class V>
  static bool ref(DM & J, Hes & H, const G & g, const V & v)
  {
    using A           = LGref<G>;
    constexpr int Dim = A::Dim, NP = np_of<G>(), D = A::Dc;
    const int nv      = tdim(v);
    J                 = DM(NP, D + nv);
    H                 = Hes(D + nv, NP);
    const auto M      = A::M(g);
    const auto h      = homog<G>(flat(v));
    for (int i = 0; i < D; ++i) {
      const auto Mh = ref::mul(M, A::hatk(i));
      const auto c  = ref::mul(Mh, h);
      for (int r = 0; r < NP; ++r) J(r, i) = c(r, 0);
      for (int k = 0; k < D; ++k) {
        const auto c2 = ref::mul(ref::mul(ref::mul(M, A::hatk(k)), A::hatk(i)), h);
        for (int r = 0; r < NP; ++r) H(i, r, k) = c2(r, 0);
      }
      for (int k = 0; k < NP; ++k)
        for (int r = 0; r < NP; ++r) {
          H(i, r, D + k) = Mh(r, k);  // d/dv_k of M hat(e_i) v~
          H(D + k, r, i) = Mh(r, k);  // d/d(g,i) of R[:,k] = M hat(e_i) restricted
        }
    }
    for (int k = 0; k < NP; ++k)
      for (int r = 0; r < NP; ++r) J(r, D + k) = M(r, k);
    return true;
  }
};

/// scaled action s * (g * v): argument mix (group, vector, scalar)
struct SAct
{
  static constexpr const char * name = "sact";
  template<class...>
  static int vx(int)
  {
    return 3;
  }
  template<class G, class V>
  __attribute__((noinline)) auto operator()(const G & g, const V & v, const double & s) const
  {
    constexpr int NP = np_of<G>();
    return Eigen::Matrix<double, NP, 1>(s * (g * v.template head<NP>()));
  }
  template<class G, class V>
  static bool ref(DM & J, Hes & H, const G & g, const V & v, const double & s)
  {
    DM J0;
    Hes H0;
    Act::ref(J0, H0, g, v);
    const int ny = J0.r, n0 = J0.c;
    const auto y = ref::mul(LGref<G>::M(g), homog<G>(flat(v)));
    J = DM(ny, n0 + 1);
    H = Hes(n0 + 1, ny);
    for (int i = 0; i < ny; ++i) {
      J(i, n0) = y(i, 0);
      for (int c0 = 0; c0 < n0; ++c0) {
        J(i, c0)     = (L)s * J0(i, c0);
        H(c0, i, n0) = J0(i, c0);
        H(n0, i, c0) = J0(i, c0);
        for (int c1 = 0; c1 < n0; ++c1) H(c0, i, c1) = (L)s * H0(c0, i, c1);
      }
    }
    return true;
  }
};
/// s * log(g): argument mix (group, scalar)
struct SLog
{
  static constexpr const char * name = "slog";
  template<class...>
  static int vx(int)
  {
    return 3;
  }
  template<class G>
  __attribute__((noinline)) auto operator()(const G & g, const double & s) const
  {
    return Eigen::Matrix<double, G::Dof, 1>(s * sm::log(g));
  }
  template<class G>
  static bool ref(DM & J, Hes & H, const G & g, const double & s)
  {
    DM J0;
    Hes H0;
    std::vector<L> a;
    if (!LG<G>::logv(g, a) || !Log::ref(J0, H0, g)) return false;
    const int D = J0.r;
    J           = DM(D, D + 1);
    H           = Hes(D + 1, D);
    for (int i = 0; i < D; ++i) {
      J(i, D) = a[size_t(i)];
      for (int j = 0; j < D; ++j) {
        J(i, j)    = (L)s * J0(i, j);
        H(j, i, D) = J0(i, j);
        H(D, i, j) = J0(i, j);
        for (int k = 0; k < D; ++k) H(j, i, k) = (L)s * H0(j, i, k);
      }
    }
    return true;
  }
};

/// exp(a) * g:  J_a = Ad(g^-1) dr_exp(a),  J_g = I
struct ExpMul
{
  static constexpr const char * name = "expmul";
  template<class V, class G>
  static int vx(int)
  {
    return G::Dof;
  }
  template<class V, class G>
  __attribute__((noinline)) auto operator()(const V & a, const G & g) const
  {
    const Eigen::Matrix<double, G::Dof, 1> t = a;
    return sm::composition(G::exp(t), g);
  }
  template<class V, class G>
  static bool ref(DM & J, Hes & H, const V & av, const G & g)
  {
    constexpr int D = G::Dof;
    auto f          = flat(av);
    std::vector<L> a(f.begin(), f.end());
    const ExpD e = LG<G>::expd(g, a, false);
    const DM A   = LG<G>::Adinv(g);
    const DM AJ  = A * e.Jr;
    J            = DM(D, 2 * D);
    H            = Hes(2 * D, D);
    put(J, 0, 0, AJ);
    put(J, 0, D, DM::Id(D));
    for (int j = 0; j < D; ++j)
      for (int i = 0; i < D; ++i)
        for (int k = 0; k < D; ++k) {
          L s = 0;
          for (int m = 0; m < D; ++m) s += A(i, m) * tget(e.Hr, D, j, m, k);
          H(j, i, k) = s;
        }
    for (int k = 0; k < D; ++k) {
      const DM X = -(LG<G>::adk(g, k) * AJ);
      for (int i = 0; i < D; ++i)
        for (int j = 0; j < D; ++j) H(j, i, D + k) = X(i, j);
    }
    return true;
  }
};

/// exp(a) * g * v
struct ExpAct
{
  static constexpr const char * name = "expact";
  template<class V, class G, class P>
  static int vx(int i)
  {
    return i == 0 ? int(G::Dof) : 3;
  }
  template<class V, class G, class P>
  __attribute__((noinline)) auto operator()(const V & a, const G & g, const P & v) const
  {
    constexpr int NP                         = np_of<G>();
    const Eigen::Matrix<double, G::Dof, 1> t = a;
    return Eigen::Matrix<double, NP, 1>(sm::composition(G::exp(t), g) * v.template head<NP>());
  }
  template<class V, class G, class P>
  static bool ref(DM & J, Hes & H, const V & av, const G & g, const P & v)
  {
    using A           = LGref<G>;
    using R           = typename A::R;
    constexpr int Dim = A::Dim, NP = np_of<G>(), D = A::Dc;
    const int nv      = tdim(v);
    const int oa = 0, og = D, ov = 2 * D;
    J = DM(NP, 2 * D + nv);
    H = Hes(2 * D + nv, NP);
    auto f = flat(av);
    std::vector<L> a(f.begin(), f.end());
    const ExpD e  = A::expd(g, a, false);
    const auto E  = ref::expm(R::template hat<L>(a.data()));
    const auto M  = A::M(g);
    const auto EM = ref::mul(E, M);
    const auto h  = homog<G>(flat(v));
    // B[j] = hat(Jr e_j), dB[j][k] = hat(d_k Jr e_j)
    std::vector<Mat<L, Dim>> Bm(D), EB(D), EMh(D);
    for (int j = 0; j < D; ++j) {
      L b[D];
      for (int m = 0; m < D; ++m) b[m] = e.Jr(m, j);
      Bm[size_t(j)]  = R::template hat<L>(b);
      EB[size_t(j)]  = ref::mul(E, Bm[size_t(j)]);
      EMh[size_t(j)] = ref::mul(EM, A::hatk(j));
    }
    const auto Mh = ref::mul(M, h);
    for (int j = 0; j < D; ++j) {
      const auto ca = ref::mul(EB[size_t(j)], Mh);
      const auto cg = ref::mul(EMh[size_t(j)], h);
      for (int r = 0; r < NP; ++r) {
        J(r, oa + j) = ca(r, 0);
        J(r, og + j) = cg(r, 0);
      }
      for (int k = 0; k < D; ++k) {
        // (a j, a k)
        L db[D];
        for (int m = 0; m < D; ++m) db[m] = tget(e.Hr, D, j, m, k);
        const auto X1 = ref::mul(ref::mul(EB[size_t(k)], Bm[size_t(j)]) + ref::mul(E, R::template hat<L>(db)), Mh);
        // (a j, g k)
        const auto X2 = ref::mul(ref::mul(ref::mul(EB[size_t(j)], M), A::hatk(k)), h);
        // (g j, a k)
        const auto X3 = ref::mul(ref::mul(ref::mul(EB[size_t(k)], M), A::hatk(j)), h);
        // (g j, g k)
        const auto X4 = ref::mul(ref::mul(ref::mul(EM, A::hatk(k)), A::hatk(j)), h);
        for (int r = 0; r < NP; ++r) {
          H(oa + j, r, oa + k) = X1(r, 0);
          H(oa + j, r, og + k) = X2(r, 0);
          H(og + j, r, oa + k) = X3(r, 0);
          H(og + j, r, og + k) = X4(r, 0);
        }
      }
      const auto EBM = ref::mul(EB[size_t(j)], M);
      for (int k = 0; k < NP; ++k)
        for (int r = 0; r < NP; ++r) {
          H(oa + j, r, ov + k) = EBM(r, k);
          H(ov + k, r, oa + j) = EBM(r, k);
          H(og + j, r, ov + k) = EMh[size_t(j)](r, k);
          H(ov + k, r, og + j) = EMh[size_t(j)](r, k);
        }
    }
    for (int k = 0; k < NP; ++k)
      for (int r = 0; r < NP; ++r) J(r, ov + k) = EM(r, k);
    return true;
  }
};

/// scalar product v . log(g)
struct VLog
{
  static constexpr const char * name = "vlog";
  template<class G, class V>
  static int vx(int)
  {
    return G::Dof;
  }
  template<class G, class V>
  __attribute__((noinline)) double operator()(const G & g, const V & v) const
  {
    return v.template head<G::Dof>().dot(sm::log(g));
  }
  template<class G, class V>
  static bool ref(DM & J, Hes & H, const G & g, const V & v)
  {
    constexpr int D = G::Dof;
    std::vector<L> a;
    if (!LG<G>::logv(g, a)) return false;
    const ExpD e = LG<G>::expd(g, a, false);
    const int nv = tdim(v);
    auto vf      = flat(v);
    J            = DM(1, D + nv);
    H            = Hes(D + nv, 1);
    for (int j = 0; j < D; ++j) {
      L s = 0;
      for (int i = 0; i < D; ++i) s += (L)vf[size_t(i)] * e.Jri(i, j);
      J(0, j)     = s;
      J(0, D + j) = a[size_t(j)];
      for (int k = 0; k < D; ++k) {
        L t = 0;
        for (int i = 0; i < D; ++i)
          for (int l = 0; l < D; ++l) t += (L)vf[size_t(i)] * tget(e.Hri, D, j, i, l) * e.Jri(l, k);
        H(j, 0, k)     = t;
        H(j, 0, D + k) = e.Jri(k, j);
        H(D + j, 0, k) = e.Jri(j, k);
      }
    }
    return true;
  }
};

// ---- polynomial maps with integer coefficients on the concatenated coordinates z of all arguments
struct Mono
{
  int c;
  int deg;
  int i[3];
};
using PolySpec = std::vector<std::vector<Mono>>;
inline void poly_ref(const PolySpec & ps, const std::vector<L> & z, DM & J, Hes & H)
{
  const int n = int(z.size()), m = int(ps.size());
  J = DM(m, n);
  H = Hes(n, m);
  for (int o = 0; o < m; ++o)
    for (auto & mo : ps[size_t(o)]) {
      for (int p = 0; p < mo.deg; ++p) {
        L t = mo.c;
        for (int q = 0; q < mo.deg; ++q)
          if (q != p) t *= z[size_t(mo.i[q])];
        J(o, mo.i[p]) += t;
        for (int q = 0; q < mo.deg; ++q) {
          if (q == p) continue;
          L u = mo.c;
          for (int s = 0; s < mo.deg; ++s)
            if (s != p && s != q) u *= z[size_t(mo.i[s])];
          H(mo.i[p], o, mo.i[q]) += u;
        }
      }
    }
}
template<class... A>
std::vector<double> catd(const A &... a)
{
  std::vector<double> z;
  (([&] {
     auto f = flat(a);
     z.insert(z.end(), f.begin(), f.end());
   }()),
    ...);
  return z;
}
template<class... A>
std::vector<L> catl(const A &... a)
{
  auto z = catd(a...);
  return std::vector<L>(z.begin(), z.end());
}
/// polynomial menu: ID 0: R^n -> R (double), 1: R^n -> R^2 (Vector2d), 2: R^n -> R^3 (VectorXd)
template<int ID>
struct Poly
{
  static constexpr const char * name = ID == 0 ? "poly1" : (ID == 1 ? "poly2" : "poly3");
  template<class...>
  static int vx(int i)
  {
    return i == 0 ? 2 : 3;
  }
  template<class... A>
  __attribute__((noinline)) auto operator()(const A &... a) const
  {
    const auto z = catd(a...);
    const size_t n = z.size(), l = n - 1, m = n / 2;
    if constexpr (ID == 0) {
      return double(3 * z[0] - 2 * z[l] + z[0] * z[l] + z[m] * z[m] - z[m]);
    } else if constexpr (ID == 1) {
      return V2(z[0] * z[m] + 3 * z[l], z[0] * z[0] - 2 * z[m] + z[l] * z[m] + 4 * z[0]);
    } else {
      VX r(3);
      r << z[0] * z[m] * z[l] + 2 * z[m], z[0] + 2 * z[l] - z[m] * z[l], z[m] * z[m] + 5 * z[0] - z[l];
      return r;
    }
  }
  static PolySpec spec(int n)
  {
    const int l = n - 1, m = n / 2;
    if constexpr (ID == 0) {
      return {{{3, 1, {0}}, {-2, 1, {l}}, {1, 2, {0, l}}, {1, 2, {m, m}}, {-1, 1, {m}}}};
    } else if constexpr (ID == 1) {
      return {{{1, 2, {0, m}}, {3, 1, {l}}}, {{1, 2, {0, 0}}, {-2, 1, {m}}, {1, 2, {l, m}}, {4, 1, {0}}}};
    } else {
      return {{{1, 3, {0, m, l}}, {2, 1, {m}}}, {{1, 1, {0}}, {2, 1, {l}}, {-1, 2, {m, l}}}, {{1, 2, {m, m}}, {5, 1, {0}}, {-1, 1, {l}}}};
    }
  }
  template<class... A>
  static bool ref(DM & J, Hes & H, const A &... a)
  {
    const auto z = catl(a...);
    poly_ref(spec(int(z.size())), z, J, H);
    return true;
  }
};
/// scalar products written the way a user would: v1.v2, s*v, s*(v1.v2)
struct Dot
{
  static constexpr const char * name = "dot";
  template<class...>
  static int vx(int)
  {
    return 3;
  }
  template<class U, class V>
  __attribute__((noinline)) double operator()(const U & u, const V & v) const
  {
    return u.dot(v);
  }
  template<class U, class V>
  static bool ref(DM & J, Hes & H, const U & u, const V & v)
  {
    const int n = tdim(u);
    PolySpec ps(1);
    for (int i = 0; i < n; ++i) ps[0].push_back({1, 2, {i, n + i}});
    poly_ref(ps, catl(u, v), J, H);
    return true;
  }
};
struct Scale
{
  static constexpr const char * name = "scale";
  template<class...>
  static int vx(int)
  {
    return 3;
  }
  template<class V>
  __attribute__((noinline)) auto operator()(const double & s, const V & v) const
  {
    if constexpr (std::is_same_v<V, double>) {
      return s * v;
    } else {
      return V(s * v);
    }
  }
  template<class V>
  static bool ref(DM & J, Hes & H, const double & s, const V & v)
  {
    const int n = tdim(v);
    PolySpec ps{size_t(n)};
    for (int i = 0; i < n; ++i) ps[size_t(i)].push_back({1, 2, {0, 1 + i}});
    poly_ref(ps, catl(s, v), J, H);
    return true;
  }
};
struct SDot
{
  static constexpr const char * name = "sdot";
  template<class...>
  static int vx(int)
  {
    return 3;
  }
  template<class U, class V>
  __attribute__((noinline)) double operator()(const double & s, const U & u, const V & v) const
  {
    return s * u.dot(v);
  }
  template<class U, class V>
  static bool ref(DM & J, Hes & H, const double & s, const U & u, const V & v)
  {
    const int n = tdim(u);
    PolySpec ps(1);
    for (int i = 0; i < n; ++i) ps[0].push_back({1, 3, {0, 1 + i, 1 + n + i}});
    poly_ref(ps, catl(s, u, v), J, H);
    return true;
  }
};
// ------------------------------------------------------------------ evaluation-point alphabets (premises of the statement)
// vector coordinates: zero or magnitude in [0.1, 10]; rotations at most 3 (away from pi); translations at most 3.
// tunables live in c08_common.cpp (so that re-sizing an alphabet does not recompile the type families)
int tier_level(int arity);
std::vector<std::array<double, 3>> vec_patterns(int level);
std::vector<double> scalar_alphabet(int level);
AlphaOpts group_opts(int level);
double lim_val();
double lim_j();
double lim_h();
void assumptions();
template<class R>
std::vector<Elem<R>> group_elems(int level)
{
  return elements<R, double>(group_opts(level));
}
template<class T>
std::vector<T> alphabet(int level, int vxn)
{
  std::vector<T> out;
  if constexpr (std::is_same_v<T, double>) {
    out = scalar_alphabet(level);
  } else if constexpr (TI<T>::vec) {
    const int n = std::is_same_v<T, VX> ? vxn : int(T::RowsAtCompileTime);
    for (auto & p : vec_patterns(level)) {
      T v(n);
      for (int i = 0; i < n; ++i) v(i) = i < 3 ? p[size_t(i)] : -p[size_t((i + 1) % 3)];
      bool dup = false;
      for (auto & w : out) dup = dup || same_bits(flat(w), flat(v));
      if (!dup) out.push_back(v);
    }
  } else if constexpr (std::is_same_v<T, WV>) {
    auto es        = group_elems<ref::SE2>(level);
    const size_t m = es.size();
    for (size_t i = 0; i < m; ++i) out.push_back(WV{make<E2>(es[i]), make<E2>(es[(2 * i + 1) % m])});
  } else {
    for (auto & e : group_elems<Ref<T>>(level)) out.push_back(make<T>(e));
  }
  return out;
}

// ------------------------------------------------------------------ calling diff::dr in every form
enum Variant {
  K0_Default = 0,   // dr<0>(f, x[, idx])                      plain functor
  K0_Numerical,     // dr<0, Numerical>(f, x[, idx])           plain functor
  K1_Numerical,     // dr<1, Numerical>
  K2_Numerical,     // dr<2, Numerical>
  K1_DefaultPlain,  // dr<1>(f, x[, idx]) on a functor without jacobian(): resolves to Numerical
  K2_DefaultPlain,  // dr<2>(f, x[, idx])
  K0_Analytic,      // dr<0, Analytic> on a functor with jacobian()/hessian()
  K1_Analytic,      // dr<1, Analytic>
  K2_Analytic,      // dr<2, Analytic>
  K1_DefaultDeriv,  // dr<1>(f, x) on a functor with jacobian(): must return it verbatim
  K2_DefaultDeriv,  // dr<2>(f, x) on a functor with jacobian() and hessian()
  NVARIANTS
};
static const char * const VARIANT_NAME[NVARIANTS] = {"dr<0>", "dr<0,Numerical>", "dr<1,Numerical>", "dr<2,Numerical>", "dr<1> (no jacobian)",
  "dr<2> (no hessian)", "dr<0,Analytic>", "dr<1,Analytic>", "dr<2,Analytic>", "dr<1> (jacobian provided)", "dr<2> (jacobian+hessian provided)"};
constexpr int var_K(int v)
{
  return (v == K0_Default || v == K0_Numerical || v == K0_Analytic) ? 0 : ((v == K1_Numerical || v == K1_DefaultPlain || v == K1_Analytic || v == K1_DefaultDeriv) ? 1 : 2);
}
constexpr bool var_deriv(int v) { return v == K0_Analytic || v == K1_Analytic || v == K2_Analytic || v == K1_DefaultDeriv || v == K2_DefaultDeriv; }
/// 0: overload without a Type, 1: Numerical, 2: Analytic
constexpr int var_mode(int v)
{
  return (v == K0_Numerical || v == K1_Numerical || v == K2_Numerical) ? 1 : ((v == K0_Analytic || v == K1_Analytic || v == K2_Analytic) ? 2 : 0);
}

template<unsigned M, std::size_t I, std::size_t... Acc>
constexpr auto mask_seq_impl()
{
  if constexpr (M == 0) {
    return std::index_sequence<Acc...>{};
  } else if constexpr (M & 1u) {
    return mask_seq_impl<(M >> 1), I + 1, Acc..., I>();
  } else {
    return mask_seq_impl<(M >> 1), I + 1, Acc...>();
  }
}
template<unsigned M>
using MaskSeq = decltype(mask_seq_impl<M, 0>());

template<bool C, class T>
decltype(auto) cq(T & t)
{
  if constexpr (C) {
    return std::as_const(t);
  } else {
    return (t);
  }
}
/// one call of diff::dr: CM = const mask of the references in wrt(...), SUB = 0: no index sequence, else bit mask
template<int VAR, unsigned CM, unsigned SUB, class F, class... A, std::size_t... I>
auto invoke_impl(F & f, std::tuple<A...> & args, std::index_sequence<I...>)
{
  constexpr std::size_t K = std::size_t(var_K(VAR));
  constexpr int MODE      = var_mode(VAR);
  if constexpr (SUB == 0) {
    if constexpr (MODE == 0) {
      return sm::diff::dr<K>(f, sm::wrt(cq<((CM >> I) & 1u) != 0>(std::get<I>(args))...));
    } else if constexpr (MODE == 1) {
      return sm::diff::dr<K, DT::Numerical>(f, sm::wrt(cq<((CM >> I) & 1u) != 0>(std::get<I>(args))...));
    } else {
      return sm::diff::dr<K, DT::Analytic>(f, sm::wrt(cq<((CM >> I) & 1u) != 0>(std::get<I>(args))...));
    }
  } else {
    if constexpr (MODE == 0) {
      return sm::diff::dr<K>(f, sm::wrt(cq<((CM >> I) & 1u) != 0>(std::get<I>(args))...), MaskSeq<SUB>{});
    } else if constexpr (MODE == 1) {
      return sm::diff::dr<K, DT::Numerical>(f, sm::wrt(cq<((CM >> I) & 1u) != 0>(std::get<I>(args))...), MaskSeq<SUB>{});
    } else {
      return sm::diff::dr<K, DT::Analytic>(f, sm::wrt(cq<((CM >> I) & 1u) != 0>(std::get<I>(args))...), MaskSeq<SUB>{});
    }
  }
}
template<int VAR, unsigned CM, unsigned SUB, class F, class... A>
auto invoke(F & f, std::tuple<A...> & args)
{
  return invoke_impl<VAR, CM, SUB>(f, args, std::index_sequence_for<A...>{});
}

/// functor offering its own jacobian() / hessian(): the matrices are an arbitrary deterministic function of the
/// arguments (including -0.0, a denormal and a huge entry), since the statement only demands verbatim pass-through
template<class Fn, class... A>
struct WithD
{
  using Res               = decltype(Fn{}(std::declval<const A &>()...));
  static constexpr int Ny = sm::Dof<Res>;
  static constexpr int Nx = sm::wrt_Dof<std::tuple<A...>>();
  using JT                = Eigen::Matrix<double, Ny, Nx>;
  using HT                = Eigen::Matrix<double, Nx, (Nx == -1 || Ny == -1) ? -1 : Nx * Ny>;
  HT hess_{};
  __attribute__((noinline)) auto operator()(const A &... a) const { return Fn{}(a...); }
  static double seedval(const A &... a)
  {
    double s = 0.25;
    (([&] {
       auto f = flat(a);
       for (size_t i = 0; i < f.size(); ++i) s += 0.37 * f[i] * double(i + 1);
     }()),
      ...);
    return s;
  }
  JT jacobian(const A &... a) const
  {
    const int ny = int(sm::dof(Fn{}(a...))), nx = (int(tdim(a)) + ...);
    JT j;
    j.resize(ny, nx);
    const double s = seedval(a...);
    for (int r = 0; r < ny; ++r)
      for (int c = 0; c < nx; ++c) j(r, c) = s + 0.1 * r - 1.3 * c + (r == c ? 1e300 : 0.0);
    j(0, 0) = -0.0;
    if (nx > 1) j(0, 1) = 4.9e-324;
    return j;
  }
  std::reference_wrapper<const HT> hessian(const A &... a)
  {
    const int ny = int(sm::dof(Fn{}(a...))), nx = (int(tdim(a)) + ...);
    hess_.resize(nx, nx * ny);
    const double s = seedval(a...);
    for (int r = 0; r < nx; ++r)
      for (int c = 0; c < nx * ny; ++c) hess_(r, c) = -s + 0.7 * r + 0.01 * c;
    hess_(0, 0) = -0.0;
    return hess_;
  }
};

// ------------------------------------------------------------------ the engine
template<class F>
void parallel_for(size_t n, const F & f)
{
  const size_t W = std::min<size_t>(16, std::max<size_t>(1, n));
  std::atomic<size_t> next{0};
  std::vector<std::thread> th;
  for (size_t w = 0; w < W; ++w)
    th.emplace_back([&] {
      for (;;) {
        const size_t i = next.fetch_add(1);
        if (i >= n) break;
        f(i);
      }
    });
  for (auto & t : th) t.join();
}

// ------------------------------------------------------------------ results of one call and the (non-template) judgements
/// a matrix returned by the library, kept bit-exact
struct DMat
{
  bool has = false;
  int r = 0, c = 0;
  std::vector<double> d;  // row-major
  template<class E>
  void set(const E & e)
  {
    has = true;
    r   = int(e.rows());
    c   = int(e.cols());
    d.resize(size_t(r) * size_t(c));
    for (int i = 0; i < r; ++i)
      for (int j = 0; j < c; ++j) d[size_t(i) * size_t(c) + size_t(j)] = e(i, j);
  }
  __attribute__((noinline)) double operator()(int i, int j) const { return d[size_t(i) * size_t(c) + size_t(j)]; }
  bool same(const DMat & o) const { return has && o.has && r == o.r && c == o.c && same_bits(d, o.d); }
};
struct CallOut
{
  int tuple_size = 0;
  std::vector<double> val;
  std::vector<std::vector<double>> after;
  DMat J, H, ownJ, ownH;
};
struct JudgeIn
{
  unsigned cm = 0, sub = 0;
  int var = 0;
  Lay lay;
  std::vector<std::vector<double>> before;
  std::vector<double> direct;  // f(x) called directly
  const DM * Jr  = nullptr;    // closed forms at the point (all columns)
  const Hes * Hr = nullptr;
  std::vector<L> scale;        // relative-step scale per tangent coordinate
  const CallOut * full = nullptr;
};
std::string cfg_desc(unsigned cm, unsigned sub, int var, int n);
void judge_generic(mc::Case & c, const JudgeIn & in, const CallOut & o);

inline std::atomic<uint64_t> g_space_uid{0};

template<class Fn, class... A>
struct Space
{
  static constexpr std::size_t N = sizeof...(A);
  using Args                     = std::tuple<A...>;
  using CaseFn                   = void (*)(const Args &, CallOut &);
  struct Config
  {
    unsigned cm, sub;
    int var;
    CaseFn fn;
  };
  std::vector<Args> pts;
  std::vector<DM> Jr;
  std::vector<Hes> Hr;
  std::vector<Config> cfgs;
  std::string label;
  uint64_t uid = 0;  // distinguishes spaces in the per-thread cache of full calls

  static std::string types()
  {
    std::string s;
    ((s += std::string(s.empty() ? "" : ",") + TI<A>::name), ...);
    return s;
  }
  static bool refcall(const Args & a, DM & J, Hes & H)
  {
    return std::apply([&](const auto &... x) { return Fn::ref(J, H, x...); }, a);
  }
  static std::string pdesc(const Args & a)
  {
    std::string s;
    std::apply([&](const auto &... x) { ((s += (s.empty() ? "" : " ") + tstr(x)), ...); }, a);
    return s;
  }
  /// scale of the finite-difference step along tangent coordinate c (vector / scalar arguments: relative step)
  static std::vector<L> step_scale(const Args & a)
  {
    std::vector<L> s;
    std::apply(
      [&](const auto &... x) {
        (([&] {
           using T = std::decay_t<decltype(x)>;
           auto f  = flat(x);
           for (int i = 0; i < tdim(x); ++i) s.push_back((TI<T>::vec || std::is_same_v<T, double>) ? std::max((L)1, std::fabs((L)f[size_t(i)])) : (L)1);
         }()),
          ...);
      },
      a);
    return s;
  }
  static std::vector<int> sub_cols(const Lay & l, unsigned sub)
  {
    std::vector<int> c;
    for (int i = 0; i < l.n; ++i)
      if (sub == 0 || ((sub >> i) & 1u))
        for (int k = 0; k < l.d[i]; ++k) c.push_back(l.off[i] + k);
    return c;
  }

  // -------- one call of diff::dr (the only code instantiated per configuration)
  template<unsigned CM, unsigned SUB, int VAR>
  static void call(const Args & before, CallOut & o)
  {
    constexpr int K      = var_K(VAR);
    constexpr bool DERIV = var_deriv(VAR);
    using F              = std::conditional_t<DERIV, WithD<Fn, A...>, Fn>;
    Args args            = before;
    F f{};
    auto res     = invoke<VAR, CM, SUB>(f, args);
    o.tuple_size = int(std::tuple_size_v<decltype(res)>);
    o.val        = flat(std::get<0>(res));
    std::apply([&](const auto &... x) { (o.after.push_back(flat(x)), ...); }, args);
    if constexpr (K >= 1) o.J.set(std::get<1>(res));
    if constexpr (K >= 2) o.H.set(std::get<2>(res));
    if constexpr (DERIV && K >= 1) {
      // the functor's own matrices, obtained by calling it directly on a fresh copy of the arguments
      F f2{};
      const Args fresh = before;
      o.ownJ.set(std::apply([&](const auto &... x) { return f2.jacobian(x...); }, fresh));
      if constexpr (K >= 2) o.ownH.set(std::apply([&](const auto &... x) -> decltype(auto) { return f2.hessian(x...); }, fresh).get());
    }
  }
  void run_case(size_t p, const Config & k, mc::Case & c) const
  {
    const Args & before = pts[p];
    JudgeIn in;
    in.cm = k.cm, in.sub = k.sub, in.var = k.var;
    in.lay = layout(before);
    std::apply([&](const auto &... x) { (in.before.push_back(flat(x)), ...); }, before);
    in.direct = flat(std::apply([&](const auto &... x) { return Fn{}(x...); }, before));
    in.Jr     = &Jr[p];
    in.Hr     = &Hr[p];
    in.scale  = step_scale(before);
    c.desc    = [&] { return cfg_desc(k.cm, k.sub, k.var, int(N)) + " :: " + pdesc(before); };
    CallOut out;
    k.fn(before, out);
    const bool numeric = !var_deriv(k.var) && var_K(k.var) >= 1;
    // the same call without an index sequence (same const mask, same variant) is kept per worker thread: the
    // configurations of one (point, mask, variant) are adjacent in the index space
    struct Cache
    {
      uint64_t sp     = 0;
      size_t p        = 0;
      unsigned cm     = 0;
      int var         = -1;
      CallOut full;
    };
    static thread_local Cache cache;
    if (numeric && k.sub == 0) {
      cache.sp = uid, cache.p = p, cache.cm = k.cm, cache.var = k.var;
      cache.full = out;
    } else if (numeric) {
      if (!(cache.sp == uid && cache.p == p && cache.cm == k.cm && cache.var == k.var)) {
        cache.sp = uid, cache.p = p, cache.cm = k.cm, cache.var = k.var;
        cache.full = CallOut{};
        for (auto & q : cfgs)
          if (q.cm == k.cm && q.sub == 0 && q.var == k.var) q.fn(before, cache.full);
      }
      in.full = &cache.full;
    }
    judge_generic(c, in, out);
  }

  // -------- configuration table (order: const mask, variant, index form)
  template<unsigned CM, unsigned SUB, int VAR>
  void add_cfg()
  {
    // Analytic needs the functor's own matrices: not defined for an index subset (the wrapper has no jacobian());
    // Default on a functor with derivatives is exercised without an index sequence (the statement's verbatim clause).
    // Default on a plain functor forwards to Numerical: with index subsets it is instantiated for the all-mutable and
    // the all-const reference masks only (compile-time budget); without index sequence for every mask.
    constexpr bool plain_default = VAR == K1_DefaultPlain || VAR == K2_DefaultPlain;
    if constexpr (var_deriv(VAR) && SUB != 0) {
      return;
    } else if constexpr (VAR == K0_Numerical && SUB != 0) {
      return;
    } else if constexpr (plain_default && SUB != 0 && CM != 0 && CM != (1u << N) - 1) {
      return;
    } else {
      cfgs.push_back({CM, SUB, VAR, &call<CM, SUB, VAR>});
    }
  }
  template<unsigned CM, int VAR, unsigned... SUB>
  void add_subs(std::integer_sequence<unsigned, SUB...>)
  {
    (add_cfg<CM, SUB, VAR>(), ...);
  }
  template<unsigned CM, int... VAR>
  void add_vars(std::integer_sequence<int, VAR...>)
  {
    (add_subs<CM, VAR>(std::make_integer_sequence<unsigned, (1u << N)>{}), ...);
  }
  template<unsigned... CM>
  void add_all(std::integer_sequence<unsigned, CM...>)
  {
    (add_vars<CM>(std::make_integer_sequence<int, NVARIANTS>{}), ...);
  }

  // -------- oracle self-check: closed forms against central differences
  void selfcheck_point(size_t p) const
  {
    const Args & x = pts[p];
    const Lay lay  = layout(x);
    const double h = 1e-5;
    Fn f{};
    auto pert = [&](int cidx, double step) {
      Args y = x;
      int a  = 0;
      while (a + 1 < lay.n && cidx >= lay.off[a + 1]) ++a;
      [&]<std::size_t... I>(std::index_sequence<I...>) {
        (([&] {
           if (int(I) != a) return;
           auto & w = std::get<I>(y);
           using T  = std::decay_t<decltype(w)>;
           Eigen::Matrix<double, sm::Dof<T>, 1> e = Eigen::Matrix<double, sm::Dof<T>, 1>::Zero(lay.d[a]);
           e(cidx - lay.off[a])                     = step;
           w                                        = sm::rplus(w, e);
         }()),
          ...);
      }(std::index_sequence_for<A...>{});
      return y;
    };
    const int ny = Jr[p].r;
    double ej = 0, eh = 0;
    for (int cc = 0; cc < lay.nx; ++cc) {
      const Args yp = pert(cc, h), ym = pert(cc, -h);
      const auto fp = std::apply([&](const auto &... a) { return f(a...); }, yp);
      const auto fm = std::apply([&](const auto &... a) { return f(a...); }, ym);
      const DM d    = dm_of(sm::rminus(fp, fm));
      for (int i = 0; i < ny; ++i) ej = std::max(ej, (double)std::fabs(d(i, 0) / (2 * h) - Jr[p](i, cc)));
      DM Jp, Jm;
      Hes Hp, Hm;
      if (!refcall(yp, Jp, Hp) || !refcall(ym, Jm, Hm)) continue;
      for (int c0 = 0; c0 < lay.nx; ++c0)
        for (int i = 0; i < ny; ++i) eh = std::max(eh, (double)std::fabs((Jp(i, c0) - Jm(i, c0)) / (2 * h) - Hr[p](c0, i, cc)));
    }
    const double jm = std::max(1.0, (double)Jr[p].maxabs()), hm = std::max(1.0, (double)Hr[p].m.maxabs());
    if (!(ej <= 1e-6 * jm) || !(eh <= 1e-5 * hm))
      mc::harness_error(mc::fmt("C08 closed form of %s disagrees with central differences: J err %.3g (scale %.3g), H err %.3g (scale %.3g) at %s", label.c_str(), ej, jm,
        eh, hm, pdesc(x).c_str()));
    mc::selfcheck("closed-form J and H agree with central differences", true);
  }

  void run()
  {
    label           = std::string("C08/") + Fn::name + "/" + types();
    uid             = ++g_space_uid;
    if (mc::replaying() && mc::replay_label() != label) return;
    const int level = tier_level(int(N));
    // ---- candidate points: full product of the per-argument alphabets
    std::vector<Args> cand;
    {
      std::tuple<std::vector<A>...> alph;
      [&]<std::size_t... I>(std::index_sequence<I...>) { ((std::get<I>(alph) = alphabet<A>(level, Fn::template vx<A...>(int(I)))), ...); }(std::index_sequence_for<A...>{});
      uint64_t tot = 1;
      std::apply([&](const auto &... v) { ((tot *= v.size()), ...); }, alph);
      for (uint64_t i = 0; i < tot; ++i) {
        mc::Radix r(i);
        cand.push_back(std::apply([&](const auto &... v) { return Args{v[r.next(v.size())]...}; }, alph));
      }
    }
    // ---- references and premises (domain, O(1) values and derivatives)
    std::vector<DM> J(cand.size());
    std::vector<Hes> H(cand.size());
    std::vector<char> ok(cand.size(), 0);
    parallel_for(cand.size(), [&](size_t i) {
      if (!refcall(cand[i], J[i], H[i])) return;
      Fn f{};
      const auto v = flat(std::apply([&](const auto &... a) { return f(a...); }, cand[i]));
      double vm    = 0;
      for (double q : v) vm = std::max(vm, std::fabs(q));
      ok[i] = vm <= lim_val() && J[i].maxabs() <= lim_j() && H[i].m.maxabs() <= lim_h();
    });
    for (size_t i = 0; i < cand.size(); ++i)
      if (ok[i]) {
        pts.push_back(cand[i]);
        Jr.push_back(std::move(J[i]));
        Hr.push_back(std::move(H[i]));
      }
    mc::note("points " + label, mc::fmt("{\"candidates\": %zu, \"within_premises\": %zu}", cand.size(), pts.size()));
    if (pts.empty()) mc::harness_error("no evaluation point within the premises for " + label);
    // ---- oracle self-check on up to 6 points spread over the list
    {
      const size_t ns = std::min<size_t>(6, pts.size());
      std::vector<size_t> idx;
      for (size_t s = 0; s < ns; ++s) idx.push_back((pts.size() - 1) * s / std::max<size_t>(1, ns - 1));
      parallel_for(idx.size(), [&](size_t s) { selfcheck_point(idx[s]); });
    }
    add_all(std::make_integer_sequence<unsigned, (1u << N)>{});
    const uint64_t nc = cfgs.size();
    mc::explore(label, uint64_t(pts.size()) * nc, [&](mc::Case & c) {
      const size_t p   = size_t(c.idx / nc);
      const Config & k = cfgs[size_t(c.idx % nc)];
      run_case(p, k, c);
    });
  }
};

template<class Fn, class... A>
void run()
{
  assumptions();
  Space<Fn, A...> s;
  s.run();
}

}  // namespace c08
