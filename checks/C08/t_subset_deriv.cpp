// C08 (index subsets on callables that provide their derivatives): "derivatives with respect to an index subset equal the
// corresponding columns of the full derivative" also when the callable offers jacobian(). The callables here have TRUE closed-form
// jacobians, so the full Default result (the callable's own matrix) and every subset result (whatever route the library takes
// for it) must agree column block by column block, within the numerical-mode accuracy of the statement (1e-4 relative).
// Enumerated: 2 callables x every non-empty index subset x {dr<1>(f, x, idx), dr<1, Default>(f, x, idx), dr<1, Numerical>(f, x, idx)}
// x evaluation points (rotation alphabet x vector menus, coordinates zero or of magnitude 0.1..10).
#include "bind.hpp"

#include <smooth/diff.hpp>
#include <smooth/manifolds.hpp>

using namespace mcb;
using smooth::diff::Type;

namespace {
Eigen::Matrix3d hat3(const Eigen::Vector3d & v)
{
  Eigen::Matrix3d H;
  H << 0, -v(2), v(1), v(2), 0, -v(0), -v(1), v(0), 0;
  return H;
}
struct F3  // f(R, v, w) = R v + 2 w
{
  Eigen::Vector3d operator()(const smooth::SO3d & R, const Eigen::Vector3d & v, const Eigen::Vector3d & w) const { return R * v + 2 * w; }
  Eigen::Matrix<double, 3, 9> jacobian(const smooth::SO3d & R, const Eigen::Vector3d & v, const Eigen::Vector3d &) const
  {
    Eigen::Matrix<double, 3, 9> J;
    const Eigen::Matrix3d Rm = R.matrix();
    J.leftCols<3>()          = -Rm * hat3(v);
    J.middleCols<3>(3)       = Rm;
    J.rightCols<3>()         = 2 * Eigen::Matrix3d::Identity();
    return J;
  }
};
struct F2  // f(s, p, q) = s p + q (scalar first: blocks of different width)
{
  Eigen::Vector2d operator()(const double & s, const Eigen::Vector2d & p, const Eigen::Vector2d & q) const { return s * p + q; }
  Eigen::Matrix<double, 2, 5> jacobian(const double & s, const Eigen::Vector2d & p, const Eigen::Vector2d &) const
  {
    Eigen::Matrix<double, 2, 5> J;
    J.col(0)            = p;
    J.middleCols<2>(1)  = s * Eigen::Matrix2d::Identity();
    J.rightCols<2>()    = Eigen::Matrix2d::Identity();
    return J;
  }
};

template<unsigned M, std::size_t I = 0, std::size_t... Acc>
constexpr auto mask_seq()
{
  if constexpr (I == 3)
    return std::index_sequence<Acc...>{};
  else if constexpr ((M >> I) & 1u)
    return mask_seq<M, I + 1, Acc..., I>();
  else
    return mask_seq<M, I + 1, Acc...>();
}

/// error of the subset result against the corresponding columns of the full jacobian (inf when the shape is wrong)
template<unsigned M, int Route, typename F, typename X>
double subset_err(const F & f, X x, const Eigen::MatrixXd & Jfull, const std::array<int, 3> & widths)
{
  constexpr auto idx = mask_seq<M>();
  Eigen::MatrixXd J;
  if constexpr (Route == 0) {
    auto [v, Js] = smooth::diff::dr<1>(f, x, idx);
    J = Js;
  } else if constexpr (Route == 1) {
    auto [v, Js] = smooth::diff::dr<1, Type::Default>(f, x, idx);
    J = Js;
  } else {
    auto [v, Js] = smooth::diff::dr<1, Type::Numerical>(f, x, idx);
    J = Js;
  }
  int ncol = 0;
  for (int k = 0; k < 3; ++k)
    if ((M >> k) & 1u) ncol += widths[size_t(k)];
  if (J.rows() != Jfull.rows() || J.cols() != ncol) return INFINITY;
  double err = 0;
  int dst = 0, src = 0;
  for (int k = 0; k < 3; ++k) {
    if ((M >> k) & 1u) {
      err = std::max(err, (J.middleCols(dst, widths[size_t(k)]) - Jfull.middleCols(src, widths[size_t(k)])).cwiseAbs().maxCoeff());
      dst += widths[size_t(k)];
    }
    src += widths[size_t(k)];
  }
  return err / std::max(1.0, Jfull.cwiseAbs().maxCoeff());
}

template<int Route, typename F, typename X>
double all_subsets(unsigned mask, const F & f, X x, const Eigen::MatrixXd & Jfull, const std::array<int, 3> & w)
{
  switch (mask) {
  case 1: return subset_err<1, Route>(f, x, Jfull, w);
  case 2: return subset_err<2, Route>(f, x, Jfull, w);
  case 3: return subset_err<3, Route>(f, x, Jfull, w);
  case 4: return subset_err<4, Route>(f, x, Jfull, w);
  case 5: return subset_err<5, Route>(f, x, Jfull, w);
  case 6: return subset_err<6, Route>(f, x, Jfull, w);
  default: return subset_err<7, Route>(f, x, Jfull, w);
  }
}
}  // namespace

MC_SUBCHECK(subset_with_provided_jacobian)
{
  static const char * route[3] = {"dr<1>(f, x, idx)", "dr<1,Default>(f, x, idx)", "dr<1,Numerical>(f, x, idx)"};
  AlphaOpts o = AlphaOpts::reduced();
  o.thetas    = {0, 1.0001e-4, 0.3, 2.5};
  auto Rs = elements<ref::SO3, double>(o);
  const std::vector<Eigen::Vector3d> V = {{0, 0, 0}, {1, -2, 0.5}, {0.1, 0, 10}, {-3, 0.25, 0}};
  mc::explore("C08/subset-with-provided-jacobian/SO3d,Vector3d,Vector3d", 7 * 3 * Rs.size() * V.size(), [&](mc::Case & c) {
    mc::Radix r(c.idx);
    const unsigned mask = unsigned(r.next(7)) + 1;
    const int rt        = int(r.next(3));
    smooth::SO3d R      = make<smooth::SO3d>(Rs[r.next(Rs.size())]);
    const size_t vi     = r.next(V.size());
    Eigen::Vector3d v = V[vi], w = V[(vi + 1) % V.size()];
    c.desc = [&, mask, rt] { return mc::fmt("%s subset mask %u of (R, v, w); ", route[rt], mask) + "R=" + vstr(R.coeffs()) + " v=" + vstr(v) + " w=" + vstr(w); };
    const F3 f;
    const auto [val, Jf] = smooth::diff::dr<1>(f, smooth::wrt(R, v, w));
    const Eigen::MatrixXd Jfull = Jf;
    c.require("full Default result is the callable's jacobian", (Jfull - f.jacobian(R, v, w)).cwiseAbs().maxCoeff() == 0);
    const std::array<int, 3> wd{3, 3, 3};
    const double e = rt == 0 ? all_subsets<0>(mask, f, smooth::wrt(R, v, w), Jfull, wd) : (rt == 1 ? all_subsets<1>(mask, f, smooth::wrt(R, v, w), Jfull, wd) : all_subsets<2>(mask, f, smooth::wrt(R, v, w), Jfull, wd));
    c.judge("subset derivative = corresponding columns of the full derivative", e, 1e-4);
  });
  const std::vector<double> S = {0, 1, -2.5, 0.1};
  const std::vector<Eigen::Vector2d> P = {{0, 0}, {1, -2}, {0.1, 10}, {-3, 0}};
  mc::explore("C08/subset-with-provided-jacobian/double,Vector2d,Vector2d", 7 * 3 * S.size() * P.size(), [&](mc::Case & c) {
    mc::Radix r(c.idx);
    const unsigned mask = unsigned(r.next(7)) + 1;
    const int rt        = int(r.next(3));
    double s            = S[r.next(S.size())];
    const size_t pi     = r.next(P.size());
    Eigen::Vector2d p = P[pi], q = P[(pi + 2) % P.size()];
    c.desc = [&, mask, rt] { return mc::fmt("%s subset mask %u of (s, p, q); s=%g ", route[rt], mask, s) + "p=" + vstr(p) + " q=" + vstr(q); };
    const F2 f;
    const auto [val, Jf] = smooth::diff::dr<1>(f, smooth::wrt(s, p, q));
    const Eigen::MatrixXd Jfull = Jf;
    c.require("full Default result is the callable's jacobian", (Jfull - f.jacobian(s, p, q)).cwiseAbs().maxCoeff() == 0);
    const std::array<int, 3> wd{1, 2, 2};
    const double e = rt == 0 ? all_subsets<0>(mask, f, smooth::wrt(s, p, q), Jfull, wd) : (rt == 1 ? all_subsets<1>(mask, f, smooth::wrt(s, p, q), Jfull, wd) : all_subsets<2>(mask, f, smooth::wrt(s, p, q), Jfull, wd));
    c.judge("subset derivative = corresponding columns of the full derivative", e, 1e-4);
  });
}
