#include "c08.hpp"
using namespace c08;
MC_SUBCHECK(t3_poly_k)
{
  c08::run<Poly<0>, VX, D1, V3>();
}
