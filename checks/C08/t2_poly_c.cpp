#include "c08.hpp"
using namespace c08;
MC_SUBCHECK(t2_poly_c)
{
  c08::run<Poly<2>, V3, D1>();
  c08::run<Poly<2>, VX, VX>();
  c08::run<Poly<2>, D1, V3>();
}
