#include "c08.hpp"
using namespace c08;
MC_SUBCHECK(t2_act_a)
{
  c08::run<Act, S3, V3>();
  c08::run<Act, S3, VX>();
  c08::run<Act, E2, V3>();
}
