#include "c08.hpp"
using namespace c08;
MC_SUBCHECK(t3_expact_so3)
{
  c08::run<ExpAct, V3, S3, V3>();
}
