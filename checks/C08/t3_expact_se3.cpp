#include "c08.hpp"
using namespace c08;
MC_SUBCHECK(t3_expact_se3)
{
  c08::run<ExpAct, VX, E3, V3>();
}
