#include "c08.hpp"
using namespace c08;
MC_SUBCHECK(t3_poly_d)
{
  c08::run<Poly<0>, V3, VX, V3>();
}
