#include "c08.hpp"
using namespace c08;
MC_SUBCHECK(t2_vlog)
{
  c08::run<VLog, S3, V3>();
  c08::run<VLog, E2, VX>();
  c08::run<VLog, E3, VX>();
  c08::run<VLog, BU, VX>();
}
