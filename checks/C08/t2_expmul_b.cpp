#include "c08.hpp"
using namespace c08;
MC_SUBCHECK(t2_expmul_b)
{
  c08::run<ExpMul, VX, E2>();
  c08::run<ExpMul, VX, E3>();
  c08::run<ExpMul, VX, BU>();
}
