#include "c08.hpp"
using namespace c08;
MC_SUBCHECK(t2_rminus_a)
{
  c08::run<Rminus, S3, S3>();
  c08::run<Rminus, E2, E2>();
  c08::run<Rminus, E3, E3>();
  c08::run<Rminus, BU, BU>();
}
