#include "c08.hpp"
using namespace c08;
MC_SUBCHECK(t3_poly_c)
{
  c08::run<Poly<1>, D1, D1, D1>();
}
