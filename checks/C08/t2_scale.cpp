#include "c08.hpp"
using namespace c08;
MC_SUBCHECK(t2_scale)
{
  c08::run<Scale, D1, V3>();
  c08::run<Scale, D1, VX>();
  c08::run<Scale, D1, D1>();
  c08::run<WChain, WV, E2>();
}
