#include "c08.hpp"
using namespace c08;
MC_SUBCHECK(t3_sact_so3)
{
  c08::run<SAct, S3, V3, D1>();
}
