#include "c08.hpp"
using namespace c08;
MC_SUBCHECK(t2_expmul_a)
{
  c08::run<ExpMul, V3, S3>();
  c08::run<ExpMul, VX, S3>();
  c08::run<ExpMul, V3, E2>();
}
