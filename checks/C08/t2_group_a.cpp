#include "c08.hpp"
using namespace c08;
MC_SUBCHECK(t2_group_a)
{
  c08::run<Act, E3, V3>();
  c08::run<Mul, S3, S3>();
  c08::run<SLog, BU, D1>();
}
