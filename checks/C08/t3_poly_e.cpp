#include "c08.hpp"
using namespace c08;
MC_SUBCHECK(t3_poly_e)
{
  c08::run<Poly<1>, V3, V3, D1>();
}
