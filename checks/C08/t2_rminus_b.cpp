#include "c08.hpp"
using namespace c08;
MC_SUBCHECK(t2_rminus_b)
{
  c08::run<Rminus, V3, V3>();
  c08::run<Rminus, VX, VX>();
  c08::run<Rminus, D1, D1>();
  c08::run<Rminus, WV, WV>();
  c08::run<Rminus, VX, V3>();
}
