#include "c08.hpp"
using namespace c08;
MC_SUBCHECK(t3_sdot)
{
  c08::run<SDot, D1, VX, V3>();
}
