#include "c08.hpp"
using namespace c08;
MC_SUBCHECK(t2_vector)
{
  c08::run<Dot, V3, VX>();
  c08::run<Scale, D1, VX>();
  c08::run<Poly<1>, VX, V3>();
  c08::run<Mul, VX, V3>();
}
