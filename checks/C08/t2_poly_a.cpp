#include "c08.hpp"
using namespace c08;
MC_SUBCHECK(t2_poly_a)
{
  c08::run<Poly<0>, V3, V3>();
  c08::run<Poly<0>, VX, D1>();
  c08::run<Poly<0>, D1, VX>();
}
