#include "c08.hpp"
using namespace c08;
MC_SUBCHECK(t2_dot)
{
  c08::run<Dot, V3, V3>();
  c08::run<Dot, V3, VX>();
  c08::run<Dot, VX, V3>();
  c08::run<Dot, VX, VX>();
}
