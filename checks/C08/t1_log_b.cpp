#include "c08.hpp"
using namespace c08;
MC_SUBCHECK(t1_log_b)
{
  c08::run<Log, V3>();
  c08::run<Log, VX>();
  c08::run<Log, D1>();
  c08::run<Poly<0>, V3>();
  c08::run<Poly<1>, V3>();
  c08::run<Poly<2>, V3>();
}
