#include "c08.hpp"
using namespace c08;
MC_SUBCHECK(t3_mul3_bun)
{
  c08::run<Mul3, BU, BU, BU>();
}
