#include "c08.hpp"
using namespace c08;
MC_SUBCHECK(t2_group_b)
{
  c08::run<Rminus, E3, E3>();
  c08::run<Rminus, WV, WV>();
  c08::run<WChain, WV, E2>();
}
