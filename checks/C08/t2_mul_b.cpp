#include "c08.hpp"
using namespace c08;
MC_SUBCHECK(t2_mul_b)
{
  c08::run<Mul, V3, V3>();
  c08::run<Mul, VX, VX>();
  c08::run<Mul, D1, D1>();
  c08::run<Mul, V3, VX>();
  c08::run<Mul, VX, V3>();
}
