#include "c08.hpp"
using namespace c08;
MC_SUBCHECK(t2_act_b)
{
  c08::run<Act, E2, VX>();
  c08::run<Act, E3, V3>();
  c08::run<Act, E3, VX>();
}
