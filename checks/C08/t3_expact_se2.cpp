#include "c08.hpp"
using namespace c08;
MC_SUBCHECK(t3_expact_se2)
{
  c08::run<ExpAct, V3, E2, VX>();
}
