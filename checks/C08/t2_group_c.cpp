#include "c08.hpp"
using namespace c08;
MC_SUBCHECK(t2_group_c)
{
  c08::run<ExpMul, VX, BU>();
  c08::run<ExpMul, V3, S3>();
  c08::run<VLog, E2, VX>();
}
