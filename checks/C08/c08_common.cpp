// C08: everything that is not a template — alphabets / premises (tunables), the judgements, the recorded assumptions.
#include "c08.hpp"

namespace c08 {

// limits that make "O(1) values and derivatives" concrete (recorded as assumptions in the evidence)
double lim_val() { return 32; }
double lim_j() { return 32; }
double lim_h() { return 48; }

// ------------------------------------------------------------------ evaluation-point alphabets
// levels of the per-argument alphabets: quick uses 1 (three arguments), 2 (two), 4 (one); thorough uses 2, 3, 4 and the
// union over the whole menu of generic directions. Every space is the full product of its per-argument alphabets.
int tier_level(int arity)
{
  if (arity >= 3) return mc::thorough() ? 2 : 1;
  if (arity == 2) return mc::thorough() ? 3 : 2;
  return 4;
}
/// vector coordinates: zero or of magnitude 0.1 .. 10 (statement)
std::vector<std::array<double, 3>> vec_patterns(int level)
{
  std::vector<std::array<double, 3>> p = {{0, 0, 0}, {0.7, -1.3, 2.1}, {0.1, -10, 0}};
  if (level >= 1) {
    p.push_back({10, 10, -10});
    p.push_back({-0.1, 0.1, 0.1});
  }
  if (level >= 2) {
    p.push_back({1, 0, 0});
    p.push_back({0, 0, -3});
    p.push_back({5, -0.2, 0.4});
    p.push_back({-2.5, 10, 0.1});
    p.push_back({0.1, 0, 10});
  }
  if (level >= 3) {
    p.push_back({-10, 0, 0});
    p.push_back({0.25, 0.5, -0.125});
    p.push_back({3, -3, 3});
    p.push_back({0, 0.1, 0});
  }
  return p;
}
std::vector<double> scalar_alphabet(int level)
{
  std::vector<double> out = {0., -0.7, 10.};
  if (level >= 1) out.push_back(0.1);
  if (level >= 2) {
    out.push_back(3.);
    out.push_back(-10.);
    out.push_back(1.);
    out.push_back(-0.25);
  }
  return out;
}
/// group elements: rotation angle at most 3 (away from pi), translation at most 3, both sides of the small-angle switches
AlphaOpts group_opts(int level)
{
  AlphaOpts o;
  const int s = ((mc::seed() % 4) + 4) % 4;
  if (level <= 0) {
    o.thetas = {0, 1.0001e-4, 2.5};
    o.dirs   = {dirs_menu()[size_t(2 * s + 1)]};
    o.tmags  = {0, 1};
    o.ntdir  = 1;
    o.level  = 1;  // Bundle parts: AlphaOpts::tiny
  } else if (level == 1) {
    o.thetas = {0, 1.0001e-4, 0.3, 3};
    o.dirs   = {dirs_menu()[size_t(2 * s + 1)]};
    o.tmags  = {0, 0.3, 3};
    o.ntdir  = 2;
    o.level  = 1;
  } else if (level == 2) {
    o.thetas = {0, 9.9e-5, 1.0001e-4, 0.3, 2, 3};
    o.dirs   = {dirs_menu()[size_t(2 * s)]};
    o.tmags  = {0, 0.3, 3};
    o.ntdir  = 2;
    o.level  = 1;
  } else if (level == 3) {
    o.thetas = {0, 1e-9, 9.9e-5, 1.0001e-4, 1e-2, 0.3, 1, 2, 3};
    o.dirs   = {{0, 0, 1}, dirs_menu()[size_t(2 * s)]};
    if (mc::thorough())
      for (int q = 1; q < 4; ++q) o.dirs.push_back(dirs_menu()[size_t((2 * s + 2 * q) % 8)]);
    o.tmags  = {0, 0.3, 3};
    o.ntdir  = 3;
    o.level  = 0;  // Bundle parts: AlphaOpts::part
  } else {
    o.thetas = {0, 1e-300, 1e-9, 1e-6, 9.9e-5, std::nextafter(1e-4, 0.), 1e-4, 1.0001e-4, 1e-3, 1e-2, 0.1, 0.3, 1, 2, 3};
    o.dirs   = {{1, 0, 0}, {0, 0, -1}, dirs_menu()[size_t(2 * s)], dirs_menu()[size_t(2 * s + 1)]};
    if (mc::thorough()) {
      o.dirs = {{1, 0, 0}, {0, 0, -1}};
      for (auto & d : dirs_menu()) o.dirs.push_back(d);
    }
    o.tmags  = {0, 0.1, 1, 3};
    o.ntdir  = 4;
    o.level  = 0;
  }
  o.rot_max = 3.0;
  return o;
}

// ------------------------------------------------------------------ judgements
std::string cfg_desc(unsigned cm, unsigned sub, int var, int n)
{
  std::string idx = "none";
  if (sub) {
    idx = "<";
    for (int i = 0; i < n; ++i)
      if ((sub >> i) & 1u) idx += (idx.size() > 1 ? "," : "") + std::to_string(i);
    idx += ">";
  }
  std::string m;
  for (int i = 0; i < n; ++i) m += ((cm >> i) & 1u) ? "c" : "m";
  return std::string(VARIANT_NAME[var]) + " refs=" + m + " idx=" + idx;
}
void judge_generic(mc::Case & c, const JudgeIn & in, const CallOut & o)
{
  const int K = var_K(in.var), n = in.lay.n, nx = in.lay.nx;
  const bool deriv = var_deriv(in.var);
  std::vector<int> cols;
  for (int i = 0; i < n; ++i)
    if (in.sub == 0 || ((in.sub >> i) & 1u))
      for (int k = 0; k < in.lay.d[i]; ++k) cols.push_back(in.lay.off[i] + k);
  const int nxs = int(cols.size());
  c.param("K", K);
  c.param("ntan", nxs);
  c.param("nargs", n);
  c.require("result tuple has K+1 entries", o.tuple_size == K + 1);
  // ---- arguments after the call
  {
    double worst  = 0;
    bool const_ok = true;
    for (int i = 0; i < n; ++i) {
      const auto &fb = in.before[size_t(i)], &fa = o.after[size_t(i)];
      if ((in.cm >> i) & 1u) {
        const_ok = const_ok && same_bits(fb, fa);
      } else {
        double mx = 0, ch = fa.size() == fb.size() ? 0 : INFINITY;
        for (size_t q = 0; q < fb.size() && q < fa.size(); ++q) {
          mx = std::max(mx, std::fabs(fb[q]));
          ch = std::max(ch, std::fabs(fa[q] - fb[q]));
          if (!(fa[q] == fa[q])) ch = INFINITY;
        }
        worst = std::max(worst, ch == 0 ? 0.0 : (mx == 0 ? (double)INFINITY : ch / mx));
      }
    }
    if (in.cm != 0) c.require("const argument untouched", const_ok);
    if (in.cm != (1u << n) - 1) {
      // stated bound: absolute change at most 1e-15 times the largest coefficient of the argument
      const char * nm = K == 0 ? "argument restored (K=0)" : (deriv ? "argument restored (analytic)" : (K == 1 ? "argument restored (K=1 numerical)" : "argument restored (K=2 numerical)"));
      c.judge(nm, worst, 1e-15);
    }
  }
  // ---- value
  if (K == 0) {
    c.require("K=0 returns exactly f(x)", same_bits(o.val, in.direct));
  } else {
    double e = o.val.size() == in.direct.size() ? 0 : INFINITY, mx = 1;
    for (size_t q = 0; q < in.direct.size() && q < o.val.size(); ++q) {
      e  = std::max(e, std::fabs(o.val[q] - in.direct[q]));
      mx = std::max(mx, std::fabs(in.direct[q]));
      if (!(o.val[q] == o.val[q])) e = INFINITY;
    }
    c.judge("value = f(x)", e / mx, 64 * EPS);
  }
  if (K == 0) return;
  if (deriv) {
    // ---- verbatim pass-through of the functor's own matrices
    c.outcome(var_mode(in.var) == 2 ? "Analytic" : "Default resolves to Analytic");
    c.require("jacobian returned verbatim", o.J.same(o.ownJ));
    if (K == 2) c.require("hessian returned verbatim", o.H.same(o.ownH));
    return;
  }
  // ---- numerical derivatives against the closed forms
  const DM & Jr  = *in.Jr;
  const Hes & Hr = *in.Hr;
  const int ny   = Jr.r;
  c.require("J has shape dof(f) x dof(x)", o.J.has && o.J.r == ny && o.J.c == nxs);
  if (!(o.J.has && o.J.r == ny && o.J.c == nxs)) return;
  auto premise2 = [&](const std::vector<int> & cs) {
    // K=2 premise: second derivatives (per unit of the relative step) do not exceed 1.5 x max(1, largest first derivative)
    L jm = 1;
    for (int i = 0; i < ny; ++i)
      for (int cc : cs) jm = std::max(jm, std::fabs(Jr(i, cc)));
    for (int c0 : cs)
      for (int i = 0; i < ny; ++i)
        for (int c1 : cs)
          if (std::fabs(Hr(c0, i, c1)) * in.scale[size_t(c0)] > 1.5L * jm) return false;
    return true;
  };
  auto nanmax = [](L a, L b) { return (b == b) ? std::max(a, b) : (L)INFINITY; };
  const bool prem = K == 1 || premise2(cols);
  {
    L je = 0, jm = 1;
    for (int i = 0; i < ny; ++i)
      for (int q = 0; q < nxs; ++q) {
        const L rv = Jr(i, cols[size_t(q)]);
        je         = nanmax(je, std::fabs((L)o.J(i, q) - rv));
        jm         = std::max(jm, std::fabs(rv));
      }
    if (K == 1) {
      c.judge("J (K=1)", double(je / jm), 1e-4);
    } else if (prem) {
      c.judge("J (K=2)", double(je / jm), 1e-4);
      c.outcome("K=2: O(1) premise holds");
    } else {
      c.outcome("K=2: outside the O(1) premise, accuracy not judged");
      c.trivial();
    }
  }
  if (K == 2) {
    c.require("H has shape dof(x) x dof(f)*dof(x)", o.H.has && o.H.r == nxs && o.H.c == ny * nxs);
    if (!(o.H.has && o.H.r == nxs && o.H.c == ny * nxs)) return;
    if (prem) {
      L he = 0, hm = 1;
      for (int a0 = 0; a0 < nxs; ++a0)
        for (int i = 0; i < ny; ++i)
          for (int a1 = 0; a1 < nxs; ++a1) {
            const L rv = Hr(cols[size_t(a0)], i, cols[size_t(a1)]);
            he         = nanmax(he, std::fabs((L)o.H(a0, i * nxs + a1) - rv));
            hm         = std::max(hm, std::fabs(rv));
          }
      c.judge("H (K=2)", double(he / hm), 5e-2);
    }
  }
  // ---- index subset = columns of the full derivative
  if (in.full) {
    const CallOut & f = *in.full;
    std::vector<int> all;
    for (int q = 0; q < nx; ++q) all.push_back(q);
    const bool pf = K == 1 || (prem && premise2(all));
    if (f.J.has && f.J.r == ny && f.J.c == nx && pf) {
      L e = 0, m = 1;
      for (int i = 0; i < ny; ++i)
        for (int q = 0; q < nxs; ++q) {
          const L fv = f.J(i, cols[size_t(q)]);
          e          = nanmax(e, std::fabs((L)o.J(i, q) - fv));
          m          = std::max(m, std::fabs(fv));
        }
      // each side is within 1e-4 (5e-2) of the truth
      c.judge(K == 1 ? "subset J = columns of full J (K=1)" : "subset J = columns of full J (K=2)", double(e / m), 2e-4);
      if (K == 2 && f.H.has && f.H.r == nx && f.H.c == ny * nx) {
        L he = 0, hm = 1;
        for (int a0 = 0; a0 < nxs; ++a0)
          for (int i = 0; i < ny; ++i)
            for (int a1 = 0; a1 < nxs; ++a1) {
              const L fv = f.H(cols[size_t(a0)], i * nx + cols[size_t(a1)]);
              he         = nanmax(he, std::fabs((L)o.H(a0, i * nxs + a1) - fv));
              hm         = std::max(hm, std::fabs(fv));
            }
        c.judge("subset H = block of full H (K=2)", double(he / hm), 1e-1);
      }
    }
  }
}

void assumptions()
{
  mc::assumption(
    "C08: 'O(1) values and derivatives' is taken as |f(x)| coefficients <= 32, |J| <= 32, |H| <= 48 (reference values); vector and scalar "
    "arguments have coordinates 0 or of magnitude 0.1..10; group arguments have rotation angle <= 3 (and the element whose log is taken stays 0.1 "
    "away from pi) and translation <= 3");
  mc::assumption(
    "C08: first derivatives returned by dr<2,Numerical> (step eps^(1/4)) and the Hessian are judged only where every second derivative, per unit of "
    "the relative step (x max(1,|x_j|) for vector/scalar coordinates), is at most 1.5 x max(1, largest first derivative) of the differentiated "
    "columns (DESIGN C08 'Premise handling'); argument restoration, value, shapes and K=1 accuracy are judged on every point");
  mc::assumption(
    "C08: compile-time budget: 26 (function, argument-type tuple) members are instantiated (see checks/C08/t*.cpp); dr<K,Analytic> is called "
    "without index sequence only (the subset wrapper has no jacobian()); dr<K> on a functor with derivatives likewise; dr<K> on a plain functor "
    "with index subsets only for the all-mutable and all-const reference masks");
  mc::assumption(
    "C08: Hessian convention H(c0, i*nx + c1) = d/dx_c1 [J(i,c0)] (derivative of the right-Jacobian, perturbation c1 applied first), the convention of "
    "d2r_exp in the library and of mc/ref.hpp");
}


}  // namespace c08
