#include "c08.hpp"
using namespace c08;
MC_SUBCHECK(t1_vector)
{
  c08::run<Log, VX>();
  c08::run<Log, V3>();
  c08::run<Poly<0>, D1>();
  c08::run<Poly<1>, V3>();
  c08::run<Poly<2>, VX>();
}
