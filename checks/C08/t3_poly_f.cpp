#include "c08.hpp"
using namespace c08;
MC_SUBCHECK(t3_poly_f)
{
  c08::run<Poly<1>, VX, V3, VX>();
}
