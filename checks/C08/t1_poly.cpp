#include "c08.hpp"
using namespace c08;
MC_SUBCHECK(t1_poly)
{
  c08::run<Poly<0>, VX>();
  c08::run<Poly<1>, VX>();
  c08::run<Poly<2>, VX>();
  c08::run<Poly<0>, D1>();
  c08::run<Poly<1>, D1>();
  c08::run<Poly<2>, D1>();
}
