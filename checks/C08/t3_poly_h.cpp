#include "c08.hpp"
using namespace c08;
MC_SUBCHECK(t3_poly_h)
{
  c08::run<Poly<0>, D1, D1, V3>();
}
