#include "c08.hpp"
using namespace c08;
MC_SUBCHECK(t3_mul3_so3)
{
  c08::run<Mul3, S3, S3, S3>();
}
