#include "c08.hpp"
using namespace c08;
MC_SUBCHECK(t1_log)
{
  c08::run<Log, S3>();
  c08::run<Log, E2>();
  c08::run<Log, E3>();
  c08::run<Log, BU>();
}
