#include "c08.hpp"
using namespace c08;
MC_SUBCHECK(t3_poly_i)
{
  c08::run<Poly<2>, VX, D1, D1>();
}
