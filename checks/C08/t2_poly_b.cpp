#include "c08.hpp"
using namespace c08;
MC_SUBCHECK(t2_poly_b)
{
  c08::run<Poly<1>, V3, VX>();
  c08::run<Poly<1>, D1, D1>();
  c08::run<Poly<1>, VX, V3>();
}
