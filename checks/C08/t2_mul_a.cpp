#include "c08.hpp"
using namespace c08;
MC_SUBCHECK(t2_mul_a)
{
  c08::run<Mul, S3, S3>();
  c08::run<Mul, E2, E2>();
  c08::run<Mul, E3, E3>();
  c08::run<Mul, BU, BU>();
}
