// C08 (value categories): diff::dr<K>(f, wrt(x...)) must return f(x) and the callable's own derivatives also when the arguments
// inside wrt(...) are temporaries or moved-in objects and the callable takes them by value - every branch (Numerical, Analytic,
// Default with provided derivatives) evaluates f / f.jacobian / f.hessian on the SAME arguments.
// Enumerated: argument type {VectorXd, std::vector<SE2d>, SE3d} x how it is handed over {lvalue, temporary, std::move} x
// mode {Numerical, Analytic, Default} x K {0, 1, 2 where provided}.
#include "bind.hpp"

#include <smooth/diff.hpp>
#include <smooth/manifolds.hpp>

using namespace mcb;
using smooth::diff::Type;

struct FVec  // f(x) = (x0^2 + x1, 3 x1 x2, x2), argument by value
{
  Eigen::Vector3d operator()(Eigen::VectorXd x) const { return {x(0) * x(0) + x(1), 3 * x(1) * x(2), x(2)}; }
  Eigen::Matrix<double, 3, -1> jacobian(Eigen::VectorXd x) const
  {
    Eigen::Matrix<double, 3, -1> J = Eigen::Matrix<double, 3, -1>::Zero(3, 3);
    J(0, 0) = 2 * x(0);
    J(0, 1) = 1;
    J(1, 1) = 3 * x(2);
    J(1, 2) = 3 * x(1);
    J(2, 2) = 1;
    return J;
  }
};
struct FList  // f(v) = log(v0^-1 v1), argument by value
{
  Eigen::Vector3d operator()(std::vector<smooth::SE2d> v) const { return (v[0].inverse() * v[1]).log(); }
};
struct FSe3  // f(g) = g * p, by value
{
  Eigen::Vector3d operator()(smooth::SE3d g) const { return g * Eigen::Vector3d(0.3, -1, 2); }
  Eigen::Matrix<double, 3, 6> jacobian(smooth::SE3d g) const { return g.dr_action(Eigen::Vector3d(0.3, -1, 2)); }
};

template<typename A, typename B>
static bool same(const A & a, const B & b)
{
  return a.rows() == b.rows() && a.cols() == b.cols() && (a.array() == b.array()).all();
}

MC_SUBCHECK(zz_value_categories)
{
  const std::vector<std::array<double, 3>> pts = {{0.5, -1, 2}, {1, 0, 0}, {-3, 0.1, 10}};
  // how = 0 lvalue, 1 temporary, 2 std::move
  mc::explore("C08/value-category/VectorXd", pts.size() * 3 * 3, [&](mc::Case & c) {
    mc::Radix r(c.idx);
    const int how = int(r.next(3)), mode = int(r.next(3));
    const auto & p = pts[r.next(pts.size())];
    Eigen::VectorXd x0(3);
    x0 << p[0], p[1], p[2];
    c.desc = [&, how, mode] { return mc::fmt("mode=%s argument=%s x=", mode == 0 ? "Numerical" : (mode == 1 ? "Analytic" : "Default"), how == 0 ? "lvalue" : (how == 1 ? "temporary" : "std::move")) + vstr(x0); };
    const FVec f;
    const Eigen::Vector3d fx = f(x0);
    const auto Jx            = f.jacobian(x0);
    auto call = [&](auto mode_tag) {
      constexpr Type T = decltype(mode_tag)::value;
      Eigen::VectorXd x = x0;
      if (how == 0) return smooth::diff::dr<1, T>(f, smooth::wrt(x));
      if (how == 1) return smooth::diff::dr<1, T>(f, smooth::wrt(Eigen::VectorXd(x0)));
      return smooth::diff::dr<1, T>(f, smooth::wrt(std::move(x)));
    };
    if (mode == 0) {
      const auto [v, J] = call(std::integral_constant<Type, Type::Numerical>{});
      c.require("value = f(x)", same(v, fx));
      c.judge("numerical jacobian", (J - Jx).cwiseAbs().maxCoeff() / std::max(1.0, Jx.cwiseAbs().maxCoeff()), 1e-4);
    } else if (mode == 1) {
      const auto [v, J] = call(std::integral_constant<Type, Type::Analytic>{});
      c.require("value = f(x)", same(v, fx));
      c.require("jacobian returned verbatim", same(J, Jx));
    } else {
      const auto [v, J] = call(std::integral_constant<Type, Type::Default>{});
      c.require("value = f(x)", same(v, fx));
      c.require("jacobian returned verbatim", same(J, Jx));
    }
  });
  mc::explore("C08/value-category/SE3d", 3 * 3 * 2, [&](mc::Case & c) {
    mc::Radix r(c.idx);
    const int how = int(r.next(3)), mode = int(r.next(3)), which = int(r.next(2));
    const smooth::SE3d g0 = smooth::SE3d::exp((Eigen::Matrix<double, 6, 1>() << 0.3, -1, 2, 0.4 * (which + 1), -0.8, 1.1).finished());
    c.desc = [&, how, mode] { return mc::fmt("mode=%d argument=%d g=", mode, how) + vstr(g0.coeffs()); };
    const FSe3 f;
    const Eigen::Vector3d fx = f(g0);
    const auto Jx = f.jacobian(g0);
    auto call = [&](auto mode_tag) {
      constexpr Type T = decltype(mode_tag)::value;
      smooth::SE3d x = g0;
      if (how == 0) return smooth::diff::dr<1, T>(f, smooth::wrt(x));
      if (how == 1) return smooth::diff::dr<1, T>(f, smooth::wrt(smooth::SE3d(g0)));
      return smooth::diff::dr<1, T>(f, smooth::wrt(std::move(x)));
    };
    if (mode == 0) {
      const auto [v, J] = call(std::integral_constant<Type, Type::Numerical>{});
      c.require("value = f(x)", same(v, fx));
      c.judge("numerical jacobian", (J - Jx).cwiseAbs().maxCoeff() / std::max(1.0, Jx.cwiseAbs().maxCoeff()), 1e-4);
    } else if (mode == 1) {
      const auto [v, J] = call(std::integral_constant<Type, Type::Analytic>{});
      c.require("value = f(x)", same(v, fx));
      c.require("jacobian returned verbatim", same(J, Jx));
    } else {
      const auto [v, J] = call(std::integral_constant<Type, Type::Default>{});
      c.require("value = f(x)", same(v, fx));
      c.require("jacobian returned verbatim", same(J, Jx));
    }
  });
  mc::explore("C08/value-category/vector<SE2d>", 3 * 2, [&](mc::Case & c) {
    mc::Radix r(c.idx);
    const int how = int(r.next(3)), which = int(r.next(2));
    const std::vector<smooth::SE2d> v0 = {smooth::SE2d::exp(Eigen::Vector3d(1, 2, 0.3 + which)), smooth::SE2d::exp(Eigen::Vector3d(-1, 0.5, 1.1))};
    c.desc = [&, how] { return mc::fmt("Numerical, argument=%d (std::vector<SE2d> of size 2)", how); };
    const FList f;
    const Eigen::Vector3d fx = f(v0);
    std::vector<smooth::SE2d> x = v0;
    Eigen::Vector3d v;
    if (how == 0) {
      v = std::get<0>(smooth::diff::dr<1, Type::Numerical>(f, smooth::wrt(x)));
    } else if (how == 1) {
      v = std::get<0>(smooth::diff::dr<1, Type::Numerical>(f, smooth::wrt(std::vector<smooth::SE2d>(v0))));
    } else {
      v = std::get<0>(smooth::diff::dr<1, Type::Numerical>(f, smooth::wrt(std::move(x))));
    }
    c.require("value = f(x)", same(v, fx));
  });
}
