#include "c08.hpp"
using namespace c08;
MC_SUBCHECK(t3_poly)
{
  c08::run<Poly<2>, D1, V3, VX>();
}
