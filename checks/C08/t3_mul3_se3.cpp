#include "c08.hpp"
using namespace c08;
MC_SUBCHECK(t3_mul3_se3)
{
  c08::run<Mul3, E3, E3, E3>();
}
