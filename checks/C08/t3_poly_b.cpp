#include "c08.hpp"
using namespace c08;
MC_SUBCHECK(t3_poly_b)
{
  c08::run<Poly<0>, VX, VX, VX>();
}
