#include "c08.hpp"
using namespace c08;
MC_SUBCHECK(t3_poly_g)
{
  c08::run<Poly<2>, D1, VX, VX>();
}
