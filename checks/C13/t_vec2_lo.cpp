#include "c13.hpp"
MC_SUBCHECK(vec2_lo)
{
  c13::common_notes();
  using G = Eigen::Vector2d;
  c13::run_lo<G>("Vector2d");
}
