#include "c13.hpp"
MC_SUBCHECK(so3_lo)
{
  c13::common_notes();
  using G = smooth::SO3d;
  c13::run_lo<G>("SO3d");
}
