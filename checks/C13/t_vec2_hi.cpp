#include "c13.hpp"
MC_SUBCHECK(vec2_hi)
{
  c13::common_notes();
  using G = Eigen::Vector2d;
  c13::run_hi<G>("Vector2d");
}
