// C13 (object identity): a BSpline that was copy-/move-constructed or copy-/move-assigned from another one is the same curve:
// same t_min / t_max / dt and identical value, velocity and acceleration at every probe time (the domain [t0, t0+(N-K)dt] and
// the knot bookkeeping travel with the object). Every ordered pair (A, B) of a spline menu with different t0, dt and N, every
// assignment form, for K in {1,3,5} and G in {Vector2d, SO3d}.
#include "bind.hpp"

#include <smooth/spline/bspline.hpp>

using namespace mcb;

template<int K, typename G>
static smooth::BSpline<K, G> make_spline(int k)
{
  static const double t0s[4] = {0, -7.3, 2.5, 100}, dts[4] = {1, 0.25, 3, 0.001};
  const int N = K + 1 + (k * 3) % 7;
  std::vector<G> pts;
  for (int i = 0; i < N; ++i) {
    if constexpr (requires(G g) { g.coeffs(); }) {
      pts.push_back(G::exp(Eigen::Matrix<double, G::Dof, 1>::Constant(0.1 * (i + 1) * (k + 1)).cwiseProduct(Eigen::Matrix<double, G::Dof, 1>::LinSpaced(1, -1))));
    } else {
      pts.push_back(G::Constant(0.3 * i - k) + G::LinSpaced(0, 0.5 * i));
    }
  }
  return smooth::BSpline<K, G>(t0s[k % 4], dts[k % 4], pts);
}

template<int K, typename G>
static double differ(const smooth::BSpline<K, G> & x, const smooth::BSpline<K, G> & y)
{
  if (x.t_min() != y.t_min() || x.t_max() != y.t_max() || x.dt() != y.dt()) return 1;
  using T = Eigen::Matrix<double, smooth::Dof<G>, 1>;
  for (double f : {-0.3, 0.0, 0.13, 0.5, 0.77, 1.0, 1.4}) {
    const double t = y.t_min() + f * (y.t_max() - y.t_min());
    T v1, a1, v2, a2;
    const G g1 = x(t, v1, a1), g2 = y(t, v2, a2);
    if (!(v1 == v2) || !(a1 == a2)) return 1;
    if constexpr (requires { g1.coeffs(); }) {
      if (!(g1.coeffs() == g2.coeffs())) return 1;
    } else {
      if (!(g1 == g2)) return 1;
    }
  }
  return 0;
}

template<int K, typename G>
static void run(const std::string & tn)
{
  using Sp = smooth::BSpline<K, G>;
  const uint64_t n = 4;
  mc::explore("C13/assign/" + tn, n * n * 5, [&](mc::Case & c) {
    mc::Radix r(c.idx);
    const int form = int(r.next(5)), ib = int(r.next(n)), ia = int(r.next(n));
    static const char * names[5] = {"copy-construct", "copy-assign", "move-assign from temporary", "move-construct", "move-assign into default-constructed"};
    c.desc = [&, form, ia, ib] { return mc::fmt("K=%d %s: target built as spline #%d, source spline #%d", K, names[form], ia, ib); };
    const Sp B = make_spline<K, G>(ib);
    if (form == 0) {
      const Sp X(B);
      c.require("copy is the same curve", differ(X, B) == 0);
    } else if (form == 1) {
      Sp X = make_spline<K, G>(ia);
      X    = B;
      c.require("copy-assigned spline is the same curve", differ(X, B) == 0);
    } else if (form == 2) {
      Sp X = make_spline<K, G>(ia);
      X    = make_spline<K, G>(ib);
      c.require("move-assigned spline is the same curve", differ(X, B) == 0);
    } else if (form == 3) {
      Sp T = make_spline<K, G>(ib);
      const Sp X(std::move(T));
      c.require("move-constructed spline is the same curve", differ(X, B) == 0);
    } else {
      Sp X;
      X = make_spline<K, G>(ib);
      c.require("move-assigned (into default-constructed) spline is the same curve", differ(X, B) == 0);
    }
  });
}

MC_SUBCHECK(zz_assign)
{
  run<1, Eigen::Vector2d>("K1/Vector2d");
  run<3, Eigen::Vector2d>("K3/Vector2d");
  run<3, smooth::SO3d>("K3/SO3d");
  run<5, smooth::SO3d>("K5/SO3d");
}
