// C13 — BSpline is a C^(K-1), local, left-equivariant curve.
//
// E (DESIGN 4/C13): K = 1..6 x G x N in {K+1, K+2, K+4, 30} x control sequences (constant; constant difference;
//   alternating differences; every sequence over a 3-letter difference alphabet for small N) x t0 in {0,-7.3,1e6} x
//   dt in {1e-3,0.1,1,7} x times {every knot, knot +- 1ulp, knot +- 1e-9 dt, interval thirds, t_min, t_max,
//   outside by +-dt, +-1e9}.  A case of an explored space is one configuration; all its times are visited inside.
// O: independent long double reference: cardinal B-spline basis by the Cox-de Boor recursion on integer knots,
//   cumulative sums, product of ref::expm(B~_j(x) hat(v_j)) in the documented matrix form; velocity / acceleration
//   (and jerk / snap, for Lipschitz bounds) are the successive body derivatives of that matrix curve obtained with
//   the product rule (validated against finite-difference stencils of the reference curve in the self-checks).
//
// Conditioning (design spike): the interval index and the local parameter are computed by the library from
// (t - t0)/dt in double, so every time-dependent comparison carries an allowance w*|next derivative| with
// w = 2 ulp(max(|t|,|t0|))/dt (in knot units). Close to a knot (|x - k| <= w) either adjacent polynomial piece is
// admissible (this only matters for the outputs of order >= K, which jump there).
#pragma once
#include "bind.hpp"

#include <chrono>
#include <cstdlib>

#include <smooth/spline/bspline.hpp>

namespace c13 {
using namespace mcb;

static const L EPSD = 2.220446049250313080847263336181640625e-16L;

inline double ulp(double a)
{
  a = std::fabs(a);
  return std::nextafter(a, INFINITY) - a;
}

// ------------------------------------------------------------------ calibrated tolerances (units: eps * scale)
// Observed worst values (thorough tier, alphabet menus 0 and 1 = seeds 0 and 1, pinned tree 2e06363) are given next to
// each constant; tolerance = max(100 x worst, 64) rounded up.
struct Tol
{
  static constexpr double value  = 2000;  // worst 13.4 inside, 19.0 clamped (SE3d K=6)
  static constexpr double vel    = 1100;  // worst 10.8 (Bundle K=6)
  static constexpr double acc    = 1000;  // worst 8.0 inside, 9.1 clamped (SE3d K=6)
  static constexpr double cont0  = 900;   // value across knots, worst 8.8 (SO3d K=5)
  static constexpr double cont1  = 1000;  // vel across knots, worst 9.1 (Bundle K=6)
  static constexpr double cont2  = 700;   // acc across knots, worst 6.8 (SE3d K=6)
  static constexpr double cval   = 64;    // constant curve value, worst 0 (exact)
  static constexpr double eq_val = 3400;  // worst 33.0 (SO3d K=2, menu 1)
  static constexpr double eq_der = 600;   // worst 5.2 (acc, SE3d K=3), 4.7 (vel)
  static constexpr double tbound = 2;     // t_min / t_max in ulp, worst 0.5
  static constexpr double local  = 4;     // "<= 4 ulp" outside the support (observed: bitwise equal, 0)
};

// ------------------------------------------------------------------ G <-> reference
template<typename G>
struct is_vec : std::false_type
{};
template<typename S, int N>
struct is_vec<Eigen::Matrix<S, N, 1>> : std::true_type
{};

template<typename G>
Mat<L, Ref<G>::Dim> matL(const G & g)
{
  using R = Ref<G>;
  L c[R::Rep];
  if constexpr (is_vec<G>::value) {
    for (int i = 0; i < R::Rep; ++i) c[i] = (L)g(i);
  } else {
    for (int i = 0; i < R::Rep; ++i) c[i] = (L)g.coeffs()(i);
  }
  return R::template matrix<L>(c);
}
template<typename G>
std::string gstr(const G & g)
{
  if constexpr (is_vec<G>::value)
    return vstr(g);
  else
    return vstr(g.coeffs());
}

/// tangent specification: rotation angle / axis, translation magnitude / direction
struct TSpec
{
  double th;
  std::array<double, 3> d;
  double tm;
  std::array<double, 3> td;
};
template<typename R>
void fill_tangent(double * a, const TSpec & s)
{
  if constexpr (R::NRot == -1) {
    fill_tangent<typename R::First>(a, s);
    fill_tangent<typename R::Second>(a + R::First::Dof, s);
  } else {
    int ti = 0;
    for (int i = 0; i < R::Dof; ++i) {
      if (i >= R::RotOff && i < R::RotOff + R::NRot) {
        a[i] = R::NRot == 3 ? s.th * s.d[size_t(i - R::RotOff)] : s.th * (s.d[0] >= 0 ? 1. : -1.);
      } else {
        a[i] = s.tm * s.td[size_t(ti++ % 3)];
      }
    }
  }
}
/// element exp(hat(a)) built from the long double matrix exponential (input construction only)
template<typename G>
G make_elem(const TSpec & s)
{
  using R = Ref<G>;
  double a[R::Dof];
  fill_tangent<R>(a, s);
  G g;
  if constexpr (is_vec<G>::value) {
    for (int i = 0; i < R::Dof; ++i) g(i) = a[i];
  } else {
    L al[R::Dof], c[R::Rep];
    for (int i = 0; i < R::Dof; ++i) al[i] = a[i];
    ref::exp_coeffs<R>(al, c);
    for (int i = 0; i < R::Rep; ++i) g.coeffs()(i) = (double)c[i];
  }
  return g;
}

static const std::array<double, 3> D0{0.36, -0.48, 0.8}, D1{-0.6, 0.64, 0.48}, D2{0.48, 0.6, -0.64}, D3{-0.8, -0.36, 0.48},
  D4{0.28, 0.96, 0.}, DZ{0, 0, 1};

template<typename G>
struct Alpha
{
  G g0;
  G d[3];  // difference alphabet (all rotation parts <= 2.5 rad: inside the injectivity radius with margin)
  G h[3];  // left factors
  G p[3];  // perturbations of a single control point (rotation <= 0.5 rad, so moved differences stay < pi)
  int menu;
  Alpha()
  {
    menu = ((mc::seed() % 2) + 2) % 2;
    g0   = make_elem<G>({0.7, {0.6, 0., -0.8}, 1.5, {0.3, -0.5, 0.8}});
    if (menu == 0) {
      d[0] = make_elem<G>({1e-5, D0, 1e-2, {1, 0, 0}});  // below the small-angle switch of the library
      d[1] = make_elem<G>({0.9, D1, 0.7, D2});
      d[2] = make_elem<G>({2.2, D4, 2.0, D3});
    } else {
      d[0] = make_elem<G>({0., D0, 0., D0});  // exact identity: repeated control point inside a moving sequence
      d[1] = make_elem<G>({0.3, D3, 1.0, D1});
      d[2] = make_elem<G>({2.5, D2, 0.5, D4});
    }
    h[0] = make_elem<G>({0.3, D1, 1.0, {1, 0, 0}});
    h[1] = make_elem<G>({2.0, D0, 5.0, D2});
    h[2] = make_elem<G>({3.0, DZ, 0.2, D3});
    p[0] = make_elem<G>({1e-3, D2, 1e-3, {1, 0, 0}});
    p[1] = make_elem<G>({0.5, D0, 0.5, D3});
    p[2] = make_elem<G>({0.3, {0.6, -0.64, -0.48}, 1.0, D2});
  }
};

// ------------------------------------------------------------------ cardinal B-spline basis (Cox-de Boor)
/// p-th derivatives (p = 0..4) of the cumulative basis functions B~_j, j = s+1..s+K, on the knot span [s, s+1]
/// (integer knots; control point j carries the basis function N_{j-K,K}, support [j-K, j+1]).
struct Basis
{
  L b[5][6];
  L unity;  // sum of all basis functions (self-check)
};
template<int K>
Basis cum_basis(L x, int s)
{
  // N[k][c] = N_{i,k}(x), c = i - (s-K), restricted to span s; column K+1 stays zero
  L N[K + 1][K + 2];
  for (auto & r : N)
    for (auto & v : r) v = 0;
  N[0][K] = 1;
  for (int k = 1; k <= K; ++k)
    for (int i = s - k; i <= s; ++i) {
      const int c = i - (s - K);
      N[k][c]     = (x - (L)i) / (L)k * N[k - 1][c] + ((L)(i + k + 1) - x) / (L)k * N[k - 1][c + 1];
    }
  auto at = [&](int i, int k) -> L {
    if (k < 0) return 0;
    const int c = i - (s - K);
    if (c < 0 || c > K + 1) return 0;
    return N[k][c];
  };
  static const int binom[5][5] = {{1, 0, 0, 0, 0}, {1, 1, 0, 0, 0}, {1, 2, 1, 0, 0}, {1, 3, 3, 1, 0}, {1, 4, 6, 4, 1}};
  // d^q/dx^q N_{i,k} = sum_r (-1)^r C(q,r) N_{i+r,k-q}   (from N'_{i,k} = N_{i,k-1} - N_{i+1,k-1} on unit knots)
  auto dq = [&](int i, int k, int q) -> L {
    L r = 0;
    for (int a = 0; a <= q; ++a) r += ((a % 2) ? -1 : 1) * binom[q][a] * at(i + a, k - q);
    return r;
  };
  Basis B;
  for (int p = 0; p < 5; ++p)
    for (int jj = 0; jj < K; ++jj) {
      const int j = s + 1 + jj;
      L sum       = 0;
      for (int m = s + K; m >= j; --m) sum += dq(m - K, K, p);
      B.b[p][jj] = sum;
    }
  B.unity = 0;
  for (int m = s; m <= s + K; ++m) B.unity += at(m - K, K);
  return B;
}
/// independent closed form: N_{0,K}(y) = 1/K! sum_r (-1)^r C(K+1,r) (y-r)_+^K
inline L cardinal_closed_form(int K, L y)
{
  L f = 1, sum = 0;
  for (int i = 2; i <= K; ++i) f *= i;
  L binom = 1;
  for (int r = 0; r <= K + 1; ++r) {
    const L z = y - r;
    if (z > 0) sum += ((r % 2) ? -1 : 1) * binom * std::pow(z, (L)K);
    binom = binom * (K + 1 - r) / (r + 1);
  }
  return sum / f;
}

// ------------------------------------------------------------------ reference curve on one knot span
template<typename R>
struct RefOut
{
  Mat<L, R::Dim> M;
  L v[R::Dof], a[R::Dof], j[R::Dof], sn[R::Dof];  // body velocity, acceleration, jerk, snap (knot units)
  L Mmax, M1max, M2max, vmax, amax, jmax, smax;
};
/// powers of hat(v_j)
template<typename R>
struct VPow
{
  Mat<L, R::Dim> V1, V2, V3, V4;
};
/// g(x) = M_s * prod_{j=s+1..s+K} expm(B~_j(x) hat(v_j)); derivatives of the matrix curve by the product rule.
/// With F = expm(b V) (b scalar function, V constant):
///   dF = b1 V F,  d2F = (b2 V + b1^2 V^2) F,  d3F = (b3 V + 3 b1 b2 V^2 + b1^3 V^3) F,
///   d4F = (b4 V + (3 b2^2 + 4 b1 b3) V^2 + 6 b1^2 b2 V^3 + b1^4 V^4) F        (bn = n-th derivative of b)
template<int K, typename R>
RefOut<R> ref_eval(const Mat<L, R::Dim> & Ms, const VPow<R> * V, L x, int s)
{
  using M = Mat<L, R::Dim>;
  const Basis B = cum_basis<K>(x, s);
  M G = Ms, G1, G2, G3, G4;
  for (int jj = 0; jj < K; ++jj) {
    const L b0 = B.b[0][jj], b1 = B.b[1][jj], b2 = B.b[2][jj], b3 = B.b[3][jj], b4 = B.b[4][jj];
    const VPow<R> & P = V[jj];
    const M F   = ref::expm(P.V1 * b0);
    const M F1  = ref::mul(P.V1 * b1, F);
    const M F2  = ref::mul(P.V1 * b2 + P.V2 * (b1 * b1), F);
    const M F3  = ref::mul(P.V1 * b3 + P.V2 * (3 * b1 * b2) + P.V3 * (b1 * b1 * b1), F);
    const M F4  = ref::mul(P.V1 * b4 + P.V2 * (3 * b2 * b2 + 4 * b1 * b3) + P.V3 * (6 * b1 * b1 * b2) + P.V4 * (b1 * b1 * b1 * b1), F);
    const M nG4 = ref::mul(G4, F) + ref::mul(G3, F1) * (L)4 + ref::mul(G2, F2) * (L)6 + ref::mul(G1, F3) * (L)4 + ref::mul(G, F4);
    const M nG3 = ref::mul(G3, F) + ref::mul(G2, F1) * (L)3 + ref::mul(G1, F2) * (L)3 + ref::mul(G, F3);
    const M nG2 = ref::mul(G2, F) + ref::mul(G1, F1) * (L)2 + ref::mul(G, F2);
    const M nG1 = ref::mul(G1, F) + ref::mul(G, F1);
    G  = ref::mul(G, F);
    G1 = nG1;
    G2 = nG2;
    G3 = nG3;
    G4 = nG4;
  }
  // body derivatives: Om = G^-1 dG;  with W_n = G^-1 d^n G:  dW_n = W_{n+1} - Om W_n
  const M Gi  = ref::inv(G);
  const M Om  = ref::mul(Gi, G1);
  const M W2  = ref::mul(Gi, G2);
  const M W3  = ref::mul(Gi, G3);
  const M W4  = ref::mul(Gi, G4);
  const M Om1 = W2 - ref::mul(Om, Om);
  const M W2d = W3 - ref::mul(Om, W2);
  const M Om2 = W2d - ref::mul(Om1, Om) - ref::mul(Om, Om1);
  const M W3d = W4 - ref::mul(Om, W3);
  const M Om3 = W3d - ref::mul(Om1, W2) - ref::mul(Om, W2d) - ref::mul(Om2, Om) - ref::mul(Om1, Om1) * (L)2 - ref::mul(Om, Om2);
  RefOut<R> o;
  o.M = G;
  R::template vee<L>(Om, o.v);
  R::template vee<L>(Om1, o.a);
  R::template vee<L>(Om2, o.j);
  R::template vee<L>(Om3, o.sn);
  o.Mmax  = G.maxabs();
  o.M1max = G1.maxabs();
  o.M2max = G2.maxabs();
  o.vmax = o.amax = o.jmax = o.smax = 0;
  for (int i = 0; i < R::Dof; ++i) {
    o.vmax = std::max(o.vmax, std::fabs(o.v[i]));
    o.amax = std::max(o.amax, std::fabs(o.a[i]));
    o.jmax = std::max(o.jmax, std::fabs(o.j[i]));
    o.smax = std::max(o.smax, std::fabs(o.sn[i]));
  }
  return o;
}

// ------------------------------------------------------------------ configurations
static const double T0S[3] = {0., -7.3, 1e6};
static const double DTS[4] = {1e-3, 0.1, 1., 7.};
/// reduced (t0, dt) menu, index = 4*t0idx + dtidx: (0,1), (-7.3,0.1), (1e6,1e-3), (-7.3,7)
static const int TD_DIAG[4] = {2, 5, 8, 7};

struct Config
{
  int N, fam;      // fam: 0 constant, 1..3 constant difference, 4..9 alternating, >= 10 base-3 code of a full sequence
  double t0, dt;
  int extra;       // space-specific remainder (control point / perturbation / left factor)
  int letter(int i) const  // difference letter between control points i-1 and i (i >= 1); -1: identity
  {
    if (fam == 0) return -1;
    if (fam <= 3) return fam - 1;
    if (fam <= 9) {
      const int q = fam - 4, a = q / 2, b = (a + 1 + q % 2) % 3;
      return (i % 2) ? a : b;
    }
    uint64_t code = uint64_t(fam - 10);
    for (int k = 1; k < i; ++k) code /= 3;
    return int(code % 3);
  }
  bool duplicate_of_simple() const
  {
    if (fam < 10) return false;
    bool alt = true;
    for (int i = 3; i < N; ++i)
      if (letter(i) != letter(i - 2)) alt = false;
    return alt;  // constant-difference and alternating sequences were already visited as families 1..9
  }
  std::string seq() const
  {
    std::string s;
    for (int i = 1; i < N; ++i) s += letter(i) < 0 ? 'I' : char('a' + letter(i));
    return s;
  }
};
inline uint64_t pow3(int e)
{
  uint64_t r = 1;
  for (int i = 0; i < e; ++i) r *= 3;
  return r;
}
/// which part of the product is enumerated for "every sequence over the difference alphabet"
struct SeqPolicy
{
  int all_maxN;    // every sequence for N <= all_maxN
  int full_td_maxN;  // ... with all 12 (t0,dt) pairs for N <= full_td_maxN, the 4-pair menu TD_DIAG above that
};
/// layout of one explored space: 4 blocks (one per N); a block is (simple families x 12 (t0,dt) + all sequences x ntd) x extra
template<int K>
struct Layout
{
  int Ns[4] = {K + 1, K + 2, K + 4, 30};
  uint64_t nall[4], ntd[4], nextra[4], off[5];
  template<typename F>
  Layout(const SeqPolicy & pol, F && extra)
  {
    off[0] = 0;
    for (int b = 0; b < 4; ++b) {
      nall[b]   = Ns[b] <= pol.all_maxN ? pow3(Ns[b] - 1) : 0;
      ntd[b]    = Ns[b] <= pol.full_td_maxN ? 12 : 4;
      nextra[b] = uint64_t(extra(Ns[b]));
      off[b + 1] = off[b] + (10 * 12 + nall[b] * ntd[b]) * nextra[b];
    }
  }
  uint64_t size() const { return off[4]; }
  Config decode(uint64_t idx) const
  {
    int b = 0;
    while (idx >= off[b + 1]) ++b;
    uint64_t r = idx - off[b];
    Config c;
    c.N     = Ns[b];
    c.extra = int(r % nextra[b]);
    r /= nextra[b];
    int td;
    if (r < 120) {
      td    = int(r % 12);
      c.fam = int(r / 12);
    } else {
      r -= 120;
      td    = ntd[b] == 12 ? int(r % 12) : TD_DIAG[r % 4];
      c.fam = 10 + int(r / ntd[b]);
    }
    c.dt = DTS[td % 4];
    c.t0 = T0S[td / 4];
    return c;
  }
};

template<typename G>
std::vector<G> build_ctrl(const Config & c, const Alpha<G> & A)
{
  std::vector<G> g;
  g.reserve(size_t(c.N));
  g.push_back(A.g0);
  for (int i = 1; i < c.N; ++i) {
    const int l = c.letter(i);
    if (l < 0)
      g.push_back(g.back());
    else
      g.push_back(smooth::composition(g.back(), A.d[l]));
  }
  return g;
}

/// reference model of one spline: matrices of the stored control points and hat of the differences
template<typename G>
struct Model
{
  using R = Ref<G>;
  std::vector<Mat<L, R::Dim>> Mg;
  std::vector<VPow<R>> V;  // powers of hat(v_j), v_j = g_j (-) g_{j-1}, j >= 1
  std::vector<L> vn;       // |v_j|_inf
  Model() = default;
  explicit Model(const std::vector<G> & g) { assign(g); }
  void assign(const std::vector<G> & g)
  {
    const size_t n = g.size();
    Mg.resize(n);
    V.resize(n);
    vn.assign(n, 0);
    for (size_t i = 0; i < n; ++i) {
      Mg[i] = matL(g[i]);
      if (i) {
        const smooth::Tangent<G> v = smooth::rminus(g[i], g[i - 1]);  // see mc::assumption: judged by C02
        L vl[R::Dof];
        for (int k = 0; k < R::Dof; ++k) {
          vl[k] = (L)v(k);
          vn[i] = std::max(vn[i], std::fabs(vl[k]));
        }
        V[i].V1 = R::template hat<L>(vl);
        V[i].V2 = ref::mul(V[i].V1, V[i].V1);
        V[i].V3 = ref::mul(V[i].V2, V[i].V1);
        V[i].V4 = ref::mul(V[i].V3, V[i].V1);
      }
    }
  }
  template<int K>
  RefOut<R> eval(L x, int s) const
  {
    return ref_eval<K, R>(Mg[size_t(s)], &V[size_t(s + 1)], x, s);
  }
  template<int K>
  L vwin(int s) const
  {
    L m = 0;
    for (int j = s + 1; j <= s + K; ++j) m = std::max(m, vn[size_t(j)]);
    return m;
  }
};

template<typename G>
struct LibOut
{
  using R = Ref<G>;
  Mat<L, R::Dim> M;
  L v[R::Dof], a[R::Dof];  // knot units: vel*dt, acc*dt^2
  double vraw, araw;       // max |.| of the raw outputs (time units)
  L vmax, amax;
  double only_dev = 0;     // largest coefficient difference between spl(t), spl(t, vel) and spl(t, vel, acc)
};
template<int K, typename G>
LibOut<G> lib_eval(const smooth::BSpline<K, G> & spl, double t, double dt)
{
  using R = Ref<G>;
  smooth::Tangent<G> vel, acc;
  const G g = spl(t, vel, acc);
  LibOut<G> o;
  o.M    = matL(g);
  {
    // the value must not depend on which derivative outputs are requested
    smooth::Tangent<G> v1;
    const G g0 = spl(t), g1 = spl(t, v1);
    const auto M0 = matL(g0), M1 = matL(g1);
    o.only_dev = (double)std::max((M0 - o.M).maxabs(), (M1 - o.M).maxabs());
    if (!(o.only_dev == o.only_dev)) o.only_dev = INFINITY;
  }
  o.vraw = o.araw = 0;
  o.vmax = o.amax = 0;
  for (int i = 0; i < R::Dof; ++i) {
    o.v[i] = (L)vel(i) * (L)dt;
    o.a[i] = (L)acc(i) * (L)dt * (L)dt;
    o.vraw = (std::isnan(vel(i)) || std::isnan(o.vraw)) ? NAN : std::max(o.vraw, std::fabs(vel(i)));
    o.araw = (std::isnan(acc(i)) || std::isnan(o.araw)) ? NAN : std::max(o.araw, std::fabs(acc(i)));
    o.vmax = std::max(o.vmax, std::fabs(o.v[i]));
    o.amax = std::max(o.amax, std::fabs(o.a[i]));
  }
  return o;
}
template<int D>
L vdiff(const L * a, const L * b)
{
  L m = 0;
  for (int i = 0; i < D; ++i) {
    const L d = std::fabs(a[i] - b[i]);
    if (!(d == d)) return INFINITY;
    m = std::max(m, d);
  }
  return m;
}
inline double excess(L err, L allowance, L unit)
{
  if (!(err == err)) return NAN;
  return (double)(std::max<L>(0, err - allowance) / unit);
}

/// evaluation times of a configuration. The first 5*(nint+1) entries are, for every knot k,
/// {knot, knot-1ulp, knot+1ulp, knot-1e-9dt, knot+1e-9dt}; then interval thirds, t_min, t_max, outside.
inline std::vector<double> make_times(int nint, double t0, double dt, double tmin, double tmax)
{
  std::vector<double> ts;
  ts.reserve(size_t(7 * nint + 12));
  for (int k = 0; k <= nint; ++k) {
    const double tk = t0 + double(k) * dt;
    ts.push_back(tk);
    ts.push_back(std::nextafter(tk, -INFINITY));
    ts.push_back(std::nextafter(tk, INFINITY));
    ts.push_back(tk - 1e-9 * dt);
    ts.push_back(tk + 1e-9 * dt);
  }
  for (int k = 0; k < nint; ++k) {
    ts.push_back(t0 + (double(k) + 1. / 3) * dt);
    ts.push_back(t0 + (double(k) + 2. / 3) * dt);
  }
  ts.push_back(tmin);
  ts.push_back(tmax);
  ts.push_back(tmin - dt);
  ts.push_back(tmax + dt);
  ts.push_back(-1e9);
  ts.push_back(1e9);
  return ts;
}

template<int K>
std::string cdesc(const char * gname, const Config & c, const double * cur_t)
{
  return mc::fmt("K=%d G=%s N=%d seq=%s t0=%a(%.17g) dt=%a(%.17g) t=%a(%.17g)", K, gname, c.N, c.seq().c_str(), c.t0, c.t0, c.dt, c.dt,
    *cur_t, *cur_t);
}

// ------------------------------------------------------------------ oracle self-checks
template<int K, typename G>
void selfchecks(const Alpha<G> & A)
{
  using R = Ref<G>;
  // (a) recursion vs closed form of the cardinal B-spline, partition of unity, cumulative end values
  bool ok_cf = true, ok_pu = true, ok_end = true;
  for (int s = 0; s < 3; ++s)
    for (int q = 0; q <= 12; ++q) {
      const L x = s + q / 12.0L;
      Basis B   = cum_basis<K>(x, s);
      if (std::fabs(B.unity - 1) > 1e-17L) ok_pu = false;
      // B~_j = sum_{m>=j} N_{m-K,K}(x) = sum_{m>=j} N0(x - (m-K))
      for (int jj = 0; jj < K; ++jj) {
        L sum = 0;
        for (int m = s + 1 + jj; m <= s + K; ++m) sum += cardinal_closed_form(K, x - (m - K));
        if (std::fabs(sum - B.b[0][jj]) > 1e-15L) ok_cf = false;
      }
      if (q == 0 && std::fabs(B.b[0][K - 1]) > 0) ok_end = false;       // last control point has no weight at u=0
      if (q == 12 && std::fabs(B.b[0][0] - 1) > 1e-17L) ok_end = false;  // first difference fully applied at u=1
    }
  mc::selfcheck("basis: Cox-de Boor = truncated-power closed form", ok_cf);
  mc::selfcheck("basis: partition of unity", ok_pu);
  mc::selfcheck("basis: cumulative end values", ok_end);
  // (b) reference derivatives = finite-difference body derivatives of the reference curve (4th order stencils)
  Config c;
  c.N = K + 2, c.fam = 5, c.t0 = 0, c.dt = 1, c.extra = 0;
  auto ctrl = build_ctrl(c, A);
  Model<G> mdl(ctrl);
  bool ok_v = true, ok_a = true, ok_j = true, ok_s = true, ok_c = true;
  const L h = 1.0L / 512;
  for (int s = 0; s < 2; ++s) {
    for (int q = 1; q <= 2; ++q) {
      const L x = s + q / 3.0L;
      RefOut<R> o = mdl.template eval<K>(x, s), m2 = mdl.template eval<K>(x - 2 * h, s), m1 = mdl.template eval<K>(x - h, s),
                p1 = mdl.template eval<K>(x + h, s), p2 = mdl.template eval<K>(x + 2 * h, s);
      auto dM  = (m2.M - p2.M + (p1.M - m1.M) * (L)8) * (1 / (12 * h));
      auto Om  = ref::mul(ref::inv(o.M), dM);
      L vs[R::Dof];
      R::template vee<L>(Om, vs);
      const L sc = std::max<L>({1, o.jmax, o.smax});
      for (int i = 0; i < R::Dof; ++i) {
        const L as = (m2.v[i] - p2.v[i] + 8 * (p1.v[i] - m1.v[i])) / (12 * h);
        const L js = (m2.a[i] - p2.a[i] + 8 * (p1.a[i] - m1.a[i])) / (12 * h);
        const L ss = (m2.j[i] - p2.j[i] + 8 * (p1.j[i] - m1.j[i])) / (12 * h);
        if (!(std::fabs(vs[i] - o.v[i]) <= 1e-8L * sc)) ok_v = false;
        if (!(std::fabs(as - o.a[i]) <= 1e-8L * sc)) ok_a = false;
        if (!(std::fabs(js - o.j[i]) <= 1e-8L * sc)) ok_j = false;
        if (!(std::fabs(ss - o.sn[i]) <= 1e-8L * sc)) ok_s = false;
      }
    }
    // (c) the reference itself is C^(K-1) across the knot between spans 0 and 1
    if (s == 0) {
      RefOut<R> l = mdl.template eval<K>(1, 0), r = mdl.template eval<K>(1, 1);
      if (!((l.M - r.M).maxabs() <= 1e-16L * std::max<L>(1, l.Mmax))) ok_c = false;
      if (K >= 2 && !(vdiff<R::Dof>(l.v, r.v) <= 1e-16L * std::max<L>(1, l.vmax))) ok_c = false;
      if (K >= 3 && !(vdiff<R::Dof>(l.a, r.a) <= 1e-15L * std::max<L>(1, l.amax))) ok_c = false;
    }
  }
  mc::selfcheck("reference: vel = vee(g^-1 dg/dx) by stencil", ok_v);
  mc::selfcheck("reference: acc = d vel/dx by stencil", ok_a);
  mc::selfcheck("reference: jerk = d acc/dx by stencil", ok_j);
  mc::selfcheck("reference: snap = d jerk/dx by stencil", ok_s);
  mc::selfcheck("reference: C^(K-1) at a knot", ok_c);
}

// ------------------------------------------------------------------ space A: evaluation against the reference
template<int K, typename G>
void eval_space(const char * gname, const Alpha<G> & A, const SeqPolicy & pol)
{
  using R = Ref<G>;
  constexpr int Dof = R::Dof;
  const Layout<K> lay(pol, [](int) { return 1; });
  mc::explore(mc::fmt("C13/eval/%s/K%d", gname, K), lay.size(), [&](mc::Case & c) {
    const Config cfg = lay.decode(c.idx);
    double cur_t     = 0;
    c.desc           = [&] { return cdesc<K>(gname, cfg, &cur_t); };
    c.param("K", K);
    c.param("N", cfg.N);
    c.param("t0", cfg.t0);
    c.param("dt", cfg.dt);
    if (cfg.duplicate_of_simple()) c.trivial();
    const std::vector<G> ctrl = build_ctrl(cfg, A);
    const smooth::BSpline<K, G> spl(cfg.t0, cfg.dt, ctrl);
    // per-thread buffers are reused between cases (no heap churn of ~100 kB blocks per case)
    thread_local Model<G> mdl;
    mdl.assign(ctrl);
    const int nint  = cfg.N - K;
    const double t0 = cfg.t0, dt = cfg.dt;

    // ---- domain
    {
      cur_t         = t0;
      const L tmaxr = (L)t0 + (L)nint * (L)dt;
      c.judge("t_min = t0 [ulp]", std::fabs(spl.t_min() - t0) / ulp(t0 == 0 ? dt : t0), Tol::tbound);
      c.judge("t_max = t0+(N-K)dt [ulp]", (double)(std::fabs((L)spl.t_max() - tmaxr) / ulp(std::max(std::fabs(t0), (double)std::fabs(tmaxr)))),
        Tol::tbound);
      c.judge("dt()", std::fabs(spl.dt() - dt), 0.0);
      c.require("ctrl_pts().size() = N", int(spl.ctrl_pts().size()) == cfg.N);
    }
    const std::vector<double> ts = make_times(nint, t0, dt, spl.t_min(), spl.t_max());
    thread_local std::vector<LibOut<G>> lib;
    thread_local std::vector<L> xs, ws;
    lib.resize(ts.size());
    xs.resize(ts.size());
    ws.resize(ts.size());
    // per knot: Lipschitz data of the reference from the adjacent spans (filled when the exact knot time is visited)
    struct KnotL
    {
      L m1 = 0, m2 = 0, a = 0, j = 0, sn = 0, msc = 1, vw = 1;
      int sides = 0;
    };
    thread_local std::vector<KnotL> kl;
    kl.assign(size_t(nint + 1), KnotL{});
    auto add_knot = [&](KnotL & q, const RefOut<R> & ro, int s) {
      q.m1  = std::max(q.m1, ro.M1max);
      q.m2  = std::max(q.m2, ro.M2max);
      q.a   = std::max(q.a, ro.amax);
      q.j   = std::max(q.j, ro.jmax);
      q.sn  = std::max(q.sn, ro.smax);
      q.msc = std::max(q.msc, ro.Mmax);
      q.vw  = std::max(q.vw, mdl.template vwin<K>(s));
      q.sides++;
    };

    for (size_t it = 0; it < ts.size(); ++it) {
      const double t = ts[it];
      cur_t          = t;
      lib[it]        = lib_eval<K, G>(spl, t, dt);
      const LibOut<G> & lo = lib[it];
      c.judge("value is the same whichever derivative outputs are requested", lo.only_dev / std::max(1.0, (double)lo.M.maxabs()), 8 * EPSD);
      const L x = ((L)t - (L)t0) / (L)dt;
      const L w = 2 * (L)ulp(std::max(std::fabs(t), std::fabs(t0))) / (L)dt;
      xs[it]    = x;
      ws[it]    = w;
      const bool far_out = x < -w || x > nint + w;
      const bool zero_ok = x < w || x > nint - w;  // constant continuation: zero derivatives are also acceptable
      const L wa = far_out ? 0 : w;
      const L xc = std::clamp<L>(x, 0, nint);
      int sides[2], nsides = 1;
      sides[0] = std::min((int)std::floor(xc), nint - 1);
      if (!far_out) {
        const int k = (int)std::llround(xc);
        if (k >= 1 && k <= nint - 1 && std::fabs(xc - k) <= w) {
          sides[0] = k - 1;
          sides[1] = k;
          nsides   = 2;
        }
      }
      const bool knot_time = it < size_t(5 * (nint + 1)) && it % 5 == 0;
      double best[3] = {INFINITY, INFINITY, INFINITY}, bestm = INFINITY;
      for (int q = 0; q < nsides; ++q) {
        const int s = sides[q];
        const L xq  = std::clamp<L>(xc, s, s + 1);
        const RefOut<R> ro = mdl.template eval<K>(xq, s);
        if (knot_time && std::fabs(xq - (L)(it / 5)) <= w) add_knot(kl[it / 5], ro, s);
        const L vw = std::max<L>(1, mdl.template vwin<K>(s));
        const L ev = (lo.M - ro.M).maxabs();
        L ee = vdiff<Dof>(lo.v, ro.v), ea = vdiff<Dof>(lo.a, ro.a);
        if (zero_ok) {
          ee = std::min(ee, lo.vmax);
          ea = std::min(ea, lo.amax);
        }
        // time-conditioning allowance: 2 w sup|next derivative| over the window (first + second order term)
        const double r0 = excess(ev, 2 * wa * (ro.M1max + wa * ro.M2max), EPSD * std::max<L>(1, ro.Mmax));
        const double r1 = excess(ee, 2 * wa * (ro.amax + wa * ro.jmax), EPSD * vw);
        const double r2 = excess(ea, 2 * wa * (ro.jmax + wa * ro.smax), EPSD * vw * vw);
        const double m  = std::max({std::isnan(r0) ? INFINITY : r0 / Tol::value, std::isnan(r1) ? INFINITY : r1 / Tol::vel,
          std::isnan(r2) ? INFINITY : r2 / Tol::acc});
        if (q == 0 || m < bestm) {
          bestm   = m;
          best[0] = r0, best[1] = r1, best[2] = r2;
        }
      }
      if (far_out) {
        c.outcome(x < 0 ? "time: clamped below t_min" : "time: clamped above t_max");
        c.judge("outside: value = end value [eps]", best[0], Tol::value);
        c.judge("outside: vel = end vel or 0 [eps]", best[1], Tol::vel);
        c.judge("outside: acc = end acc or 0 [eps]", best[2], Tol::acc);
      } else {
        c.outcome(nsides == 2 ? "time: within conditioning window of an interior knot" : zero_ok ? "time: at t_min/t_max" : "time: interior");
        c.judge("value = reference [eps]", best[0], Tol::value);
        c.judge("vel = body derivative of reference [eps]", best[1], Tol::vel);
        c.judge("acc = 2nd body derivative of reference [eps]", best[2], Tol::acc);
      }
      if (cfg.fam == 0) {
        c.judge("constant: value = g0 [eps]", (double)((lo.M - mdl.Mg[0]).maxabs() / (EPSD * std::max<L>(1, mdl.Mg[0].maxabs()))), Tol::cval);
        c.judge("constant: |vel| (abs)", lo.vraw, 1e-14);
        c.judge("constant: |acc| (abs)", lo.araw, 1e-14);
      }
    }

    // ---- C^(K-1) across every knot: library on both sides, Lipschitz constants from the reference
    for (int k = 0; k <= nint; ++k) {
      const bool interior = k >= 1 && k <= nint - 1;
      KnotL & q           = kl[size_t(k)];
      if (q.sides < (interior ? 2 : 1)) {  // not collected in the main loop: evaluate the adjacent spans at the knot
        q = KnotL{};
        for (int s = std::max(k - 1, 0); s <= std::min(k, nint - 1); ++s) add_knot(q, mdl.template eval<K>((L)k, s), s);
      }
      for (int pair = 0; pair < 2; ++pair) {
        const size_t im = size_t(5 * k + 1 + 2 * pair), ip = im + 1;
        cur_t           = ts[ip];
        const L gap     = std::fabs(xs[ip] - xs[im]) + ws[ip] + ws[im];
        if (ts[ip] == ts[im]) c.outcome("continuity: delta below 1 ulp (same time)");
        const L ev = (lib[ip].M - lib[im].M).maxabs();
        c.judge("C0: value agrees across knot [eps]", excess(ev, 2 * gap * (q.m1 + gap * q.m2), EPSD * q.msc), Tol::cont0);
        if (interior && K >= 2) {
          const L e = vdiff<Dof>(lib[ip].v, lib[im].v);
          c.judge("C1: vel agrees across knot [eps]", excess(e, 2 * gap * (q.a + gap * q.j), EPSD * q.vw), Tol::cont1);
        }
        if (interior && K >= 3) {
          const L e = vdiff<Dof>(lib[ip].a, lib[im].a);
          c.judge("C2: acc agrees across knot [eps]", excess(e, 2 * gap * (q.j + gap * q.sn), EPSD * q.vw * q.vw), Tol::cont2);
        }
      }
    }
  });
}

// ------------------------------------------------------------------ space B: local support
template<int K, typename G>
void local_space(const char * gname, const Alpha<G> & A, const SeqPolicy & pol, bool all_perts_N30)
{
  using R = Ref<G>;
  constexpr int Dof = R::Dof;
  auto nperts = [=](int N) { return (N == 30 && !all_perts_N30) ? 1 : 3; };
  const Layout<K> lay(pol, [&](int N) { return nperts(N) * N; });
  mc::explore(mc::fmt("C13/local/%s/K%d", gname, K), lay.size(), [&](mc::Case & c) {
    const Config cfg = lay.decode(c.idx);
    const int np = nperts(cfg.N);
    const int i = cfg.extra / np, ip = np == 1 ? 1 : cfg.extra % np;
    double cur_t = 0;
    c.desc = [&] { return cdesc<K>(gname, cfg, &cur_t) + mc::fmt(" moved ctrl %d by p%d", i, ip); };
    c.param("K", K);
    c.param("N", cfg.N);
    c.param("t0", cfg.t0);
    c.param("dt", cfg.dt);
    c.param("i", i);
    if (cfg.duplicate_of_simple()) c.trivial();
    std::vector<G> ctrl = build_ctrl(cfg, A);
    const smooth::BSpline<K, G> base(cfg.t0, cfg.dt, ctrl);
    ctrl[size_t(i)] = smooth::composition(ctrl[size_t(i)], A.p[ip]);
    const smooth::BSpline<K, G> moved(cfg.t0, cfg.dt, ctrl);
    const int nint = cfg.N - K;
    const std::vector<double> ts = make_times(nint, cfg.t0, cfg.dt, base.t_min(), base.t_max());
    uint64_t n_un = 0, n_ch = 0, n_same = 0, n_bd = 0;
    for (double t : ts) {
      cur_t = t;
      const L x  = ((L)t - (L)cfg.t0) / (L)cfg.dt;
      const L w  = 2 * (L)ulp(std::max(std::fabs(t), std::fabs(cfg.t0))) / (L)cfg.dt;
      const L xc = std::clamp<L>(x, 0, nint);
      // control point i acts on knot intervals i-K..i, i.e. x in [i-K, i+1]
      const L lo = (L)(i - K), hi = (L)(i + 1);
      const LibOut<G> a = lib_eval<K, G>(base, t, cfg.dt), b = lib_eval<K, G>(moved, t, cfg.dt);
      const L ev = (a.M - b.M).maxabs() / (EPSD * std::max<L>(1, a.M.maxabs()));
      const L ee = vdiff<Dof>(a.v, b.v) / (EPSD * std::max<L>(1, a.vmax));
      const L ea = vdiff<Dof>(a.a, b.a) / (EPSD * std::max<L>(1, a.amax));
      if (xc < lo - w || xc > hi + w) {
        ++n_un;
        c.judge("outside support: value unchanged [ulp]", (double)ev, Tol::local);
        c.judge("outside support: vel unchanged [ulp]", (double)ee, Tol::local);
        c.judge("outside support: acc unchanged [ulp]", (double)ea, Tol::local);
      } else if (xc <= lo + w || xc >= hi - w) {
        ++n_bd;  // within the conditioning window of the support boundary: nothing demanded
      } else {
        (std::max({ev, ee, ea}) > 0 ? n_ch : n_same)++;
      }
    }
    if (n_un) c.outcome("some times outside the support of the moved control point (judged)");
    if (n_ch) c.outcome("curve changed inside the support");
    if (n_same) c.outcome("curve bitwise unchanged at a time inside the support");
    if (n_bd) c.outcome("times at the support boundary (not judged)");
    if (!n_un) c.outcome("support covers the whole domain (nothing to judge)");
  });
}

// ------------------------------------------------------------------ space C: left equivariance
template<int K, typename G>
void equiv_space(const char * gname, const Alpha<G> & A, const SeqPolicy & pol)
{
  using R = Ref<G>;
  constexpr int Dof = R::Dof;
  const Layout<K> lay(pol, [](int) { return 3; });
  mc::explore(mc::fmt("C13/equiv/%s/K%d", gname, K), lay.size(), [&](mc::Case & c) {
    const Config cfg = lay.decode(c.idx);
    const int ih = cfg.extra;
    double cur_t = 0;
    c.desc = [&] { return cdesc<K>(gname, cfg, &cur_t) + " h=" + gstr(A.h[ih]); };
    c.param("K", K);
    c.param("N", cfg.N);
    c.param("t0", cfg.t0);
    c.param("dt", cfg.dt);
    if (cfg.duplicate_of_simple()) c.trivial();
    std::vector<G> ctrl = build_ctrl(cfg, A);
    const smooth::BSpline<K, G> base(cfg.t0, cfg.dt, ctrl);
    L vmaxall = 1;
    for (size_t i = 1; i < ctrl.size(); ++i) {
      const smooth::Tangent<G> v = smooth::rminus(ctrl[i], ctrl[i - 1]);
      for (int k = 0; k < Dof; ++k) vmaxall = std::max(vmaxall, (L)std::fabs(v(k)));
    }
    L csc = 1;
    for (auto & g : ctrl) {
      g   = smooth::composition(A.h[ih], g);
      csc = std::max(csc, matL(g).maxabs());
    }
    const smooth::BSpline<K, G> left(cfg.t0, cfg.dt, ctrl);
    const auto Mh  = matL(A.h[ih]);
    const auto Mha = ref::cabs(Mh);
    const int nint = cfg.N - K;
    const std::vector<double> ts = make_times(nint, cfg.t0, cfg.dt, base.t_min(), base.t_max());
    for (double t : ts) {
      cur_t = t;
      const LibOut<G> a = lib_eval<K, G>(base, t, cfg.dt), b = lib_eval<K, G>(left, t, cfg.dt);
      const auto Mr = ref::mul(Mh, a.M);
      const L sc    = std::max<L>(csc, ref::mul(Mha, ref::cabs(a.M)).maxabs());
      c.judge("value(h*ctrl) = h*value [eps]", (double)((b.M - Mr).maxabs() / (EPSD * sc)), Tol::eq_val);
      // the differences of the multiplied control points carry rounding errors of size eps*|h g_i|
      c.judge("vel unchanged by left factor [eps]", (double)(vdiff<Dof>(a.v, b.v) / (EPSD * csc * vmaxall)), Tol::eq_der);
      c.judge("acc unchanged by left factor [eps]", (double)(vdiff<Dof>(a.a, b.a) / (EPSD * csc * vmaxall * vmaxall)), Tol::eq_der);
    }
  });
}

// ------------------------------------------------------------------ driver
template<int K, typename G>
void run_one(const char * gname)
{
  const Alpha<G> A;
  selfchecks<K, G>(A);
  const bool th     = mc::thorough();
  const bool timing = getenv("C13_TIMING") != nullptr;
  auto lap          = [&, t = std::chrono::steady_clock::now()](const char * what) mutable {
    const auto n = std::chrono::steady_clock::now();
    if (timing) fprintf(stderr, "  [C13 timing] %s K=%d %s %.2fs\n", gname, K, what, std::chrono::duration<double>(n - t).count());
    t = n;
  };
  // "every sequence over the 3-letter difference alphabet":
  //   thorough: N <= K+4 as designed; all 12 (t0,dt) pairs except for N = K+4 with K >= 5 (4-pair menu);
  //             locality N <= K+2 (the index structure does not depend on the letters)
  //   quick   : N <= K+4 (K <= 2), K+2 (K = 3,4), K+1 (K = 5,6) with the 4-pair (t0,dt) menu; locality N = K+1 for K <= 3
  // The ten simple families (constant, constant difference, alternating) always get the full product.
  const SeqPolicy ev = th ? SeqPolicy{K + 4, K >= 5 ? K + 2 : K + 4} : SeqPolicy{K <= 2 ? K + 4 : (K <= 4 ? K + 2 : K + 1), 0};
  const SeqPolicy eq = th ? SeqPolicy{K + 4, K >= 5 ? K + 2 : K + 4} : SeqPolicy{K + 1, 0};
  const SeqPolicy lc = th ? SeqPolicy{K + 2, K + 2} : SeqPolicy{K <= 3 ? K + 1 : 0, 0};
  eval_space<K, G>(gname, A, ev);
  lap("eval");
  equiv_space<K, G>(gname, A, eq);
  lap("equiv");
  local_space<K, G>(gname, A, lc, th);
  lap("local");
}
template<typename G>
void run_lo(const char * gname)
{
  run_one<1, G>(gname);
  run_one<2, G>(gname);
  run_one<3, G>(gname);
}
template<typename G>
void run_hi(const char * gname)
{
  run_one<4, G>(gname);
  run_one<5, G>(gname);
  run_one<6, G>(gname);
}
inline void common_notes()
{
  mc::assumption(
    "C13: the control-point differences v_i = g_i (-) g_{i-1} used by the reference curve are taken from the library's rminus/log "
    "(judged separately by C02); everything else of the reference (basis, exponentials, derivatives) is independent of the library");
  mc::assumption(
    "C13: outside [t_min,t_max] the statement only fixes the value; for velocity/acceleration the check accepts either the documented "
    "clamping (end derivatives) or zero (derivative of the constant continuation)");
  mc::assumption(
    "C13: time conditioning: each time-dependent comparison allows 2*w*|next derivative| with w = 2 ulp(max(|t|,|t0|))/dt knot units, and "
    "either adjacent polynomial piece within w of an interior knot; locality is not judged within w of the support boundary");
  mc::note("alphabet_menu", mc::fmt("%d", ((mc::seed() % 2) + 2) % 2));
}

}  // namespace c13
