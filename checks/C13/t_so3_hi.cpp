#include "c13.hpp"
MC_SUBCHECK(so3_hi)
{
  c13::common_notes();
  using G = smooth::SO3d;
  c13::run_hi<G>("SO3d");
}
