#include "c13.hpp"
MC_SUBCHECK(se3_hi)
{
  c13::common_notes();
  using G = smooth::SE3d;
  c13::run_hi<G>("SE3d");
}
