#include "c13.hpp"
MC_SUBCHECK(bundle_hi)
{
  c13::common_notes();
  using G = smooth::Bundle<smooth::SO3d, Eigen::Vector2d>;
  c13::run_hi<G>("BundleSO3dT2");
}
