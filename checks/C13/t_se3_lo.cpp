#include "c13.hpp"
MC_SUBCHECK(se3_lo)
{
  c13::common_notes();
  using G = smooth::SE3d;
  c13::run_lo<G>("SE3d");
}
