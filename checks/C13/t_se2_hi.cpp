#include "c13.hpp"
MC_SUBCHECK(se2_hi)
{
  c13::common_notes();
  using G = smooth::SE2d;
  c13::run_hi<G>("SE2d");
}
