#include "c13.hpp"
MC_SUBCHECK(bundle_lo)
{
  c13::common_notes();
  using G = smooth::Bundle<smooth::SO3d, Eigen::Vector2d>;
  c13::run_lo<G>("BundleSO3dT2");
}
