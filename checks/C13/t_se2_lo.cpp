#include "c13.hpp"
MC_SUBCHECK(se2_lo)
{
  c13::common_notes();
  using G = smooth::SE2d;
  c13::run_lo<G>("SE2d");
}
