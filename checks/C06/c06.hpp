// C06 (part A) — Bundle is the direct product of its parts.
// E: a generated family of Bundle compositions (gen.py -> gen_*.cpp); for each type the full product across parts of
//    the per-part element / tangent alphabets (mcb::elements / mcb::tangents with AlphaOpts::part()).
// O: the SAME operation of the library applied to the part addressed by part<i>() (that is what the property
//    states; C01-C05 judge the parts themselves), arranged by offsets that are computed here independently
//    (own prefix sums over the parts' RepSize/Dof/Dim), entry by entry; everything outside the blocks must be
//    exactly zero. For fixed-size vector parts the part operation is the free function of
//    smooth/concepts/lie_group.hpp on the Eigen::Map returned by part<i>() (matrix/hat/vee, which the free interface
//    does not have: the documented forms [I v; 0 1], [0 v; 0 0] of detail/tn.hpp).
// Comparison: <= 2 ulp of the larger magnitude (Bundle only dispatches; on this tool chain every value is in fact
// bitwise equal, which is recorded as the outcome class "bitwise").
#pragma once
#include "bind.hpp"

#include <smooth/lie_groups.hpp>

#include <limits>
#include <memory>
#include <tuple>
#include <utility>

namespace c06 {
using namespace mcb;

// ------------------------------------------------------------------ own static_for (independent of smooth::utils)
template<std::size_t... I, typename F>
inline void sfor_impl(std::index_sequence<I...>, F && f)
{
  (f(std::integral_constant<std::size_t, I>{}), ...);
}
template<std::size_t N, typename F>
inline void sfor(F && f)
{
  sfor_impl(std::make_index_sequence<N>{}, std::forward<F>(f));
}

// ------------------------------------------------------------------ part description
template<typename P>
struct PInfo
{
  static constexpr bool vec = false;
  using Scalar              = typename P::Scalar;
  static constexpr int Rep = P::RepSize, Dof = P::Dof, Dim = P::Dim;
  static constexpr bool comm = P::IsCommutative;
  template<typename NS>
  using Cast = typename P::template CastT<NS>;
};
template<typename S, int N>
struct PInfo<Eigen::Matrix<S, N, 1>>
{
  static constexpr bool vec = true;
  using Scalar              = S;
  // documented in detail/tn.hpp: group and tangent are R^N, matrix form is (N+1)x(N+1)
  static constexpr int Rep = N, Dof = N, Dim = N + 1;
  static constexpr bool comm = true;
  template<typename NS>
  using Cast = Eigen::Matrix<NS, N, 1>;
};

template<int K>
constexpr std::array<int, K + 1> psum(const std::array<int, K> & a)
{
  std::array<int, K + 1> r{};
  for (int i = 0; i < K; ++i) r[size_t(i) + 1] = r[size_t(i)] + a[size_t(i)];
  return r;
}

// ------------------------------------------------------------------ ulp comparison, not templated on Eigen types
template<typename S>
inline double ulp_of(S m)
{
  if (!(m < std::numeric_limits<S>::infinity())) return (double)std::numeric_limits<S>::infinity();
  const S n = std::nextafter(m, std::numeric_limits<S>::infinity());
  return (double)n - (double)m;
}
/// accumulates the comparison of a library result (column-major rows x cols) with per-entry expectations
template<typename S>
struct Sheet
{
  const S * d;
  int rows, cols;
  char * mask;
  double worst = 0;  // ulp
  bool zeros   = true;
  bool bitwise = true;
  Sheet(const S * data, int r, int c, char * m) : d(data), rows(r), cols(c), mask(m) { std::memset(mask, 0, size_t(r) * size_t(c)); }
  void expect(int r, int c, S y)
  {
    const S x                         = d[size_t(c) * size_t(rows) + size_t(r)];
    mask[size_t(c) * size_t(rows) + size_t(r)] = 1;
    if (std::memcmp(&x, &y, sizeof(S)) == 0) return;
    bitwise = false;
    if (x == y) return;  // +0 / -0
    const bool nx = !(x == x), ny = !(y == y);
    if (nx && ny) return;  // the part's own NaN is the part's problem (C01-C05), the Bundle reproduces it
    if (nx || ny) {
      worst = INFINITY;
      return;
    }
    const double e = std::fabs((double)x - (double)y) / ulp_of<S>(std::max(std::fabs(x), std::fabs(y)));
    worst          = std::max(worst, e);
  }
  /// sub-matrix src (column-major, leading dimension ld) expected at (r0, c0)
  void block(int r0, int c0, const S * src, int ld, int sr0, int sc0, int nr, int nc)
  {
    for (int j = 0; j < nc; ++j)
      for (int i = 0; i < nr; ++i) expect(r0 + i, c0 + j, src[size_t(sc0 + j) * size_t(ld) + size_t(sr0 + i)]);
  }
  /// everything not expected so far must be exactly zero; returns number of such entries
  int rest_zero()
  {
    int n = 0;
    for (size_t k = 0; k < size_t(rows) * size_t(cols); ++k)
      if (!mask[k]) {
        ++n;
        if (!(d[k] == S(0))) zeros = false;
      }
    return n;
  }
};

struct CaseAcc
{
  bool bitwise = true;
};
template<typename S>
inline void finish(mc::Case & c, CaseAcc & acc, Sheet<S> & s, const char * what, const char * what0, bool tiles)
{
  const int n = s.rest_zero();
  // 2 ulp: stated in DESIGN (Bundle only dispatches); observed worst on the pinned tree: 0 (bitwise)
  c.judge(what, s.worst, 2.0);
  if (tiles)
    c.require(what0, n == 0);  // segments must tile a coefficient / tangent vector completely (harness invariant)
  else
    c.require(what0, s.zeros);
  acc.bitwise = acc.bitwise && s.bitwise;
}

// ------------------------------------------------------------------ the parts' own operations
// ------------------------------------------------------------------ groups without Hessians
/// Galilei and SE_K_3 implement no d2r_exp / d2r_expinv; a Bundle with such a member has none either (the Hessian clause
/// of the statement is vacuous for it; everything else is judged).
template<typename P>
struct HasHess : std::true_type
{};
template<typename S>
struct HasHess<smooth::Galilei<S>> : std::false_type
{};
template<typename S, int K>
struct HasHess<smooth::SE_K_3<S, K>> : std::false_type
{};
template<typename... Ps>
struct HasHess<smooth::Bundle<Ps...>> : std::bool_constant<(HasHess<Ps>::value && ...)>
{};

template<typename P>
struct Ops
{
  using I = PInfo<P>;
  using S = typename I::Scalar;
  static constexpr int R = I::Rep, D = I::Dof, M = I::Dim;
  using Co = Eigen::Matrix<S, R, 1>;
  using Ta = Eigen::Matrix<S, D, 1>;
  using TM = Eigen::Matrix<S, D, D>;
  using He = Eigen::Matrix<S, D, D * D>;
  using Mx = Eigen::Matrix<S, M, M>;

  template<typename V>
  static Co coeffs(const V & v)
  {
    if constexpr (I::vec)
      return v;
    else
      return v.coeffs();
  }
  static Co identity()
  {
    if constexpr (I::vec)
      return smooth::Identity<P>();
    else
      return P::Identity().coeffs();
  }
  template<typename V>
  static Co inverse(const V & v)
  {
    if constexpr (I::vec)
      return smooth::inverse(v);
    else
      return v.inverse().coeffs();
  }
  template<typename V>
  static Co compose(const V & v, const V & w)
  {
    if constexpr (I::vec)
      return smooth::composition(v, w);
    else
      return (v * w).coeffs();
  }
  template<typename V>
  static Ta log(const V & v)
  {
    if constexpr (I::vec)
      return smooth::log(v);
    else
      return v.log();
  }
  template<typename V>
  static TM Ad(const V & v)
  {
    if constexpr (I::vec)
      return smooth::Ad(v);
    else
      return v.Ad();
  }
  template<typename V>
  static Mx matrix(const V & v)
  {
    if constexpr (I::vec) {
      Mx m = Mx::Identity();
      for (int i = 0; i < D; ++i) m(i, D) = v(i);
      return m;
    } else
      return v.matrix();
  }
  template<typename NS, typename V>
  static Eigen::Matrix<NS, R, 1> cast(const V & v)
  {
    if constexpr (I::vec)
      return smooth::cast<NS>(v);
    else
      return v.template cast<NS>().coeffs();
  }
  static Co exp(const Ta & a)
  {
    if constexpr (I::vec)
      return smooth::exp<P>(a);
    else
      return P::exp(a).coeffs();
  }
  static Mx hat(const Ta & a)
  {
    if constexpr (I::vec) {
      Mx m = Mx::Zero();
      for (int i = 0; i < D; ++i) m(i, D) = a(i);
      return m;
    } else
      return P::hat(a);
  }
  static Ta vee(const Mx & A)
  {
    if constexpr (I::vec) {
      Ta a;
      for (int i = 0; i < D; ++i) a(i) = A(i, D);
      return a;
    } else
      return P::vee(A);
  }
#define C06_TANOP(NAME, RET)              \
  static RET NAME(const Ta & a)           \
  {                                       \
    if constexpr (I::vec)                 \
      return smooth::NAME<P>(a);          \
    else                                  \
      return P::NAME(a);                  \
  }
  C06_TANOP(ad, TM)
  C06_TANOP(dr_exp, TM)
  C06_TANOP(dr_expinv, TM)
  C06_TANOP(dl_exp, TM)
  C06_TANOP(dl_expinv, TM)
#undef C06_TANOP
#define C06_TANOP(NAME, RET)              \
  static RET NAME(const Ta & a)           \
  {                                       \
    if constexpr (I::vec)                 \
      return smooth::NAME<P>(a);          \
    else if constexpr (HasHess<P>::value) \
      return P::NAME(a);                  \
    else                                  \
      return RET{};                       \
  }
  C06_TANOP(d2r_exp, He)
  C06_TANOP(d2r_expinv, He)
#undef C06_TANOP
};

// ------------------------------------------------------------------ per-part alphabets
template<typename P>
struct PartAlpha
{
  using I = PInfo<P>;
  using S = typename I::Scalar;
  using R = Ref<P>;
  std::vector<Eigen::Matrix<S, I::Rep, 1>> E;
  std::vector<Eigen::Matrix<S, I::Dof, 1>> T;
  std::vector<double> Erot, Etm, Trot, Ttm;
  std::vector<int> E2;  // capped sub-alphabet: indices into E used as the second operand of composition

  void build(const AlphaOpts & o, size_t cap2)
  {
    auto es = elements<R, S>(o);
    auto ts = tangents<R, S>(o);
    for (auto & e : es) {
      Eigen::Matrix<S, I::Rep, 1> c;
      for (int i = 0; i < I::Rep; ++i) c(i) = (S)e.c[size_t(i)];
      E.push_back(c);
      Erot.push_back(e.rot);
      Etm.push_back(e.tm);
    }
    for (auto & t : ts) {
      Eigen::Matrix<S, I::Dof, 1> a;
      for (int i = 0; i < I::Dof; ++i) a(i) = (S)t.a[size_t(i)];
      T.push_back(a);
      Trot.push_back(t.rot);
      Ttm.push_back(t.tm);
    }
    if constexpr (!I::vec) {
      // tiny tangents with every coordinate non-zero (1e-13: below Eigen's double dummy_precision; 1e-6: below the float one):
      // a part whose tangent is "almost zero" still contributes its (linear) share to ad, exp, the Jacobians
      for (double mag : {1e-13, 1e-6}) {
        Eigen::Matrix<S, I::Dof, 1> a;
        for (int i = 0; i < I::Dof; ++i) a(i) = (S)((i % 2 ? -1 : 1) * (1 + 0.25 * i) * mag);
        T.push_back(a);
        Trot.push_back(mag);
        Ttm.push_back(mag);
      }
    }
    if constexpr (I::vec) {
      // the Tn alphabet of bind.hpp only populates the first coordinate: add one vector with all coordinates
      // different and non-zero so that a shifted offset inside a vector part cannot go unnoticed
      Eigen::Matrix<S, I::Dof, 1> a;
      for (int i = 0; i < I::Dof; ++i) a(i) = (S)((i % 2 ? -1 : 1) * (0.75 + 0.5 * i));
      E.push_back(a);
      Erot.push_back(0);
      Etm.push_back(1);
      T.push_back(-2 * a);
      Trot.push_back(0);
      Ttm.push_back(1);
    }
    // second composition operand: every element if cap2 allows, else an evenly spaced subset (first and last included)
    const size_t n = E.size(), m = std::min(n, cap2);
    for (size_t k = 0; k < m; ++k) {
      const size_t j = m == 1 ? n / 2 : (k * (n - 1)) / (m - 1);
      if (E2.empty() || E2.back() != (int)j) E2.push_back((int)j);
    }
  }
};

// ------------------------------------------------------------------ the family member
template<typename B>
struct Fam;

template<typename... Ps>
struct Fam<smooth::Bundle<Ps...>>
{
  using B                = smooth::Bundle<Ps...>;
  using S                = typename B::Scalar;
  static constexpr int K = sizeof...(Ps);
  template<std::size_t i>
  using P = std::tuple_element_t<i, std::tuple<Ps...>>;

  static constexpr std::array<int, K> reps{PInfo<Ps>::Rep...}, dofs{PInfo<Ps>::Dof...}, dims{PInfo<Ps>::Dim...};
  static constexpr std::array<int, K + 1> roff = psum<K>(reps), doff = psum<K>(dofs), moff = psum<K>(dims);
  static constexpr int Rep = roff[K], Dof = doff[K], Dim = moff[K];
  static constexpr bool all_comm = (PInfo<Ps>::comm && ...);

  // ---- static structure. Facts about the library are evaluated here but JUDGED at run time (space C06/static/*), so
  // that a wrong constant is a VIOLATION line and not a build error; only harness invariants are static_asserts.
  static_assert((std::is_same_v<S, typename PInfo<Ps>::Scalar> && ...));
  static constexpr bool sizes_ok = B::RepSize == Rep && B::Dof == Dof && B::Dim == Dim && int(B::BundleSize) == K;
  template<std::size_t... i>
  static constexpr bool part_types(std::index_sequence<i...>)
  {
    return (std::is_same_v<typename B::template PartType<i>, P<i>> && ...);
  }
  template<std::size_t... i>
  static constexpr bool part_starts(std::index_sequence<i...>)
  {
    return ((B::template PartStart<i> == doff[i] && B::template PartDof<i> == dofs[i]) && ...);
  }
  template<typename NS>
  static constexpr bool cast_ok = std::is_same_v<typename B::template CastT<NS>, smooth::Bundle<typename PInfo<Ps>::template Cast<NS>...>>;

  using Co = Eigen::Matrix<S, Rep, 1>;
  using Ta = Eigen::Matrix<S, Dof, 1>;

  std::tuple<PartAlpha<Ps>...> A;
  std::array<uint64_t, K> nE{}, nT{}, nE2{};
  uint64_t NE = 1, NT = 1, NE2 = 1;

  void build(const AlphaOpts & o, size_t cap2)
  {
    sfor<K>([&](auto ic) {
      constexpr std::size_t i = ic;
      auto & a                = std::get<i>(A);
      a.build(o, cap2);
      nE[i]  = a.E.size();
      nT[i]  = a.T.size();
      nE2[i] = a.E2.size();
      NE *= nE[i];
      NT *= nT[i];
      NE2 *= nE2[i];
    });
  }

  /// element of the product alphabet: coefficients written at OUR offsets
  B elem(const std::array<uint64_t, K> & ix, double & rot, double & tm) const
  {
    B g;
    sfor<K>([&](auto ic) {
      constexpr std::size_t i = ic;
      const auto & a          = std::get<i>(A);
      for (int k = 0; k < reps[i]; ++k) g.coeffs()(roff[i] + k) = a.E[ix[i]](k);
      rot = std::max(rot, a.Erot[ix[i]]);
      tm  = std::max(tm, a.Etm[ix[i]]);
    });
    return g;
  }
  Ta tang(const std::array<uint64_t, K> & ix, double & rot, double & tm) const
  {
    Ta t;
    sfor<K>([&](auto ic) {
      constexpr std::size_t i = ic;
      const auto & a          = std::get<i>(A);
      for (int k = 0; k < dofs[i]; ++k) t(doff[i] + k) = a.T[ix[i]](k);
      rot = std::max(rot, a.Trot[ix[i]]);
      tm  = std::max(tm, a.Ttm[ix[i]]);
    });
    return t;
  }

  template<typename NS>
  static void check_cast(mc::Case & c, CaseAcc & acc, const B & g, const char * what, const char * what0)
  {
    const auto gc = g.template cast<NS>();
    static_assert(std::is_same_v<std::decay_t<decltype(gc)>, typename B::template CastT<NS>>);
    char mask[Rep];
    Sheet<NS> s(gc.coeffs().data(), Rep, 1, mask);
    sfor<K>([&](auto ic) {
      constexpr std::size_t i            = ic;
      const Eigen::Matrix<NS, reps[i], 1> r = Ops<P<i>>::template cast<NS>(g.template part<i>());
      s.block(roff[i], 0, r.data(), reps[i], 0, 0, reps[i], 1);
    });
    finish(c, acc, s, what, what0, true);
  }

  // ================================================================== spaces
  void run(const std::string & tn)
  {
    // ---------------- compile-time structure: sizes are sums, commutative iff all parts are, part meta data, cast types
    mc::explore("C06/static/" + tn, 1, [&](mc::Case & c) {
      c.desc = [&] {
        return mc::fmt("RepSize=%d Dof=%d Dim=%d BundleSize=%d IsCommutative=%d; parts give %d %d %d %d %d", int(B::RepSize), int(B::Dof),
          int(B::Dim), int(B::BundleSize), int(B::IsCommutative), Rep, Dof, Dim, K, int(all_comm));
      };
      c.outcome(all_comm ? "commutative" : "non-commutative");
      c.require("RepSize = sum of the parts' RepSize", B::RepSize == Rep);
      c.require("Dof = sum of the parts' Dof", B::Dof == Dof);
      c.require("Dim = sum of the parts' Dim", B::Dim == Dim);
      c.require("BundleSize", int(B::BundleSize) == K);
      c.require("IsCommutative iff every part is", B::IsCommutative == all_comm);
      c.require("free Dof<> / IsCommutative<>", smooth::LieGroup<B> && smooth::Dof<B> == Dof && smooth::IsCommutative<B> == all_comm);
      c.require("PartType<i>", part_types(std::make_index_sequence<K>{}));
      c.require("PartStart<i> / PartDof<i>", part_starts(std::make_index_sequence<K>{}));
      c.require("CastT<float> / CastT<double> cast every part", cast_ok<float> && cast_ok<double>);
    });
    // the value spaces index the library's objects with OUR sizes: only meaningful (and memory safe) if they agree
    if constexpr (sizes_ok) run_values(tn);
  }
  void run_values(const std::string & tn)
  {
    // ---------------- elements: part views, Identity, inverse, log, Ad, matrix, cast, construction from parts
    mc::explore("C06/elem/" + tn, NE, [&](mc::Case & c) {
      mc::Radix r(c.idx);
      std::array<uint64_t, K> ix;
      for (int i = 0; i < K; ++i) ix[size_t(i)] = r.next(nE[size_t(i)]);
      double rot = 0, tm = 0;
      const B g = elem(ix, rot, tm);
      c.desc    = [&] { return "g=" + vstr(g.coeffs()); };
      c.param("rot", rot);
      c.param("tm", tm);
      CaseAcc acc;
      {  // part<i>() addresses the i-th coefficient segment (const view and mutable view)
        bool ptr_ok = true, val_ok = true, mut_ok = true;
        B h = g;
        sfor<K>([&](auto ic) {
          constexpr std::size_t i = ic;
          const auto v            = g.template part<i>();
          ptr_ok                  = ptr_ok && (v.data() == g.data() + roff[i]);
          const typename Ops<P<i>>::Co pc = Ops<P<i>>::coeffs(v);
          for (int k = 0; k < reps[i]; ++k) val_ok = val_ok && std::memcmp(&pc(k), &std::get<i>(A).E[ix[i]](k), sizeof(S)) == 0;
          auto w = h.template part<i>();
          mut_ok = mut_ok && (w.data() == h.data() + roff[i]);
        });
        c.require("part<i>() const view points at segment i", ptr_ok);
        c.require("part<i>() const view holds part i verbatim", val_ok);
        c.require("part<i>() mutable view points at segment i", mut_ok);
      }
      {  // writing through the mutable views / constructing from parts reproduces the element
        B h;
        h.coeffs().setConstant(S(-77));
        sfor<K>([&](auto ic) {
          constexpr std::size_t i = ic;
          h.template part<i>()    = g.template part<i>();
        });
        c.require("assignment through part<i>() views", std::memcmp(h.data(), g.data(), sizeof(S) * size_t(Rep)) == 0);
        const B q = [&]<std::size_t... i>(std::index_sequence<i...>)
        {
          return B(P<i>(g.template part<i>())...);
        }
        (std::make_index_sequence<K>{});
        c.require("Bundle(parts...)", std::memcmp(q.data(), g.data(), sizeof(S) * size_t(Rep)) == 0);
      }
      {  // Identity / setIdentity
        const B id = B::Identity();
        B h        = g;
        h.setIdentity();
        char mask[Rep];
        Sheet<S> s(id.coeffs().data(), Rep, 1, mask);
        char mask2[Rep];
        Sheet<S> s2(h.coeffs().data(), Rep, 1, mask2);
        sfor<K>([&](auto ic) {
          constexpr std::size_t i            = ic;
          const typename Ops<P<i>>::Co r = Ops<P<i>>::identity();
          s.block(roff[i], 0, r.data(), reps[i], 0, 0, reps[i], 1);
          s2.block(roff[i], 0, r.data(), reps[i], 0, 0, reps[i], 1);
        });
        finish(c, acc, s, "Identity", "Identity tiles", true);
        finish(c, acc, s2, "setIdentity", "setIdentity tiles", true);
        c.require("dof()", g.dof() == Dof && smooth::dof(g) == Dof);
      }
      {  // inverse
        const B gi = g.inverse();
        char mask[Rep];
        Sheet<S> s(gi.coeffs().data(), Rep, 1, mask);
        sfor<K>([&](auto ic) {
          constexpr std::size_t i            = ic;
          const typename Ops<P<i>>::Co r = Ops<P<i>>::inverse(g.template part<i>());
          s.block(roff[i], 0, r.data(), reps[i], 0, 0, reps[i], 1);
        });
        finish(c, acc, s, "inverse", "inverse tiles", true);
      }
      {  // log
        const Ta l = g.log();
        char mask[Dof];
        Sheet<S> s(l.data(), Dof, 1, mask);
        sfor<K>([&](auto ic) {
          constexpr std::size_t i            = ic;
          const typename Ops<P<i>>::Ta r = Ops<P<i>>::log(g.template part<i>());
          s.block(doff[i], 0, r.data(), dofs[i], 0, 0, dofs[i], 1);
        });
        finish(c, acc, s, "log", "log tiles", true);
      }
      {  // Ad
        const typename B::TangentMap M = g.Ad();
        char mask[Dof * Dof];
        Sheet<S> s(M.data(), Dof, Dof, mask);
        sfor<K>([&](auto ic) {
          constexpr std::size_t i            = ic;
          const typename Ops<P<i>>::TM r = Ops<P<i>>::Ad(g.template part<i>());
          s.block(doff[i], doff[i], r.data(), dofs[i], 0, 0, dofs[i], dofs[i]);
        });
        finish(c, acc, s, "Ad", "Ad zero off the block diagonal", false);
      }
      {  // matrix
        const typename B::Matrix M = g.matrix();
        char mask[Dim * Dim];
        Sheet<S> s(M.data(), Dim, Dim, mask);
        sfor<K>([&](auto ic) {
          constexpr std::size_t i            = ic;
          const typename Ops<P<i>>::Mx r = Ops<P<i>>::matrix(g.template part<i>());
          s.block(moff[i], moff[i], r.data(), dims[i], 0, 0, dims[i], dims[i]);
        });
        finish(c, acc, s, "matrix", "matrix zero off the block diagonal", false);
      }
      check_cast<float>(c, acc, g, "cast<float>", "cast<float> tiles");
      check_cast<double>(c, acc, g, "cast<double>", "cast<double> tiles");
      c.outcome(acc.bitwise ? "bitwise" : "within-2ulp");
    });

    // ---------------- ordered pairs: composition, *=
    mc::explore("C06/compose/" + tn, NE * NE2, [&](mc::Case & c) {
      mc::Radix r(c.idx);
      std::array<uint64_t, K> ix, jx;
      for (int i = 0; i < K; ++i) ix[size_t(i)] = r.next(nE[size_t(i)]);
      sfor<K>([&](auto ic) {
        constexpr std::size_t i = ic;
        jx[i]                   = uint64_t(std::get<i>(A).E2[r.next(nE2[i])]);
      });
      double rot = 0, tm = 0;
      const B g1 = elem(ix, rot, tm), g2 = elem(jx, rot, tm);
      c.desc = [&] { return "g1=" + vstr(g1.coeffs()) + " g2=" + vstr(g2.coeffs()); };
      c.param("rot", rot);
      c.param("tm", tm);
      CaseAcc acc;
      const B p = g1 * g2;
      B q       = g1;
      q *= g2;
      const B f = smooth::composition(g1, g2);
      char mask[Rep], mask2[Rep], mask3[Rep];
      Sheet<S> s(p.coeffs().data(), Rep, 1, mask), s2(q.coeffs().data(), Rep, 1, mask2), s3(f.coeffs().data(), Rep, 1, mask3);
      sfor<K>([&](auto ic) {
        constexpr std::size_t i            = ic;
        const typename Ops<P<i>>::Co rr = Ops<P<i>>::compose(g1.template part<i>(), g2.template part<i>());
        s.block(roff[i], 0, rr.data(), reps[i], 0, 0, reps[i], 1);
        s2.block(roff[i], 0, rr.data(), reps[i], 0, 0, reps[i], 1);
        s3.block(roff[i], 0, rr.data(), reps[i], 0, 0, reps[i], 1);
      });
      finish(c, acc, s, "composition", "composition tiles", true);
      finish(c, acc, s2, "operator*=", "operator*= tiles", true);
      finish(c, acc, s3, "free composition()", "free composition() tiles", true);
      c.outcome(acc.bitwise ? "bitwise" : "within-2ulp");
    });

    // ---------------- tangents: exp, hat, vee, ad, Jacobians, Hessians
    mc::explore("C06/tangent/" + tn, NT, [&](mc::Case & c) {
      mc::Radix r(c.idx);
      std::array<uint64_t, K> ix;
      for (int i = 0; i < K; ++i) ix[size_t(i)] = r.next(nT[size_t(i)]);
      double rot = 0, tm = 0;
      const Ta a = tang(ix, rot, tm);
      c.desc     = [&] { return "a=" + vstr(a); };
      c.param("rot", rot);
      c.param("tm", tm);
      CaseAcc acc;
      // the part tangents (plain copies of OUR segments)
      std::tuple<typename Ops<Ps>::Ta...> pa;
      sfor<K>([&](auto ic) {
        constexpr std::size_t i = ic;
        for (int k = 0; k < dofs[i]; ++k) std::get<i>(pa)(k) = a(doff[i] + k);
      });
      {  // exp
        const B g = B::exp(a);
        char mask[Rep];
        Sheet<S> s(g.coeffs().data(), Rep, 1, mask);
        sfor<K>([&](auto ic) {
          constexpr std::size_t i            = ic;
          const typename Ops<P<i>>::Co rr = Ops<P<i>>::exp(std::get<i>(pa));
          s.block(roff[i], 0, rr.data(), reps[i], 0, 0, reps[i], 1);
        });
        finish(c, acc, s, "exp", "exp tiles", true);
      }
      const typename B::Matrix H = B::hat(a);
      {  // hat
        char mask[Dim * Dim];
        Sheet<S> s(H.data(), Dim, Dim, mask);
        sfor<K>([&](auto ic) {
          constexpr std::size_t i            = ic;
          const typename Ops<P<i>>::Mx rr = Ops<P<i>>::hat(std::get<i>(pa));
          s.block(moff[i], moff[i], rr.data(), dims[i], 0, 0, dims[i], dims[i]);
        });
        finish(c, acc, s, "hat", "hat zero off the block diagonal", false);
      }
      {  // vee of the Bundle's own hat matrix (an element of the algebra) vs vee of the parts on its diagonal blocks
        const Ta v = B::vee(H);
        char mask[Dof];
        Sheet<S> s(v.data(), Dof, 1, mask);
        sfor<K>([&](auto ic) {
          constexpr std::size_t i = ic;
          typename Ops<P<i>>::Mx blk;
          for (int p = 0; p < dims[i]; ++p)
            for (int q = 0; q < dims[i]; ++q) blk(p, q) = H(moff[i] + p, moff[i] + q);
          const typename Ops<P<i>>::Ta rr = Ops<P<i>>::vee(blk);
          s.block(doff[i], 0, rr.data(), dofs[i], 0, 0, dofs[i], 1);
        });
        finish(c, acc, s, "vee", "vee tiles", true);
      }
#define C06_JAC(NAME)                                                                     \
  {                                                                                       \
    const typename B::TangentMap M = B::NAME(a);                                          \
    char mask[Dof * Dof];                                                                 \
    Sheet<S> s(M.data(), Dof, Dof, mask);                                                 \
    sfor<K>([&](auto ic) {                                                                \
      constexpr std::size_t i            = ic;                                            \
      const typename Ops<P<i>>::TM rr = Ops<P<i>>::NAME(std::get<i>(pa));                 \
      s.block(doff[i], doff[i], rr.data(), dofs[i], 0, 0, dofs[i], dofs[i]);              \
    });                                                                                   \
    finish(c, acc, s, #NAME, #NAME " zero off the block diagonal", false);                \
  }
      C06_JAC(ad)
      C06_JAC(dr_exp)
      C06_JAC(dr_expinv)
      C06_JAC(dl_exp)
      C06_JAC(dl_expinv)
#undef C06_JAC
      // Hessians, documented layout (lie_group_base.hpp "horizontally stacked", derivatives / detail/bundle.hpp):
      // H(j, Dof*i + k) = d J(i,j) / d a_k. J is block diagonal, so for i=Bi+i', j=Bi+j', k=Bi+k' inside part p:
      // H(Bi+j', Dof*(Bi+i') + Bi+k') = Hp(j', Dp*i' + k'); every other entry is zero.
#define C06_HESS(NAME)                                                                    \
  {                                                                                       \
    const typename B::Hessian Hs = B::NAME(a);                                            \
    static thread_local std::vector<char> mask;                                           \
    mask.resize(size_t(Dof) * Dof * Dof);                                                 \
    Sheet<S> s(Hs.data(), Dof, Dof * Dof, mask.data());                                   \
    sfor<K>([&](auto ic) {                                                                \
      constexpr std::size_t i      = ic;                                                  \
      constexpr int Bi = doff[i], Di = dofs[i];                                           \
      const typename Ops<P<i>>::He rr = Ops<P<i>>::NAME(std::get<i>(pa));                 \
      for (int ii = 0; ii < Di; ++ii)                                                     \
        for (int jj = 0; jj < Di; ++jj)                                                   \
          for (int kk = 0; kk < Di; ++kk) s.expect(Bi + jj, Dof * (Bi + ii) + Bi + kk, rr(jj, Di * ii + kk)); \
    });                                                                                   \
    finish(c, acc, s, #NAME, #NAME " zero outside the part blocks", false);               \
  }
      if constexpr (HasHess<B>::value) {
        C06_HESS(d2r_exp)
        C06_HESS(d2r_expinv)
      }
#undef C06_HESS
      c.outcome(acc.bitwise ? "bitwise" : "within-2ulp");
    });
  }
};

/// LEN = number of top-level parts as generated (decides alphabet level and composition cap)
template<typename B>
void bundle_checks(const std::string & tn, int len, bool nested)
{
  auto fam = std::make_unique<Fam<B>>();
  AlphaOpts o = AlphaOpts::part();
  size_t cap2;
  if (mc::thorough()) {
    if (len <= 2 && !nested) o = AlphaOpts::reduced();
    cap2 = len == 1 ? 1000000 : (len == 2 ? 12 : 6);
  } else {
    cap2 = len == 1 ? 1000000 : (len == 2 ? 12 : 3);
  }
  // log() of the parts is only specified up to rotation angle pi (C02): stay inside, as the part alphabets do
  o.upto(PI);
  fam->build(o, cap2);
  fam->run(tn);
}

}  // namespace c06
