// C06 (part B) — fixed / dynamic Eigen vectors and built-in scalars, used through the free functions of
// smooth/concepts/lie_group.hpp (+ the Manifold free functions they imply), are the additive group:
// composition is +, inverse is -, exp / log are the identity map, Ad and the exp-Jacobians are identity matrices,
// ad and the Hessians are zero (of the right shape), Identity is 0, dof is the size.
// E: per type, the value alphabet {0, +-tiny, +-1e-3, +-1, +-1e3} as constant vectors plus mixed vectors; every
//    element (unary laws), every ordered pair (binary laws), every triple of the constant vectors (n-ary composition).
// O: the additive group of IEEE numbers, evaluated coordinate by coordinate with the built-in + and -.
// Compared exactly (the statement says "is +", "identity", "zero"; one correctly rounded addition has one result);
// value equality, so the sign of a zero is not demanded.
#include "bind.hpp"

#include <smooth/lie_groups.hpp>

#include <limits>

namespace {
using mcb::vstr;

template<typename G>
struct Tr
{
  static constexpr bool scalar = false;
  using S                      = typename G::Scalar;
  static G make(const std::vector<S> & v)
  {
    G g(v.size());
    for (size_t i = 0; i < v.size(); ++i) g(Eigen::Index(i)) = v[i];
    return g;
  }
  static Eigen::Index n(const G & g) { return g.size(); }
  static S at(const G & g, Eigen::Index i) { return g(i); }
  static std::string str(const G & g) { return vstr(g); }
};
template<typename G>
  requires std::is_floating_point_v<G>
struct Tr<G>
{
  static constexpr bool scalar = true;
  using S                      = G;
  static G make(const std::vector<S> & v) { return v[0]; }
  static Eigen::Index n(const G &) { return 1; }
  static S at(const G & g, Eigen::Index) { return g; }
  static std::string str(const G & g) { return mc::fmt("%a ~ %.9g", (double)g, (double)g); }
};

/// matrix result has the given shape and entries f(i,j), exactly
template<typename M, typename F>
bool mat_is(const M & m, Eigen::Index r, Eigen::Index c, F && f)
{
  if (m.rows() != r || m.cols() != c) return false;
  for (Eigen::Index i = 0; i < r; ++i)
    for (Eigen::Index j = 0; j < c; ++j)
      if (!(m(i, j) == f(i, j))) return false;
  return true;
}
/// group-valued result has size n and coordinates f(i), exactly
template<typename G, typename F>
bool grp_is(const G & g, Eigen::Index n, F && f)
{
  if (Tr<G>::n(g) != n) return false;
  for (Eigen::Index i = 0; i < n; ++i)
    if (!(Tr<G>::at(g, i) == f(i))) return false;
  return true;
}

template<typename G, int N>
void additive_values(const std::string & tn, int n);

/// G: group type; N: compile-time Dof expected (-1 dynamic); n: run-time size
template<typename G, int N>
void additive(const std::string & tn, int n)
{
  using T  = Tr<G>;
  using S  = typename T::S;
  using Ta = Eigen::Matrix<S, N, 1>;
  // ---- static structure (judged at run time so that a wrong constant is a VIOLATION line, not a build error)
  static_assert(smooth::LieGroup<G>);
  static_assert(std::is_same_v<smooth::Scalar<G>, S>);
  constexpr bool plain_ok = T::scalar ? std::is_same_v<smooth::PlainObject<G>, G> : std::is_same_v<smooth::PlainObject<G>, Eigen::Matrix<S, N, 1>>;
  constexpr bool cast_ok  = T::scalar
                            ? (std::is_same_v<smooth::CastT<float, G>, float> && std::is_same_v<smooth::CastT<double, G>, double>)
                            : (std::is_same_v<smooth::CastT<float, G>, Eigen::Matrix<float, N, 1>> &&
                               std::is_same_v<smooth::CastT<double, G>, Eigen::Matrix<double, N, 1>>);
  mc::explore("C06/add-static/" + tn, 1, [&](mc::Case & c) {
    c.desc = [&] { return mc::fmt("Dof<G>=%d expected %d, IsCommutative<G>=%d", int(smooth::Dof<G>), N, int(smooth::IsCommutative<G>)); };
    c.require("Dof<G> = compile-time size (1 for scalars, -1 dynamic)", smooth::Dof<G> == N);
    c.require("IsCommutative<G>", smooth::IsCommutative<G>);
    c.require("PlainObject<G>", plain_ok);
    c.require("CastT<float/double, G>", cast_ok);
  });
  // the value spaces use tangents of the expected size: only meaningful if the compile-time size agrees
  if constexpr (smooth::Dof<G> == N) additive_values<G, N>(tn, n);
}

template<typename G, int N>
void additive_values(const std::string & tn, int n)
{
  using T  = Tr<G>;
  using S  = typename T::S;
  using Ta = Eigen::Matrix<S, N, 1>;
  static_assert(std::is_same_v<smooth::Tangent<G>, Ta>);
  // ---- alphabet
  const S tiny = std::is_same_v<S, float> ? S(1e-30) : S(1e-300);
  const std::vector<S> V = {S(0), tiny, -tiny, S(1e-3), S(-1e-3), S(1), S(-1), S(1e3), S(-1e3)};
  std::vector<std::vector<S>> raw;
  for (S v : V) raw.push_back(std::vector<S>(size_t(n), v));
  const size_t nconst_raw = raw.size();
  for (int m = 0; m < 4; ++m) {  // mixed vectors
    std::vector<S> x(size_t(n), S(0));
    for (int i = 0; i < n; ++i) {
      switch (m) {
      case 0: x[size_t(i)] = V[size_t(1 + i) % V.size()]; break;
      case 1: x[size_t(i)] = V[size_t(4 + 2 * i) % V.size()]; break;
      case 2: x[size_t(i)] = V[size_t(8 + 7 * i) % V.size()] * S(i % 3 == 0 ? 1 : -1); break;
      default: x[size_t(i)] = S(0.75 + 0.5 * i) * S(i % 2 ? -1 : 1); break;
      }
    }
    raw.push_back(x);
  }
  std::vector<G> A;
  std::vector<Ta> At;
  size_t nconst = 0;
  for (size_t k = 0; k < raw.size(); ++k) {
    bool dup = false;
    for (size_t q = 0; q < k && !dup; ++q) dup = raw[q] == raw[k];
    if (dup) continue;
    A.push_back(T::make(raw[k]));
    Ta a(n);
    for (int i = 0; i < n; ++i) a(i) = raw[k][size_t(i)];
    At.push_back(a);
    if (k < nconst_raw) nconst = A.size();
  }
  const uint64_t na = A.size();
  const Eigen::Index nn = n;

  // ---- unary laws
  mc::explore("C06/add-unary/" + tn, na, [&](mc::Case & c) {
    const G & g  = A[c.idx];
    const Ta & a = At[c.idx];
    c.desc       = [&] { return "g=a=" + T::str(g); };
    double mag = 0;
    for (int i = 0; i < n; ++i) mag = std::max(mag, std::fabs((double)a(i)));
    c.param("mag", mag);
    if (n == 0) c.outcome("empty");
    else c.outcome(mag == 0 ? "zero" : "nonzero");
    auto one  = [](Eigen::Index i, Eigen::Index j) { return i == j ? S(1) : S(0); };
    auto zero = [](Eigen::Index, Eigen::Index) { return S(0); };
    c.require("dof(g) = size", smooth::dof(g) == nn);
    c.require("inverse(g) = -g", grp_is(smooth::inverse(g), nn, [&](Eigen::Index i) { return -T::at(g, i); }));
    c.require("exp(a) = a", grp_is(smooth::exp<G>(a), nn, [&](Eigen::Index i) { return a(i); }));
    c.require("log(g) = g", mat_is(smooth::log(g), nn, 1, [&](Eigen::Index i, Eigen::Index) { return T::at(g, i); }));
    c.require("Identity(dof) = 0", grp_is(smooth::Identity<G>(nn), nn, [&](Eigen::Index) { return S(0); }));
    if constexpr (N > 0) c.require("Identity() = 0", grp_is(smooth::Identity<G>(), nn, [&](Eigen::Index) { return S(0); }));
    c.require("Ad(g) = I", mat_is(smooth::Ad(g), nn, nn, one));
    c.require("ad(a) = 0", mat_is(smooth::ad<G>(a), nn, nn, zero));
    c.require("dr_exp(a) = I", mat_is(smooth::dr_exp<G>(a), nn, nn, one));
    c.require("dr_expinv(a) = I", mat_is(smooth::dr_expinv<G>(a), nn, nn, one));
    c.require("dl_exp(a) = I", mat_is(smooth::dl_exp<G>(a), nn, nn, one));
    c.require("dl_expinv(a) = I", mat_is(smooth::dl_expinv<G>(a), nn, nn, one));
    c.require("d2r_exp(a) = 0", mat_is(smooth::d2r_exp<G>(a), nn, nn * nn, zero));
    c.require("d2r_expinv(a) = 0", mat_is(smooth::d2r_expinv<G>(a), nn, nn * nn, zero));
    c.require("d2l_exp(a) = 0", mat_is(smooth::d2l_exp<G>(a), nn, nn * nn, zero));
    c.require("d2l_expinv(a) = 0", mat_is(smooth::d2l_expinv<G>(a), nn, nn * nn, zero));
    c.require("cast<float>(g)", grp_is(smooth::cast<float>(g), nn, [&](Eigen::Index i) { return (float)T::at(g, i); }));
    c.require("cast<double>(g)", grp_is(smooth::cast<double>(g), nn, [&](Eigen::Index i) { return (double)T::at(g, i); }));
    c.require("isApprox(g, g)", smooth::isApprox(g, g));
    c.require("composition(g, Identity) = g", grp_is(smooth::composition(g, smooth::Identity<G>(nn)), nn, [&](Eigen::Index i) { return T::at(g, i); }));
    c.require("composition(g, inverse(g)) = 0", grp_is(smooth::composition(g, smooth::inverse(g)), nn, [&](Eigen::Index) { return S(0); }));
  });

  // ---- binary laws, every ordered pair
  mc::explore("C06/add-pair/" + tn, na * na, [&](mc::Case & c) {
    const uint64_t i1 = c.idx / na, i2 = c.idx % na;
    const G & g1 = A[i1];
    const G & g2 = A[i2];
    const Ta & a2 = At[i2];
    c.desc = [&] { return "g1=" + T::str(g1) + " g2=a=" + T::str(g2); };
    if (n == 0) c.outcome("empty");
    else if (i1 == i2) c.outcome("equal");
    else c.outcome("distinct");
    auto sum = [&](Eigen::Index i) { return S(T::at(g1, i) + T::at(g2, i)); };
    auto dif = [&](Eigen::Index i) { return S(T::at(g1, i) - T::at(g2, i)); };
    c.require("composition(g1, g2) = g1 + g2", grp_is(smooth::composition(g1, g2), nn, sum));
    c.require("rplus(g1, a) = g1 + a", grp_is(smooth::rplus(g1, a2), nn, sum));
    c.require("lplus(g1, a) = a + g1", grp_is(smooth::lplus(g1, a2), nn, sum));
    c.require("rminus(g1, g2) = g1 - g2", mat_is(smooth::rminus(g1, g2), nn, 1, [&](Eigen::Index i, Eigen::Index) { return dif(i); }));
    c.require("lminus(g1, g2) = g1 - g2", mat_is(smooth::lminus(g1, g2), nn, 1, [&](Eigen::Index i, Eigen::Index) { return dif(i); }));
  });

  // ---- n-ary composition over the constant vectors: a sum of three terms in some association order. Not exact by
  // nature (floating-point + is not associative): one rounding of either order, 2 eps relative to |g1|+|g2|+|g3|.
  const uint64_t nc = nconst;
  mc::explore("C06/add-triple/" + tn, nc * nc * nc, [&](mc::Case & c) {
    mc::Radix r(c.idx);
    const uint64_t i3 = r.next(nc), i2 = r.next(nc), i1 = r.next(nc);
    const G &g1 = A[i1], &g2 = A[i2], &g3 = A[i3];
    c.desc = [&] { return "g1=" + T::str(g1) + " g2=" + T::str(g2) + " g3=" + T::str(g3); };
    const auto s = smooth::composition(g1, g2, g3);
    bool shape   = T::n(s) == nn;
    double err   = 0;
    for (Eigen::Index i = 0; shape && i < nn; ++i) {
      const long double x = T::at(g1, i), y = T::at(g2, i), z = T::at(g3, i);
      const long double sc = std::fabs(x) + std::fabs(y) + std::fabs(z);
      const long double e  = std::fabs((long double)T::at(s, i) - (x + y + z));
      err = std::max(err, sc == 0 ? (e == 0 ? 0.0 : INFINITY) : (double)(e / sc));
    }
    c.require("composition(g1, g2, g3) size", shape);
    // observed worst on the pinned tree: 0.78 eps (left fold, float); tolerance 2 eps admits either association
    c.judge("composition(g1, g2, g3) = g1 + g2 + g3", err, 2.0 * (double)std::numeric_limits<S>::epsilon());
  });
}

template<typename S>
void family(const char * sn)
{
  additive<Eigen::Matrix<S, 1, 1>, 1>(std::string("Vector1") + sn, 1);
  additive<Eigen::Matrix<S, 2, 1>, 2>(std::string("Vector2") + sn, 2);
  additive<Eigen::Matrix<S, 3, 1>, 3>(std::string("Vector3") + sn, 3);
  additive<Eigen::Matrix<S, 10, 1>, 10>(std::string("Vector10") + sn, 10);
  for (int n : {0, 1, 3, 7}) additive<Eigen::Matrix<S, -1, 1>, -1>(std::string("VectorX") + sn + "[" + std::to_string(n) + "]", n);
  additive<S, 1>(std::string("scalar") + sn, 1);
}
}  // namespace

MC_SUBCHECK(additive_double) { family<double>("d"); }
MC_SUBCHECK(additive_float) { family<float>("f"); }
