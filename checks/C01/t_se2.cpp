#include "c01.hpp"
using namespace smooth;
MC_SUBCHECK(se2)
{
  c01::group_checks<SE2d>("SE2d");
  c01::group_checks<SE2f>("SE2f");
  c01::action_checks<SE2d, 2>("SE2d");
  c01::action_checks<SE2f, 2>("SE2f");
}
