#include "valsem.hpp"
MC_SUBCHECK(value_semantics) { mcb::value_semantics_all<1>("C01"); }
