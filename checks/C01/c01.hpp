// C01 — group operations realise the documented matrix group.
// E: full element alphabet (unary), all ordered pairs (composition, *=), all triples of the reduced
// alphabet (associativity), all (element, point) pairs (action).   O: documented matrix forms in long double.
#pragma once
#include "bind.hpp"

namespace c01 {
using namespace mcb;

template<typename S>
constexpr double tol()
{
  return std::is_same_v<S, float> ? 1e-5 : 1e-12;
}

template<typename G>
std::string edesc(const char * nm, const G & g)
{
  return std::string(nm) + "=" + vstr(g.coeffs());
}

template<typename G>
void group_checks(const std::string & tn)
{
  using S       = typename G::Scalar;
  using R       = Ref<G>;
  constexpr int Dim = R::Dim;
  const double T = tol<S>();

  AlphaOpts full = AlphaOpts::full().upto(PI + 1e-3);
  auto E         = elements<R, S>(full);
  // ---- unary
  mc::explore("C01/unary/" + tn, E.size(), [&](mc::Case & c) {
    const G g = make<G>(E[c.idx]);
    c.desc    = [&] { return edesc("g", g); };
    c.param("rot", E[c.idx].rot);
    c.param("tm", E[c.idx].tm);
    auto cg   = coeffsL(g);
    auto M    = R::template matrix<L>(cg.data());
    c.judge("matrix()", ref::relerr1<Dim, Dim>(g.matrix(), M), T);
    const G gi = g.inverse();
    auto ci    = coeffsL(gi);
    auto Mi    = R::template matrix<L>(ci.data());
    c.judge("inverse", ref::relerr1(Mi, ref::inv(M)), T);
    const auto I = Mat<L, Dim>::Id();
    {
      const G p = g * gi, q = gi * g;
      const L sc = ref::mul(ref::cabs(M), ref::cabs(Mi)).maxabs();
      c.judge("g*inv(g)=I", ref::relerr_scaled(R::template matrix<L>(coeffsL(p).data()), I, sc), T);
      c.judge("inv(g)*g=I", ref::relerr_scaled(R::template matrix<L>(coeffsL(q).data()), I, sc), T);
    }
    const G id = G::Identity();
    c.judge("Identity=I", ref::relerr1(R::template matrix<L>(coeffsL(id).data()), I), 0.0);
    {
      const G p = g * id, q = id * g;
      c.judge("g*Id=g", ref::relerr1(R::template matrix<L>(coeffsL(p).data()), M), T);
      c.judge("Id*g=g", ref::relerr1(R::template matrix<L>(coeffsL(q).data()), M), T);
    }
    {
      // composition with itself, also in place (the right operand aliases the left one)
      const auto MM = ref::mul(M, M);
      const L sc2   = ref::mul(ref::cabs(M), ref::cabs(M)).maxabs();
      const G p     = g * g;
      G q           = g;
      q *= q;
      c.judge("g*g=M*M", ref::relerr_scaled(R::template matrix<L>(coeffsL(p).data()), MM, sc2), T);
      c.judge("g*=g (aliased)=M*M", ref::relerr_scaled(R::template matrix<L>(coeffsL(q).data()), MM, sc2), T);
    }
    G h;
    h.setIdentity();
    c.judge("setIdentity", ref::relerr1(R::template matrix<L>(coeffsL(h).data()), I), 0.0);
  });
  // ---- pairs (quick: three rotation-axis classes instead of five; thorough: all 14)
  AlphaOpts fp = full;
  if (!mc::thorough() && fp.dirs.size() > 3) fp.dirs = {fp.dirs[1], fp.dirs[2], fp.dirs[3]};
  const auto Ep    = elements<R, S>(fp);
  const uint64_t n = Ep.size();
  std::vector<Mat<L, Dim>> Ms, As;
  std::vector<G> Gs;
  for (auto & e : Ep) {
    Gs.push_back(make<G>(e));
    Ms.push_back(R::template matrix<L>(coeffsL(Gs.back()).data()));
    As.push_back(ref::cabs(Ms.back()));
  }
  mc::explore("C01/compose/" + tn, n * n, [&](mc::Case & c) {
    const uint64_t i = c.idx / n, j = c.idx % n;
    c.desc = [&, i, j] { return edesc("g1", Gs[i]) + " " + edesc("g2", Gs[j]); };
    c.param("rot", std::max(Ep[i].rot, Ep[j].rot));
    c.param("tm", std::max(Ep[i].tm, Ep[j].tm));
    const auto Mr = ref::mul(Ms[i], Ms[j]);
    const L sc    = ref::mul(As[i], As[j]).maxabs();  // the product may cancel: forward-error scale |M1||M2|
    const G p     = Gs[i] * Gs[j];
    c.judge("matrix(g1*g2)=M1*M2", ref::relerr_scaled(R::template matrix<L>(coeffsL(p).data()), Mr, sc), T);
    G q = Gs[i];
    q *= Gs[j];
    c.judge("g1*=g2", ref::relerr_scaled(R::template matrix<L>(coeffsL(q).data()), Mr, sc), T);
  });
  // ---- triples (reduced alphabet)
  auto Er = elements<R, S>(AlphaOpts::reduced().upto(PI));
  std::vector<Mat<L, Dim>> Mr;
  std::vector<G> Gr;
  for (auto & e : Er) {
    Gr.push_back(make<G>(e));
    Mr.push_back(R::template matrix<L>(coeffsL(Gr.back()).data()));
  }
  const uint64_t m = Er.size();
  mc::explore("C01/assoc/" + tn, m * m * m, [&](mc::Case & c) {
    mc::Radix r(c.idx);
    const uint64_t k = r.next(m), j = r.next(m), i = r.next(m);
    c.desc = [&, i, j, k] { return edesc("g1", Gr[i]) + " " + edesc("g2", Gr[j]) + " " + edesc("g3", Gr[k]); };
    c.param("tm", std::max({Er[i].tm, Er[j].tm, Er[k].tm}));
    const auto M3 = ref::mul(ref::mul(Mr[i], Mr[j]), Mr[k]);
    const L sc    = ref::mul(ref::mul(ref::cabs(Mr[i]), ref::cabs(Mr[j])), ref::cabs(Mr[k])).maxabs();
    const G a     = (Gr[i] * Gr[j]) * Gr[k];
    const G b     = Gr[i] * (Gr[j] * Gr[k]);
    // two roundings: 2T, relative to the forward-error scale |M1||M2||M3| (intermediate results may cancel)
    c.judge("(g1g2)g3", ref::relerr_scaled(R::template matrix<L>(coeffsL(a).data()), M3, sc), 2 * T);
    c.judge("g1(g2g3)", ref::relerr_scaled(R::template matrix<L>(coeffsL(b).data()), M3, sc), 2 * T);
  });
}

/// action of g on points: matrix times (homogeneous) vector. NP = size of the point, H = number of appended ones
template<typename G, int NP>
void action_checks(const std::string & tn)
{
  using S = typename G::Scalar;
  using R = Ref<G>;
  constexpr int Dim = R::Dim;
  const double T = tol<S>();
  auto E = elements<R, S>(AlphaOpts::full().upto(PI + 1e-3));
  std::vector<std::array<double, 4>> pts = {{0, 0, 0, 0}, {1, 0, 0, 0}, {0, 1, 0, 0}, {0, 0, 1, 0}, {0, 0, 0, 1}, {0.3, -1.7, 2.2, 0.9},
    {300., -1700., 2200., 900.}, {-1e-3, 2e-3, 5e-4, -1e-3}};
  const uint64_t np = pts.size();
  mc::explore("C01/action/" + tn, E.size() * np, [&](mc::Case & c) {
    const uint64_t i = c.idx / np, k = c.idx % np;
    const G g = make<G>(E[i]);
    Eigen::Matrix<S, NP, 1> v;
    for (int a = 0; a < NP; ++a) v(a) = (S)pts[k][size_t(a)];
    c.desc = [&, k] { return edesc("g", g) + " v=" + vstr(v); };
    c.param("tm", E[i].tm);
    const auto M = R::template matrix<L>(coeffsL(g).data());
    Mat<L, Dim, 1> h;
    for (int a = 0; a < Dim; ++a) h(a, 0) = a < NP ? (L)v(a) : (L)1;
    const auto r   = ref::mul(M, h);
    const auto out = g * v;
    L e = 0, mx = 1;
    for (int a = 0; a < NP; ++a) {
      e  = std::max(e, std::fabs((L)out(a) - r(a, 0)));
      mx = std::max(mx, std::fabs(r(a, 0)));
    }
    c.judge("g*v=M(g)v", (double)(e / mx), T);
  });
}

}  // namespace c01
