#include "c01.hpp"
using namespace smooth;
MC_SUBCHECK(se3)
{
  c01::group_checks<SE3d>("SE3d");
  c01::group_checks<SE3f>("SE3f");
  c01::action_checks<SE3d, 3>("SE3d");
  c01::action_checks<SE3f, 3>("SE3f");
}
