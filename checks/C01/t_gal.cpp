#include "c01.hpp"
using namespace smooth;
MC_SUBCHECK(galilei)
{
  c01::group_checks<Galileid>("Galileid");
  c01::group_checks<Galileif>("Galileif");
  c01::action_checks<Galileid, 4>("Galileid");
  c01::action_checks<Galileif, 4>("Galileif");
}
