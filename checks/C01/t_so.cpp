#include "c01.hpp"
using namespace smooth;
MC_SUBCHECK(so2)
{
  c01::group_checks<SO2d>("SO2d");
  c01::group_checks<SO2f>("SO2f");
  c01::action_checks<SO2d, 2>("SO2d");
  c01::action_checks<SO2f, 2>("SO2f");
}
MC_SUBCHECK(so3)
{
  c01::group_checks<SO3d>("SO3d");
  c01::group_checks<SO3f>("SO3f");
  c01::action_checks<SO3d, 3>("SO3d");
  c01::action_checks<SO3f, 3>("SO3f");
}
MC_SUBCHECK(c1)
{
  c01::group_checks<C1d>("C1d");
  c01::group_checks<C1f>("C1f");
  c01::action_checks<C1d, 2>("C1d");
  c01::action_checks<C1f, 2>("C1f");
}
