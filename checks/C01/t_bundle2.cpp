#include "c01.hpp"
using namespace smooth;
// Bundles whose members are the larger groups (Galilei, SE_K_3): every member's matrix() writes its own block of the
// Bundle's block-diagonal matrix, whatever that block held before.
template<typename S>
using B4 = Bundle<Galilei<S>, Eigen::Matrix<S, 3, 1>>;
template<typename S>
using B5 = Bundle<SO2<S>, Galilei<S>>;
template<typename S>
using B6 = Bundle<SE_K_3<S, 2>, C1<S>>;
MC_SUBCHECK(bundle_large_members)
{
  c01::group_checks<B4<double>>("Bundle<Galilei,T3>d");
  c01::group_checks<B5<double>>("Bundle<SO2,Galilei>d");
  c01::group_checks<B5<float>>("Bundle<SO2,Galilei>f");
  c01::group_checks<B6<double>>("Bundle<SE_2_3,C1>d");
}
