// compile probe: default constructor of SubManifold<M>
#include "bind.hpp"
#include <smooth/manifolds.hpp>
#include <smooth/manifolds/submanifold.hpp>
auto probe() { return smooth::SubManifold<smooth::SO3d>{}; }
