// compile probe: smooth::Default<SubManifold<M>>(dof) (the Manifold concept only checks the declaration)
#include "bind.hpp"
#include <smooth/manifolds.hpp>
#include <smooth/manifolds/submanifold.hpp>
auto probe() { return smooth::Default<smooth::SubManifold<smooth::SO3d>>(3); }
