// SubManifold<Vector4d> (16 subsets), SubManifold<Bundle<SO3d,Vector2d>> (32 subsets)
#include "c07.hpp"
using namespace smooth;
MC_SUBCHECK(sub_b)
{
  using namespace c07;
  using B = Bundle<SO3d, Eigen::Vector2d>;
  run_model<SubManifold<Eigen::Vector4d>>("SubManifold<Vector4d>", sub_alpha<Eigen::Vector4d>(0, 0), false, SubExtra<Eigen::Vector4d>{});
  run_model<SubManifold<B>>("SubManifold<Bundle<SO3,T2>d>", sub_alpha<B>(1, 0), false, SubExtra<B>{});
}
