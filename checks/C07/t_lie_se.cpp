#include "c07.hpp"
using namespace smooth;
MC_SUBCHECK(lie_se)
{
  c07::run_fixed<SE2d>("SE2d");
  c07::run_fixed<SE2f>("SE2f");
  // quick: all rotation strata x reduced translation menu (the full product is 4e6 pairs per space and type)
  const int lv = mc::thorough() ? 0 : 5;
  c07::run_fixed<SE3d>("SE3d", lv);
  c07::run_fixed<SE3f>("SE3f", lv);
}
