// std::variant<SO3d, SE2d, Vector2d, double>: every alternative with its full alphabet
#include "c07.hpp"
using namespace smooth;
MC_SUBCHECK(variant)
{
  using namespace c07;
  using V = std::variant<SO3d, SE2d, Eigen::Vector2d, double>;
  run_model<V>("variant<SO3d,SE2d,Vector2d,double>", variant_alpha<V>(0), true, VariantExtra<V>{});
  run_default<V>("variant<SO3d,SE2d,Vector2d,double>", {3});
}
