// AnyManifold over the large groups
#include "c07.hpp"
using namespace smooth;
MC_SUBCHECK(any_b)
{
  using namespace c07;
  const int lv = mc::thorough() ? 0 : 1;
  run_any<SE3d>("SE3d", ElemAlpha<SE3d>::get(lv));
  run_any<Galileid>("Galileid", ElemAlpha<Galileid>::get(lv));
  run_any<SE_K_3<double, 2>>("SE_2_3d", ElemAlpha<SE_K_3<double, 2>>::get(lv));
  run_any<Bundle<SO3d, Eigen::Vector2d>>("Bundle<SO3,T2>d", ElemAlpha<Bundle<SO3d, Eigen::Vector2d>>::get(0));
}
