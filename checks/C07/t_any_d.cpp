// AnyManifold over SubManifold (every subset of fixed dimensions)
#include "c07.hpp"
using namespace smooth;
MC_SUBCHECK(any_d)
{
  using namespace c07;
  using B = Bundle<SO3d, Eigen::Vector2d>;
  run_any<SubManifold<SO3d>>("SubManifold<SO3d>", sub_alpha<SO3d>(2, 1), false);
  run_any<SubManifold<SE2d>>("SubManifold<SE2d>", sub_alpha<SE2d>(3, 1), false);
  run_any<SubManifold<Eigen::Vector4d>>("SubManifold<Vector4d>", sub_alpha<Eigen::Vector4d>(0, 0), false);
  run_any<SubManifold<B>>("SubManifold<Bundle<SO3,T2>d>", sub_alpha<B>(1, 0), false);
}
