// AnyManifold over the container models
#include "c07.hpp"
using namespace smooth;
MC_SUBCHECK(any_c)
{
  using namespace c07;
  using V = std::variant<SO3d, SE2d, Eigen::Vector2d, double>;
  run_any<std::vector<double>>("vector<double>", vector_alpha<double>({1, 1, 2}));
  run_any<std::vector<Eigen::VectorXd>>("vector<VectorXd>", vector_alpha<Eigen::VectorXd>({1, 1, 1}));
  run_any<std::vector<SO3d>>("vector<SO3d>", vector_alpha<SO3d>({0, 2, 2}));
  run_any<std::vector<SE2d>>("vector<SE2d>", vector_alpha<SE2d>({1, 3, 4}));
  run_any<V>("variant<SO3d,SE2d,Vector2d,double>", variant_alpha<V>(0));
}
