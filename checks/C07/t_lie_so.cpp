#include "c07.hpp"
using namespace smooth;
MC_SUBCHECK(lie_so)
{
  c07::selfchecks();
  c07::run_fixed<SO2d>("SO2d");
  c07::run_fixed<SO2f>("SO2f");
  c07::run_fixed<SO3d>("SO3d");
  c07::run_fixed<SO3f>("SO3f");
  c07::run_fixed<C1d>("C1d");
  c07::run_fixed<C1f>("C1f");
}
