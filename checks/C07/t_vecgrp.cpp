// std::vector of Lie groups, sizes 0..3
#include "c07.hpp"
using namespace smooth;
MC_SUBCHECK(vecgrp)
{
  using namespace c07;
  run_model<std::vector<SO3d>>("vector<SO3d>", vector_alpha<SO3d>({0, 1, 2}), true, VectorExtra<SO3d>{});
  run_default<std::vector<SO3d>>("vector<SO3d>", {0, 3, 6, 9});
  run_model<std::vector<SE2d>>("vector<SE2d>", vector_alpha<SE2d>({0, 2, mc::thorough() ? 3 : 4}), true, VectorExtra<SE2d>{});
  run_default<std::vector<SE2d>>("vector<SE2d>", {0, 3, 6, 9});
}
