// SubManifold<SO3d>, SubManifold<SE2d>: all 8 subsets of fixed dimensions each
#include "c07.hpp"
#include "probes.hpp"
using namespace smooth;
MC_SUBCHECK(sub_a)
{
  using namespace c07;
  const bool th = mc::thorough();
  run_model<SubManifold<SO3d>>("SubManifold<SO3d>", sub_alpha<SO3d>(th ? 1 : 2, th ? 0 : 1), false, SubExtra<SO3d>{});
  run_model<SubManifold<SE2d>>("SubManifold<SE2d>", sub_alpha<SE2d>(th ? 2 : 3, 1), false, SubExtra<SE2d>{});
  // not demanded by the statement: exercised when they compile, recorded otherwise
#if PROBE_sub_default
  run_default<SubManifold<SO3d>>("SubManifold<SO3d>", {3});
#else
  mc::note("probe_sub_default", "\"smooth::Default<SubManifold<SO3d>>(3) does not compile on this tree (build/C07/probe_sub_default.log); C07 states nothing about Default, not judged\"");
#endif
#if PROBE_sub_ctor
  {
    const SubManifold<SO3d> s{};
    mc::selfcheck("SubManifold{} has the full tangent space", smooth::dof(s) == 3);
  }
#else
  mc::note("probe_sub_ctor", "\"SubManifold<SO3d>{} does not compile on this tree (build/C07/probe_sub_ctor.log); not demanded by C07, not judged\"");
#endif
}
