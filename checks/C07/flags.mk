# C07: compile probes (DESIGN 3.6b) for two members of the SubManifold interface that the statement does not
# demand (Default<SubManifold<M>>(dof), SubManifold<M>{}): if they compile they are exercised, otherwise the
# harness records a note (no violation: C07 states nothing about Default).
FLAGS_C07 := -I$(B)/C07
C07_PROBES := $(wildcard $(ROOT)/checks/C07/probes/*.cpp)
$(B)/C07/probes.hpp: $(C07_PROBES) $(REPO)/include/smooth/manifolds/submanifold.hpp $(REPO)/include/smooth/concepts/manifold.hpp $(B)/gen/smooth/version.hpp
	@mkdir -p $(B)/C07
	@rm -f $@.tmp; for p in $(C07_PROBES); do n=$$(basename $$p .cpp); \
	  if $(CXX) $(BASE) -MF /dev/null -fsyntax-only $$p > $(B)/C07/probe_$$n.log 2>&1; then echo "#define PROBE_$$n 1" >> $@.tmp; else echo "#define PROBE_$$n 0" >> $@.tmp; fi; done; mv $@.tmp $@
$(B)/C07/t_sub_a.o: $(B)/C07/probes.hpp
