// vectors, scalars and std::vector of them
#include "c07.hpp"
using namespace smooth;
MC_SUBCHECK(vec)
{
  using namespace c07;
  run_fixed<Eigen::Vector2d>("Vector2d");
  run_fixed<Eigen::Vector4d>("Vector4d");
  run_fixed<Eigen::Vector4f>("Vector4f");
  run_model<Eigen::VectorXd>("VectorXd", ElemAlpha<Eigen::VectorXd>::get(0));
  run_default<Eigen::VectorXd>("VectorXd", {0, 1, 2, 3, 4});
  run_model<double>("double", ElemAlpha<double>::get(0));
  run_default<double>("double", {1});
  run_model<float>("float", ElemAlpha<float>::get(0));
  run_default<float>("float", {1});
  // containers: sizes 0..3, every tuple of the per-element alphabets
  run_model<std::vector<double>>("vector<double>", vector_alpha<double>({1, 1, 2}), true, VectorExtra<double>{});
  run_default<std::vector<double>>("vector<double>", {0, 1, 2, 3});
  run_model<std::vector<Eigen::VectorXd>>("vector<VectorXd>", vector_alpha<Eigen::VectorXd>({1, 1, 1}), true, VectorExtra<Eigen::VectorXd>{});
  run_default<std::vector<Eigen::VectorXd>>("vector<VectorXd>", {0, 1, 2, 3});
}
