#include "c07.hpp"
using namespace smooth;
MC_SUBCHECK(lie_big)
{
  const int lv = mc::thorough() ? 0 : 5;
  c07::run_fixed<Galileid>("Galileid", lv);
  c07::run_fixed<SE_K_3<double, 2>>("SE_2_3d", lv);
  c07::run_fixed<Bundle<SO3d, Eigen::Vector2d>>("Bundle<SO3,T2>d");
}
