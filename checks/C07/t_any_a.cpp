// AnyManifold over the small groups, vectors and scalars
#include "c07.hpp"
using namespace smooth;
MC_SUBCHECK(any_a)
{
  using namespace c07;
  run_any<SO2d>("SO2d", ElemAlpha<SO2d>::get(0));
  run_any<SO3d>("SO3d", ElemAlpha<SO3d>::get(0));
  run_any<C1d>("C1d", ElemAlpha<C1d>::get(0));
  run_any<SE2d>("SE2d", ElemAlpha<SE2d>::get(0));
  run_any<Eigen::VectorXd>("VectorXd", ElemAlpha<Eigen::VectorXd>::get(0));
  run_any<Eigen::Vector4d>("Vector4d", ElemAlpha<Eigen::Vector4d>::get(0));
  run_any<double>("double", ElemAlpha<double>::get(0));
}
