// C07 — Manifold axioms hold for every Manifold model.
//
// E: for every model type: the full product value x tangent (tangents inside the injectivity radius: rotation
//    norm <= pi-1e-3), the full product value x value (same shape) and every value (unary laws, copy / cast).
//    Container models: every tuple of per-element alphabets for sizes 0..3; variant: every alternative;
//    SubManifold: every subset of fixed dimensions; AnyManifold: wrapped around each of these.
// O: the axioms themselves, observed only through smooth::rplus / rminus / dof / cast (+ accessors):
//      rminus(rplus(m,a),m)=a, rplus(m,rminus(m2,m))=m2, rminus(m,m)=0, lengths = dof, copy/cast identity + independence.
//    Values are compared through the documented matrix form in long double (independent of the library),
//    dof against a reference dof derived from the type / shape only.
//    Containers: segment bookkeeping recomputed here from the reference dof of each element, element results
//    from the element-level library operations (which C01/C02 judge against the long double reference).
//    SubManifold: scatter / gather written here; additionally the long double reference m*expm(hat(scatter a)).
#pragma once
#include "bind.hpp"

#include <map>
#include <variant>
#include <vector>

#include <smooth/manifolds.hpp>
#include <smooth/manifolds/any.hpp>
#include <smooth/manifolds/submanifold.hpp>

namespace c07 {
using namespace mcb;

// ------------------------------------------------------------------ tolerances
template<typename S>
struct Tol
{
  static constexpr bool F = std::is_same_v<S, float>;
  // round trips: C02's tolerances (DESIGN C07)
  static constexpr double T    = F ? 1e-3 : 1e-9;
  static constexpr double Tpi  = F ? 1e-2 : 1e-7;  // relative rotation within `band` of pi
  static constexpr double band = F ? 1e-2 : 1e-5;
  static constexpr double eps  = std::numeric_limits<S>::epsilon();
  // rminus(m,m)=0, relative to max(1,|m|) (forward-error scale: inverse(m)*m cancels the entries of m).  DESIGN C07
  // proposes 8 eps; observed worst over the thorough alphabet: 3.3 eps (Galilei, |m| ~ 2e5), <= 1 eps for every other
  // type.  Calibration rule of the brief: max(100 x worst, 64 eps) -> 400 eps.
  static constexpr double Tzero = 400 * eps;
  // container / adaptor result vs element-level library operation on the same inputs: the adaptors only
  // dispatch, observed worst 0; floor of the calibration rule = 64 eps
  static constexpr double Tdisp = 64 * eps;
};

// ------------------------------------------------------------------ type classification
template<typename M>
concept Native = requires { M::RepSize; typename M::Scalar; };
template<typename M>
concept FixedVec = std::is_base_of_v<Eigen::MatrixBase<M>, M> && (M::SizeAtCompileTime > 0) && (M::ColsAtCompileTime == 1);
template<typename M>
concept DynVec = std::is_base_of_v<Eigen::MatrixBase<M>, M> && (M::SizeAtCompileTime == -1) && (M::ColsAtCompileTime == 1);
template<typename M>
concept Fixed = Native<M> || FixedVec<M>;

template<Native G>
const auto & cf(const G & g)
{
  return g.coeffs();
}
template<Native G>
auto & cf(G & g)
{
  return g.coeffs();
}
template<FixedVec V>
const V & cf(const V & v)
{
  return v;
}
template<FixedVec V>
V & cf(V & v)
{
  return v;
}

template<typename S>
uint64_t rawbits(S x)
{
  uint64_t u = 0;
  std::memcpy(&u, &x, sizeof(S));
  return u;
}

/// harness-side description of a model type M:
///   S            scalar
///   rdof(m)      reference dof (from type / shape only, never smooth::dof)
///   bits(m,out)  fingerprint of all observable fields (raw bits)
///   dist(x,y)    absolute max difference of the documented matrix forms (INFINITY if the structure differs)
///   mag(x)       largest matrix entry (forward-error scale)
///   relgap(x,y)  distance from pi of the rotation angle of x^-1 y (minimum over parts), computed by the reference
///   str(m)       printable
template<typename M>
struct Mod;

template<Fixed M>
struct Mod<M>
{
  using S = typename M::Scalar;
  using R = Ref<M>;
  static Eigen::Index rdof(const M &) { return R::Dof; }
  static void bits(const M & m, std::vector<uint64_t> & o)
  {
    o.push_back(0xF1ED0000u + uint64_t(R::Rep));
    for (int i = 0; i < R::Rep; ++i) o.push_back(rawbits<S>(cf(m)(i)));
  }
  static Mat<L, R::Dim> mat(const M & m)
  {
    L c[R::Rep];
    toL(cf(m), c);
    return R::template matrix<L>(c);
  }
  static double dist(const M & x, const M & y) { return (double)(mat(x) - mat(y)).maxabs(); }
  static double mag(const M & x) { return (double)mat(x).maxabs(); }
  static double relgap(const M & x, const M & y)
  {
    if constexpr (R::NRot == 0) {
      return INFINITY;
    } else {
      const auto rel = ref::mul(ref::inv(mat(x)), mat(y));
      L c[R::Rep];
      R::from_matrix(rel, c);
      return (double)R::template pi_gap<L>(c);
    }
  }
  static std::string str(const M & m) { return vstr(cf(m)); }
};

template<DynVec M>
struct Mod<M>
{
  using S = typename M::Scalar;
  static Eigen::Index rdof(const M & m) { return m.size(); }
  static void bits(const M & m, std::vector<uint64_t> & o)
  {
    o.push_back(0xD1000000u + uint64_t(m.size()));
    for (Eigen::Index i = 0; i < m.size(); ++i) o.push_back(rawbits<S>(m(i)));
  }
  static double dist(const M & x, const M & y)
  {
    if (x.size() != y.size()) return INFINITY;
    double e = 0;
    for (Eigen::Index i = 0; i < x.size(); ++i) {
      double d = std::fabs((double)x(i) - (double)y(i));
      if (!(d == d)) return INFINITY;
      e = std::max(e, d);
    }
    return e;
  }
  static double mag(const M & x)
  {
    double e = 0;
    for (Eigen::Index i = 0; i < x.size(); ++i) e = std::max(e, std::fabs((double)x(i)));
    return e;
  }
  static double relgap(const M &, const M &) { return INFINITY; }
  static std::string str(const M & m) { return vstr(m); }
};

template<std::floating_point M>
struct Mod<M>
{
  using S = M;
  static Eigen::Index rdof(const M &) { return 1; }
  static void bits(const M & m, std::vector<uint64_t> & o)
  {
    o.push_back(0x5CA1A200u);
    o.push_back(rawbits<M>(m));
  }
  static double dist(const M & x, const M & y)
  {
    double d = std::fabs((double)x - (double)y);
    return d == d ? d : INFINITY;
  }
  static double mag(const M & x) { return std::fabs((double)x); }
  static double relgap(const M &, const M &) { return INFINITY; }
  static std::string str(const M & m) { return mc::fmt("%a ~ %.9g", (double)m, (double)m); }
};

template<typename E>
struct Mod<std::vector<E>>
{
  using M = std::vector<E>;
  using S = typename Mod<E>::S;
  static Eigen::Index rdof(const M & m)
  {
    Eigen::Index d = 0;
    for (auto & e : m) d += Mod<E>::rdof(e);
    return d;
  }
  static void bits(const M & m, std::vector<uint64_t> & o)
  {
    o.push_back(0x7EC00000u + uint64_t(m.size()));
    for (auto & e : m) Mod<E>::bits(e, o);
  }
  static double dist(const M & x, const M & y)
  {
    if (x.size() != y.size()) return INFINITY;
    double e = 0;
    for (size_t i = 0; i < x.size(); ++i) e = std::max(e, Mod<E>::dist(x[i], y[i]));
    return e;
  }
  static double mag(const M & x)
  {
    double e = 0;
    for (auto & xi : x) e = std::max(e, Mod<E>::mag(xi));
    return e;
  }
  static double relgap(const M & x, const M & y)
  {
    double g = INFINITY;
    for (size_t i = 0; i < x.size() && i < y.size(); ++i) g = std::min(g, Mod<E>::relgap(x[i], y[i]));
    return g;
  }
  static std::string str(const M & m)
  {
    std::string s = mc::fmt("vector(size %zu){", m.size());
    for (size_t i = 0; i < m.size(); ++i) s += (i ? "; " : "") + Mod<E>::str(m[i]);
    return s + "}";
  }
};

template<typename... Es>
struct Mod<std::variant<Es...>>
{
  using M = std::variant<Es...>;
  using S = std::common_type_t<typename Mod<Es>::S...>;
  static Eigen::Index rdof(const M & m)
  {
    return std::visit([]<typename E>(const E & e) { return Mod<E>::rdof(e); }, m);
  }
  static void bits(const M & m, std::vector<uint64_t> & o)
  {
    o.push_back(0x7A400000u + uint64_t(m.index()));
    std::visit([&]<typename E>(const E & e) { Mod<E>::bits(e, o); }, m);
  }
  static double dist(const M & x, const M & y)
  {
    if (x.index() != y.index()) return INFINITY;
    return std::visit([&]<typename E>(const E & e) { return Mod<E>::dist(e, std::get<E>(y)); }, x);
  }
  static double mag(const M & x)
  {
    return std::visit([]<typename E>(const E & e) { return Mod<E>::mag(e); }, x);
  }
  static double relgap(const M & x, const M & y)
  {
    if (x.index() != y.index()) return INFINITY;
    return std::visit([&]<typename E>(const E & e) { return Mod<E>::relgap(e, std::get<E>(y)); }, x);
  }
  static std::string str(const M & m)
  {
    return mc::fmt("variant(alt %zu){", m.index()) + std::visit([]<typename E>(const E & e) { return Mod<E>::str(e); }, m) + "}";
  }
};

template<typename E>
struct Mod<smooth::SubManifold<E>>
{
  using M = smooth::SubManifold<E>;
  using S = typename Mod<E>::S;
  static Eigen::Index rdof(const M & m) { return Mod<E>::rdof(m.m0()) - m.fixed_dims().size(); }
  static void bits(const M & m, std::vector<uint64_t> & o)
  {
    o.push_back(0x50B00000u + uint64_t(m.fixed_dims().size()));
    for (Eigen::Index i = 0; i < m.fixed_dims().size(); ++i) o.push_back(uint64_t(int64_t(m.fixed_dims()(i))));
    Mod<E>::bits(m.m0(), o);
    Mod<E>::bits(m.m(), o);
  }
  static bool same_fixed(const M & x, const M & y)
  {
    if (x.fixed_dims().size() != y.fixed_dims().size()) return false;
    for (Eigen::Index i = 0; i < x.fixed_dims().size(); ++i)
      if (x.fixed_dims()(i) != y.fixed_dims()(i)) return false;
    return true;
  }
  static double dist(const M & x, const M & y)
  {
    if (!same_fixed(x, y)) return INFINITY;
    return std::max(Mod<E>::dist(x.m0(), y.m0()), Mod<E>::dist(x.m(), y.m()));
  }
  static double mag(const M & x) { return std::max(Mod<E>::mag(x.m0()), Mod<E>::mag(x.m())); }
  static double relgap(const M & x, const M & y) { return Mod<E>::relgap(x.m(), y.m()); }
  static std::string str(const M & m)
  {
    std::string s = "SubManifold{fixed=[";
    for (Eigen::Index i = 0; i < m.fixed_dims().size(); ++i) s += (i ? "," : "") + std::to_string(m.fixed_dims()(i));
    return s + "] m0=" + Mod<E>::str(m.m0()) + " m=" + Mod<E>::str(m.m()) + "}";
  }
};

template<typename M>
std::vector<uint64_t> fingerprint(const M & m)
{
  std::vector<uint64_t> o;
  Mod<M>::bits(m, o);
  return o;
}

// ------------------------------------------------------------------ alphabets
template<typename M>
struct TanRec
{
  smooth::Tangent<M> a;
  double rot = 0;  // largest rotation norm over the parts / elements
};
/// values, each with a shape class; per shape class the tangents of matching length
template<typename M>
struct Alphabet
{
  std::vector<M> vals;
  std::vector<int> shape;
  std::vector<std::vector<TanRec<M>>> tans;
};

/// level 0 full, 1 reduced, 2 part (+ the injectivity-radius stratum), 3 tiny, 4 micro (two rotation strata),
/// 5 every rotation stratum and direction of the full alphabet with the reduced translation menu
inline AlphaOpts opts(int level)
{
  if (level == 5) {
    AlphaOpts o = AlphaOpts::full();
    o.tmags     = {0, 1, 1e3};
    o.ntdir     = 2;
    return o;
  }
  if (level >= 4) {
    AlphaOpts o = AlphaOpts::tiny();
    o.thetas    = {0, 3};
    return o;
  }
  if (level <= 0) return AlphaOpts::full();
  if (level == 1) return AlphaOpts::reduced();
  if (level == 2) {
    AlphaOpts o = AlphaOpts::part();
    o.thetas.push_back(PI - 1e-3);
    return o;
  }
  return AlphaOpts::tiny();
}
/// values: rotation angle < pi; tangents: rotation norm <= pi - 1e-3 (inside the injectivity radius)
inline AlphaOpts vopts(int level) { return opts(level).upto(std::nextafter(PI, 0.)); }
inline AlphaOpts topts(int level) { return opts(level).upto(PI - 1e-3); }

template<Fixed G>
G mk(const Elem<Ref<G>> & e)
{
  G g;
  for (int i = 0; i < Ref<G>::Rep; ++i) cf(g)(i) = (typename G::Scalar)e.c[size_t(i)];
  return g;
}

/// per-type element alphabet at a level (single shape for fixed-size types)
template<typename M>
struct ElemAlpha;

template<Fixed G>
struct ElemAlpha<G>
{
  static Alphabet<G> get(int level)
  {
    using R = Ref<G>;
    using S = typename G::Scalar;
    Alphabet<G> A;
    A.tans.resize(1);
    for (auto & e : elements<R, S>(vopts(level))) {
      A.vals.push_back(mk<G>(e));
      A.shape.push_back(0);
    }
    for (auto & t : tangents<R, S>(topts(level))) {
      TanRec<G> r;
      r.a   = make<G>(t);
      r.rot = t.rot;
      A.tans[0].push_back(r);
    }
    return A;
  }
};

template<std::floating_point S>
struct ElemAlpha<S>
{
  static Alphabet<S> get(int level)
  {
    Alphabet<S> A;
    A.tans.resize(1);
    std::vector<double> v = {0, 1e-300, -1e-3, 1, -1e3, 0.3}, t = {0, 1e-3, -1, 1e3, -0.7};
    if (level <= 1) {
      v = {0, -0.0, 1e-300, -1e-300, 1e-12, 1e-3, -1e-3, 0.3, 1, -1, 3.5, 1e3, -1e3};
      t = {0, -0.0, 1e-300, 1e-12, 1e-3, -1e-3, -0.7, 1, -1, 1e3, -1e3};
    }
    if (level >= 3) {
      v = {0, 1, -1e3};
      t = {0, -1e-3, 1e3};
    }
    for (double x : v) {
      A.vals.push_back((S)x);
      A.shape.push_back(0);
    }
    for (double x : t) {
      TanRec<S> r;
      r.a(0) = (S)x;
      A.tans[0].push_back(r);
    }
    return A;
  }
};

/// dynamic vectors: every element has its own length (shape = length)
template<DynVec V>
struct ElemAlpha<V>
{
  static Alphabet<V> get(int level)
  {
    using S = typename V::Scalar;
    Alphabet<V> A;
    if (level <= 0) {
      // stand-alone model: every tuple over a 4-letter menu, lengths 0..4
      const double vm[4] = {0, 1e-3, -1, 1e3}, tm[5] = {0, -1e-3, 1, 1e3, 0.3};
      A.tans.resize(5);
      for (int n = 0; n <= 4; ++n) {
        uint64_t nv = 1, nt = 1;
        for (int i = 0; i < n; ++i) nv *= 4, nt *= 5;
        for (uint64_t k = 0; k < nv; ++k) {
          mc::Radix r(k);
          V v(n);
          for (int i = 0; i < n; ++i) v(i) = (S)vm[r.next(4)];
          A.vals.push_back(v);
          A.shape.push_back(n);
        }
        for (uint64_t k = 0; k < nt; ++k) {
          mc::Radix r(k);
          TanRec<V> t;
          t.a.resize(n);
          for (int i = 0; i < n; ++i) t.a(i) = (S)tm[r.next(5)];
          A.tans[size_t(n)].push_back(t);
        }
      }
    } else {
      // as container element: mixed lengths 0..3 so that segment offsets differ from indices
      std::vector<std::vector<double>> v = {{}, {1}, {-1e-3}, {0.5, 1e3}, {0, -2, 3}};
      std::vector<std::vector<double>> t = {{}, {0}, {1e-3}, {-1e3}, {0, 0}, {1, -1e-3}, {0, 0, 0}, {1e3, -1, 0.25}};
      if (level >= 3) {
        v = {{}, {-1e-3}, {0.5, 1e3}, {0, -2, 3}};
        t = {{}, {0}, {-1e3}, {1, -1e-3}, {1e3, -1, 0.25}};
      }
      A.tans.resize(4);
      for (auto & x : v) {
        V vv(Eigen::Index(x.size()));
        for (size_t i = 0; i < x.size(); ++i) vv(Eigen::Index(i)) = (S)x[i];
        A.vals.push_back(vv);
        A.shape.push_back(int(x.size()));
      }
      for (auto & x : t) {
        TanRec<V> r;
        r.a.resize(Eigen::Index(x.size()));
        for (size_t i = 0; i < x.size(); ++i) r.a(Eigen::Index(i)) = (S)x[i];
        A.tans[x.size()].push_back(r);
      }
    }
    return A;
  }
};

/// std::vector<E>: every tuple of length 0..kmax over the element alphabet of level lv[k-1]
template<typename E>
Alphabet<std::vector<E>> vector_alpha(const std::vector<int> & lv)
{
  using M = std::vector<E>;
  Alphabet<M> A;
  std::map<std::pair<int, std::vector<int>>, int> ids;
  for (int k = 0; k <= int(lv.size()); ++k) {
    const Alphabet<E> B = k == 0 ? Alphabet<E>{} : ElemAlpha<E>::get(lv[size_t(k - 1)]);
    const uint64_t n    = B.vals.size();
    uint64_t total      = 1;
    for (int i = 0; i < k; ++i) total *= n;
    for (uint64_t idx = 0; idx < total; ++idx) {
      mc::Radix r(idx);
      M m;
      std::vector<int> sh;
      for (int i = 0; i < k; ++i) {
        const uint64_t j = r.next(n);
        m.push_back(B.vals[j]);
        sh.push_back(B.shape[j]);
      }
      auto key = std::make_pair(k, sh);
      auto it  = ids.find(key);
      if (it == ids.end()) {
        // tangents of this shape: product of the element tangents, concatenated in order
        const int id = int(A.tans.size());
        ids[key]     = id;
        std::vector<TanRec<M>> T;
        uint64_t nt = 1;
        for (int s : sh) nt *= B.tans[size_t(s)].size();
        for (uint64_t ti = 0; ti < nt; ++ti) {
          mc::Radix rr(ti);
          std::vector<const TanRec<E> *> parts;
          Eigen::Index len = 0;
          for (int s : sh) {
            const auto & bt = B.tans[size_t(s)];
            parts.push_back(&bt[rr.next(bt.size())]);
            len += parts.back()->a.size();
          }
          TanRec<M> t;
          t.a.resize(len);
          Eigen::Index off = 0;
          for (auto * p : parts) {
            for (Eigen::Index q = 0; q < p->a.size(); ++q) t.a(off + q) = p->a(q);
            off += p->a.size();
            t.rot = std::max(t.rot, p->rot);
          }
          T.push_back(t);
        }
        A.tans.push_back(T);
        it = ids.find(key);
      }
      A.vals.push_back(m);
      A.shape.push_back(it->second);
    }
  }
  return A;
}

/// add every value of B as alternative E of the variant alphabet A
template<typename V, typename E>
void add_alternative(Alphabet<V> & A, const Alphabet<E> & B)
{
  const int base = int(A.tans.size());
  for (auto & bt : B.tans) {
    std::vector<TanRec<V>> T;
    for (auto & t : bt) {
      TanRec<V> r;
      r.a   = t.a;
      r.rot = t.rot;
      T.push_back(r);
    }
    A.tans.push_back(T);
  }
  for (size_t i = 0; i < B.vals.size(); ++i) {
    A.vals.push_back(V(B.vals[i]));
    A.shape.push_back(base + B.shape[i]);
  }
}

template<typename V>
struct VariantAlpha;
template<typename... Es>
struct VariantAlpha<std::variant<Es...>>
{
  static Alphabet<std::variant<Es...>> get(int level)
  {
    Alphabet<std::variant<Es...>> A;
    (add_alternative<std::variant<Es...>, Es>(A, ElemAlpha<Es>::get(level)), ...);
    return A;
  }
};
/// every alternative with its own element alphabet
template<typename V>
Alphabet<V> variant_alpha(int level)
{
  return VariantAlpha<V>::get(level);
}

/// long double reference of m (+) a for fixed-size types: M(m) * expm(hat(a)), coefficients rounded to the scalar type
template<Fixed G, typename Der>
G ref_rplus(const G & m, const Eigen::MatrixBase<Der> & a)
{
  using R = Ref<G>;
  L al[R::Dof];
  for (int i = 0; i < R::Dof; ++i) al[i] = (L)a(i);
  const auto P = ref::mul(Mod<G>::mat(m), ref::exp_ref<R>(al));
  L c[R::Rep];
  R::from_matrix(P, c);
  G g;
  for (int i = 0; i < R::Rep; ++i) cf(g)(i) = (typename G::Scalar)c[i];
  return g;
}

/// SubManifold<E>: every subset of fixed dimensions; origin from level l0, displacement origin->value and tangents
/// from the free coordinates of the level l1 tangent alphabet of E (value = m0 (+)_ref scatter(c), so every value
/// lies on the sub-manifold as documented)
template<Fixed E>
Alphabet<smooth::SubManifold<E>> sub_alpha(int l0, int l1)
{
  using M         = smooth::SubManifold<E>;
  using S         = typename E::Scalar;
  constexpr int D = Ref<E>::Dof;
  Alphabet<M> A;
  const auto A0 = ElemAlpha<E>::get(l0);
  const auto A1 = ElemAlpha<E>::get(l1);
  for (int mask = 0; mask < (1 << D); ++mask) {
    std::vector<int> fixed, freei;
    for (int i = 0; i < D; ++i) (((mask >> i) & 1) ? fixed : freei).push_back(i);
    // fixed dims are handed over in DEscending order: the constructor documents no order and sorts them
    Eigen::VectorXi fd(Eigen::Index(fixed.size()));
    for (size_t i = 0; i < fixed.size(); ++i) fd(Eigen::Index(i)) = fixed[fixed.size() - 1 - i];
    // gathered free coordinates, de-duplicated bitwise, zero first
    std::vector<TanRec<M>> T;
    for (auto & t : A1.tans[0]) {
      TanRec<M> r;
      r.a.resize(Eigen::Index(freei.size()));
      for (size_t j = 0; j < freei.size(); ++j) r.a(Eigen::Index(j)) = t.a(freei[j]);
      // rotation norm of the scattered tangent (only the free rotation coordinates survive)
      {
        smooth::Tangent<E> full = smooth::Tangent<E>::Zero();
        for (size_t j = 0; j < freei.size(); ++j) full(freei[j]) = r.a(Eigen::Index(j));
        double n2 = 0;
        using R   = Ref<E>;
        if constexpr (R::NRot > 0) {
          for (int q = 0; q < R::NRot; ++q) n2 += double(full(R::RotOff + q)) * double(full(R::RotOff + q));
          r.rot = std::sqrt(n2);
        } else {
          r.rot = std::min(t.rot, PI - 1e-3);  // composite: bounded by the rotation norm of the full tangent
        }
      }
      bool dup = false;
      for (auto & w : T)
        if (w.a.size() == r.a.size() && (r.a.size() == 0 || std::memcmp(w.a.data(), r.a.data(), sizeof(S) * size_t(r.a.size())) == 0)) dup = true;
      if (!dup) T.push_back(r);
    }
    A.tans.push_back(T);
    for (auto & m0 : A0.vals)
      for (auto & t : T) {
        smooth::Tangent<E> full = smooth::Tangent<E>::Zero();
        for (size_t j = 0; j < freei.size(); ++j) full(freei[j]) = t.a(Eigen::Index(j));
        bool zero = true;
        for (Eigen::Index q = 0; q < t.a.size(); ++q)
          if (t.a(q) != 0) zero = false;
        const E m = zero ? m0 : ref_rplus<E>(m0, full);
        // both construction paths: (m0, fixed_dims) for values at their origin, (m0, m, fixed_dims) otherwise; the fixed
        // dimensions are handed over in descending order on both
        // (the two-argument form is ambiguous for Eigen-vector manifolds, where it is not usable at all)
        if constexpr (requires { M(m0, fd); }) {
          if (zero) A.vals.push_back(M(m0, fd)); else A.vals.push_back(M(m0, m, fd));
        } else {
          A.vals.push_back(M(m0, m, fd));
        }
        A.shape.push_back(mask);
      }
  }
  return A;
}

// ------------------------------------------------------------------ generic axioms
struct NoExtra
{
  template<typename... A>
  void vt(A &&...) const
  {}
  template<typename... A>
  void vv(A &&...) const
  {}
  template<typename... A>
  void un(A &&...) const
  {}
};

template<typename V1, typename V2>
double vec_err(const V1 & r, const V2 & a)
{
  if (r.size() != a.size()) return INFINITY;
  double e = 0;
  for (Eigen::Index i = 0; i < r.size(); ++i) {
    double d = std::fabs((double)r(i) - (double)a(i));
    if (!(d == d)) return INFINITY;
    e = std::max(e, d);
  }
  return e;
}
template<typename V>
double vec_max(const V & a)
{
  double e = 0;
  for (Eigen::Index i = 0; i < a.size(); ++i) {
    double d = std::fabs((double)a(i));
    if (!(d == d)) return INFINITY;
    e = std::max(e, d);
  }
  return e;
}

struct Index2
{
  std::vector<uint64_t> off{0};
  void add(uint64_t n) { off.push_back(off.back() + n); }
  uint64_t total() const { return off.back(); }
  /// block containing idx and the offset inside it
  std::pair<size_t, uint64_t> find(uint64_t idx) const
  {
    const size_t b = size_t(std::upper_bound(off.begin(), off.end(), idx) - off.begin()) - 1;
    return {b, idx - off[b]};
  }
};

template<typename M>
const char * rotclass(double rot)
{
  using T = Tol<typename Mod<M>::S>;
  return rot == 0 ? "rot(a)=0" : (rot < 1e-4 ? "0<rot(a)<1e-4" : (PI - rot <= T::band ? "rot(a) within band of pi" : "1e-4<=rot(a)"));
}

/// the three spaces of one model type. X adds model-specific oracles (element-wise / scatter-gather references).
template<typename M, typename X = NoExtra>
void run_model(const std::string & tn, const Alphabet<M> & A, bool do_vv = true, const X & x = X{})
{
  using S  = typename Mod<M>::S;
  using T  = Tol<S>;
  using Tg = smooth::Tangent<M>;
  static_assert(smooth::Manifold<M>);
  static_assert(std::is_same_v<smooth::PlainObject<M>, M>);
  static_assert(std::is_same_v<smooth::Scalar<M>, S>);
  const uint64_t n = A.vals.size();

  // ---- value x tangent
  Index2 ivt;
  for (uint64_t i = 0; i < n; ++i) ivt.add(A.tans[size_t(A.shape[i])].size());
  mc::explore("C07/plus-minus/" + tn, ivt.total(), [&](mc::Case & c) {
    const auto [i, k] = ivt.find(c.idx);
    const M m         = A.vals[i];  // private copy: nothing below touches shared objects
    const auto & tr   = A.tans[size_t(A.shape[i])][k];
    const Tg a        = tr.a;
    c.desc            = [&] { return "m=" + Mod<M>::str(m) + " a=" + vstr(a); };
    c.param("rot", tr.rot);
    c.outcome(rotclass<M>(tr.rot));
    const Eigen::Index d = Mod<M>::rdof(m);
    c.param("dof", double(d));
    c.require("dof(m)=reference dof", smooth::dof(m) == d && a.size() == d);
    const M p = smooth::rplus(m, a);
    c.require("dof(rplus(m,a))=dof(m)", smooth::dof(p) == d);
    const Tg r = smooth::rminus(p, m);
    c.require("len(rminus(.,m))=dof(m)", r.size() == d);
    // forward-error scale: the round trip m^-1 (m exp a) cancels the entries of m
    const double scale = std::max({1.0, vec_max(a), Mod<M>::mag(m)});
    const bool inband  = PI - tr.rot <= T::band;
    c.judge(inband ? "rminus(rplus(m,a),m)=a [pi band]" : "rminus(rplus(m,a),m)=a", vec_err(r, a) / scale, inband ? T::Tpi : T::T);
    // a step that is small as a whole must come back as itself, not as zero: error relative to |a|, above the floor of what the
    // stored coefficients of m (+) a can resolve (64 eps of the forward-error scale; observed worst on the thorough alphabet: 0)
    if (const double na = vec_max(a); na > 0 && na < 1 && !inband)
      c.judge("rminus(rplus(m,a),m)=a relative to |a|, |a|<1", std::max(0.0, vec_err(r, a) - 64 * T::eps * std::max(1.0, Mod<M>::mag(m))) / na, T::T);
    x.vt(c, m, a, p, r, tr.rot);
  });

  // ---- value x value (same shape)
  if (do_vv) {
    std::vector<std::vector<uint64_t>> by(A.tans.size());
    for (uint64_t i = 0; i < n; ++i) by[size_t(A.shape[i])].push_back(i);
    Index2 ivv;
    for (auto & b : by) ivv.add(uint64_t(b.size()) * b.size());
    mc::explore("C07/minus-plus/" + tn, ivv.total(), [&](mc::Case & c) {
      const auto [s, loc] = ivv.find(c.idx);
      const auto & b      = by[s];
      const M m = A.vals[b[loc / b.size()]], m2 = A.vals[b[loc % b.size()]];
      c.desc               = [&] { return "m=" + Mod<M>::str(m) + " m2=" + Mod<M>::str(m2); };
      const Eigen::Index d = Mod<M>::rdof(m);
      c.param("dof", double(d));
      const Tg r = smooth::rminus(m2, m);
      c.require("len(rminus(m2,m))=dof(m)", r.size() == d && smooth::dof(m2) == d);
      const M p          = smooth::rplus(m, r);
      const double gap   = Mod<M>::relgap(m, m2);
      const bool inband  = gap <= T::band;
      const double scale = std::max({1.0, Mod<M>::mag(m), Mod<M>::mag(m2)});
      c.param("pigap", gap);
      c.outcome(inband ? "relative rotation within band of pi" : (std::isinf(gap) ? "no rotation part" : "relative rotation outside band"));
      c.judge(inband ? "rplus(m,rminus(m2,m))=m2 [pi band]" : "rplus(m,rminus(m2,m))=m2", Mod<M>::dist(p, m2) / scale, inband ? T::Tpi : T::T);
      x.vv(c, m, m2, r, p);
    });
  }

  // ---- unary: rminus(m,m)=0, copy, cast, independence
  mc::explore("C07/unary/" + tn, n, [&](mc::Case & c) {
    const uint64_t i  = c.idx;
    const M m         = A.vals[i];
    const auto & tans = A.tans[size_t(A.shape[i])];
    const Tg a        = tans[(i * 7 + 3) % tans.size()].a;
    // another value of the same type (any shape) used to overwrite copies
    const M other = A.vals[(i + 1) % n];
    c.desc        = [&] { return "m=" + Mod<M>::str(m) + " a=" + vstr(a) + " other=" + Mod<M>::str(other); };
    const Eigen::Index d = Mod<M>::rdof(m);
    c.param("dof", double(d));
    const auto fp = fingerprint(m);
    {
      const Tg z = smooth::rminus(m, m);
      c.require("len(rminus(m,m))=dof(m)", z.size() == d && smooth::dof(m) == d);
      c.judge("rminus(m,m)=0", vec_max(z) / std::max(1.0, Mod<M>::mag(m)), T::Tzero);
    }
    const auto fpa = fingerprint(M(smooth::rplus(m, a)));
    {
      M cp(m);  // copy construction
      c.require("copy: all fields identical", fingerprint(cp) == fp);
      c.require("copy: behaves identically (rplus)", fingerprint(M(smooth::rplus(cp, a))) == fpa);
      c.require("copy: behaves identically (rminus)", vec_err(smooth::rminus(cp, m), smooth::rminus(m, m)) == 0);
      cp = other;  // overwrite the copy
      c.require("copy: overwritten copy took the new value", fingerprint(cp) == fingerprint(other));
      c.require("copy: original untouched by writing the copy", fingerprint(m) == fp);
      M as(other);
      as = m;  // copy assignment
      c.require("assign: all fields identical", fingerprint(as) == fp);
      as = smooth::rplus(as, a);
      c.require("assign: original untouched by writing the copy", fingerprint(m) == fp);
      c.require("assign: copy moved like the original would", fingerprint(as) == fpa);
    }
    {
      auto k = smooth::cast<S>(m);  // cast to the same scalar type
      static_assert(std::is_same_v<decltype(k), M>, "cast to the own scalar type must give the own type");
      c.require("cast<Scalar>: all fields identical", fingerprint(k) == fp);
      c.require("cast<Scalar>: behaves identically (rplus)", fingerprint(M(smooth::rplus(k, a))) == fpa);
      k = other;
      c.require("cast<Scalar>: original untouched by writing the cast", fingerprint(m) == fp);
    }
    x.un(c, m, a, other, A.shape[i]);
  });
}

// ------------------------------------------------------------------ model specific oracles
/// std::vector<E>: element i uses tangent segment [sum_{j<i} dof_j, +dof_i)
template<typename E>
struct VectorExtra
{
  using M = std::vector<E>;
  using T = Tol<typename Mod<E>::S>;
  template<typename Tg>
  void vt(mc::Case & c, const M & m, const Tg & a, const M & p, const Tg & r, double) const
  {
    c.require("vector: rplus keeps the size", p.size() == m.size());
    double e1 = 0, e2 = 0;
    Eigen::Index off = 0;
    for (size_t i = 0; i < m.size() && i < p.size(); ++i) {
      const Eigen::Index di = Mod<E>::rdof(m[i]);
      if (off + di > a.size() || off + di > r.size()) {
        e1 = e2 = INFINITY;
        break;
      }
      const smooth::Tangent<E> ai = a.segment(off, di);
      const E pi                  = smooth::rplus(m[i], ai);
      e1                          = std::max(e1, Mod<E>::dist(p[i], pi) / std::max(1.0, Mod<E>::mag(pi)));
      const smooth::Tangent<E> ri = smooth::rminus(p[i], m[i]);
      e2                          = std::max(e2, vec_err(r.segment(off, di), ri) / std::max(1.0, vec_max(ri)));
      off += di;
    }
    c.require("vector: segments tile the tangent", off == a.size());
    c.judge("vector: rplus element-wise on consecutive segments", e1, T::Tdisp);
    c.judge("vector: rminus element-wise on consecutive segments", e2, T::Tdisp);
  }
  template<typename Tg>
  void vv(mc::Case & c, const M & m, const M & m2, const Tg & r, const M &) const
  {
    double e2 = 0;
    Eigen::Index off = 0;
    for (size_t i = 0; i < m.size(); ++i) {
      const Eigen::Index di = Mod<E>::rdof(m[i]);
      if (off + di > r.size()) {
        e2 = INFINITY;
        break;
      }
      const smooth::Tangent<E> ri = smooth::rminus(m2[i], m[i]);
      e2                          = std::max(e2, vec_err(r.segment(off, di), ri) / std::max(1.0, vec_max(ri)));
      off += di;
    }
    c.judge("vector: rminus element-wise on consecutive segments", e2, T::Tdisp);
  }
  template<typename... A>
  void un(A &&...) const
  {}
};

/// std::variant<Es...>: acts on the active alternative, keeps the alternative
template<typename V>
struct VariantExtra
{
  using T = Tol<typename Mod<V>::S>;
  template<typename Tg>
  void vt(mc::Case & c, const V & m, const Tg & a, const V & p, const Tg & r, double) const
  {
    c.require("variant: rplus keeps the alternative", p.index() == m.index());
    if (p.index() != m.index()) return;
    std::visit(
      [&]<typename E>(const E & e) {
        const smooth::Tangent<E> ai = a;
        const E pi                  = smooth::rplus(e, ai);
        c.judge("variant: rplus acts on the active alternative", Mod<E>::dist(std::get<E>(p), pi) / std::max(1.0, Mod<E>::mag(pi)), T::Tdisp);
        const smooth::Tangent<E> ri = smooth::rminus(std::get<E>(p), e);
        c.judge("variant: rminus acts on the active alternative", vec_err(r, ri) / std::max(1.0, vec_max(ri)), T::Tdisp);
      },
      m);
  }
  template<typename Tg>
  void vv(mc::Case & c, const V & m, const V & m2, const Tg & r, const V & p) const
  {
    c.require("variant: rplus keeps the alternative", p.index() == m.index());
    std::visit(
      [&]<typename E>(const E & e) {
        const smooth::Tangent<E> ri = smooth::rminus(std::get<E>(m2), e);
        c.judge("variant: rminus acts on the active alternative", vec_err(r, ri) / std::max(1.0, vec_max(ri)), T::Tdisp);
      },
      m);
  }
  template<typename... A>
  void un(A &&...) const
  {}
};

/// SubManifold<E>: scatter the free coordinates into a full tangent / gather them from the full difference
template<Fixed E>
struct SubExtra
{
  using M                = smooth::SubManifold<E>;
  using S                = typename E::Scalar;
  using T                = Tol<S>;
  static constexpr int D = Ref<E>::Dof;

  static std::vector<int> free_of(const M & s)
  {
    // complement of fixed_dims, written independently of the library's loop
    bool fx[D] = {};
    for (Eigen::Index i = 0; i < s.fixed_dims().size(); ++i) {
      const int f = s.fixed_dims()(i);
      if (f >= 0 && f < D) fx[f] = true;
    }
    std::vector<int> fr;
    for (int i = 0; i < D; ++i)
      if (!fx[i]) fr.push_back(i);
    return fr;
  }
  template<typename Tg>
  static smooth::Tangent<E> scatter(const std::vector<int> & fr, const Tg & a)
  {
    smooth::Tangent<E> full = smooth::Tangent<E>::Zero();
    for (size_t j = 0; j < fr.size() && Eigen::Index(j) < a.size(); ++j) full(fr[j]) = a(Eigen::Index(j));
    return full;
  }

  template<typename Tg>
  void vt(mc::Case & c, const M & s, const Tg & a, const M & p, const Tg & r, double rot) const
  {
    const auto fr = free_of(s);
    c.require("sub: dof = dof(M) - #fixed", Eigen::Index(fr.size()) == Mod<M>::rdof(s));
    c.require("sub: rplus keeps fixed_dims", Mod<M>::same_fixed(p, s));
    c.require("sub: rplus keeps the origin m0 (bitwise)", fingerprint(p.m0()) == fingerprint(s.m0()));
    const auto full    = scatter(fr, a);
    const bool inband  = PI - rot <= T::band;
    const double scale = std::max({1.0, vec_max(a), Mod<E>::mag(s.m())});
    // (1) dispatch reference: the element-level operation on the scattered tangent
    const E pe = smooth::rplus(s.m(), full);
    c.judge("sub: rplus moves the free coordinates (vs element rplus of scatter)", Mod<E>::dist(p.m(), pe) / std::max(1.0, Mod<E>::mag(pe)), T::Tdisp);
    // (2) independent reference: M(m) expm(hat(scatter a)) in long double
    const E pr = ref_rplus<E>(s.m(), full);
    c.judge("sub: rplus = m expm(hat(scatter a)) [reference]", Mod<E>::dist(p.m(), pr) / std::max({1.0, Mod<E>::mag(pr), Mod<E>::mag(s.m())}), T::T);
    // (3) the move has no component along fixed directions; the reported difference is the gathered full difference
    const smooth::Tangent<E> rf = smooth::rminus(p.m(), s.m());
    double efix = 0, egat = 0;
    {
      bool isfree[D] = {};
      for (int f : fr) isfree[f] = true;
      for (int i = 0; i < D; ++i)
        if (!isfree[i]) efix = std::max(efix, std::fabs((double)rf(i)));
      if (r.size() != Eigen::Index(fr.size())) {
        egat = INFINITY;
      } else {
        for (size_t j = 0; j < fr.size(); ++j) egat = std::max(egat, std::fabs((double)r(Eigen::Index(j)) - (double)rf(fr[j])));
      }
      if (!(efix == efix)) efix = INFINITY;
      if (!(egat == egat)) egat = INFINITY;
    }
    c.judge(inband ? "sub: no motion along fixed directions [pi band]" : "sub: no motion along fixed directions", efix / scale, inband ? T::Tpi : T::T);
    c.judge("sub: rminus = free coordinates of the full difference", egat / std::max(1.0, vec_max(rf)), T::Tdisp);
    // (4) value x value: s2 = the reference's s (+) a (same origin, same fixed dims: the documented requirement for
    //     binary operations); rminus(s2,s)=a judged against the reference-built s2, and the second axiom
    const M s2(s.m0(), pr, s.fixed_dims());
    const Tg r2 = smooth::rminus(s2, s);
    c.require("sub: len(rminus(s2,s))=dof", r2.size() == Eigen::Index(fr.size()));
    c.judge(inband ? "sub: rminus(s (+)ref a, s)=a [pi band]" : "sub: rminus(s (+)ref a, s)=a", vec_err(r2, a) / scale, inband ? T::Tpi : T::T);
    const M p2 = smooth::rplus(s, r2);
    c.judge(inband ? "rplus(m,rminus(m2,m))=m2 [pi band]" : "rplus(m,rminus(m2,m))=m2", Mod<M>::dist(p2, s2) / std::max({1.0, Mod<M>::mag(s), Mod<M>::mag(s2)}),
      inband ? T::Tpi : T::T);
    c.require("sub: round trip keeps the origin m0 (bitwise)", fingerprint(p2.m0()) == fingerprint(s.m0()));
  }
  template<typename... A>
  void vv(A &&...) const
  {}
  template<typename Tg>
  void un(mc::Case & c, const M & s, const Tg &, const M &, int mask) const
  {
    // the object reports exactly the requested set of fixed dimensions (shape class = subset mask); the order in
    // which fixed_dims() lists them is not part of the statement and not judged
    int got = 0;
    bool ok = true;
    for (Eigen::Index i = 0; i < s.fixed_dims().size(); ++i) {
      const int f = s.fixed_dims()(i);
      if (f < 0 || f >= D || ((got >> f) & 1)) ok = false;
      else got |= 1 << f;
    }
    c.require("sub: fixed_dims() is the requested set", ok && got == mask);
    c.outcome(s.fixed_dims().size() == 0 ? "no fixed dim" : (s.fixed_dims().size() == D ? "all dims fixed" : "some dims fixed"));
    c.outcome(fingerprint(s.m()) == fingerprint(s.m0()) ? "m=m0" : "m!=m0");
  }
};

// ------------------------------------------------------------------ AnyManifold over M
template<typename M>
void run_any(const std::string & tn, const Alphabet<M> & A, bool do_vv = true)
{
  using S = typename Mod<M>::S;
  static_assert(std::is_same_v<S, double>, "AnyManifold is a double-only model");
  using T   = Tol<double>;
  using Any = smooth::AnyManifold;
  using Tg  = smooth::Tangent<M>;
  static_assert(smooth::Manifold<Any>);
  const uint64_t n = A.vals.size();

  Index2 ivt;
  for (uint64_t i = 0; i < n; ++i) ivt.add(A.tans[size_t(A.shape[i])].size());
  mc::explore("C07/plus-minus/Any<" + tn + ">", ivt.total(), [&](mc::Case & c) {
    const auto [i, k] = ivt.find(c.idx);
    const M m         = A.vals[i];
    const auto & tr   = A.tans[size_t(A.shape[i])][k];
    const Tg a        = tr.a;
    c.desc            = [&] { return "AnyManifold of m=" + Mod<M>::str(m) + " a=" + vstr(a); };
    c.param("rot", tr.rot);
    c.outcome(rotclass<M>(tr.rot));
    const Eigen::Index d = Mod<M>::rdof(m);
    c.param("dof", double(d));
    const Any am(m);
    c.require("dof(m)=reference dof", smooth::dof(am) == d && a.size() == d);
    c.require("any: wraps the value (bitwise)", fingerprint(am.template get<M>()) == fingerprint(m));
    const Any ap = smooth::rplus(am, a);
    c.require("dof(rplus(m,a))=dof(m)", smooth::dof(ap) == d);
    const Eigen::VectorXd r = smooth::rminus(ap, am);
    c.require("len(rminus(.,m))=dof(m)", r.size() == d);
    const double scale = std::max({1.0, vec_max(a), Mod<M>::mag(m)});
    const bool inband  = PI - tr.rot <= T::band;
    c.judge(inband ? "rminus(rplus(m,a),m)=a [pi band]" : "rminus(rplus(m,a),m)=a", vec_err(r, a) / scale, inband ? T::Tpi : T::T);
    // a step that is small as a whole must come back as itself, not as zero: error relative to |a|, above the floor of what the
    // stored coefficients of m (+) a can resolve (64 eps of the forward-error scale; observed worst on the thorough alphabet: 0)
    if (const double na = vec_max(a); na > 0 && na < 1 && !inband)
      c.judge("rminus(rplus(m,a),m)=a relative to |a|, |a|<1", std::max(0.0, vec_err(r, a) - 64 * T::eps * std::max(1.0, Mod<M>::mag(m))) / na, T::T);
    // dispatch reference: the wrapped type's own operations
    const M p = smooth::rplus(m, a);
    c.judge("any: rplus = rplus of the wrapped value", Mod<M>::dist(ap.template get<M>(), p) / std::max(1.0, Mod<M>::mag(p)), T::Tdisp);
    const Tg rr = smooth::rminus(p, m);
    c.judge("any: rminus = rminus of the wrapped values", vec_err(r, rr) / std::max(1.0, vec_max(rr)), T::Tdisp);
    c.require("any: operands untouched", fingerprint(am.template get<M>()) == fingerprint(m));
  });

  if (do_vv) {
    std::vector<std::vector<uint64_t>> by(A.tans.size());
    for (uint64_t i = 0; i < n; ++i) by[size_t(A.shape[i])].push_back(i);
    Index2 ivv;
    for (auto & b : by) ivv.add(uint64_t(b.size()) * b.size());
    mc::explore("C07/minus-plus/Any<" + tn + ">", ivv.total(), [&](mc::Case & c) {
      const auto [s, loc] = ivv.find(c.idx);
      const auto & b      = by[s];
      const M m = A.vals[b[loc / b.size()]], m2 = A.vals[b[loc % b.size()]];
      c.desc               = [&] { return "AnyManifold of m=" + Mod<M>::str(m) + " m2=" + Mod<M>::str(m2); };
      const Eigen::Index d = Mod<M>::rdof(m);
      c.param("dof", double(d));
      const Any am(m), am2(m2);
      const Eigen::VectorXd r = smooth::rminus(am2, am);
      c.require("len(rminus(m2,m))=dof(m)", r.size() == d && smooth::dof(am2) == d);
      const Any ap       = smooth::rplus(am, r);
      const double gap   = Mod<M>::relgap(m, m2);
      const bool inband  = gap <= T::band;
      const double scale = std::max({1.0, Mod<M>::mag(m), Mod<M>::mag(m2)});
      c.param("pigap", gap);
      c.outcome(inband ? "relative rotation within band of pi" : (std::isinf(gap) ? "no rotation part" : "relative rotation outside band"));
      c.judge(inband ? "rplus(m,rminus(m2,m))=m2 [pi band]" : "rplus(m,rminus(m2,m))=m2", Mod<M>::dist(ap.template get<M>(), m2) / scale,
        inband ? T::Tpi : T::T);
      const Tg rr = smooth::rminus(m2, m);
      c.judge("any: rminus = rminus of the wrapped values", vec_err(r, rr) / std::max(1.0, vec_max(rr)), T::Tdisp);
    });
  }

  mc::explore("C07/unary/Any<" + tn + ">", n, [&](mc::Case & c) {
    const uint64_t i  = c.idx;
    const M m         = A.vals[i];
    const auto & tans = A.tans[size_t(A.shape[i])];
    const Tg a        = tans[(i * 7 + 3) % tans.size()].a;
    const M other     = A.vals[(i + 1) % n];
    c.desc            = [&] { return "AnyManifold of m=" + Mod<M>::str(m) + " a=" + vstr(a) + " other=" + Mod<M>::str(other); };
    const Eigen::Index d = Mod<M>::rdof(m);
    c.param("dof", double(d));
    const auto fp = fingerprint(m), fpo = fingerprint(other);
    const Any am(m);
    {
      const Eigen::VectorXd z = smooth::rminus(am, am);
      c.require("len(rminus(m,m))=dof(m)", z.size() == d && smooth::dof(am) == d);
      c.judge("rminus(m,m)=0", vec_max(z) / std::max(1.0, Mod<M>::mag(m)), T::Tzero);
    }
    const auto fpa = fingerprint(M(smooth::rplus(m, a)));
    {
      Any cp(am);  // copy construction (clone)
      c.require("copy: all fields identical", fingerprint(cp.template get<M>()) == fp && smooth::dof(cp) == d);
      c.require("copy: is a distinct object", &cp.template get<M>() != &am.template get<M>());
      c.require("copy: behaves identically (rplus)", fingerprint(smooth::rplus(cp, a).template get<M>()) == fpa);
      cp.template get<M>() = other;  // write through the copy
      c.require("copy: overwritten copy took the new value", fingerprint(cp.template get<M>()) == fpo);
      // the value written through get<M>() may have another run-time size: dof and the tangent lengths follow the value held now
      {
        const Eigen::Index dn = Mod<M>::rdof(other);
        const Any ao(other);
        const Eigen::VectorXd z2 = smooth::rminus(cp, ao);
        c.require("copy: after writing a value through get<M>(), dof is the dof of the value held now", smooth::dof(cp) == dn && z2.size() == dn);
        c.judge("copy: rminus(new value, new value)=0", vec_max(z2) / std::max(1.0, Mod<M>::mag(other)), T::Tzero);
      }
      c.require("copy: original untouched by writing the copy", fingerprint(am.template get<M>()) == fp);
    }
    {
      Any as(other);
      as = am;  // copy assignment (clone)
      c.require("assign: all fields identical", fingerprint(as.template get<M>()) == fp);
      c.require("assign: is a distinct object", &as.template get<M>() != &am.template get<M>());
      as = smooth::rplus(as, a);
      c.require("assign: original untouched by writing the copy", fingerprint(am.template get<M>()) == fp);
      c.require("assign: copy moved like the original would", fingerprint(as.template get<M>()) == fpa);
      // and the other direction: writing the original leaves an earlier copy alone
      Any src(m);
      Any keep(src);
      src.template get<M>() = other;
      c.require("copy: copy untouched by writing the original", fingerprint(keep.template get<M>()) == fp);
    }
  });
}

// ------------------------------------------------------------------ Default
/// Default<M>(d) is a value of dof d on which the unary laws hold
template<typename M>
void run_default(const std::string & tn, const std::vector<int> & dofs)
{
  using S = typename Mod<M>::S;
  mc::explore("C07/default/" + tn, dofs.size(), [&](mc::Case & c) {
    const int d = dofs[c.idx];
    c.desc      = [&, d] { return mc::fmt("Default<%s>(%d)", tn.c_str(), d); };
    c.param("dof", d);
    const M m = smooth::Default<M>(d);
    c.require("dof(Default(d))=d", smooth::dof(m) == d && Mod<M>::rdof(m) == d);
    const smooth::Tangent<M> z = smooth::rminus(m, m);
    c.require("len(rminus(m,m))=dof(m)", z.size() == d);
    c.judge("rminus(m,m)=0", vec_max(z), Tol<S>::Tzero);
    const smooth::Tangent<M> zero = smooth::Tangent<M>::Zero(d);
    const M p                     = smooth::rplus(m, zero);
    c.judge("rplus(Default,0)=Default", Mod<M>::dist(p, m), Tol<S>::Tzero);
    if constexpr (smooth::Dof<M> > 0) {
      const M m1 = smooth::Default<M>();
      c.require("Default()=Default(Dof)", fingerprint(m1) == fingerprint(m));
    }
  });
}

/// all spaces of a fixed-size group / vector type at the full alphabet
template<Fixed G>
void run_fixed(const std::string & tn, int level = 0)
{
  run_model<G>(tn, ElemAlpha<G>::get(level));
  run_default<G>(tn, {Ref<G>::Dof});
}

/// oracle self-checks: the reference (+) against a closed form, scatter/gather bookkeeping, fingerprints
inline void selfchecks()
{
  mc::assumption("C07: round-trip errors are measured relative to the forward-error scale max(1,|a|,|m|) resp. max(1,|m|,|m2|) "
                 "(largest entry of the documented matrix forms): m^-1 (m exp a) cancels the entries of m");
  mc::assumption("C07: tolerances of the round trips are C02's (1e-9 double / 1e-3 float; 1e-7 / 1e-2 when the relative rotation "
                 "lies within 1e-5 / 1e-2 of pi); rminus(m,m)=0 within 400 eps of max(1,|m|) (calibrated, worst observed 3.3 eps)");
  mc::assumption("C07: SubManifold values lie on the sub-manifold (m = m0 (+)_ref scatter(c)); binary operations only between "
                 "objects with identical origin and fixed dimensions, the second operand being s (+)_ref a with a free tangent a "
                 "(rplus(s,rminus(s2,s))=s2 does not hold for arbitrary members of a sub-manifold of a non-commutative group)");
  mc::assumption("C07: container / adaptor results are compared with the element-level library operations (judged by C01/C02) "
                 "on segments recomputed from the reference dof of each element; tolerance 64 eps, observed 0");
  {
    // ref_rplus on SE2: identity (+) (1,2,0) = translation (1,2)
    smooth::SE2d g = smooth::SE2d::Identity();
    cf(g)          = Eigen::Vector4d(0, 0, 0, 1);
    const auto p   = ref_rplus<smooth::SE2d>(g, Eigen::Vector3d(1, 2, 0));
    mc::selfcheck("ref_rplus SE2 translation", cf(p)(0) == 1 && cf(p)(1) == 2 && cf(p)(2) == 0 && cf(p)(3) == 1);
    // rotation by pi/2 about z on SO3: quaternion (0,0,sin(pi/4),cos(pi/4))
    smooth::SO3d q;
    cf(q)        = Eigen::Vector4d(0, 0, 0, 1);
    const auto w = ref_rplus<smooth::SO3d>(q, Eigen::Vector3d(0, 0, PI / 2));
    mc::selfcheck("ref_rplus SO3 quarter turn", std::fabs(cf(w)(2) - std::sqrt(0.5)) < 1e-15 && std::fabs(cf(w)(3) - std::sqrt(0.5)) < 1e-15);
    mc::selfcheck("relgap SO3 quarter turn", std::fabs(Mod<smooth::SO3d>::relgap(q, w) - PI / 2) < 1e-15);
    mc::selfcheck("dist sees a sign flip of the quaternion as the same rotation", [&] {
      smooth::SO3d w2 = w;
      cf(w2) *= -1;
      return Mod<smooth::SO3d>::dist(w, w2) == 0 && fingerprint(w) != fingerprint(w2);
    }());
  }
  {
    std::vector<Eigen::VectorXd> v = {Eigen::VectorXd::Zero(2), Eigen::VectorXd::Zero(0), Eigen::VectorXd::Zero(3)};
    mc::selfcheck("reference dof of a vector of dynamic vectors", Mod<std::vector<Eigen::VectorXd>>::rdof(v) == 5);
    auto v2 = v;
    v2[2](1) = -0.0;
    mc::selfcheck("fingerprint is bitwise", fingerprint(v) != fingerprint(v2) && Mod<std::vector<Eigen::VectorXd>>::dist(v, v2) == 0);
  }
}

}  // namespace c07
