#!/usr/bin/env python3
"""Rewrites DESIGN.md section 0.6 from seeded/*/meta.json."""
import json, glob, os, re
rows=[]; missed_first=0; total=0
for d in sorted(glob.glob('/verif/seeded/C*_m*')):
    m=json.load(open(d+'/meta.json')); total+=1
    note=m.get('note','')
    if note.startswith('missed') or note.startswith('first run'): missed_first+=1
    summ=(m.get('summary') or '').replace('|','/').replace('\n',' ')
    rows.append(f"| {os.path.basename(d)} | {summ[:150]}{'...' if len(summ)>150 else ''} | {', '.join(m['caught_by']) or '**missed**'} | {note[:220]} |")
txt = f"""### 0.6 Seeded changes (independent sub-agents, property text only) and which checks catch them

{total} realistic property-breaking changes were produced by fresh sub-agents that saw only the text of one property and their own git
worktree of /repo (nothing from /verif). Each compiles, passes the whole upstream suite (391/391) and makes the agent's demonstration
program fail; we re-confirmed all of that in the worktree (`tools/confirm_mutant.sh`) before keeping it under `seeded/<id>/` (patch.diff,
demo.cpp, meta.json incl. the commands run). The checks were run against a scratch copy with the patch applied
(`tools/run_seeded.sh`, own build tree and evidence root; /repo is never modified). {missed_first} of them were MISSED by the first version
of the checks; each miss led to a strengthening that is now part of the check (see the note column) and the change is caught since.
`seeded/INDEX.md` has the full descriptions.

| id | change | caught by (quick tier) | what the change taught us |
|---|---|---|---|
""" + "\n".join(rows) + "\n\n"
p='/verif/DESIGN.md'; s=open(p).read()
i=s.index("### 0.6 Seeded changes"); j=s.index("\n## 1. What is being decided")
s=s[:i]+txt+s[j:]
open(p,'w').write(s)
print(total,'seeded,',missed_first,'missed at first')
