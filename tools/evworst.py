#!/usr/bin/env python3
# per judgement name: worst error over all spaces, split by scalar suffix (d/f) of the label
import json,sys,collections
e=json.load(open(sys.argv[1])); d=collections.defaultdict(lambda:[0,0,'',0])
for sp in e['coverage']['spaces']:
    suf = sp['label'][-1] if sp['label'][-1] in 'df' else '-'
    for k,v in sp.get('checks',{}).items():
        w=v['worst']; w=float(w) if isinstance(w,str) else w
        key=(k,suf)
        if w>=d[key][0]: d[key]=[w,v['tol'],sp['label'],d[key][3]]
        d[key][3]+=v['n']
for k,v in sorted(d.items()): print('%-36s %s worst=%-10.3g tol=%-8.3g ratio=%-8.2g n=%-9d at %s'%(k[0],k[1],v[0],v[1],v[0]/v[1] if v[1] else 0,v[3],v[2]))
