#!/usr/bin/env python3
"""Regenerates MANIFEST.json from the table below (kept in one place so it is always valid)."""
import json, os, sys
ROOT = os.path.dirname(os.path.dirname(os.path.abspath(__file__)))

COMMON_NOTE = ("Trusted base: g++ 12 / libm, the reference side in mc/ref.hpp (long-double dense algebra and the documented "
               "matrix forms only; oracle self-checks run on every start), the finite branch-structured alphabets of DESIGN 3.2 "
               "(a statement about every tuple of the alphabet, not about all reals).")

CHECKS = {
 "C01": dict(
    text="Bounded exhaustive enumeration on the real implementation: every element of the branch-structured element alphabet "
         "(unary laws), every ordered pair (composition, *=), every triple of the reduced alphabet (associativity) and every "
         "(element, point) pair (action), for 12 group types x {double,float}, each judged against the documented matrix form "
         "evaluated in long double.",
    design="4/C01", technique="explicit-state enumeration of a finite input product space against a reference model"),
 "C02": dict(
    text="Bounded exhaustive enumeration on the real implementation: every tangent of the branch-structured alphabet (rotation norm "
         "0..50, both sides of every Taylor/closed-form switch incl. +-1 ulp, the neighbourhood of pi, translation magnitudes 0..1e3) and "
         "every element of the element alphabet, for 12 group types x {double,float}; exp is compared with the scaling-and-squaring matrix "
         "exponential of the documented hat matrix in long double, log by exponentiating it with the reference, at the stated tolerances.",
    design="4/C02", technique="explicit-state enumeration of a finite input space against a reference model"),
 "C03": dict(
    text="Bounded exhaustive enumeration: all alphabet tangents (hat, vee, ad, Ad(exp a)), all alphabet elements (Ad), all pairs of the "
         "reduced alphabets (bracket, antisymmetry, Ad homomorphism) and all triples of a small alphabet (Jacobi), 12 types x 2 scalars, "
         "against references derived generically from the documented matrix / algebra forms (vee(M hat M^-1), vee([A,B]), expm(ad)).",
    design="4/C03", technique="explicit-state enumeration of finite input product spaces against a reference model"),
 "C04": dict(
    text="Bounded exhaustive enumeration: every alphabet tangent (any rotation norm for dr_exp/dl_exp, <= pi-1e-3 for the inverse and "
         "rminus Jacobians) and every (element, point) pair for dr_action, 12 types x 2 scalars, against phi1(-/+ad) computed through an "
         "augmented matrix exponential in long double, its LU inverse, and M hat(e_i) v, at the stated 1e-7 / 1e-2 bound.",
    design="4/C04", technique="explicit-state enumeration of a finite input space against a reference model"),
 "C05": dict(
    text="Bounded exhaustive enumeration (double precision, as the statement's bound): every alphabet tangent with rotation norm <= pi-1e-3 "
         "for SO2, SO3, SE2, SE3, C1 and three Bundle compositions, d2r/d2l_exp(inv), d2r_rminus, d2r_rminus_squarednorm against "
         "complex-step derivatives of phi1(-/+ad) in the documented stacked layout (no finite-difference cancellation), at the stated 1e-5; "
         "d_matrix_product and d2_fog on every size configuration up to the bound x static/dynamic x dense/sparse on integer data compared exactly, "
         "with compile probes for the dynamic-size configurations.",
    design="4/C05", technique="explicit-state enumeration of finite input / configuration spaces against a reference model"),
}

PENDING_REASON = "check not built yet in this session (planned in DESIGN.md section 4); will be claimed once its harness runs clean"

def main():
    props = [json.loads(l) for l in open(os.path.join(ROOT, "properties.jsonl"))]
    checks, na = [], []
    for p in props:
        pid = p["id"]
        if pid in CHECKS:
            c = CHECKS[pid]
            checks.append({
                "property_id": pid,
                "quick_cmd": f"bin/check {pid} quick",
                "thorough_cmd": f"bin/check {pid} thorough",
                "evidence_file": f"/verif/evidence/{pid}.json",
                "replay_cmd_template": f"bin/check {pid} --replay {{path}}",
                "engine": c.get("engine", "mc-explore"),
                "level_claimed": {"category": "model_checking", "text": c["text"], "design_ref": "DESIGN.md section " + c["design"]},
                "level_note": c.get("note", COMMON_NOTE),
                "technique": c["technique"],
            })
        else:
            na.append({"property_id": pid, "reason": NA.get(pid, PENDING_REASON)})
    m = {
        "version": 1,
        "setup_cmd": "bin/setup",
        "hooks": {
            "guard": "SMOOTH_VERIF",
            "enable": "no source hooks are needed: harnesses include the headers of /repo directly (make REPO=/repo); "
                      "instrumentation for C18 is compiler-inserted (-fsanitize=thread code generation linked against our own runtime shim)",
            "baseline_off_cmd": "cmake --build /repo/_build && ctest --test-dir /repo/_build -j8 --timeout 900",
            "source_commits": [],
            "add_only": True,
        },
        "engines": [
            {"name": "mc-explore", "path": "mc/mc.cpp", "serves_properties": sorted(CHECKS),
             "kind_free_text": "exhaustive index-space / BFS explorer over the real implementation with long-double reference models"},
        ],
        "checks": checks,
        "notes": "See DESIGN.md. known_findings.jsonl lists genuine defects that are recorded rather than repaired, and the fix: commits.",
        "not_applicable": na,
    }
    json.dump(m, open(os.path.join(ROOT, "MANIFEST.json"), "w"), indent=1)
    print("MANIFEST.json:", len(checks), "checks,", len(na), "not claimed")
NA = {}
if __name__ == "__main__":
    main()
