#!/usr/bin/env python3
"""Regenerates MANIFEST.json from the table below (kept in one place so it is always valid)."""
import json, os, sys
ROOT = os.path.dirname(os.path.dirname(os.path.abspath(__file__)))

COMMON_NOTE = ("Trusted base: g++ 12 / libm, the reference side in mc/ref.hpp (long-double dense algebra and the documented "
               "matrix forms only; oracle self-checks run on every start), the finite branch-structured alphabets of DESIGN 3.2 "
               "(a statement about every tuple of the alphabet, not about all reals).")

CHECKS = {
 "C01": dict(
    text="Bounded exhaustive enumeration on the real implementation: every element of the branch-structured element alphabet "
         "(unary laws), every ordered pair (composition, *=), every triple of the reduced alphabet (associativity) and every "
         "(element, point) pair (action), for 12 group types x {double,float}, each judged against the documented matrix form "
         "evaluated in long double; Bundles incl. Galilei / SE_K_3 members; value-semantics and argument-storage spaces (expression, segment, "
         "strided, transposed arguments give the same result).",
    design="4/C01", technique="explicit-state enumeration of a finite input product space against a reference model"),
 "C02": dict(
    text="Bounded exhaustive enumeration on the real implementation: every tangent of the branch-structured alphabet (rotation norm "
         "0..50, both sides of every Taylor/closed-form switch incl. +-1 ulp, the neighbourhood of pi, translation magnitudes 0..1e3) and "
         "every element of the element alphabet, for 12 group types x {double,float}; exp is compared with the scaling-and-squaring matrix "
         "exponential of the documented hat matrix in long double, log by exponentiating it with the reference, at the stated tolerances; the round trip of tangents with |a|<1 is also judged relative to |a|; alternate-order second pass, "
         "value-semantics and argument-storage spaces.",
    design="4/C02", technique="explicit-state enumeration of a finite input space against a reference model"),
 "C03": dict(
    text="Bounded exhaustive enumeration: all alphabet tangents (hat, vee, ad, Ad(exp a)), all alphabet elements (Ad), all pairs of the "
         "reduced alphabets (bracket, antisymmetry, Ad homomorphism) and all triples of a small alphabet (Jacobi), 12 types x 2 scalars, "
         "against references derived generically from the documented matrix / algebra forms (vee(M hat M^-1), vee([A,B]), expm(ad)).",
    design="4/C03", technique="explicit-state enumeration of finite input product spaces against a reference model"),
 "C04": dict(
    text="Bounded exhaustive enumeration: every alphabet tangent (any rotation norm for dr_exp/dl_exp, <= pi-1e-3 for the inverse and "
         "rminus Jacobians) and every (element, point) pair for dr_action, 12 types x 2 scalars, against phi1(-/+ad) computed through an "
         "augmented matrix exponential in long double, its LU inverse, and M hat(e_i) v, at the stated 1e-7 / 1e-2 bound.",
    design="4/C04", technique="explicit-state enumeration of a finite input space against a reference model"),
 "C05": dict(
    text="Bounded exhaustive enumeration (double precision, as the statement's bound): every alphabet tangent with rotation norm <= pi-1e-3 "
         "for SO2, SO3, SE2, SE3, C1 and three Bundle compositions, d2r/d2l_exp(inv), d2r_rminus, d2r_rminus_squarednorm against "
         "complex-step derivatives of phi1(-/+ad) in the documented stacked layout (no finite-difference cancellation), at the stated 1e-5; "
         "d_matrix_product (column-major, row-major, views into larger matrices, dynamic size) and d2_fog on every size configuration up to the "
         "bound x static/dynamic x dense/sparse on integer data compared exactly, "
         "with compile probes for the dynamic-size configurations.",
    design="4/C05", technique="explicit-state enumeration of finite input / configuration spaces against a reference model"),
 "C06": dict(
    text="Bounded exhaustive enumeration over a GENERATED FAMILY of 161 Bundle types (six with Galilei / SE_K_3<2> members, judged without Hessians) (every ordered tuple of length 1-2 over {SO2,SO3,SE2,C1,"
         "Vector2,SE3} in double and float, every length-3 tuple over {SO3,SE2,Vector2}, nested Bundle<Bundle<A,B>,C> for all pairs) x the full "
         "product of per-part alphabets: every LieGroupBase operation, Jacobian and Hessian of the Bundle equals the same operation on "
         "part<i>() (segments, diagonal blocks, exact zeros elsewhere, Hessian block placement; <= 2 ulp), compile-time constants judged at "
         "run time; fixed/dynamic Eigen vectors and scalars through the free-function interface obey the additive-group laws exactly.",
    design="4/C06", technique="explicit-state enumeration over a generated configuration family x finite input products, differential oracle"),
 "C07": dict(
    text="Bounded exhaustive enumeration: every Manifold model (all Lie groups d/f, vectors, scalars, std::vector<M> of sizes 0..3, every "
         "alternative of a std::variant, SubManifold with EVERY subset of fixed dimensions (8+8+16+32), AnyManifold over all of these) x full "
         "products value x tangent and value x value from the branch-structured alphabets: rplus/rminus round trips (steps that are small as a whole "
         "also judged relative to |a|: a tiny step must not be dropped), rminus(m,m)=0, dof "
         "consistency, element-wise segment bookkeeping, independent scatter/gather reference for SubManifold, copy / cast identity and "
         "mutate-after-copy independence.",
    design="4/C07", technique="explicit-state enumeration over configuration families x finite input products against reference models"),
 "C08": dict(
    text="Bounded exhaustive enumeration: 26 (function, argument-type tuple) spaces with closed-form derivatives (log, action, products, rminus, "
         "exp*g, polynomial maps, scalar products; SO3/SE2/SE3/Bundle/Vector3d/VectorXd/double/std::vector<SE2d> in 1-3 argument mixes) x "
         "evaluation points from the alphabets within the statement's premises x const/non-const reference masks x every non-empty index "
         "subset x K in {0,1,2} x Numerical / Analytic / Default(with and without provided derivatives): derivative accuracy against reference "
         "Jacobians in long double, subset = columns of the full result, K=0 exact, analytic matrices verbatim, arguments restored.",
    design="4/C08", technique="explicit-state enumeration of configuration families x finite input products against closed-form references"),
 "C09": dict(
    text="Bounded exhaustive enumeration of 214 problems x start menus x 45 option triples x 2 strategies x 4 differentiation modes from "
         "fresh strategy state, plus an explicit-state BFS over trust-region strategy states reachable by prefix solves (history depth 2, states "
         "merged on the exact bytes of the strategy members): callback trace starts at the start point and has non-increasing recomputed "
         "cost, arguments hold the last iterate, iter <= max_iter, status == MaxIters exactly when the bound stopped it (decided by re-running "
         "with max_iter+1), Ftol/Ptol results within 1e-3 of closed-form minimisers (long-double normal equations, Procrustes); every judged solve is repeated "
         "through the overloads without a callback and must be the same solve bit for bit; residual-scaled linear instances and one with a right-hand side of magnitude 2^530 (squared residual norm not representable).",
    design="4/C09", technique="explicit-state enumeration of problem/option products and BFS over solver-state histories against closed-form references"),
 "C10": dict(
    text="Bounded exhaustive enumeration of the full product of J families (8 structured families incl. rank-deficient, graded, nearly "
         "dependent; shapes {1..6}^2 quick, {1..8,16,40}^2 thorough) x 5 d x 5 lambda/Delta x 7 r, each through dense-dynamic, dense-static, "
         "sparse column- and row-major storage; oracle in long double: normal-equation backward error, dense = sparse when cond <= 1e8, "
         "analytic d|D dx|/dlambda cross-checked by complex step, lambda = 1/Delta, descent, colwise_norm = definition.",
    design="4/C10", technique="explicit-state enumeration of a finite input product space against a long-double reference"),
 "C11": dict(
    text="Bounded exhaustive enumeration: K=1..6 x 5 groups x 3 cumulative basis matrices (Bernstein, B-spline, an integer test matrix) x u in "
         "{0,1e-9,1/4,1/2,1-1e-9,1} x every K-tuple over an 8-entry difference alphabet (K<=3; 4 entries for K>=4) x every admissible set of "
         "requested outputs: value against the product of matrix exponentials in long double, velocity / acceleration / jerk against exact "
         "Taylor jets of that reference curve (validated by __float128 stencils), Jacobians w.r.t. differences and control points against "
         "central differences of the reference through rplus with __float128 logarithms.",
    design="4/C11", technique="explicit-state enumeration of finite input product spaces against a reference model"),
 "C12": dict(
    text="Explicit-state breadth-first search over the real Spline<K,G> (13 (K,G) configurations, K in {1,2,3,5}): operations concat_local / "
         "concat_global with every atom of a 4-atom menu (also with a cropped operand) and crop(ta,tb,localize) with ta,tb from a state-dependent menu (below range, 0, every "
         "knot, knot +- 1e-9, every midpoint, t_max, above range), depth 3 (quick) / 4-5 (thorough), <= 8 segments, states "
         "merged by the exact bytes of the six private members. Reference model: list of pieces (atom, long-double prefix, start, duration) "
         "updated by the documented semantics of each operation; every state is evaluated at out-of-range times, knots +- {0,1e-9} and segment "
         "thirds for value / velocity / acceleration, t_max, size(), start(), end(), arclength (exact integration of |quadratic| in long "
         "double); ConstantVelocity = ga*expm(t v) for every degree and FixedCubic end conditions are enumerated separately.",
    design="4/C12", technique="explicit-state BFS over operation histories of the real object against a reference model"),
 "C13": dict(
    text="Bounded exhaustive enumeration: K=1..6 x 5 groups x N x control sequences (incl. every sequence over a 3-letter difference "
         "alphabet) x (t0,dt) menus x times {every knot, +-1 ulp, +-1e-9 dt, thirds, ends, far outside}: domain and clamping, value / "
         "velocity / acceleration against a Cox-de Boor product-of-exponentials reference in long double, C^(K-1) across every knot, locality "
         "of every control point, constants, left-equivariance; every time-dependent comparison carries the conditioning of the input time.",
    design="4/C13", technique="explicit-state enumeration of finite configuration/input products against a reference model"),
 "C14": dict(
    text="Bounded exhaustive enumeration: fit_spline_1d (8 specs x N x 30 interval patterns x data patterns) against the independently rebuilt "
         "constraint system, fit_spline on 4 groups x 4 boundary-value variants per spec (interpolation from both sides, velocity continuity, rest at an end that asks for it), dubins_curve<K> K in {1,2,3,5} on "
         "a polar x heading target grid incl. tangent-circle degeneracies (end pose, unit speed, curvature, length = min over six words of a "
         "__float128 reference), fit_bspline span, reparameterize_spline monotone / onto / start speed.",
    design="4/C14", technique="explicit-state enumeration of finite input product spaces against definitional reference models"),
 "C15": dict(
    text="Explicit-state breadth-first search over ALL programs up to depth 5 (quick, 2.5e7 states; depth 6 thorough, 2.9e8 states; 4 / 5 for the three-part Bundle) over a ~30-operation "
         "alphabet (compose, inverse, *=, +=, rplus, exp, same-scalar cast, lift/project) on a register file of two elements and two tangents "
         "of the real objects, 3 initial files incl. half-turn / q_w~0 / near-identity elements and switch / near-pi tangents, states merged "
         "by the exact bit pattern of the registers; plus every homogeneous chain and every period-2 program unrolled to 1e4 (1e5) steps with "
         "the invariants monitored at every step; plus every fixed-step Runge-Kutta stepper of Boost.odeint x step counts x horizons x "
         "velocities. Invariants: finite, |constraint| <= (n+1)e-14, q_w >= 0, matrix within (n+1)e-13 of the same program run on long-double "
         "reference matrices. Every normalising constructor over a ladder of input norms 1 +- 2^-k down to one ulp.",
    design="4/C15", technique="explicit-state BFS over operation histories with bit-exact state merging, against a reference model"),
 "C16": dict(
    text="Explicit-state breadth-first search over sequences (depth 5 quick, 3.2e7 states / 7 thorough, 4.5e9 states) of ~32-42 mutating calls made through Map views "
         "(whole-object assign / *= / += / setIdentity / coeffs()=, aliasing variants, every sub-part accessor) over a guarded caller buffer "
         "at vector-aligned and scalar-aligned placement, 11 types; after every call the region equals the same call on a value object "
         "(<= 4 ulp) and every scalar outside the call's documented write range is bitwise unchanged; in every reached state all const "
         "operations agree between value / Map / const Map, const views do not write, cross-storage copies are verbatim, cast<S>() is "
         "coefficient-wise; plain sub-part assignments have a library-independent expectation; every read-only sub-part accessor on a const "
         "value, a Map and a const Map shows exactly its own sub-range of the coefficients; the object returned by a mutating operator is "
         "the object itself (chained second operations, on views and on values); sources that are temporary / moved-from views "
         "are not written; the type-level clauses (const views offer no mutator) are judged at run time, read-only uses are compile probes.",
    design="4/C16", technique="explicit-state BFS over operation histories on the real buffer with a shadow value model"),
 "C17": dict(
    text="Bounded exhaustive enumeration of full products over element / tangent / planar-angle alphabets (incl. signed-zero coefficient "
         "pairs): SE_K_3<1> = SE3 and SE_K_3<2> = zero-time Galilei operation by operation (all ordered pairs for composition), lift/project "
         "homomorphism and injectivity on all pairs, C1 factorisation, rot_x/y/z = exp, quaternion / isometry / complex / Euler round trips, "
         "SO2 angle ranges and congruence; reference matrices from the documented forms in long double.",
    design="4/C17", technique="explicit-state enumeration of finite input product spaces against a reference model"),
 "C18": dict(
    text="Stateless model checking of the real code: harness bodies (group/tangent functions, manifold models incl. SubManifold and "
         "AnyManifold, Spline/BSpline evaluation, sparse derivatives, independent diff/minimize/fit calls) are compiled with TSan code "
         "generation and linked against our own runtime, so every memory access is a hook; 2-4 controlled threads under a serialising "
         "scheduler; DFS over all schedules within a preemption bound (quick: 2 threads bound 3, 3 and 4 threads bound 2; 2 threads bound 4, 3 threads bound 3, 4 threads bound 2 thorough) with scheduling points at every access to a "
         "conflict-candidate granule and at every static-initialisation guard operation, warm and first-use variants, one forked child per "
         "execution; oracles: results bitwise equal to the sequential run, no conflict pair unordered by happens-before, no deadlock. When no "
         "thread writes memory another thread touches the result holds for every interleaving. A separate free-running real-TSan pass "
         "(8 threads) keeps accesses in uninstrumented library code visible.",
    design="5", technique="preemption-bounded schedule enumeration (CHESS-style DFS) over hooked memory accesses", engine="mc-sched"),
 "C19": dict(
    text="Bounded exhaustive enumeration: 11 group types (Galilei, SE_K_3<2> and a Bundle with a Galilei member for the first-order routines) x every alphabet tangent x block offsets {0,1,Dof,7} x host sizes x host "
         "prefill patterns x 5 sparse routines; the designated block equals the dense routine exactly, every other stored entry is bitwise "
         "untouched, index arrays / nonZeros / compression unchanged (built with AddressSanitizer); published patterns contain every "
         "entry that is non-zero at generic tangents of a long-double reference.",
    design="4/C19", technique="explicit-state enumeration of a finite input product space, differential oracle sparse = dense"),
 "C20": dict(
    text="Bounded exhaustive enumeration: every basis for K = 0..10 on evaluation grids against definitions/recurrences in long double, "
         "lagrange_basis Kronecker property, monomial_derivative(s)/integral, lgr_nodes K = 1..16 exactness on all monomials up to degree "
         "2K-2, integrate_absolute_polynomial on coefficient/interval product spaces incl. degenerate, threshold and large-interval strata, "
         "binary_interval_search on EVERY sorted range of length <= 8 over {0..4} x every query for int/double/float/custom comparator "
         "plus long ranges, against a linear-scan specification.",
    design="4/C20", technique="explicit-state enumeration of finite input spaces against definitional reference models"),
}

PENDING_REASON = "check not built yet in this session (planned in DESIGN.md section 4); will be claimed once its harness runs clean"

def main():
    props = [json.loads(l) for l in open(os.path.join(ROOT, "properties.jsonl"))]
    checks, na = [], []
    for p in props:
        pid = p["id"]
        if pid in CHECKS:
            c = CHECKS[pid]
            checks.append({
                "property_id": pid,
                "quick_cmd": f"bin/check {pid} quick",
                "thorough_cmd": f"bin/check {pid} thorough",
                "evidence_file": f"/verif/evidence/{pid}.json",
                "replay_cmd_template": f"bin/check {pid} --replay {{path}}",
                "engine": c.get("engine", "mc-explore"),
                "level_claimed": {"category": "model_checking", "text": c["text"], "design_ref": "DESIGN.md section " + c["design"]},
                "level_note": c.get("note", COMMON_NOTE),
                "technique": c["technique"],
            })
        else:
            na.append({"property_id": pid, "reason": NA.get(pid, PENDING_REASON)})
    m = {
        "version": 1,
        "setup_cmd": "bin/setup",
        "hooks": {
            "guard": "SMOOTH_VERIF",
            "enable": "no source hooks are needed: harnesses include the headers of /repo directly (make REPO=/repo); "
                      "instrumentation for C18 is compiler-inserted (-fsanitize=thread code generation linked against our own runtime shim)",
            "baseline_off_cmd": "cmake --build /repo/_build && ctest --test-dir /repo/_build -j8 --timeout 900",
            "source_commits": [],
            "add_only": True,
        },
        "engines": [
            {"name": "mc-explore", "path": "mc/mc.cpp", "serves_properties": sorted(k for k in CHECKS if CHECKS[k].get("engine", "mc-explore") == "mc-explore"),
             "kind_free_text": "exhaustive index-space / BFS explorer over the real implementation with long-double reference models"},
            {"name": "mc-sched", "path": "checks/C18/engine.cpp", "serves_properties": sorted(k for k in CHECKS if CHECKS[k].get("engine") == "mc-sched"),
             "kind_free_text": "preemption-bounded schedule explorer: own __tsan_* runtime shim, per-thread arenas, guard interposition, fork per execution"},
        ],
        "checks": checks,
        "notes": "See DESIGN.md. known_findings.jsonl lists genuine defects that are recorded rather than repaired, and the fix: commits.",
        "not_applicable": na,
    }
    json.dump(m, open(os.path.join(ROOT, "MANIFEST.json"), "w"), indent=1)
    print("MANIFEST.json:", len(checks), "checks,", len(na), "not claimed")
NA = {}
if __name__ == "__main__":
    main()
