#!/usr/bin/env python3
import json,sys
pid=sys.argv[1]
for l in open('/verif/properties.jsonl'):
    d=json.loads(l)
    if d['id']==pid: break
import glob, os
wt=os.environ.get("MUT_WT", f"/tmp/mut/{pid}")   # MUT_WT: reuse an already built worktree of another property
prev=[]
for f in sorted(glob.glob(f"/verif/seeded/{pid}_m*/meta.json")):
    try: prev.append(json.load(open(f)).get("summary") or "")
    except Exception: pass
prev_txt = ""
if prev and len(sys.argv) > 2 and sys.argv[2] == "round2":
    prev_txt = "\nEarlier volunteers already produced the following changes for this property. Yours must be DIFFERENT in location and in kind (another function / file / mechanism; not the same idea applied elsewhere):\n" + "\n".join(f"  - {x[:300]}" for x in prev) + "\nAlso avoid these overused ideas: a hidden static/thread_local scratch or cache, a changed Taylor/series threshold, an in-place aliasing slip in operator*=, a hard-coded offset that is only right for one template parameter. Prefer: wrong case split / boundary inclusion, swapped or transposed index that is invisible for symmetric or square data, a sign or factor that only matters for one overload / one scalar type / one storage type (Map vs value, sparse vs dense, static vs dynamic size), an off-by-one in a loop bound or segment bookkeeping, a missing term in a rarely requested optional output, a state field that one mutator forgets to update, a normalisation / canonicalisation dropped on one construction path.\n"
if prev and len(sys.argv) > 2 and sys.argv[2] == "round3":
    prev_txt = "\nEarlier volunteers already produced the following changes for this property. Yours must be DIFFERENT from all of them in location and in kind:\n" + "\n".join(f"  - {x[:260]}" for x in prev) + "\nFirst split the STATEMENT into its separate clauses / operations / types, note which of them the earlier changes touch, and aim your two changes at clauses, functions, overloads, template parameters or scalar / storage types that NONE of the earlier changes touches. Plausible origins: a performance optimisation (skipping work that 'is not needed' for the common case), a generalisation to a new template parameter that subtly changes an old one, a tidy-up that merges two similar code paths that differ in one detail, an early return added for an edge case with the wrong result, an argument-order or row/column-major slip that is invisible on symmetric / square / identity data, a convenience overload that forwards to the main one with slightly different arguments. Avoid: hidden static/thread_local caches, changed series thresholds, dropped normalisation in a constructor.\n"
print(f"""You are helping to evaluate a verification effort by playing the role of a developer who accidentally breaks a library.

Work ONLY inside the git worktree {wt} (a checkout of the header-only C++20 Lie-group library pettni/smooth). Do NOT read, list or touch /verif or /repo or any other directory outside {wt} (except system headers and /usr/include/eigen3 for reference).

The library is supposed to satisfy this semantic property:

  TITLE: {d['title']}
  STATEMENT: {d['statement']}
  CODE ANCHORS (where the behaviour lives): {json.dumps(d['anchors'].get('files'))}
  MECHANISMS: {json.dumps(d['anchors'].get('mechanism'))}

{prev_txt}
YOUR TASK: produce TWO different, realistic changes to the library (files under {wt}/include/ only) each of which BREAKS this property while
 (1) the library and the whole existing test suite still compile,
 (2) the WHOLE existing test suite still passes (all ctest entries),
 (3) the breakage needs something specific to manifest — an unusual input (boundary value, a thin numerical region, a particular type combination or template parameter), a particular multi-step sequence of operations, a particular thread interleaving, or two cooperating sites that each look fine alone — and is NOT something ordinary use or the existing tests expose at once.
Think of plausible regressions a maintainer could introduce: a refactoring slip, an off-by-one, a wrong threshold or Taylor coefficient in a rarely taken branch, a sign error that only matters for some inputs, a swapped index that is invisible for symmetric data, a cached/static/mutable scratch variable, an offset error in one overload, a missing normalisation ... Make the two mutants different in kind and location. Keep each patch small (1-15 lines).

For each mutant i in {{1,2}} write into {wt}/OUT/m<i>/ :
  - patch.diff : `git diff` of the change against the worktree HEAD (apply-able with `git apply`),
  - demo.cpp   : a small standalone program (only needs -I{wt}/include -I{wt}/_b/include -isystem /usr/include/eigen3, C++20) that prints what it observes and exits 0 when the property holds for its input and non-zero when it is violated; it must FAIL with the change and PASS without it (verify both!),
  - meta.json  : {{"property": "{pid}", "summary": "...", "needs_to_manifest": "...", "files_changed": [...], "tests_run": "ctest result line", "demo_build_cmd": "..."}}.

HOW TO BUILD AND TEST (no network; use at most 4 parallel jobs, the machine is shared):
  cmake -S {wt} -B {wt}/_b -G Ninja -DBUILD_TESTS=ON -DCMAKE_BUILD_TYPE=RelWithDebInfo -DCMAKE_CXX_FLAGS=-Wno-error
  cmake --build {wt}/_b -j4          (first full build takes 10-20 min; afterwards only affected tests rebuild)
  ctest --test-dir {wt}/_b -j4 --timeout 900
  demo: g++ -std=c++20 -O2 -I{wt}/include -I{wt}/_b/include -isystem /usr/include/eigen3 demo.cpp -o demo
Build the baseline once first (it must pass), then apply mutant 1, rebuild, run ALL tests, save outputs, `git checkout -- include` to revert, then mutant 2. Leave the worktree with NO mutant applied at the end (git status clean apart from OUT/ and _b/). If a candidate change makes an existing test fail, discard it and find another one.

Final answer (<= 25 lines): for each mutant the one-line summary, what it needs to manifest, the ctest summary line with the mutant applied, and demo exit codes with/without the change.""")
