#!/usr/bin/env python3
"""tools/keep_mutant.py <worktree> <m> <name> <check> [<check>...]
Confirms an agent's mutant (suite passes with it, demo fails with / passes without), runs the given checks against a scratch copy
of /repo with the patch applied, stores everything under seeded/<name>/ and rewrites seeded/INDEX.md."""
import json, os, re, shutil, subprocess, sys
wt, m, name, checks = sys.argv[1], sys.argv[2], sys.argv[3], sys.argv[4:]
ROOT = "/verif"
src = f"{wt}/OUT/{m}"
dst = f"{ROOT}/seeded/{name}"
os.makedirs(dst, exist_ok=True)
for f in ("patch.diff", "demo.cpp"):
    shutil.copy(f"{src}/{f}", f"{dst}/{f}")
try:
    agent_meta = json.load(open(f"{src}/meta.json"))
except Exception as e:
    agent_meta = {"error": str(e)}
if os.environ.get("CONFIRM_FILE"):   # confirmation already run (tools/confirm_mutant.sh <wt> <m> > file), e.g. in parallel with others
    conf = open(os.environ["CONFIRM_FILE"]).read().strip().splitlines()
else:
    conf = subprocess.run([f"{ROOT}/tools/confirm_mutant.sh", wt, m], capture_output=True, text=True).stdout.strip().splitlines()
conf = conf[-1] if conf else "no output"
mm = re.search(r"suite='([^']*)' demo_with_change_exit=(\d+) demo_without_change_exit=(\d+)", conf)
confirmed = bool(mm and "100% tests passed" in mm.group(1) and mm.group(2) != "0" and mm.group(3) == "0")
if os.environ.get("SEEDED_FILE"):    # checks already run (tools/run_seeded.sh <patch> <ID>... > file)
    res = open(os.environ["SEEDED_FILE"]).read()
else:
    res = subprocess.run([f"{ROOT}/tools/run_seeded.sh", f"{dst}/patch.diff"] + checks, capture_output=True, text=True).stdout
results = []
for line in res.splitlines():
    r = re.match(r"SEEDED \S+ check=(\S+) rc=(\d+) violation_lines=(\d+) :: ?(.*)", line)
    if r:
        results.append({"check": r.group(1), "exit": int(r.group(2)), "violation_lines": int(r.group(3)), "first_violation": r.group(4).strip()})
meta = {
    "property": agent_meta.get("property", name.split("_")[0]),
    "summary": agent_meta.get("summary"),
    "needs_to_manifest": agent_meta.get("needs_to_manifest"),
    "files_changed": agent_meta.get("files_changed"),
    "origin": "independent sub-agent given only the property text and its own git worktree of /repo",
    "confirmed_by_us": {"command": f"tools/confirm_mutant.sh {wt} {m}", "result": conf, "ok": confirmed},
    "checks_run": [f"SMOOTH_REPO=<scratch copy of /repo with patch.diff applied> bin/check {c} quick" for c in checks],
    "results": results,
    "caught_by": [r["check"] for r in results if r["exit"] == 1 and r["violation_lines"] > 0],
    "note": os.environ.get("NOTE", ""),
}
json.dump(meta, open(f"{dst}/meta.json", "w"), indent=1)
print(json.dumps({k: meta[k] for k in ("property", "summary", "caught_by")}, indent=1))
print("confirmed:", confirmed, "|", conf)
for r in results: print(r)
# index
rows = []
for d in sorted(os.listdir(f"{ROOT}/seeded")):
    p = f"{ROOT}/seeded/{d}/meta.json"
    if os.path.exists(p):
        x = json.load(open(p))
        rows.append(f"| {d} | {x.get('property')} | {(x.get('summary') or '').replace('|','/')[:160]} | {(x.get('needs_to_manifest') or '').replace('|','/')[:160]} | {'yes' if x['confirmed_by_us']['ok'] else 'NO'} | {', '.join(x['caught_by']) or '**missed**'} | {x.get('note','')} |")
open(f"{ROOT}/seeded/INDEX.md", "w").write(
    "# Seeded property-breaking changes\n\nProduced by independent sub-agents (property text + own worktree only). Each compiles, passes the whole upstream suite "
    "(391/391) and makes its demonstration program fail; confirmed by `tools/confirm_mutant.sh`. `caught by` lists the checks (quick tier, run against a scratch copy "
    "with the patch applied via `tools/run_seeded.sh`) that exit 1 with a VIOLATION line.\n\n"
    "| id | property | change | needs | confirmed | caught by | note |\n|---|---|---|---|---|---|---|\n" + "\n".join(rows) + "\n")
