#!/bin/bash
# tools/run_seeded.sh <patch.diff> <ID> [<ID>...] : runs the given checks (quick tier) against a scratch copy of /repo with the patch applied
P="$1"; shift
S=/var/tmp/seeded_run_$$
rm -rf $S; mkdir -p $S; cp -r /repo/include /repo/config /repo/CMakeLists.txt $S/
( cd $S && git init -q . 2>/dev/null; git apply --unsafe-paths --directory=$S "$P" 2>/dev/null || patch -s -p1 -d $S < "$P" ) || { echo "cannot apply $P"; rm -rf $S; exit 2; }
cd /verif
for id in "$@"; do
  SMOOTH_REPO=$S bin/check $id quick > $S/$id.log 2>&1; rc=$?
  nv=$(grep -c '^VIOLATION' $S/$id.log)
  first=$(grep -m1 '^  #' $S/$id.log | cut -c1-260)
  echo "SEEDED $(basename $(dirname $P)) check=$id rc=$rc violation_lines=$nv :: $first"
  rm -rf /verif/replay/$id
done
rm -rf $S
