#!/bin/bash
# tools/run_seeded.sh <patch.diff> <ID> [<ID>...] : runs the given checks (quick tier) against a scratch copy of /repo with the patch
# applied. Uses its own build tree and its own evidence/replay root, so nothing of the real tree's outputs is touched; the scratch
# copy keeps file times, so only harnesses that depend on the patched headers are rebuilt.
P="$1"; shift
S=/var/tmp/seeded_repo; BLD=/var/tmp/seeded_build; RT=/var/tmp/seeded_root
mkdir -p $S $BLD $RT
rsync -a --delete /repo/include /repo/config /repo/CMakeLists.txt $S/
[ -f $S/.patched ] && (cd $S && xargs -r touch < .patched)      # files restored from an earlier mutant must look modified
( cd $S && git apply --unsafe-paths --numstat "$P" 2>/dev/null | awk '{print $3}' > .patched; git apply --unsafe-paths "$P" 2>/dev/null || patch -s -p1 < "$P" ) || { echo "cannot apply $P"; exit 2; }
cp /verif/known_findings.jsonl $RT/; rm -rf $RT/replay $RT/evidence
cd /verif
for id in "$@"; do
  VERIF_ROOT=$RT VERIF_BUILD=$BLD SMOOTH_REPO=$S bin/check $id quick > $RT/$id.log 2>&1; rc=$?
  nv=$(grep -c '^VIOLATION' $RT/$id.log)
  first=$(grep -m1 '^  #' $RT/$id.log | cut -c1-260)
  echo "SEEDED $(basename $(dirname $P)) check=$id rc=$rc violation_lines=$nv :: $first"
done
# restore the scratch copy (and mark the restored files as changed for the next run)
rsync -a --delete /repo/include /repo/config /repo/CMakeLists.txt $S/ --exclude .patched
(cd $S && [ -f .patched ] && xargs -r touch < .patched)
