#!/usr/bin/env python3
import json,sys
e=json.load(open(sys.argv[1]))
c=e['coverage']
print(e['property_id'],e['tier'],'states',c['states'],'trans',c['transitions'],'viol',e.get('violations'),'wall',e['wall_s'],'exh',c.get('exhaustive'))
for sp in c['spaces']:
    ch=sp.get('checks',{})
    flag = any(v['violations'] or v['known'] for v in ch.values())
    if len(sys.argv)>2 and sys.argv[2]=='-v' or flag:
        print(' ',sp['label'],sp['size'],sp.get('outcome_classes',''))
        for k,v in ch.items():
            print('     %-34s n=%-8d worst=%-10.3g tol=%-8.3g viol=%d known=%d %s'%(k,v['n'],v['worst'] if not isinstance(v['worst'],str) else float(v['worst']),v['tol'],v['violations'],v['known'], v['worst_case'][:150] if (v['violations'] or v['known']) else ''))
