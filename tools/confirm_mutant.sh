#!/bin/bash
# tools/confirm_mutant.sh <worktree> <mutant-dir-name> : independently confirms an agent's mutant in its worktree:
# applies the patch, rebuilds the upstream tests, runs the whole suite, builds+runs the demo with and without the change.
WT="$1"; M="$2"; OUT="$WT/OUT/$M"
cd "$WT" || exit 2
git checkout -q -- include
git apply "$OUT/patch.diff" || { echo "PATCH-DOES-NOT-APPLY"; exit 2; }
cmake --build _b -j8 > "$OUT/confirm_build.log" 2>&1 || { echo "BUILD-FAILS-WITH-MUTANT"; git checkout -q -- include; exit 1; }
ctest --test-dir _b -j8 --timeout 900 > "$OUT/confirm_ctest.log" 2>&1
T=$(grep -E "tests passed|tests failed" "$OUT/confirm_ctest.log" | tail -1)
g++ -std=c++20 -O2 -pthread -I"$WT/include" -I"$WT/_b/include" -isystem /usr/include/eigen3 "$OUT/demo.cpp" -o "$OUT/demo_mut" 2> "$OUT/confirm_demo_build.log"; "$OUT/demo_mut" > "$OUT/confirm_demo_mut.txt" 2>&1; RM=$?
git checkout -q -- include
g++ -std=c++20 -O2 -pthread -I"$WT/include" -I"$WT/_b/include" -isystem /usr/include/eigen3 "$OUT/demo.cpp" -o "$OUT/demo_base" 2>> "$OUT/confirm_demo_build.log"; "$OUT/demo_base" > "$OUT/confirm_demo_base.txt" 2>&1; RB=$?
rm -f "$OUT/demo_mut" "$OUT/demo_base"
echo "CONFIRM $WT $M : suite='$T' demo_with_change_exit=$RM demo_without_change_exit=$RB"
